#!/bin/sh
# Build the Lean project (theorems, models, native driver) offline; smoke-test the driver.
set -e
cd "$(dirname "$0")/lean"
lake build PycsepVerif driver PycsepVerifSrc
printf 'fl64 1/10\n' | .lake/build/bin/driver | grep -q '^3602879701896397/36028797018963968$'
echo "setup ok"
