import PycsepVerif.Proto
import PycsepVerif.Soft64
import PycsepVerif.Drive.Soft
import PycsepVerif.RealOps
import PycsepVerif.Proofs.RealInst
import PycsepVerif.Proofs.Soft64
import PycsepVerif.Model.Ecdf
import PycsepVerif.Proofs.Ecdf
import PycsepVerif.Properties.C09
import PycsepVerif.Drive.C09
import PycsepVerif.Generated
import PycsepVerif.Properties.C02_Tables
import PycsepVerif.Properties.C04_Tables
import PycsepVerif.Properties.C14_Tables
import PycsepVerif.Properties.C18_Tables
import PycsepVerif.Properties.C19_Tables
-- REGISTER-LIB (imports of new Model/Proofs/Properties/Drive modules above this line)
