import PycsepVerif.Soft64
import PycsepVerif.Model.Ecdf
import PycsepVerif.Proofs.Ecdf
import PycsepVerif.Properties.C09
