import PycsepVerif.Proto
import PycsepVerif.Soft64
import PycsepVerif.Drive.Soft
import PycsepVerif.RealOps
import PycsepVerif.Proofs.RealInst
import PycsepVerif.Proofs.Soft64
import PycsepVerif.Model.Ecdf
import PycsepVerif.Proofs.Ecdf
import PycsepVerif.Properties.C09
import PycsepVerif.Drive.C09
-- REGISTER-LIB (imports of new Model/Proofs/Properties/Drive modules above this line)
