import PycsepVerif.Proto
import PycsepVerif.Soft64
import PycsepVerif.Model.Ecdf

open Proto

/-- one request line → one response line. Unknown or malformed requests give `bad-op`. -/
def handle (toks : List String) : String :=
  match toks with
  -- Soft64 validation ops
  | ["fl64", x] => match parseRat? x with
      | some r => showRat (Soft64.fl64 r) | none => "bad-op"
  | ["fadd", a, b] => match parseRat? a, parseRat? b with
      | some a, some b => showRat (Soft64.fadd a b) | _, _ => "bad-op"
  | ["fsub", a, b] => match parseRat? a, parseRat? b with
      | some a, some b => showRat (Soft64.fsub a b) | _, _ => "bad-op"
  | ["fmul", a, b] => match parseRat? a, parseRat? b with
      | some a, some b => showRat (Soft64.fmul a b) | _, _ => "bad-op"
  | ["fdiv", a, b] => match parseRat? a, parseRat? b with
      | some a, some b => if b = 0 then "bad-op" else showRat (Soft64.fdiv a b) | _, _ => "bad-op"
  | ["fl32", x] => match parseRat? x with
      | some r => showRat (Soft64.fl32 r) | none => "bad-op"
  -- C09
  | ["ge_ecdf", xs, v] => match parseList? parseRat? xs, parseRat? v with
      | some xs, some v => showOpt showPair (Ecdf.geEcdf xs v) | _, _ => "bad-op"
  | ["le_ecdf", xs, v] => match parseList? parseRat? xs, parseRat? v with
      | some xs, some v => showOpt showPair (Ecdf.leEcdf xs v) | _, _ => "bad-op"
  | ["binned_ecdf", xs, vs] => match parseList? parseRat? xs, parseList? parseRat? vs with
      | some xs, some vs => showOpt (showList showPair) (Ecdf.binnedEcdf xs vs) | _, _ => "bad-op"
  | _ => "bad-op"

partial def loop (hin : IO.FS.Stream) (hout : IO.FS.Stream) : IO Unit := do
  let line ← hin.getLine
  if line.isEmpty then return ()
  let l := line.trimAscii.toString
  hout.putStrLn (handle (l.splitOn " "))
  loop hin hout

def main : IO Unit := do
  let hin ← IO.getStdin
  let hout ← IO.getStdout
  loop hin hout
