import PycsepVerif.Drive.Soft
import PycsepVerif.Drive.C09
import PycsepVerif.Drive.C04
import PycsepVerif.Drive.C11
import PycsepVerif.Drive.C06
import PycsepVerif.Drive.C13
import PycsepVerif.Drive.C07
import PycsepVerif.Drive.C08
import PycsepVerif.Drive.C15
import PycsepVerif.Drive.C14
import PycsepVerif.Drive.C05
import PycsepVerif.Drive.C16
import PycsepVerif.Drive.C12
import PycsepVerif.Drive.C19
import PycsepVerif.Drive.C01
import PycsepVerif.Drive.C03
import PycsepVerif.Drive.C02
import PycsepVerif.Drive.C10
import PycsepVerif.Drive.C20
import PycsepVerif.Drive.C17
import PycsepVerif.Drive.C18
import PycsepVerif.Drive.Src
import PycsepVerif.Drive.C18b
import PycsepVerif.Drive.Text
import PycsepVerif.Drive.SrcSM
import PycsepVerif.Drive.C15b
import PycsepVerif.Drive.C18c
import PycsepVerif.Drive.C03b
import PycsepVerif.Drive.C17b
import PycsepVerif.Drive.C14Text
-- REGISTER-IMPORT (one `import PycsepVerif.Drive.Cxx` line per property, above this line)

/-- the per-property handlers, tried in order; each returns `none` for ops it does not know -/
def handlers : List (List String → Option String) := [
  Drive.Soft.handle,
  Drive.C09.handle
  , Drive.C04.handle
  , Drive.C11.handle
  , Drive.C06.handle
  , Drive.C13.handle
  , Drive.C07.handle
  , Drive.C08.handle
  , Drive.C15.handle
  , Drive.C14.handle
  , Drive.C05.handle
  , Drive.C16.handle
  , Drive.C12.handle
  , Drive.C19.handle
  , Drive.C01.handle
  , Drive.C03.handle
  , Drive.C02.handle
  , Drive.C10.handle
  , Drive.C20.handle
  , Drive.C17.handle
  , Drive.C18.handle
  , Drive.Src.handle
  , Drive.C18b.handle
  , Drive.Text.handle
  , Drive.SrcSM.handle
  , Drive.C15b.handle
  , Drive.C18c.handle
  , Drive.C03b.handle
  , Drive.C17b.handle
  , Drive.C14Text.handle
  -- REGISTER-HANDLER (`, Drive.Cxx.handle` lines above this line)
]

/-- one request line → one response line. Unknown or malformed requests give `bad-op`. -/
def handle (toks : List String) : String :=
  match handlers.findSome? (fun h => h toks) with
  | some s => s
  | none => "bad-op"

partial def loop (hin : IO.FS.Stream) (hout : IO.FS.Stream) : IO Unit := do
  let line ← hin.getLine
  if line.isEmpty then return ()
  let l := line.trimAscii.toString
  hout.putStrLn (handle (l.splitOn " "))
  loop hin hout

def main : IO Unit := do
  let hin ← IO.getStdin
  let hout ← IO.getStdout
  loop hin hout
