import PycsepVerif.Source.C02
import PycsepVerif.Source.C05
import PycsepVerif.Source.C07
import PycsepVerif.Source.C08
import PycsepVerif.Source.C15
import PycsepVerif.Source.C16
import PycsepVerif.SourceSM.C06
import PycsepVerif.SourceSM.C12
import PycsepVerif.SourceSM.C04
import PycsepVerif.SourceSM.C17
import PycsepVerif.SourceSM.C01
import PycsepVerif.Source.C01
import PycsepVerif.Source.C09
import PycsepVerif.Source.C10
import PycsepVerif.Source.C17
import PycsepVerif.SourceSM.C04F
import PycsepVerif.SourceSM.C03
-- REGISTER-SRC (one `import PycsepVerif.Source.Cxx` line per property with a source tie, above this line)
