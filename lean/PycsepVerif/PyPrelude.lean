import PycsepVerif.Soft64
import PycsepVerif.RealOps
import PycsepVerif.Model.Time
import PycsepVerif.Model.TimeExt
import PycsepVerif.Model.Strptime
import PycsepVerif.Model.JsonRecords
import PycsepVerif.Model.FloatText
import PycsepVerif.Model.ReaderText
import PycsepVerif.Model.PairedRanks
import PycsepVerif.Model.FloatSum
/-
  PyPrelude — the meaning of every numpy / stdlib operation the source translator (harness/py2lean.py) accepts,
  at each type it accepts it. PART OF THE TRUSTED BASE: `GeneratedSrc.lean` is a composition of these operations in
  the order the Python source applies them, so "the generated definition means what the Python function does" rests
  on (1) py2lean.py choosing the right operation for the inferred types and (2) each definition below being what
  numpy / CPython compute. Both are validated on every run by harness/src_tie.py (the real Python function and the
  generated definition are run on the same generated inputs: bit-exact for float64 code, 1e-12 for the real layer).

  Conventions:
    float64 value            = the `Rat` it denotes (finite only; NaN / inf / signed zero are not modelled)
    Python int / numpy int64 = `Int` (no wrap-around), counts = `Nat`
    real layer               = a type `α` with `[RealOps α]`; `ELL α` = −∞ or finite (value of `numpy.log`)
    datetime (UTC or naive)  = microseconds since 1970-01-01T00:00:00 of the proleptic Gregorian calendar + tz tag
    timedelta                = microseconds
  Imports only Soft64, RealOps and Model/Time (for CPython's `fromtimestamp`, civil calendar and `calendar` module,
  which are models of the standard library, not of pyCSEP). No Mathlib: the native driver links this file.
-/
namespace Py
open Soft64

/-- the exception classes the translated functions raise -/
inductive Err where
  | valueError | indexError | assertionError | other
  deriving DecidableEq, Repr

/-! ## lists / arrays -/

/-- `a.size`, `len(a)`, `a.shape[0]` of a 1-D array -/
abbrev size {β : Type} (l : List β) : Int := (l.length : Int)

/-- `a[i]` with Python's negative indices on a float64 array. An index outside the array (IndexError in Python) is
    not modelled: the value is 0, as in the hand models (`List.getD · 0`). -/
def getF (l : List Rat) (i : Int) : Rat :=
  if 0 ≤ i then l.getD i.toNat 0 else if 0 ≤ (l.length : Int) + i then l.getD ((l.length : Int) + i).toNat 0 else 0

/-- `a[i]` on an array of the real layer / of anything with a default -/
def getA {β : Type} [Inhabited β] (l : List β) (i : Int) : β :=
  if 0 ≤ i then l.getD i.toNat default else if 0 ≤ (l.length : Int) + i then l.getD ((l.length : Int) + i).toNat default
  else default

/-- `range(a, b)` -/
def range (a b : Int) : List Int := (List.range (b - a).toNat).map (fun (k : Nat) => a + (k : Int))

/-- builtin `sum` of ints -/
def sumInt (l : List Int) : Int := l.foldl (· + ·) 0

/-- `numpy.nonzero(a)[0]` of a 1-D count array: the indices of the non-zero entries, ascending -/
def nonzeroIdxFrom (k : Nat) : List Nat → List Nat
  | [] => []
  | x :: xs => if x ≠ 0 then k :: nonzeroIdxFrom (k + 1) xs else nonzeroIdxFrom (k + 1) xs
def nonzeroIdx (l : List Nat) : List Nat := nonzeroIdxFrom 0 l
/-- `a[idx]` for an index array (fancy indexing); an index outside the array (IndexError in Python) is dropped -/
def gather {β : Type} (l : List β) (idx : List Nat) : List β := idx.filterMap (fun i => l[i]?)

/-- `numpy.unique(a)` of an integer array: the distinct values, ascending (insertion into an ascending duplicate-free list) -/
def insertUniq (a : Nat) : List Nat → List Nat
  | [] => [a]
  | b :: l => if a < b then a :: b :: l else if a = b then b :: l else b :: insertUniq a l
def np_unique (l : List Nat) : List Nat := l.foldr insertUniq []

/-- `a[rows, cols]` for a 2-D float64 array (list of rows) and two integer index arrays of one size: the elements
    `a[rows[k], cols[k]]` (negative indices as in Python; IndexError not modelled) -/
def get2 (a : List (List Rat)) (rows cols : List Int) : List Rat :=
  List.zipWith (fun r c => getF (getA a r) c) rows cols

/-- `numpy.where(cond)[0]` of a flat boolean array: the positions of the True entries, ascending -/
def whereIdxFrom (k : Nat) : List Bool → List Nat
  | [] => []
  | b :: bs => if b then k :: whereIdxFrom (k + 1) bs else whereIdxFrom (k + 1) bs
def whereIdx (c : List Bool) : List Nat := whereIdxFrom 0 c

/-- `numpy.max(a)` / `numpy.min(a)` of a flat float64 array: a fold from the first element (`ValueError` of an empty array
    is not modelled: the value is 0) -/
def np_max : List Rat → Rat
  | [] => 0
  | a :: l => l.foldl (fun m b => if m < b then b else m) a
def np_min : List Rat → Rat
  | [] => 0
  | a :: l => l.foldl (fun m b => if b < m then b else m) a

/-! ## exact layer: float64 arrays whose arithmetic is read without rounding (TARGETS type `q`; a 2-D array is the list of
    its rows). The order of a sum is irrelevant there. -/
/-- `numpy.sum(a)` of a flat array -/
def qsum (l : List Rat) : Rat := l.sum
/-- element-wise sum of two rows -/
def addRows : List Rat → List Rat → List Rat
  | a :: l, b :: r => (a + b) :: addRows l r
  | _, _ => []
/-- `numpy.sum(a, axis=0)` of a 2-D array with at least one row: the column sums (for an array of shape (0, M), where numpy
    gives M zeros, the list of rows does not know M: the value is `[]`) -/
def qsumAxis0 (rows : List (List Rat)) : List Rat := rows.foldr addRows (List.replicate (rows.headD []).length 0)

/-- `numpy.any(a)` of a boolean array -/
def np_any (a : List Bool) : Bool := a.any (fun b => b)

/-- array-level call `f(a, …)` of a function translated for ONE element of `a` (elementwise specialisation) whose `raise`
    statements do not depend on the element (checked by the translator: no `raise` under an element-dependent condition).
    The call raises iff the function raises — probed with the default element, so an empty array raises as well, as in
    Python, where the check is made once for the whole array — and otherwise returns the results per element. -/
def mapUniform {β γ : Type} [Inhabited β] [Inhabited γ] (f : β → Except Err γ) (a : List β) : Except Err (List γ) :=
  match f default with
  | .error e => .error e
  | .ok _ => .ok (a.map (fun x => match f x with | .ok v => v | .error _ => default))

/-- `a[mask]` for a boolean array `mask` of the size of `a`: the elements at the True positions, in order -/
def compress {β : Type} (mask : List Bool) (a : List β) : List β :=
  (List.zip mask a).filterMap (fun p => if p.1 then some p.2 else none)

/-- `numpy.sort(numpy.unique(x, return_index=True[, axis=0])[1])`: numpy.unique returns, for every distinct value (row), the index
    of its FIRST occurrence; sorted ascending these are the positions where a value appears for the first time -/
def firstIdxFrom {β : Type} [DecidableEq β] (k : Nat) (seen : List β) : List β → List Nat
  | [] => []
  | a :: l => if a ∈ seen then firstIdxFrom (k + 1) seen l else k :: firstIdxFrom (k + 1) (a :: seen) l
def firstIdx {β : Type} [DecidableEq β] (x : List β) : List Nat := firstIdxFrom 0 [] x

/-! ## sorted arrays -/

/-- `numpy.sort(a)` of a 1-D array: the ascending rearrangement of `a` (a stable merge sort by `≤`; on a total order the
    result is THE sorted permutation, `Src.np_sort_perm` / `Src.np_sort_sorted` in Source/C09.lean). NaN is outside the model. -/
def np_sort {β : Type} [LE β] [DecidableLE β] (a : List β) : List β := a.mergeSort (fun x y => decide (x ≤ y))

/-- `numpy.searchsorted(a, v)` (`side='left'`): the number of leading elements `< v`. For an ascending `a` this is the
    smallest `i` with `v ≤ a[i]` (`len(a)` if none), which is what numpy's binary search returns
    (`Src.searchsorted_left_spec`); on an array that is not ascending numpy's result is unspecified and not modelled. -/
def searchsorted_left {β : Type} [LT β] [DecidableLT β] (a : List β) (v : β) : Int :=
  ((a.takeWhile (fun x => decide (x < v))).length : Int)

/-- `numpy.searchsorted(a, v, side='right')`: the number of leading elements `≤ v` (ascending `a`: the smallest `i` with
    `v < a[i]`) -/
def searchsorted_right {β : Type} [LE β] [DecidableLE β] (a : List β) (v : β) : Int :=
  ((a.takeWhile (fun x => decide (x ≤ v))).length : Int)

/-! ## int ↔ float64 -/

/-- conversion of a Python int / int64 to float64 (round to nearest even; exact below 2^53) -/
def i2f (n : Int) : Rat := fl64 (n : Rat)

/-- `x.astype(numpy.int64)` / `int(x)` on a finite float64: truncation toward zero -/
def truncF (x : Rat) : Int := if 0 ≤ x then x.floor else -((-x).floor)

/-- `a / b` of two Python ints: the correctly rounded quotient -/
def intTrueDiv (a b : Int) : Rat := fdiv (a : Rat) (b : Rat)

/-- `a // b`, `a % b` of two Python ints (floor division) -/
def floorDiv (a b : Int) : Int := Int.fdiv a b
def pyMod (a b : Int) : Int := Int.fmod a b

/-- `a ** n` for ints, n ≥ 0 -/
def ipow (a n : Int) : Int := a ^ n.toNat

/-! ## float64 ufuncs (one element) -/

def np_floor (x : Rat) : Rat := ffloor x
def np_abs (x : Rat) : Rat := fabs x
/-- `numpy.finfo(numpy.float64).eps` -/
def finfo_eps64 : Rat := eps64
/-- `numpy.maximum` / `numpy.minimum` / builtin `max`, `min` on finite floats -/
def fmax (a b : Rat) : Rat := if a < b then b else a
def fmin (a b : Rat) : Rat := if b < a then b else a
/-- `numpy.clip(x, lo, hi)` = `minimum(maximum(x, lo), hi)` -/
def np_clip (x lo hi : Rat) : Rat := fmin (fmax x lo) hi
/-- `numpy.nan_to_num` on a finite float64: identity (NaN / inf are outside the model) -/
def np_nan_to_num (x : Rat) : Rat := x
/-- `numpy.where(c, a, b)` for one element -/
def np_where {β : Type} (c : Bool) (a b : β) : β := if c then a else b
/-- `numpy.round(x)` (0 decimals): half to even -/
def np_round (x : Rat) : Rat := fround x

/-- `numpy.arange(start, stop, step)` on float64: length `ceil((stop-start)/step)` computed in floats, first two elements
    `start`, `start+step`, then `start + i*delta` with `delta = (start+step) - start` (numpy `DOUBLE_fill`). -/
def np_arange (start stop step : Rat) : List Rat :=
  let len := (- (-(fdiv (fsub stop start) step)).floor).toNat
  let second := fadd start step
  let delta := fsub second start
  (List.range len).map (fun (i : Nat) =>
    if i = 0 then start else if i = 1 then second else fadd start (fmul ((i : Nat) : Rat) delta))

/-! ## datetime -/

inductive Tz where
  | naive | utc | other
  deriving DecidableEq, Repr

structure Datetime where
  us : Int
  tz : Tz
  deriving DecidableEq, Repr

/-- `dt.tzinfo is None` -/
def Datetime.tzIsNone (d : Datetime) : Bool := d.tz == .naive
/-- `str(dt.tzinfo) == 'UTC'` (the datetime is known to carry a tzinfo here) -/
def Datetime.tzStrIsUTC (d : Datetime) : Bool := d.tz == .utc
/-- `dt.replace(tzinfo=datetime.timezone.utc)` -/
def Datetime.replaceUtc (d : Datetime) : Datetime := { d with tz := .utc }
/-- `datetime.datetime(y, m, d, H, M, S, us)` (naive) -/
def mkDatetime (y m d H M S us : Int) : Datetime :=
  { us := Time.ofFields { year := y, month := m, day := d, hour := H, minute := M, second := S, micro := us }, tz := .naive }
/-- `datetime.datetime(y, m, d, H, M, S, us)` with CPython's argument check: ValueError outside year 1..9999, the calendar and
    the clock ranges (`Time.validFields`) -/
def mkDatetimeChecked (y m d H M S us : Int) : Except Err Datetime :=
  if Time.validFields { year := y, month := m, day := d, hour := H, minute := M, second := S, micro := us }
  then .ok (mkDatetime y m d H M S us) else .error .valueError
/-- `a - b` of two aware datetimes: a timedelta (microseconds) -/
def Datetime.sub (a b : Datetime) : Int := a.us - b.us
/-! ## strings (a string value is the list of its characters) -/

/-- `s[k]` for a literal index `k` (negative: from the end); `none` outside the string (Python: IndexError, not modelled —
    the only use translated is a comparison with a character, which is then False) -/
def strAt? (s : List Char) (k : Int) : Option Char :=
  if 0 ≤ k then s[k.toNat]? else if 0 ≤ (s.length : Int) + k then s[((s.length : Int) + k).toNat]? else none

/-- the text of the format strings `datetime.strptime` is modelled for: `%Y-%m-%d<sep>%H:%M:%S[.%f][%z]` -/
def fmtText (f : Time.Format) : List Char :=
  ['%', 'Y', '-', '%', 'm', '-', '%', 'd', f.sep, '%', 'H', ':', '%', 'M', ':', '%', 'S'] ++
    (if f.frac then ['.', '%', 'f'] else []) ++ (if f.zone then ['%', 'z'] else [])

def knownFormats : List Time.Format :=
  [⟨' ', false, false⟩, ⟨' ', true, false⟩, ⟨' ', false, true⟩, ⟨' ', true, true⟩,
   ⟨'T', false, false⟩, ⟨'T', true, false⟩, ⟨'T', false, true⟩, ⟨'T', true, true⟩]

/-- `datetime.datetime.strptime(s, fmt).replace(tzinfo=datetime.timezone.utc)` for the formats above, with CPython's
    strptime as modelled by `Time.strptimeFields` (canonical field widths; ValueError otherwise). A format outside the
    list is not modelled (`Err.other`). A parsed `%z` offset is discarded by `.replace`. -/
def strptimeUtc (s fmt : List Char) : Except Err Datetime :=
  match knownFormats.find? (fun f => fmtText f == fmt) with
  | none =>
    -- any other format: CPython's `_strptime` at character level as modelled by the C15 owner (`Time.strptimeStr`: the
    -- directives' regular expressions with their alternatives in order, backtracking, then `datetime(...)`'s checks)
    match Time.strptimeStr fmt s with
    | some f => .ok { us := Time.ofFields f, tz := .utc }
    | none => .error .valueError
  | some f => match Time.strptimeWith f s with
    | some us => .ok { us := us, tz := .utc }
    | none => .error .valueError

/-- `try: x = a / except (E1, E2): …; raise E`: the exceptions of the named classes become `E`, every other one passes -/
def reraise {β : Type} (a : Except Err β) (frm : List Err) (to : Err) : Except Err β :=
  match a with
  | .ok v => .ok v
  | .error e => if frm.contains e then .error to else .error e

/-- `x % 1` of a finite float64: exact -/
def fmod1 (x : Rat) : Rat := x - ((x.floor : Int) : Rat)
/-- `calendar.isleap(y)` for an integer-valued float `y` -/
def isleapF (y : Rat) : Bool := Time.isLeap y.floor
/-- `datetime.timedelta(seconds=t)` for a float `t`, in microseconds (CPython: Model/TimeExt.lean `timedeltaSeconds`) -/
def timedeltaOfSecondsF (t : Rat) : Int := Time.timedeltaSeconds t
/-- `datetime.timedelta(microseconds=t)` for a float `t`: rounded half to even -/
def timedeltaOfMicrosecondsF (t : Rat) : Int := Soft64.roundHalfEven t
/-- `dt + td` -/
def Datetime.addTd (d : Datetime) (td : Int) : Datetime := { d with us := d.us + td }
/-- normalised timedelta fields: `days`, `seconds` (0 ≤ · < 86400), `microseconds` (0 ≤ · < 10^6) -/
def tdDays (td : Int) : Int := td / 86400000000
def tdSeconds (td : Int) : Int := td % 86400000000 / 1000000
def tdMicroseconds (td : Int) : Int := td % 86400000000 % 1000000
/-- `td.total_seconds()`: `(days*86400 + seconds)*10**6 + microseconds) / 10**6`, a correctly rounded int / int -/
def tdTotalSeconds (td : Int) : Rat := fdiv (td : Rat) 1000000
/-- `datetime.datetime.fromtimestamp(t, datetime.timezone.utc)` for a float `t` (CPython: Model/Time.lean) -/
def fromtimestampUtc (t : Rat) : Datetime := { us := Time.fromTimestamp t, tz := .utc }
/-- the fields `dt.year … dt.microsecond` -/
def Datetime.year (d : Datetime) : Int := (Time.fields d.us).year
def Datetime.month (d : Datetime) : Int := (Time.fields d.us).month
def Datetime.day (d : Datetime) : Int := (Time.fields d.us).day
def Datetime.hour (d : Datetime) : Int := (Time.fields d.us).hour
def Datetime.minute (d : Datetime) : Int := (Time.fields d.us).minute
def Datetime.second (d : Datetime) : Int := (Time.fields d.us).second
def Datetime.microsecond (d : Datetime) : Int := (Time.fields d.us).micro
/-- `calendar.isleap(y)`, `calendar.monthrange(y, m)[1]` -/
def isleap (y : Int) : Bool := Time.isLeap y
def monthrangeDays (y m : Int) : Int := Time.daysInMonth y m

/-! ## real layer (generic over `RealOps α`) -/
section Real
variable {α : Type} [RealOps α]
open RealOps

/-- a Python int literal / count in the real layer -/
def rOfInt (n : Int) : α := if 0 ≤ n then ofNat n.toNat else neg (ofNat (-n).toNat)
/-- `numpy.sum` / builtin `sum` over an array of the real layer: the models' left fold from 0 (numpy's pairwise order is not
    modelled: the real layer is compared to 1e-12, and the theorems are over ℝ where the order is irrelevant) -/
def rsum (l : List α) : α := RealOps.sum l
/-- `abs(x)` of a real -/
def rabs (x : α) : α := if RealOps.lt x zero then neg x else x
/-- a float64 value (a rational) as the real number it denotes -/
def rOfRat (q : Rat) : α := div (rOfInt q.num) (ofNat q.den)
/-- `x ** 2`, `numpy.power(x, 2)`, `numpy.square(x)` -/
def rsq (x : α) : α := mul x x
/-- `numpy.log(x)` with `log 0 = -inf` -/
def elog (x : α) : ELL α := ELL.log x
/-- `numpy.sum` over extended values -/
def esum (l : List (ELL α)) : ELL α := ELL.sum l
/-- `x - a` with `x` extended and `a` finite: `-inf - a = -inf` -/
def esubFin : ELL α → α → ELL α
  | .negInf, _ => .negInf
  | .fin x, a => .fin (sub x a)
/-- `x * w` for extended `x` and a positive count `w`: `-inf * w = -inf` -/
def emulNat : ELL α → Nat → ELL α
  | .negInf, _ => .negInf
  | .fin a, w => .fin (mul a (ofNat w))
/-- `numpy.zeros(a.shape)` for a flat array of n elements (float64 zeros) -/
def np_zeros (n : Int) : List α := List.replicate n.toNat zero
/-- `y[idx] = c` for an index array `idx` (every listed position is overwritten; positions outside `y` — IndexError in
    Python — are ignored) -/
def put {β : Type} (y : List β) (idx : List Nat) (c : β) : List β := idx.foldl (fun acc i => acc.set i c) y

/-! ### numpy.ma — a flat masked array is the list of its elements `(data, mask)`.
    numpy.ma computes the plain operation on the data of ALL slots and then restores, in the masked slots of the result,
    the data of the FIRST operand (`numpy.copyto(result, da, where=m)` in `_MaskedUnaryOperation.__call__`,
    `_MaskedBinaryOperation.__call__`, numpy/ma/core.py); `.data` exposes these values. -/
/-- `numpy.ma.masked_where(cond, a)` -/
def ma_masked_where (cond : List Bool) (a : List α) : List (α × Bool) := List.zipWith (fun m x => (x, m)) cond a
/-- `m.data` -/
def ma_data (m : List (α × Bool)) : List α := m.map (fun p => p.1)
/-- `-m` (`numpy.ma.negative`), `numpy.exp(m)`: no domain; the mask is kept, masked slots keep their input data -/
def ma_neg (m : List (α × Bool)) : List (α × Bool) := m.map (fun p => (if p.2 then p.1 else neg p.1, p.2))
def ma_exp (m : List (α × Bool)) : List (α × Bool) := m.map (fun p => (if p.2 then p.1 else exp p.1, p.2))
/-- `numpy.log(m)`: domain `x > 0` — slots with `x <= 0` become masked as well (a non-finite result, which also masks, does
    not exist in the real layer); masked slots keep their input data -/
def ma_log (m : List (α × Bool)) : List (α × Bool) :=
  m.map (fun p => let k := p.2 || le p.1 zero; (if k then p.1 else log p.1, k))
/-- `c - m` for a scalar `c` (`numpy.ma.subtract(c, m)`): masked slots carry the first operand, `c` -/
def ma_scalar_sub (c : α) (m : List (α × Bool)) : List (α × Bool) := m.map (fun p => (if p.2 then c else sub c p.1, p.2))
/-- `y * m` for a plain array `y` (`numpy.ma.multiply(y, m)`, reached through `MaskedArray.__rmul__`): masked slots carry
    the first operand's element `y[i]` -/
def ma_arr_mul (y : List α) (m : List (α × Bool)) : List (α × Bool) :=
  List.zipWith (fun yi p => (if p.2 then yi else mul yi p.1, p.2)) y m

/-- `w * x` for a positive count `w` and extended `x`: `w * -inf = -inf` -/
def enatMul (w : Nat) : ELL α → ELL α
  | .negInf => .negInf
  | .fin a => .fin (mul (ofNat w) a)
/-- `x / d` with `x` extended and `d` finite and positive: `-inf / d = -inf` -/
def edivFin : ELL α → α → ELL α
  | .negInf, _ => .negInf
  | .fin a, d => .fin (div a d)
/-- `a == b` on finite values of the real layer -/
def req (a b : α) : Bool := le a b && le b a

/-- `scipy.special.loggamma(n + 1)` for a count n: log n! -/
def loggammaSucc (n : Nat) : α := logFact n
/-- `scipy.stats.poisson.cdf(0, r)` = e^{-r} -/
def poissonCdf0 (r : α) : α := exp (neg r)
end Real

/-! ## object layer: arbitrary Python values as trees (`JsonTree.PyObj`, Model/JsonTree.lean), exceptions `ErrX`

    Used for code that moves values between attributes, dictionaries and lists without computing with them
    (`to_dict` / `from_dict`). A dict is the list of its entries in iteration order; keys are unique in Python, lookups
    return the first entry with the key. -/

/-! ## the Wilcoxon signed-rank core (`_w_test_ndarray`): ranks, masks, float sums, tie counts -/

/-- `numpy.compress(numpy.not_equal(d, 0), d, axis=-1)`: the non-zero entries, in order -/
def compress_ne0 (d : List Rat) : List Rat := d.filter (fun a => a != 0)

/-- `scipy.stats.rankdata(x)` (method 'average') of a float64 array: SciPy's algorithm (stable sort, position of the first
    element of every run of equal values plus half the run length; `PairedTests.rankdata2`, doubled) — exact halves -/
def rankdata (l : List Rat) : List Rat := (PairedTests.rankdata2 l).map (fun (n : Nat) => (n : Rat) / 2)

/-- `b * x` for a numpy bool and a finite float64: `True * x = x`, `False * x = 0` (both exact; the sign of a zero is not
    represented in this layer) -/
def bool_mul (b : Bool) (x : Rat) : Rat := if b then x else 0

/-- `numpy.sum(a)` / `numpy.sum(a, axis=0)` of a contiguous 1-D float64 array: numpy's pairwise summation
    (`FloatSum.pairwiseSum`; 64 levels of halving cover every array) -/
def np_sum_f64 (l : List Rat) : Rat := FloatSum.pairwiseSum 64 l

/-- `numpy.unique(r, return_counts=True)[1]`: how often each distinct value occurs, in ascending order of the values -/
def unique_counts (r : List Rat) : List Int :=
  ((r.mergeSort (fun a b => decide (a ≤ b))).eraseDups).map (fun v => ((r.count v : Nat) : Int))

/-! ## cells of a text record (csv rows): subscripts that can fail, `float('…')`, `int('…')` -/

/-- `line[k]` (k ≥ 0) on a list of strings: IndexError beyond the end -/
def list_item (l : List (List Char)) (k : Nat) : Except Err (List Char) :=
  match l[k]? with
  | some s => .ok s
  | none => .error .indexError

/-- text for which Python's `float` / `int` do something the text layer does not describe: characters outside ASCII
    (other scripts' digits and blanks are accepted by Python) -/
def nonAscii (s : List Char) : Bool := s.any (fun c => decide (c.toNat ≥ 128))

/-- the words `float` reads as non-finite values, after blanks and a sign -/
def nonFiniteWord (s : List Char) : Bool :=
  let t := (DecimalText.strip s).map Char.toLower
  let t := match t with | '+' :: r => r | '-' :: r => r | r => r
  t == "nan".toList || t == "inf".toList || t == "infinity".toList

/-- `float(s)` of a str with a finite result: the value of the text layer (`FloatText.floatOfStr` = `DecimalText.pyFloat`:
    blanks stripped, decimal grammar with underscores, correctly rounded); ValueError for text that is not a numeral.
    Text read as nan / ±inf, numerals that overflow to ±inf and non-ASCII text are outside the layer (`other`). -/
def float_str (s : List Char) : Except Err Rat :=
  match FloatText.floatOfStr s with
  | some x => .ok x
  | none =>
    if nonAscii s || nonFiniteWord s || (DecimalText.parseDecimal (String.ofList s)).isSome then .error .other
    else .error .valueError

/-- `int(s)` of a str: `DecimalText.pyInt` (blanks stripped, sign, digits with single underscores); ValueError otherwise;
    non-ASCII text is outside the layer (`other`) -/
def int_str (s : List Char) : Except Err Int :=
  match DecimalText.pyInt (String.ofList s) with
  | some n => .ok n
  | none => if nonAscii s then .error .other else .error .valueError

/-- a `%z` text with a seconds part (`±HHMMSS[.ffffff]`, `±HH:MM:SS[.ffffff]`): accepted by CPython, not by the text model -/
def zoneWithSeconds (s : List Char) : Bool :=
  let z := (s.reverse.takeWhile (fun c => c != '+' && c != '-')).reverse
  decide (z.length ≥ 6) && z.all (fun c => c.isDigit || c == ':' || c == '.')

/-- `datetime.datetime.strptime(s, fmt).timestamp()` for `fmt = '%Y-%m-%dT%H:%M:%S.%f%z'` (an aware datetime): the instant
    `local − offset` in seconds as a float, `total_microseconds / 10**6` correctly rounded. The text is read by the reader
    text model (`ReaderText.parseJmaTime`: directive widths and ranges of CPython's `_strptime`; `Z`, `±HHMM`, `±HH:MM`);
    ValueError when it does not match or `datetime(...)` rejects the fields. Other formats, offsets with a seconds part and
    non-ASCII text are not modelled (`other`). -/
def strptime_timestamp (s fmt : List Char) : Except Err Rat :=
  if fmt ≠ "%Y-%m-%dT%H:%M:%S.%f%z".toList then .error .other else
  if nonAscii s then .error .other else
  match ReaderText.parseJmaTime s with
  | some (c, us, off) =>
    if c.valid && decide (0 ≤ us) && decide (us < 1000000) then
      .ok (Soft64.fl64 ((((c.epochSec - off) * 1000000 + us : Int) : Rat) / 1000000))
    else .error .valueError
  | none => if zoneWithSeconds s then .error .other else .error .valueError

/-- the exception classes of the object layer -/
inductive ErrX where
  | keyError | typeError | attributeError | valueError | other
  deriving DecidableEq, Repr

open JsonTree in
/-- `d['key']`: the entry of a dict; KeyError when missing; TypeError on list / tuple / str / None / Python scalars (not
    subscriptable by a str); other kinds (numpy values, foreign objects) are not modelled (`other`) -/
def obj_item (d : PyObj) (s : String) : Except ErrX PyObj :=
  match d with
  | .dict kvs => match kvs.get s with
    | some v => .ok v
    | none => .error .keyError
  | .list _ | .tuple _ | .str _ | .none | .pyInt _ | .pyBool _ | .pyFloat _ => .error .typeError
  | _ => .error .other

open JsonTree in
/-- `d.get('key', default)` on a dict; AttributeError on values without `.get` -/
def obj_get (d : PyObj) (s : String) (dflt : PyObj) : Except ErrX PyObj :=
  match d with
  | .dict kvs => .ok ((kvs.get s).getD dflt)
  | _ => .error .attributeError

open JsonTree in
/-- `x.tolist()`: numpy arrays and numpy scalars have it (nested Python lists / the Python scalar); AttributeError otherwise -/
def obj_tolist : PyObj → Except ErrX PyObj
  | .ndarray xs => .ok (.list xs)
  | .npFloat64 x => .ok (.pyFloat x)
  | .npInt64 n => .ok (.pyInt n)
  | .npBool b => .ok (.pyBool b)
  | .npFloat32 x => .ok (.pyFloat x)
  | _ => .error .attributeError

open JsonTree in
/-- `list(x)`: the items of a list / tuple, the characters of a str, the keys of a dict; TypeError for values that are not
    iterable (None, scalars, foreign objects); numpy arrays (a list of numpy scalars) are not modelled here -/
def obj_list : PyObj → Except ErrX PyObj
  | .list xs => .ok (.list xs)
  | .tuple xs => .ok (.list xs)
  | .str s => .ok (.list (strChars s))
  | .dict kvs => .ok (.list kvs.keyList)
  | _ => .error .typeError

/-- `[f x for x in xs]` where `f` can raise: evaluated left to right, the first exception ends it -/
def mapE {α β : Type} (f : α → Except ErrX β) : List α → Except ErrX (List β)
  | [] => .ok []
  | x :: xs =>
    match f x with
    | .error e => .error e
    | .ok y =>
      match mapE f xs with
      | .error e => .error e
      | .ok ys => .ok (y :: ys)

open JsonTree in
/-- the items a comprehension / `for` visits: the items of a list / tuple, the characters of a str, the keys of a dict;
    TypeError for None and Python scalars (not iterable); numpy values and foreign objects are not modelled (`other`) -/
def obj_iter : PyObj → Except ErrX (List PyObj)
  | .list xs => .ok xs.toList
  | .tuple xs => .ok xs.toList
  | .str s => .ok (strChars s).toList
  | .dict kvs => .ok kvs.keyList.toList
  | .none | .pyInt _ | .pyBool _ | .pyFloat _ => .error .typeError
  | _ => .error .other

/-- `[f(x) for x in it]` -/
def obj_mapM (it : JsonTree.PyObj) (f : JsonTree.PyObj → Except ErrX JsonTree.PyObj) : Except ErrX (List JsonTree.PyObj) :=
  match obj_iter it with
  | .error e => .error e
  | .ok xs => mapE f xs

open JsonTree in
def isFloatList : PyList → Bool
  | .nil => true
  | .cons (.pyFloat _) r => isFloatList r
  | .cons _ _ => false

open JsonTree in
def isFloatRows (n : Nat) : PyList → Bool
  | .nil => true
  | .cons (.list r) rest => isFloatList r && r.toList.length == n && isFloatRows n rest
  | .cons _ _ => false

open JsonTree in
/-- `numpy.array(x)` of a list of Python floats (1-D) or of equally long lists of Python floats (2-D): the float64 array
    with those entries. Every other argument (mixed scalars, ragged rows, deeper nesting, strings, …) is not modelled
    (`other`): numpy decides dtype and shape, or raises, by rules that are not part of this layer. -/
def obj_nparray : PyObj → Except ErrX PyObj
  | .list xs =>
    if isFloatList xs then .ok (.ndarray xs) else
    match xs with
    | .cons (.list r) _ => if isFloatRows r.toList.length xs then .ok (.ndarray xs) else .error .other
    | _ => .error .other
  | _ => .error .other

/-- `try: x = a / except: raise E(…)` (bare `except` / `except Exception`): every exception of `a` becomes `E`;
    `other` (behaviour not modelled) stays `other` -/
def tryRaise {β : Type} (a : Except ErrX β) (e : ErrX) : Except ErrX β :=
  match a with
  | .ok v => .ok v
  | .error .other => .error .other
  | .error _ => .error e

/-- `str(x)` for a value that is a str or None -/
def optstr_str : Option String → String
  | some s => s
  | none => "None"

/-- `try: x = a / except E: x = b` -/
def tryCatch {ε β : Type} [DecidableEq ε] (a : Except ε β) (e : ε) (b : Except ε β) : Except ε β :=
  match a with
  | .ok v => .ok v
  | .error e' => if e' = e then b else .error e'

end Py
