/-
  Line-protocol helpers for the driver: parsing of integers, rationals and lists, printing of results.
  Tokens are separated by single spaces. A rational is `n` or `n/d` (d > 0). A list is comma-separated,
  the empty list is `-`. Nested lists use `;` between inner lists.
-/
namespace Proto

def parseInt? (s : String) : Option Int := s.toInt?

def parseRat? (s : String) : Option Rat :=
  match s.splitOn "/" with
  | [n] => (parseInt? n).map (fun i => (i : Rat))
  | [n, d] => do
      let ni ← parseInt? n
      let di ← d.toNat?
      if di = 0 then none else some (mkRat ni di)
  | _ => none

def parseList? {α} (f : String → Option α) (s : String) : Option (List α) :=
  if s = "-" then some [] else (s.splitOn ",").mapM f

def parseList2? {α} (f : String → Option α) (s : String) : Option (List (List α)) :=
  if s = "-" then some [] else (s.splitOn ";").mapM (parseList? f)

def showRat (r : Rat) : String :=
  if r.den = 1 then toString r.num else s!"{r.num}/{r.den}"

def showList {α} (f : α → String) (l : List α) : String :=
  if l.isEmpty then "-" else ",".intercalate (l.map f)

def showOpt {α} (f : α → String) : Option α → String
  | none => "none"
  | some a => f a

def showPair (p : Nat × Nat) : String := s!"{p.1}:{p.2}"

end Proto
