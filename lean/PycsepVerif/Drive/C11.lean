import PycsepVerif.Proto
import PycsepVerif.Model.ForecastFile
import PycsepVerif.Model.ForecastArray
/-!
Driver op of C11:

`c11_all SWAP DLO DHI ROWS PROBES OPS` →
   `dh;mags;cells | rates | factor | data | total | spatial | magnitude`   (without the blanks), or `none` when load raises

SWAP   `0|1`;  DLO DHI rationals (decimal values of repr of the first row's raw columns 2 and 3)
ROWS   rows joined by `;`, each 10 rationals joined by `,`
PROBES `-` or `lon,lat,m` joined by `;`          rates: one per probe, `x` = ValueError
OPS    `-` or `s,v` / `t,v` / `t,none` joined by `;`   (scale(v) / scale_to_test_date inside / outside the period)
cells  `lon0,lon1,lat0,lat1,flag` joined by `;`
data   fl64 of every `_data * _scale` after OPS; total / spatial / magnitude are exact sums of the exact products

`c11_hist SWAP DLO DHI ROWS PTS CALLS POS NY NX` → one record per read-only call, joined by `|`, then `F:factor`
CALLS  `-` or scale calls as in OPS and read-only calls `r,tr1,DAYS` (target_event_rates(scale=True)) / `r,tr0` / `r,gr`
       (get_rates) / `r,sum` / `r,ec` / `r,sc` / `r,scc` (spatial_counts(cartesian=True)) / `r,mc` / `r,data`, joined by `;`
PTS    the target events / lookup points, as PROBES;   POS `-` or `row:column` of every cell on the bounding-box lattice
records `R:rates:total` (`x` = ValueError, total `-` when the call returns none) / `S:v` / `V:v,…` / `G:row;row` (`nan`)
       all exact rationals of the exact products base · factor (/ days)

`c11_arr SWAP DLO DHI ROWS PTS AOPS` → `data | total | spatial | magnitude | rates` under the factor the history leaves in
       force, `nofit` when numpy cannot broadcast it to (cells, magnitudes), `none` when load raises
AOPS   `-` or `s,v` (scalar) / `v,a:b:…` (1-d array) / `m,a:b_c:d_…` (2-d array, rows joined by `_`) / `t,v` / `t,none`, joined by `;`
`c11_date START END TEST` (microseconds since the epoch) → `none` (outside the period: nothing set) or the factor set
-/
namespace Drive.C11
open Proto ForecastFile

def parseSemi? {α} (f : String → Option α) (s : String) : Option (List α) :=
  if s = "-" then some [] else (s.splitOn ";").mapM f

def parseRow? (s : String) : Option Row :=
  match (s.splitOn ",").mapM parseRat? with
  | some [a, b, c, d, e, f, g, h, i, j] => some ⟨a, b, c, d, e, f, g, h, i, j⟩
  | _ => none

def parseProbe? (s : String) : Option (Rat × Rat × Rat) :=
  match (s.splitOn ",").mapM parseRat? with
  | some [a, b, c] => some (a, b, c)
  | _ => none

def parseOp? (s : String) : Option ScaleOp :=
  match s.splitOn "," with
  | ["s", v] => (parseRat? v).map ScaleOp.scale
  | ["t", "none"] => some (.toTestDate none)
  | ["t", v] => (parseRat? v).map (fun q => ScaleOp.toTestDate (some q))
  | _ => none

def showCell (c : Cell) : String :=
  ",".intercalate [showRat c.lon0, showRat c.lon1, showRat c.lat0, showRat c.lat1, showRat c.flag]

def semi (l : List String) : String := if l.isEmpty then "-" else ";".intercalate l

def all (swap dlo dhi rows probes ops : String) : String :=
  match parseRat? dlo, parseRat? dhi, parseSemi? parseRow? rows, parseSemi? parseProbe? probes, parseSemi? parseOp? ops with
  | some dlo, some dhi, some rows, some probes, some ops =>
    match load (swap = "1") dlo dhi rows with
    | none => "none"
    | some F =>
      let info := ";".intercalate [showRat F.dh, showList showRat F.mags, toString F.cells.length]
        ++ ";" ++ semi (F.cells.map showCell)
      let rates := showList (fun (p : Rat × Rat × Rat) => match getRates F p.1 p.2.1 p.2.2 with
        | some r => showRat r | none => "x") probes
      let G := runOps F ops
      "|".intercalate [info, rates, showRat G.scale, showList (fun r => showRat (Soft64.fl64 r)) (data G),
        showRat (total G), showList showRat (spatialCounts G), showList showRat (magnitudeCounts G)]
  | _, _, _, _, _ => "bad-op"

def parseCall? (s : String) : Option Call :=
  match s.splitOn "," with
  | ["r", "tr1", d] => (parseRat? d).map (fun d => Call.read (.targetRates (some d)))
  | ["r", "tr0"] => some (.read (.targetRates none))
  | ["r", "gr"] => some (.read .rates)
  | ["r", "sum"] => some (.read .sum)
  | ["r", "ec"] => some (.read .sum)
  | ["r", "sc"] => some (.read .spatial)
  | ["r", "scc"] => some (.read .spatialCartesian)
  | ["r", "mc"] => some (.read .magnitude)
  | ["r", "data"] => some (.read .data)
  | _ => (parseOp? s).map Call.write

def parsePos? (s : String) : Option (Nat × Nat) :=
  match s.splitOn ":" with
  | [a, b] => do let a ← a.toNat?; let b ← b.toNat?; pure (a, b)
  | _ => none

def showORat : Option Rat → String
  | some r => showRat r
  | none => "x"

def showObs : Obs → String
  | .rates r t => "R:" ++ showList showORat r ++ ":" ++ (match t with | some t => showRat t | none => "-")
  | .scalar v => "S:" ++ showRat v
  | .vec v => "V:" ++ showList showRat v
  | .grid g => "G:" ++ semi (g.map (showList (fun o => match o with | some r => showRat r | none => "nan")))

def hist (swap dlo dhi rows pts calls pos ny nx : String) : String :=
  match parseRat? dlo, parseRat? dhi, parseSemi? parseRow? rows, parseSemi? parseProbe? pts, parseSemi? parseCall? calls,
        parseList? parsePos? pos, ny.toNat?, nx.toNat? with
  | some dlo, some dhi, some rows, some pts, some calls, some pos, some ny, some nx =>
    match load (swap = "1") dlo dhi rows with
    | none => "none"
    | some F =>
      let r := runCalls ⟨pts, pos, ny, nx⟩ F calls
      "|".intercalate (r.2.map showObs ++ ["F:" ++ showRat r.1.scale])
  | _, _, _, _, _, _, _, _ => "bad-op"

def parseColon? (s : String) : Option (List Rat) := (s.splitOn ":").mapM parseRat?

def parseAOp? (s : String) : Option AOp :=
  match s.splitOn "," with
  | ["s", v] => (parseRat? v).map (fun q => AOp.scale (.scalar q))
  | ["v", w] => (parseColon? w).map (fun l => AOp.scale (.vec l))
  | ["m", w] => ((w.splitOn "_").mapM parseColon?).map (fun rows => AOp.scale (.mat rows))
  | ["t", "none"] => some (.toTestDate none)
  | ["t", v] => (parseRat? v).map (fun q => AOp.toTestDate (some q))
  | _ => none

def arr (swap dlo dhi rows pts aops : String) : String :=
  match parseRat? dlo, parseRat? dhi, parseSemi? parseRow? rows, parseSemi? parseProbe? pts, parseSemi? parseAOp? aops with
  | some dlo, some dhi, some rows, some pts, some aops =>
    match load (swap = "1") dlo dhi rows with
    | none => "none"
    | some F =>
      let w := runFactor (.scalar 1) aops
      match dataA F w, totalA F w, spatialCountsA F w, magnitudeCountsA F w with
      | some d, some t, some sc, some mc =>
        "|".intercalate [showList (fun r => showRat (Soft64.fl64 r)) d, showRat t, showList showRat sc, showList showRat mc,
          showList (fun (p : Rat × Rat × Rat) => showORat ((getRatesA F w p.1 p.2.1 p.2.2).map Soft64.fl64)) pts]
      | _, _, _, _ => "nofit"
  | _, _, _, _, _ => "bad-op"

def date (start end_ test : String) : String :=
  match start.toInt?, end_.toInt?, test.toInt? with
  | some s, some e, some t => (match testDateFraction s e t with | some q => showRat q | none => "none")
  | _, _, _ => "bad-op"

def handle : List String → Option String
  | ["c11_all", swap, dlo, dhi, rows, probes, ops] => some (all swap dlo dhi rows probes ops)
  | ["c11_hist", swap, dlo, dhi, rows, pts, calls, pos, ny, nx] => some (hist swap dlo dhi rows pts calls pos ny nx)
  | ["c11_arr", swap, dlo, dhi, rows, pts, aops] => some (arr swap dlo dhi rows pts aops)
  | ["c11_date", s, e, t] => some (date s e t)
  | _ => none
end Drive.C11
