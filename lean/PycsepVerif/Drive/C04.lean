import PycsepVerif.Proto
import PycsepVerif.Model.Filter
import PycsepVerif.Model.FilterMct
import PycsepVerif.Model.FilterNan
import PycsepVerif.Model.FilterText
/-!
Driver ops of C04 (all prefixed `c04_`):

* `c04_hist EVENTS FILTERS REGION CALL*` → `FLAGS|ids of object 0|ids of object 1|…`
* `c04_load EVENTS FILTERS REGION` → ids of the loaded catalog or `exc`
* `c04_epoch Y,M,D,h,m,s,us` → epoch milliseconds
* `c04_mct EVENTS MCT` → ids kept by `apply_mct`
* `c04_spq EVENTS b0 b1 b2 b3` → ids kept by `filter_spatial` with a quadtree region of tiles [b0,b2) x [b1,b3)
* `c04_nan EVENTSF STMTSF` → ids kept by `filter`; float fields / thresholds may be `nan`, `inf`, `-inf`
* `c04_next EVENTS FILTERS0 REGION0 apply(0|1) FILTERS MCT|none spatial(0|1) REGION` → ids of the catalog yielded by
  `CatalogForecast.__next__`, or `exc:noregion`

* `c04_text EVENTSF HEXSTMTS` → ids kept by `filter([texts])` read from the CHARACTERS of the statements, or `err:<kind>`
  (HEXSTMTS: `-` or statements joined by `;`, each the two-digit hex codes of its ASCII characters)
* `c04_float HEX` → `float(text)`: `nan` / `inf` / `-inf` / `n/d` / `err`;  `c04_strp HEX` → `strptime_to_utc_epoch(text)` or `err`

MCT     `eventEpoch;tCrit;ids of the rows with mw < mct (comma separated, `-` = none)`

EVENTS  `-` or `id,ms,lat,lon,depth,mag` joined by `;` (rationals `n/d`)
stmt    `t|lat|lon|dep|mag,gt|lt|ge|le|eq,value`  or  `dt,op,Y,M,D,h,m,s,us`
FILTERS `-` or stmts joined by `;`
REGION  `none` or `dh,x0,y0,x1,y1,…`
CALL    `f:target:inplace:FILTERS|none`  or  `s:target:inplace:REGION`
-/
namespace Drive.C04
open Proto CatFilter

def parseAttr? : String → Option Attr
  | "t" => some .originTime | "lat" => some .latitude | "lon" => some .longitude
  | "dep" => some .depth | "mag" => some .magnitude | _ => none

def parseOp? : String → Option Op
  | "gt" => some .gt | "lt" => some .lt | "ge" => some .ge | "le" => some .le | "eq" => some .eq | _ => none

def parseEvent? (s : String) : Option Event :=
  match s.splitOn "," with
  | [i, t, la, lo, d, m] => do
      let i ← i.toNat?
      let t ← parseInt? t
      let la ← parseRat? la
      let lo ← parseRat? lo
      let d ← parseRat? d
      let m ← parseRat? m
      some ⟨i, t, la, lo, d, m⟩
  | _ => none

def parseSemi? {α} (f : String → Option α) (s : String) : Option (List α) :=
  if s = "-" then some [] else (s.splitOn ";").mapM f

def parseDT? : List String → Option DateTime
  | [y, mo, d, h, mi, s, us] => do
      some ⟨← parseInt? y, ← mo.toNat?, ← d.toNat?, ← h.toNat?, ← mi.toNat?, ← s.toNat?, ← us.toNat?⟩
  | _ => none

def parseStmt? (s : String) : Option RawStmt :=
  match s.splitOn "," with
  | [a, o, v] => do some (.num ⟨← parseAttr? a, ← parseOp? o, ← parseRat? v⟩)
  | "dt" :: o :: rest => do some (.datetime (← parseOp? o) (← parseDT? rest))
  | _ => none

def pairs : List Rat → Option (List (Rat × Rat))
  | [] => some []
  | x :: y :: r => (pairs r).map (fun l => (x, y) :: l)
  | _ => none

def parseRegion? (s : String) : Option (Option Region) :=
  if s = "none" then some none else
  match (s.splitOn ",").mapM parseRat? with
  | some (dh :: rest) => (pairs rest).map (fun cs => some ⟨dh, cs⟩)
  | _ => none

def parseBool? : String → Option Bool
  | "0" => some false | "1" => some true | _ => none

def parseCall? (s : String) : Option (Nat × FilterOp) :=
  match s.splitOn ":" with
  | ["f", tg, ip, st] => do
      let tg ← tg.toNat?
      let ip ← parseBool? ip
      if st = "none" then some (tg, .filter none ip)
      else some (tg, .filter (some (← parseSemi? parseStmt? st)) ip)
  | ["s", tg, ip, rg] => do
      some (← tg.toNat?, .spatial (← parseRegion? rg) (← parseBool? ip))
  | _ => none

def showIds (c : Cat) : String := showList (fun (e : Event) => toString e.id) c.events

def hist (ev fs rg : String) (calls : List String) : String :=
  match parseSemi? parseEvent? ev, parseSemi? parseStmt? fs, parseRegion? rg, calls.mapM parseCall? with
  | some ev, some fs, some rg, some calls =>
    let (h, oks) := runHistory [⟨ev, fs, rg⟩] calls
    let flags := if oks.isEmpty then "-" else String.join (oks.map (fun b => if b then "1" else "0"))
    "|".intercalate (flags :: h.map showIds)
  | _, _, _, _ => "bad-op"

def parseIds? (s : String) : Option (List Nat) :=
  if s = "-" then some [] else (s.splitOn ",").mapM (·.toNat?)

def parseMct? (s : String) : Option Mct :=
  match s.splitOn ";" with
  | [ep, tc, ids] => do
      let ids ← parseIds? ids
      some ⟨← parseRat? ep, ← parseRat? tc, fun e => ids.contains e.id⟩
  | _ => none

def parseMctOpt? (s : String) : Option (Option Mct) :=
  if s = "none" then some none else (parseMct? s).map some

def zip4 : List Rat → List Rat → List Rat → List Rat → List (Rat × Rat × Rat × Rat)
  | a :: as, b :: bs, c :: cs, d :: ds => (a, b, c, d) :: zip4 as bs cs ds
  | _, _, _, _ => []

def parseFVal? (s : String) : Option FVal :=
  if s = "nan" then some .nan else if s = "inf" then some .posInf else if s = "-inf" then some .negInf
  else (parseRat? s).map .fin

def parseEventF? (s : String) : Option EventF :=
  match s.splitOn "," with
  | [i, t, la, lo, d, m] => do
      some ⟨← i.toNat?, ← parseInt? t, ← parseFVal? la, ← parseFVal? lo, ← parseFVal? d, ← parseFVal? m⟩
  | _ => none

def parseStmtF? (s : String) : Option StmtF :=
  match s.splitOn "," with
  | [a, o, v] => do some ⟨← parseAttr? a, ← parseOp? o, ← parseFVal? v⟩
  | _ => none

def showEvIds (es : List Event) : String := showList (fun (e : Event) => toString e.id) es

def hexVal (c : Char) : Option Nat :=
  if '0' ≤ c ∧ c ≤ '9' then some (c.toNat - 48) else if 'a' ≤ c ∧ c ≤ 'f' then some (c.toNat - 87) else none

def unhex : List Char → Option (List Char)
  | [] => some []
  | a :: b :: r => do
      let x ← hexVal a
      let y ← hexVal b
      let t ← unhex r
      some (Char.ofNat (x * 16 + y) :: t)
  | _ => none

def parseHexList? (s : String) : Option (List (List Char)) :=
  if s = "-" then some [] else (s.splitOn ";").mapM (fun t => if t = "e" then some [] else unhex t.toList)

def showErr : TextErr → String
  | .unpack => "err:unpack" | .badDate => "err:baddate" | .keyError => "err:keyerror" | .noField => "err:nofield"
  | .badFloat => "err:badfloat" | .notText => "err:nottext"

def showFVal : FVal → String
  | .nan => "nan" | .posInf => "inf" | .negInf => "-inf" | .fin q => showRat q

def handle : List String → Option String
  | ["c04_text", ev, st] => some (
      match parseSemi? parseEventF? ev, parseHexList? st with
      | some ev, some st =>
        (match filterTexts st ev with
         | .ok es => showList (fun (e : EventF) => toString e.id) es
         | .error e => showErr e)
      | _, _ => "bad-op")
  | ["c04_float", h] => some (
      match unhex h.toList with
      | some cs => (match pyFloatF cs with | some v => showFVal v | none => "err")
      | none => "bad-op")
  | ["c04_strp", h] => some (
      match unhex h.toList with
      | some cs => (match strptimeStmt cs with | some ms => toString ms | none => "err")
      | none => "bad-op")
  | ["c04_mct", ev, m] => some (
      match parseSemi? parseEvent? ev, parseMct? m with
      | some ev, some m => showEvIds (applyMct m ev)
      | _, _ => "bad-op")
  | ["c04_spq", ev, b0, b1, b2, b3] => some (
      match parseSemi? parseEvent? ev, parseList? parseRat? b0, parseList? parseRat? b1, parseList? parseRat? b2,
            parseList? parseRat? b3 with
      | some ev, some b0, some b1, some b2, some b3 => showEvIds (filterSpatialQuad ⟨zip4 b0 b1 b2 b3⟩ ev)
      | _, _, _, _, _ => "bad-op")
  | ["c04_nan", ev, st] => some (
      match parseSemi? parseEventF? ev, parseSemi? parseStmtF? st with
      | some ev, some st => showList (fun (e : EventF) => toString e.id) (filterListF st ev)
      | _, _ => "bad-op")
  | ["c04_next", ev, fs0, rg0, ap, fs, m, sp, rg] => some (
      match parseSemi? parseEvent? ev, parseSemi? parseStmt? fs0, parseRegion? rg0, parseBool? ap,
            parseSemi? parseStmt? fs, parseMctOpt? m, parseBool? sp, parseRegion? rg with
      | some ev, some fs0, some rg0, some ap, some fs, some m, some sp, some rg =>
        (match nextFilter ⟨ap, fs, m, sp, rg⟩ ⟨ev, fs0, rg0⟩ with
         | .ok c => showIds c
         | .error .noRegion => "exc:noregion")
      | _, _, _, _, _, _, _, _ => "bad-op")
  | "c04_hist" :: ev :: fs :: rg :: calls => some (hist ev fs rg calls)
  | ["c04_load", ev, fs, rg] => some (
      match parseSemi? parseEvent? ev, parseSemi? parseStmt? fs, parseRegion? rg with
      | some ev, some fs, some rg => (match loadApply ev fs rg with | some c => showIds c | none => "exc")
      | _, _, _ => "bad-op")
  | ["c04_epoch", dt] => some (match parseDT? (dt.splitOn ",") with
      | some d => toString (epochMs d) | none => "bad-op")
  | _ => none
end Drive.C04
