import PycsepVerif.Proto
import PycsepVerif.Model.DecimalText
import PycsepVerif.Model.ForecastText
import PycsepVerif.Model.CatalogText
import PycsepVerif.Model.CatalogStream
import PycsepVerif.Model.QuadLoaders
import PycsepVerif.Drive.C11
import PycsepVerif.Drive.C12
/-!
Driver ops of the text layers of C11 / C12 (owner: C11/C12).  Strings travel as the lower-case hex of their UTF-8 bytes
(bytes ≥ 128 become the character with that code: never a digit, blank or separator), `-` = empty string.

`dt_float H,H,…`   Python `float(s)` per string        → `n/d` | `none` (ValueError / inf / nan / overflow), joined by `,`
`dt_np H,H,…`      numpy.loadtxt token                  → same
`dt_int H,H,…`     Python `int(s)`                      → integer | `none`
`dt_repr q,q,…`    value of `repr(x)` per binary64 `x`  → `n/d`
`dt_loadtxt H`     numpy.loadtxt(text, ndmin=2)         → rows `;`-joined of `,`-joined rationals | `none`
`c11_text SWAP H PROBES OPS`   = `c11_all`, rows and dLo/dHi computed from the characters of the file
`c11_dispatch EXISTS EXTH LOADER(none|callable|notcallable)` → outcome of `load_gridded_forecast`'s option handling
`c11_name H`       default name of `load_ascii`, and `os.path.splitext` extension → `hexname,hexext`
`c12_text H`       `load_ascii_catalogs` on the characters of the file → as `c12_decode`
`c12_csv H`        csv fields of one line → hex fields joined by `,` | `none`
`c12_time H`       the time field → epoch ms | `none`
`c12_fname H`      parse_filename → `hexname,us` | `none`
`c11_qascii H` / `c11_qcsv H`   quadtree_ascii_loader / quadtree_csv_loader on the characters of the file →
                   `key,key,…|mags|rates` (rationals) | `none`
`c12_stream H`     the generator consumed lazily, quoted fields may span lines (`streamTextML`) → `<cats>#end` |
                   `<cats>#err:decreasing|malformed` with `<cats>` as after `ok:` of `c12_text` (`-` = none yielded)
`c12_csvml H`      csv records of a whole text (`csvRecordsML`) → records joined by `;`, fields hex joined by `,`, `empty`
`c12_ses TYPEH FORMATH`              option handling of `load_stochastic_event_sets` → outcome name
`c12_cf EXISTS LOADER(none|callable|notcallable) FORMATH TYPEH`   … of `load_catalog_forecast`
-/
namespace Drive.Text
open Proto DecimalText

def hexVal (c : Char) : Option Nat :=
  if '0' ≤ c ∧ c ≤ '9' then some (c.toNat - 48)
  else if 'a' ≤ c ∧ c ≤ 'f' then some (c.toNat - 87) else none

def unhexAux : List Char → List Char → Option (List Char)
  | [], acc => some acc.reverse
  | a :: b :: rest, acc => do
      let x ← hexVal a
      let y ← hexVal b
      unhexAux rest (Char.ofNat (x * 16 + y) :: acc)
  | _, _ => none

def unhex (s : String) : Option String :=
  if s = "-" then some "" else (unhexAux s.toList []).map String.ofList

def hexDigit (n : Nat) : Char := if n < 10 then Char.ofNat (48 + n) else Char.ofNat (87 + n)

def hex (s : String) : String :=
  if s.isEmpty then "-" else
  String.ofList (s.toList.foldr (fun c acc => hexDigit (c.toNat % 256 / 16) :: hexDigit (c.toNat % 16) :: acc) [])

/-- exponents beyond ±9999 would make `pow10` enormous; such tokens are never sent (answer `skip`) -/
def tooBig (s : String) : Bool :=
  s.length > 400 || ((s.toList.dropWhile (fun c => c ≠ 'e' ∧ c ≠ 'E')).length > 7)

def perItem (f : String → String) (arg : String) : String :=
  ",".intercalate ((arg.splitOn ",").map (fun h => match unhex h with
    | some s => if tooBig s then "skip" else f s
    | none => "bad"))

def showOR : Option Rat → String
  | some q => showRat q
  | none => "none"

def showRows (rs : List (List Rat)) : String :=
  if rs.isEmpty then "-" else ";".intercalate (rs.map (fun r => ",".intercalate (r.map showRat)))

/-- as `Drive.C12.showResult`, event ids as `x<hex>` (the harness's `_mid`) -/
def showEvH (e : AsciiCatalogs.Ev) : String :=
  Drive.C12.showEv { e with eventId := if e.eventId.isEmpty then "" else "x" ++ hex e.eventId }

def showResultH : Except AsciiCatalogs.Err (List AsciiCatalogs.Catalog) → String
  | .ok cs => "ok:" ++ ";".intercalate (cs.map (fun c =>
      Drive.C12.showO toString c.id ++ "|" ++ ",".intercalate (c.events.map showEvH)))
  | .error .decreasing => "err:decreasing"
  | .error .malformed => "err:malformed"

def showCatsH (cs : List AsciiCatalogs.Catalog) : String :=
  if cs.isEmpty then "-" else ";".intercalate (cs.map (fun c =>
      Drive.C12.showO toString c.id ++ "|" ++ ",".intercalate (c.events.map showEvH)))

def showQ : Option ForecastFile.QForecast → String
  | none => "none"
  | some q => "|".intercalate [",".intercalate q.keys, showList showRat q.mags, showList showRat q.base]

def handle : List String → Option String
  | ["c11_qascii", h] => some (match unhex h with
      | some t => showQ (ForecastFile.loadQuadAscii t)
      | none => "bad-op")
  | ["c11_qcsv", h] => some (match unhex h with
      | some t => showQ (ForecastFile.loadQuadCsv t)
      | none => "bad-op")
  | ["c12_stream", h] => some (match unhex h with
      | some t => (match AsciiCatalogs.streamTextML t with
        | (cs, none) => showCatsH cs ++ "#end"
        | (cs, some .decreasing) => showCatsH cs ++ "#err:decreasing"
        | (cs, some .malformed) => showCatsH cs ++ "#err:malformed")
      | none => "bad-op")
  | ["c12_csvml", h] => some (match unhex h with
      | some t =>
        let recs := AsciiCatalogs.csvRecordsML t
        if recs.isEmpty then "norecords" else ";".intercalate (recs.map (fun fs =>
          if fs.isEmpty then "empty" else ",".intercalate (fs.map hex)))
      | none => "bad-op")
  | ["c12_ses", ty, fm] => some (match unhex ty, unhex fm with
      | some ty, some fm => (match AsciiCatalogs.sesDispatch ty fm with
        | .valueErrorType => "ValueError-type" | .ucerf3 => "ucerf3" | .csvNative => "csv-native"
        | .csvCsep => "csv-csep" | .valueErrorFormat => "ValueError-format")
      | _, _ => "bad-op")
  | ["c12_cf", ex, loader, fm, ty] => some (match unhex fm, unhex ty with
      | some fm, some ty =>
        let l : Option Bool := if loader = "none" then none else some (loader = "callable")
        (match AsciiCatalogs.cfDispatch (ex = "1") l fm ty with
          | .fileNotFound => "FileNotFoundError" | .attributeError => "AttributeError" | .keyError => "KeyError"
          | .forecast own nm => "forecast:" ++ (if own then "own" else "default") ++ ":" ++ (if nm then "name" else "noname"))
      | _, _ => "bad-op")
  | ["dt_float", a] => some (perItem (fun s => showOR (pyFloat s)) a)
  | ["dt_np", a] => some (perItem (fun s => showOR (npFloat s)) a)
  | ["dt_int", a] => some (perItem (fun s => match pyInt s with | some i => toString i | none => "none") a)
  | ["dt_repr", a] => some (",".intercalate ((a.splitOn ",").map (fun t => match parseRat? t with
      | some q => showRat (reprValue q) | none => "bad")))
  | ["dt_loadtxt", h] => some (match unhex h with
      | some t => (match loadtxt t with | some rs => showRows rs | none => "none")
      | none => "bad-op")
  | ["c11_text", swap, h, probes, ops] => some (match unhex h with
      | some t => (match ForecastFile.parseDat t with
        | some (r :: rs) =>
          Drive.C11.all swap (showRat (reprValue r.c2)) (showRat (reprValue r.c3))
            (";".intercalate ((r :: rs).map (fun r => ",".intercalate
              ([r.c0, r.c1, r.c2, r.c3, r.z0, r.z1, r.m0, r.m1, r.rate, r.flag].map showRat)))) probes ops
        | _ => "none")
      | none => "bad-op")
  | ["c11_dispatch", ex, exth, loader] => some (match unhex exth with
      | some ext =>
        let l : Option Bool := if loader = "none" then none else some (loader = "callable")
        (match ForecastFile.loadDispatch (ex = "1") ext l with
          | .fileNotFound => "FileNotFoundError" | .attributeError => "AttributeError"
          | .notImplemented => "NotImplementedError" | .useLoader => "loader" | .useAscii => "ascii")
      | none => "bad-op")
  | ["c11_name", h] => some (match unhex h with
      | some p => hex (ForecastFile.defaultName p) ++ "," ++ hex (ForecastFile.extOf p)
      | none => "bad-op")
  | ["c12_text", h] => some (match unhex h with
      | some t => showResultH (AsciiCatalogs.decodeText t)
      | none => "bad-op")
  | ["c12_csv", h] => some (match unhex h with
      | some t => (match AsciiCatalogs.csvFields t.toList with
        | some fs => if fs.isEmpty then "empty" else ",".intercalate (fs.map hex)
        | none => "none")
      | none => "bad-op")
  | ["c12_time", h] => some (match unhex h with
      | some t => (match AsciiCatalogs.parseTime t.toList with | some ms => toString ms | none => "none")
      | none => "bad-op")
  | ["c12_fname", h] => some (match unhex h with
      | some p => (match AsciiCatalogs.parseFilename p with
        | some (n, us) => hex n ++ "," ++ toString us | none => "none")
      | none => "bad-op")
  | _ => none
end Drive.Text
