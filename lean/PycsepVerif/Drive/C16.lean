import PycsepVerif.Proto
import PycsepVerif.Model.BinaryBrier
import PycsepVerif.Model.BinaryTests
import PycsepVerif.Model.MaskedOps
import PycsepVerif.Model.BinaryPublic
/-! driver ops of C16 (Float instance of Model/BinaryBrier). Floats travel as IEEE-754 bit patterns.
    `c16_bll <rates> <counts>`, `c16_brier <dims> <rates> <counts>`,
    `c16_test <S|CL|BO> <data rows> <count rows>`, `c16_bsim <data rows> <sim counts>`, `c16_cells <data rows> <count rows>` (binary_spatial_likelihood),
    `c16_mode <S|CL|B> <data rows> <count rows> <simulated arrays ;-separated or ->` (observed then every simulated). -/
namespace Drive.C16
open Proto BinaryBrier

def parseNat? (s : String) : Option Nat := s.toNat?

/-- rows of uniform numbers: `R` followed by `;`-separated comma lists (`-` = a row without numbers); `R` alone = no row -/
def parseRows? (s : String) : Option (List (List Rat)) :=
  if s.startsWith "R" then
    let rest := (s.drop 1).toString
    if rest = "" then some [] else (rest.splitOn ";").mapM (parseList? parseRat?)
  else none

def showOut (o : Option (TestOut Float)) : String :=
  match o with
  | none => "exception"
  | some out =>
    " ".intercalate (showFloat out.obs :: out.sims.map showFloat) ++ " | " ++ s!"{out.q.1}/{out.q.2}" ++ " | " ++
      (if out.arrays.isEmpty then "-" else ";".intercalate (out.arrays.map (showList toString)))

/-- `c:b` with `-1` for none (an event's cell / magnitude-bin lookups) -/
def parseEv? (s : String) : Option Gridding.Ev :=
  match s.splitOn ":" with
  | [c, b] => do
      let ci ← c.toInt?
      let bi ← b.toInt?
      some ⟨if ci < 0 then none else some ci.toNat, if bi < 0 then none else some bi.toNat⟩
  | _ => none

def parseMask? (s : String) : Option Bool :=
  if s = "1" then some true else if s = "0" then some false else none

def showMa (m : Ma.MArr Float) : String :=
  showList showFloat (m.map (·.data)) ++ " " ++ showList (fun b => if b then "1" else "0") (m.map (·.mask))

def handle : List String → Option String
  -- c16_ma <where|neg|exp|rsub|log|rmul> <data bits> <mask 0/1> <y bits|-> : ONE numpy.ma primitive on a masked array
  | ["c16_ma", op, ds, ms, ys] => some (match parseList? parseFloat? ds, parseList? parseMask? ms, parseList? parseFloat? ys with
      | some ds, some ms, some ys =>
        if ds.length ≠ ms.length then "bad-op" else
        let m : Ma.MArr Float := (ds.zip ms).map (fun p => ⟨p.1, p.2⟩)
        (match op with
         | "where" => showMa (Ma.maskedWhereLe0 ds)
         | "neg" => showMa (Ma.neg m)
         | "exp" => showMa (Ma.exp m)
         | "rsub" => showMa (Ma.rsubOne m)
         | "log" => showMa (Ma.log m)
         | "rmul" => if ys.length ≠ ds.length then "bad-op" else showMa (Ma.rmulArr ys m)
         | "filled0" => showList showFloat (Ma.filled0 m)
         | _ => "bad-op")
      | _, _, _ => "bad-op")
  -- c16_bll_ma <rates> <counts> : binary_joint_log_likelihood_ndarray as the composition of the numpy.ma primitives
  | ["c16_bll_ma", rs, cs] => some (match parseList? parseFloat? rs, parseList? parseNat? cs with
      | some rs, some cs =>
        if rs.length ≠ cs.length then "bad-op" else showFloat (Ma.binaryLLMa (α := Float) (rs.zip cs))
      | _, _ => "bad-op")
  -- c16_publicN <S|CL|B> <ncell> <nbin> <rates n/d> <rates bits> <events> <num_simulations> <rows> : num_simulations given
  --   separately from the injected rows (the first num_simulations rows are read)
  | ["c16_publicN", m, nc, nb, rq, rb, evs, k, rows] =>
      some (match nc.toNat?, nb.toNat?, parseList? parseRat? rq, parseList? parseFloat? rb, parseList? parseEv? evs,
                  k.toNat?, parseRows? rows with
      | some nc, some nb, some rq, some rb, some evs, some k, some rows =>
        if rq.length ≠ rb.length then "bad-op" else
        let pm : Option PMode := match m with | "S" => some .S | "CL" => some .CL | "B" => some .B | _ => none
        (match pm with
         | none => "bad-op"
         | some pm => (match publicBinaryTestN (α := Float) pm rq rb nc nb evs k rows with
             | .error .outside => "error-outside"
             | .error .belowMin => "error-below-min"
             | .ok o => showOut o))
      | _, _, _, _, _, _, _ => "bad-op")
  -- c16_public <S|CL|B> <ncell> <nbin> <rates n/d> <rates bits> <events c:b,…> <rows> : a public test on a catalog given by
  --   its events' (cell, magnitude-bin) lookups: C03 gridding -> observed array -> the whole test
  | ["c16_public", m, nc, nb, rq, rb, evs, rows] =>
      some (match nc.toNat?, nb.toNat?, parseList? parseRat? rq, parseList? parseFloat? rb, parseList? parseEv? evs,
                  parseRows? rows with
      | some nc, some nb, some rq, some rb, some evs, some rows =>
        if rq.length ≠ rb.length then "bad-op" else
        let pm : Option PMode := match m with | "S" => some .S | "CL" => some .CL | "B" => some .B | _ => none
        (match pm with
         | none => "bad-op"
         | some pm => (match publicBinaryTest (α := Float) pm rq rb nc nb evs rows with
             | .error .outside => "error-outside"
             | .error .belowMin => "error-below-min"
             | .ok o => showOut o))
      | _, _, _, _, _, _ => "bad-op")
  | ["c16_bll", rs, cs] => some (match parseList? parseFloat? rs, parseList? parseNat? cs with
      | some rs, some cs =>
        if rs.length ≠ cs.length then "bad-op" else showFloat (binaryLL (α := Float) (rs.zip cs))
      | _, _ => "bad-op")
  | ["c16_brier", ds, rs, cs] => some (match parseList? parseNat? ds, parseList? parseFloat? rs, parseList? parseNat? cs with
      | some ds, some rs, some cs =>
        if rs.length ≠ cs.length then "bad-op" else showFloat (brier (α := Float) ds (rs.zip cs))
      | _, _, _ => "bad-op")
  | ["c16_test", m, d, c] => some (match parseList2? parseFloat? d, parseList2? parseNat? c with
      | some d, some c =>
        (match m with
         | "S" => showFloat (binarySpatialStat (α := Float) d c)
         | "CL" => showFloat (binaryCLStat (α := Float) d c)
         | "BO" => showFloat (brierObsStat (α := Float) d c)
         | _ => "bad-op")
      | _, _ => "bad-op")
  | ["c16_mode", m, d, c, sims] =>
      some (match parseList2? parseFloat? d, parseList2? parseNat? c, parseList2? parseNat? sims with
      | some d, some c, some sims =>
        (match m with
         | "S" => " ".intercalate (showFloat (binarySpatialStat (α := Float) d c)
                    :: sims.map (fun s => showFloat (binarySpatialSim (α := Float) d s)))
         | "CL" => " ".intercalate (showFloat (binaryCLStat (α := Float) d c)
                    :: sims.map (fun s => showFloat (binaryCLSim (α := Float) d s)))
         | "B" => " ".intercalate (showFloat (brierObsStat (α := Float) d c)
                    :: sims.map (fun s => showFloat (brierSimStat (α := Float) d s)))
         | _ => "bad-op")
      | _, _, _ => "bad-op")
  | ["c16_cells", d, c] => some (match parseList2? parseFloat? d, parseList2? parseNat? c with
      | some d, some c => showList showFloat (binarySpatialMap (α := Float) d c)
      | _, _ => "bad-op")
  -- c16_pipe <L|B> <dims> <rates n/d> <rates bits> <counts> <rows> : the whole test from rates, counts and uniform numbers
  | ["c16_pipe", m, ds, rq, rb, cs, rows] =>
      some (match parseList? parseNat? ds, parseList? parseRat? rq, parseList? parseFloat? rb, parseList? parseNat? cs,
                  parseRows? rows with
      | some ds, some rq, some rb, some cs, some rows =>
        if rq.length ≠ rb.length ∨ rq.length ≠ cs.length then "bad-op" else
        (match m with
         | "L" => showOut (binaryLikelihoodTest (α := Float) rq rb cs rows)
         | "B" => showOut (brierScoreTest (α := Float) rq rb ds cs rows)
         | _ => "bad-op")
      | _, _, _, _, _ => "bad-op")
  -- c16_stream <L|B> <dims> <rates n/d> <rates bits> <counts> <nsim> <stream n/d> : the default random path
  | ["c16_stream", m, ds, rq, rb, cs, k, st] =>
      some (match parseList? parseNat? ds, parseList? parseRat? rq, parseList? parseFloat? rb, parseList? parseNat? cs,
                  k.toNat?, parseList? parseRat? st with
      | some ds, some rq, some rb, some cs, some k, some st =>
        if rq.length ≠ rb.length ∨ rq.length ≠ cs.length then "bad-op" else
        (match m with
         | "L" => showOut (binaryLikelihoodTestStream (α := Float) rq rb cs k st)
         | "B" => showOut (brierScoreTestStream (α := Float) rq rb ds cs k st)
         | _ => "bad-op")
      | _, _, _, _, _, _ => "bad-op")
  | ["c16_bsim", d, c] => some (match parseList2? parseFloat? d, parseList? parseNat? c with
      | some d, some c => showFloat (brierSimStat (α := Float) d c)
      | _, _ => "bad-op")
  | _ => none
end Drive.C16
