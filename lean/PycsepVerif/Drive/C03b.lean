import PycsepVerif.Proto
import PycsepVerif.Drive.C03
import PycsepVerif.Drive.C17
import PycsepVerif.Model.QuadGridding
import PycsepVerif.Model.GriddingFloat
import PycsepVerif.Model.GriddingText
/-!
  Driver ops of C03, round 4.
    c03_quadkeys <keys> <pts> <mags> <edges>   quadtree grid given by its QUADKEYS (C17's model), events in unit coordinates
      → `sc:… sep:… mc:… smc:<E|rows>` — the same four arrays as `c03_quad`, which takes the grid as rows of `region.bounds`
    c03_cartf <xs> <ys> <is> <js> <flags> <lons> <lats> <mags> <edges> <tol|none>    the FLOAT-faithful pipelines (`Model/GriddingFloat.lean`):
    c03_quadf <b0> <b1> <b2> <b3> <lons> <lats> <mags> <edges> <tol|none>            lookups by `Bin1d.bin1dF` (binary64, `tol=`), band included
      → `sc:<E|…> sep:<E|…> mc:… smc:<E|rows> fl:<per bin the count of the equivalent range filter>`
    c03_viatext <x>                      → `float(str(x))` of the model (`viaText`), a rational
    c03_npsem add <n> <idx>              → `numpy.add.at(zeros(n), idx, 1)` as the model folds it (`addAt`)
    c03_npsem set <n> <idx>              → `out = zeros(n); out[idx] = 1` (`setAt`)
    c03_npsem pairs <ncell> <nbin> <iloc> <imag, -1 allowed>   → `numpy.add.at(zeros((ncell, nbin)), (iloc, imag), 1)` (`addAtPairs`) or `E`
-/
namespace Drive.C03b
open Proto Gridding Quadtree QuadGridding Drive.C03

def parseTol? (s : String) : Option (Option Rat) :=
  if s = "none" then some none else (parseRat? s).map some

def handle : List String → Option String
  | ["c03_quadkeys", keys, pts, mags, edges] => some (
      match parseList? Drive.C17.parseKey? keys, Drive.C17.parsePts? pts, parseList? parseRat? mags, parseList? parseRat? edges with
      | some ks, some ps, some mags, some edges =>
        let evs := evsOn ks edges (ps.zip mags)
        s!"sc:{showNats (spatialCountsOn ks ps)} sep:{showNats (probabilityOn ks ps)} mc:{showNats (magnitudeCounts edges.length (evs.map (·.bin)))} smc:{showE showRows (smcOn ks edges (ps.zip mags))}"
      | _, _, _, _ => "bad-op")
  | ["c03_cartf", xs, ys, is, js, fl, lons, lats, mags, edges, tol] => some (
      match parseList? parseRat? xs, parseList? parseRat? ys, parseList? Drive.C01.parseNat? is,
            parseList? Drive.C01.parseNat? js, parseList? Drive.C01.parseNat? fl, parseList? parseRat? lons,
            parseList? parseRat? lats, parseList? parseRat? mags, parseList? parseRat? edges, parseTol? tol with
      | some xs, some ys, some is, some js, some fl, some lons, some lats, some mags, some edges, some tol =>
        let R := Region.Region.new xs ys (Drive.C01.topOf xs) (Drive.C01.topOf ys) (Drive.C01.mkCells is js fl)
        let evs := evsCartF R tol edges (zip3 lons lats mags)
        let n := R.cells.length
        let locs := evs.map (·.cell)
        s!"sc:{showE showNats (spatialCountsCart n locs)} sep:{showE showNats (spatialEventProbabilityCart n locs)} mc:{showNats (magnitudeCounts edges.length (evs.map (·.bin)))} smc:{showE showRows (smcCart n edges.length evs)} fl:{showNats ((List.range edges.length).map (filterCount edges mags))}"
      | _, _, _, _, _, _, _, _, _, _ => "bad-op")
  | ["c03_quadf", b0, b1, b2, b3, lons, lats, mags, edges, tol] => some (
      match parseList? parseRat? b0, parseList? parseRat? b1, parseList? parseRat? b2, parseList? parseRat? b3,
            parseList? parseRat? lons, parseList? parseRat? lats, parseList? parseRat? mags,
            parseList? parseRat? edges, parseTol? tol with
      | some b0, some b1, some b2, some b3, some lons, some lats, some mags, some edges, some tol =>
        let bounds := zip4 b0 b1 b2 b3
        let evs := evsQuadF bounds tol edges (zip3 lons lats mags)
        let n := bounds.length
        let locs := evs.map (·.cell)
        s!"sc:{showNats (spatialCountsQuad n locs)} sep:{showNats (spatialEventProbabilityQuad n locs)} mc:{showNats (magnitudeCounts edges.length (evs.map (·.bin)))} smc:{showE showRows (smcQuad n edges.length evs)} fl:{showNats ((List.range edges.length).map (filterCount edges mags))}"
      | _, _, _, _, _, _, _, _, _ => "bad-op")
  | ["c03_viatext", x] => some (match parseRat? x with
      | some x => showRat (viaText x)
      | none => "bad-op")
  | ["c03_npsem", "add", n, idx] => some (match n.toNat?, parseList? String.toNat? idx with
      | some n, some idx => showNats (addAt (zeros n) idx)
      | _, _ => "bad-op")
  | ["c03_npsem", "set", n, idx] => some (match n.toNat?, parseList? String.toNat? idx with
      | some n, some idx => showNats (setAt (zeros n) idx)
      | _, _ => "bad-op")
  | ["c03_npsem", "pairs", nc, nb, iloc, imag] => some (
      match nc.toNat?, nb.toNat?, parseList? String.toNat? iloc, parseList? String.toInt? imag with
      | some nc, some nb, some iloc, some imag =>
        (match addAtPairs (List.replicate nc (zeros nb)) nb iloc (imag.map fun i => if i < 0 then none else some i.toNat) with
         | .ok M => showRows M
         | .error _ => "E")
      | _, _, _, _ => "bad-op")
  | _ => none
end Drive.C03b
