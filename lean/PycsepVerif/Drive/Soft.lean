import PycsepVerif.Proto
import PycsepVerif.Soft64
/-! driver ops that expose the Soft64 primitives (validated against numpy on every run) -/
namespace Drive.Soft
open Proto

def bin (f : Rat → Rat → Rat) (a b : String) : Option String :=
  match parseRat? a, parseRat? b with
  | some a, some b => some (showRat (f a b))
  | _, _ => some "bad-op"

def handle : List String → Option String
  | ["fl64", x] => some (match parseRat? x with | some r => showRat (Soft64.fl64 r) | none => "bad-op")
  | ["fl32", x] => some (match parseRat? x with | some r => showRat (Soft64.fl32 r) | none => "bad-op")
  | ["fadd", a, b] => bin Soft64.fadd a b
  | ["fsub", a, b] => bin Soft64.fsub a b
  | ["fmul", a, b] => bin Soft64.fmul a b
  | ["fdiv", a, b] => match parseRat? b with
      | some 0 => some "bad-op"
      | _ => bin Soft64.fdiv a b
  | ["cumsum", xs] => some (match parseList? parseRat? xs with
      | some xs => showList showRat (Soft64.cumsumF xs) | none => "bad-op")
  | _ => none
end Drive.Soft
