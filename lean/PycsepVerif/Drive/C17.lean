import PycsepVerif.Proto
import PycsepVerif.RealOps
import PycsepVerif.Model.Quadtree
import PycsepVerif.Model.QuadCartesian
/-!
  Driver ops for C17 (all prefixed `c17_`).
    c17_single z                      → quadkeys of from_single_resolution(z), comma separated
    c17_refine thr zoom pts           → `key:count` of from_catalog(pts, thr, zoom), comma separated
    c17_locate keys pts               → per point: index of `_find_location`, or `n`
    c17_getindex keys pts             → get_index_of on an array (unlocated points dropped)
    c17_bounds keys                   → per key `xW:xE:yN:yS` (unit-square edges; lon = 360 x − 180)
    c17_area keys                     → per key the Float area in km² (bit pattern), R = 6371, s = tanh(π(1−2y))
    c17_cartesian keys                → `xs|ys|rows` of get_cartesian(arange(n)): unit west edges, unit south edges (latitude
                                        ascending), rows `;`-separated of cell indices; or `E:noCell`
  keys: `0213,31,...` or `-`;  pts: `x,y;x,y;...` (rationals) or `-`.
-/
namespace Drive.C17
open Proto Quadtree

def parseKey? (s : String) : Option Key :=
  s.toList.mapM (fun c => match c with
    | '0' => some (0 : Digit) | '1' => some 1 | '2' => some 2 | '3' => some 3 | _ => none)

def showKey (k : Key) : String := String.ofList (k.map (fun d => Char.ofNat (48 + d.val)))

def parsePts? (s : String) : Option (List Pt) := do
  let rows ← parseList2? parseRat? s
  rows.mapM (fun r => match r with | [x, y] => some ⟨x, y⟩ | _ => none)

def ratToFloat (r : Rat) : Float := Float.ofInt r.num / Float.ofNat r.den

local instance : NatCast Float := ⟨Float.ofNat⟩

def pi : Float := 3.141592653589793
/-- sin(atan(sinh u)) = tanh u, u = π (1 − 2y) -/
def sinLat (y : Rat) : Float := Float.tanh (pi * (1.0 - 2.0 * ratToFloat y))
def areaKm2 (k : Key) : Float := area (2.0 * pi * (6371.0 * 6371.0)) sinLat k

def handle : List String → Option String
  | ["c17_single", z] => some (match z.toNat? with
      | some z => showList showKey (singleRes z) | none => "bad-op")
  | ["c17_refine", thr, zoom, pts] => some (match thr.toNat?, zoom.toNat?, parsePts? pts with
      | some t, some z, some ps => showList (fun (l : Key × Nat) => s!"{showKey l.1}:{l.2}") (fromCatalog t z ps)
      | _, _, _ => "bad-op")
  | ["c17_locate", keys, pts] => some (match parseList? parseKey? keys, parsePts? pts with
      | some ks, some ps => showList (fun p => match findLocation ks p with | some i => toString i | none => "n") ps
      | _, _ => "bad-op")
  | ["c17_getindex", keys, pts] => some (match parseList? parseKey? keys, parsePts? pts with
      | some ks, some ps => showList toString (getIndexOf ks ps)
      | _, _ => "bad-op")
  | ["c17_bounds", keys] => some (match parseList? parseKey? keys with
      | some ks => showList (fun k => s!"{showRat (xW k)}:{showRat (xE k)}:{showRat (yN k)}:{showRat (yS k)}") ks
      | none => "bad-op")
  | ["c17_cartesian", keys] => some (match parseList? parseKey? keys with
      | some ks =>
        match getCartesian ks (List.range ks.length) with
        | .error .noCell => "E:noCell"
        | .error .length => "E:length"
        | .ok G =>
          let rows := ";".intercalate (G.map fun r => ",".intercalate (r.map fun o => match o with
            | some k => toString k | none => "n"))
          s!"{showList showRat (cartXs ks)}|{showList showRat (cartYs ks)}|{rows}"
      | none => "bad-op")
  | ["c17_area", keys] => some (match parseList? parseKey? keys with
      | some ks => showList (fun k => showFloat (areaKm2 k)) ks
      | none => "bad-op")
  | _ => none
end Drive.C17
