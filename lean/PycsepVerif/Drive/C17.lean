import PycsepVerif.Proto
import PycsepVerif.RealOps
import PycsepVerif.Model.Quadtree
import PycsepVerif.Model.QuadCartesian
import PycsepVerif.Model.QuadtreeGeo
/-!
  Driver ops for C17 (all prefixed `c17_`).
    c17_single z                      → quadkeys of from_single_resolution(z), comma separated
    c17_refine thr zoom pts           → `key:count` of from_catalog(pts, thr, zoom), comma separated
    c17_locate keys pts               → per point: index of `_find_location`, or `n`
    c17_getindex keys pts             → get_index_of on an array (unlocated points dropped)
    c17_bounds keys                   → per key `xW:xE:yN:yS` (unit-square edges; lon = 360 x − 180)
    c17_area keys                     → per key the Float area in km² (bit pattern), R = 6371, s = tanh(π(1−2y))
    c17_cartesian keys                → `xs|ys|rows` of get_cartesian(arange(n)): unit west edges, unit south edges (latitude
                                        ascending), rows `;`-separated of cell indices; or `E:noCell`
    c17_geoarea lon1 lat1 lon2 lat2   → bits of the CODE-SHAPED geographical_area_from_bounds in Float (args: bit patterns)
    c17_cellarea keys                 → per key bits of get_cell_area through the code-shaped function on the Float Mercator bounds
    c17_mercbounds keys               → per key `w:s:e:n` bits of mercLon / mercLat in Float (quadtree_grid_bounds row)
    c17_bbox keys                     → `minXW:maxXE:maxYS:minYN` (unit-square rationals) or `E` (empty grid)
    c17_origins keys                  → per key `xW:yS`
    c17_locationof keys idx           → keys of get_location_of(idx) or `E` (IndexError); idx `i,j,…`
    c17_masked keys pts               → get_masked: per point `1` (in no cell) / `0`
    c17_filterspatial keys pts        → indices (into pts) of the events filter_spatial keeps
    c17_savekeys keys                 → lines of save_quadtree joined by `|`
    c17_loadkeys line|line|…          → keys parsed from text lines (`-` = no line) or `E` (a character outside 0..3)
  keys: `0213,31,...` or `-`;  pts: `x,y;x,y;...` (rationals) or `-`.
-/
namespace Drive.C17
open Proto Quadtree

def parseKey? (s : String) : Option Key :=
  s.toList.mapM (fun c => match c with
    | '0' => some (0 : Digit) | '1' => some 1 | '2' => some 2 | '3' => some 3 | _ => none)

def showKey (k : Key) : String := String.ofList (k.map (fun d => Char.ofNat (48 + d.val)))

def parsePts? (s : String) : Option (List Pt) := do
  let rows ← parseList2? parseRat? s
  rows.mapM (fun r => match r with | [x, y] => some ⟨x, y⟩ | _ => none)

def ratToFloat (r : Rat) : Float := Float.ofInt r.num / Float.ofNat r.den

local instance : NatCast Float := ⟨Float.ofNat⟩

def pi : Float := 3.141592653589793
/-- sin(atan(sinh u)) = tanh u, u = π (1 − 2y) -/
def sinLat (y : Rat) : Float := Float.tanh (pi * (1.0 - 2.0 * ratToFloat y))
def areaKm2 (k : Key) : Float := area (2.0 * pi * (6371.0 * 6371.0)) sinLat k

/-- the Float arithmetic of geographical_area_from_bounds / mercantile.bounds -/
def floatGeo : GeoOps Float where
  sub := (· - ·)
  mul := (· * ·)
  div := (· / ·)
  lit := Float.ofNat
  cos := Float.cos
  sinh := Float.sinh
  atan := Float.atan
  pi := pi
  beq := fun a b => a == b

def showRow (b : Float × Float × Float × Float) : String :=
  s!"{showFloat b.1}:{showFloat b.2.1}:{showFloat b.2.2.1}:{showFloat b.2.2.2}"

def handle2 : List String → Option String
  | ["c17_geoarea", a, b, c, d] => some (match parseFloat? a, parseFloat? b, parseFloat? c, parseFloat? d with
      | some a, some b, some c, some d => showFloat (geoAreaFromBounds floatGeo a b c d)
      | _, _, _, _ => "bad-op")
  | ["c17_cellarea", keys] => some (match parseList? parseKey? keys with
      | some ks => showList (fun k => showFloat (cellAreaGeo floatGeo ratToFloat k)) ks
      | none => "bad-op")
  | ["c17_mercbounds", keys] => some (match parseList? parseKey? keys with
      | some ks => showList (fun k => showRow (boundsRow floatGeo ratToFloat k)) ks
      | none => "bad-op")
  | ["c17_bbox", keys] => some (match parseList? parseKey? keys with
      | some ks => (match getBbox ks with
        | some (a, b, c, d) => s!"{showRat a}:{showRat b}:{showRat c}:{showRat d}"
        | none => "E")
      | none => "bad-op")
  | ["c17_origins", keys] => some (match parseList? parseKey? keys with
      | some ks => showList (fun k => s!"{showRat (originOf k).x}:{showRat (originOf k).y}") ks
      | none => "bad-op")
  | ["c17_locationof", keys, idx] => some (match parseList? parseKey? keys, parseList? String.toNat? idx with
      | some ks, some is => (match getLocationOf ks is with
        | some out => showList showKey out
        | none => "E")
      | _, _ => "bad-op")
  | ["c17_masked", keys, pts] => some (match parseList? parseKey? keys, parsePts? pts with
      | some ks, some ps => showList (fun b => if b then "1" else "0") (getMasked ks ps)
      | _, _ => "bad-op")
  | ["c17_filterspatial", keys, pts] => some (match parseList? parseKey? keys, parsePts? pts with
      | some ks, some ps =>
        -- events are identified by their position: tag each point with its index through a parallel filter
        let kept := ((List.range ps.length).zip (getMasked ks ps)).filterMap (fun im => if im.2 then none else some im.1)
        if (filterSpatial ks ps).length = kept.length then showList toString kept else "inconsistent"
      | _, _ => "bad-op")
  | ["c17_savekeys", keys] => some (match parseList? parseKey? keys with
      | some ks => "|".intercalate ((saveLines ks).map String.ofList)
      | none => "bad-op")
  | ["c17_loadkeys", text] =>
      let lines := if text = "-" then [] else (text.splitOn "|").map String.toList
      some (match loadLines? lines with
        | some ks => showList showKey ks
        | none => "E")
  | _ => none

def handle1 : List String → Option String
  | ["c17_single", z] => some (match z.toNat? with
      | some z => showList showKey (singleRes z) | none => "bad-op")
  | ["c17_refine", thr, zoom, pts] => some (match thr.toNat?, zoom.toNat?, parsePts? pts with
      | some t, some z, some ps => showList (fun (l : Key × Nat) => s!"{showKey l.1}:{l.2}") (fromCatalog t z ps)
      | _, _, _ => "bad-op")
  | ["c17_locate", keys, pts] => some (match parseList? parseKey? keys, parsePts? pts with
      | some ks, some ps => showList (fun p => match findLocation ks p with | some i => toString i | none => "n") ps
      | _, _ => "bad-op")
  | ["c17_getindex", keys, pts] => some (match parseList? parseKey? keys, parsePts? pts with
      | some ks, some ps => showList toString (getIndexOf ks ps)
      | _, _ => "bad-op")
  | ["c17_bounds", keys] => some (match parseList? parseKey? keys with
      | some ks => showList (fun k => s!"{showRat (xW k)}:{showRat (xE k)}:{showRat (yN k)}:{showRat (yS k)}") ks
      | none => "bad-op")
  | ["c17_cartesian", keys] => some (match parseList? parseKey? keys with
      | some ks =>
        match getCartesian ks (List.range ks.length) with
        | .error .noCell => "E:noCell"
        | .error .length => "E:length"
        | .ok G =>
          let rows := ";".intercalate (G.map fun r => ",".intercalate (r.map fun o => match o with
            | some k => toString k | none => "n"))
          s!"{showList showRat (cartXs ks)}|{showList showRat (cartYs ks)}|{rows}"
      | none => "bad-op")
  | ["c17_area", keys] => some (match parseList? parseKey? keys with
      | some ks => showList (fun k => showFloat (areaKm2 k)) ks
      | none => "bad-op")
  | _ => none

def handle (args : List String) : Option String :=
  match handle1 args with
  | some r => some r
  | none => handle2 args
end Drive.C17
