import PycsepVerif.Proto
import PycsepVerif.GeneratedSrcSM
import PycsepVerif.Drive.C12
import PycsepVerif.Drive.C04
import PycsepVerif.GeneratedSrc
import PycsepVerif.Drive.C10
/-! driver ops `srcsm_<f>`: the definitions generated from the imperative / stateful Python source (GeneratedSrcSM.lean),
    made executable so that harness/src_tie_sm.py can compare them with the real Python functions (validation of
    py2lean_sm.py and PyPreludeSM.lean). Results: `ok <value…>` or `err <exception>`. -/
namespace Drive.SrcSM
open Proto

def showExc : PySM.Exc → String
  | .py .valueError => "ValueError" | .py .indexError => "IndexError" | .py .assertionError => "AssertionError"
  | .py .other => "Exception" | .stopIteration => "StopIteration" | .typeError => "TypeError"
  | .attributeError => "AttributeError" | .keyError => "KeyError" | .osError => "OSError" | .runtimeError => "RuntimeError"
  | .rngExhausted => "rng-exhausted" | .outOfFuel => "out-of-fuel"

def showM {β : Type} (f : β → String) : PySM.M β → String
  | .ok b => "ok " ++ f b
  | .error e => "err " ++ showExc e

def showNats (l : List Nat) : String := showList toString l

/-! ### C12: the instantiation of the opaque parameters of `SrcSM.load_ascii_catalogs` at the row level of the hand model
    (shared with the theorem `SrcSM.load_ascii_catalogs_eq_model`, SourceSM/C12.lean) -/
namespace C12
open AsciiCatalogs

/-- `temp_event` as the tuple the Python code builds: (event_id, origin_time, lat, lon, depth, magnitude) -/
abbrev EvT := String × Option Int × Option Rat × Option Rat × Option Rat × Option Rat

def toT (e : Ev) : EvT := (e.eventId, e.time, e.lat, e.lon, e.depth, e.mag)
def ofT (t : EvT) : Ev := ⟨t.1, t.2.1, t.2.2.1, t.2.2.2.1, t.2.2.2.2.1, t.2.2.2.2.2⟩

/-- `is_header_line(line)` at row level -/
def isHeader : Line → Bool
  | .header => true
  | .row _ => false

/-- `read_catalog_line(line)` at row level: `int(line[5])` raises ValueError on a header line -/
def readLine : Line → PySM.M (EvT × Int)
  | .header => .error (.py .valueError)
  | .row r => .ok (toT r.ev, r.catId)

/-- `cls(data=evs, catalog_id=i, **kwargs)` -/
def mkCat (evs : List EvT) (i : Option Int) : Catalog := ⟨i, evs.map ofT⟩

def showResult : PySM.M (List Catalog) → String
  | .ok cs => "ok:" ++ ";".intercalate (cs.map Drive.C12.showCat)
  | .error e => "err:" ++ showExc e
end C12

/-! ### C04 `filter`: the structured dtype of a catalog at row level of the hand model (shared with SourceSM/C04F.lean) -/
namespace C04F
open CatFilter

/-- the numeric fields of `CSEPCatalog.dtype` as float64 values (`origin_time` is int64, converted) -/
def fieldOf : String → Option (Event → Rat)
  | "origin_time" => some (fun e => (e.originTime : Rat))
  | "latitude" => some (fun e => e.latitude)
  | "longitude" => some (fun e => e.longitude)
  | "depth" => some (fun e => e.depth)
  | "magnitude" => some (fun e => e.magnitude)
  | _ => none

def aname : Attr → String
  | .originTime => "origin_time" | .latitude => "latitude" | .longitude => "longitude" | .depth => "depth"
  | .magnitude => "magnitude"

def oname : Op → String
  | .gt => ">" | .lt => "<" | .ge => ">=" | .le => "<=" | .eq => "=="
end C04F

namespace C03
/-- result of the region lookup of the real run: `ok:<indices>` or `err` (ValueError) -/
def parseRes? (s : String) : Option (PySM.M (List Nat)) :=
  if s = "err" then some (.error (.py .valueError))
  else match s.splitOn ":" with
    | ["ok", l] => (parseList? String.toNat? l).map .ok
    | _ => none
end C03

def handle : List String → Option String
  -- srcsm_simulate_catalog <n> <weights> <sim_fore> <draws>
  | ["srcsm_simulate_catalog", n, ws, sf, ds] => some (
      match n.toNat?, parseList? parseRat? ws, parseList? String.toNat? sf, parseList? parseRat? ds with
      | some n, some ws, some sf, some ds => showM showNats (SrcSM.simulate_catalog n ws sf ds)
      | _, _, _, _ => "bad-op")
  | ["srcsm_simulate_catalog_binary_injected", n, ws, sf, ds] => some (
      match n.toNat?, parseList? parseRat? ws, parseList? String.toNat? sf, parseList? parseRat? ds with
      | some n, some ws, some sf, some ds => showM showNats (SrcSM.simulate_catalog_binary_injected n ws sf ds)
      | _, _, _, _ => "bad-op")
  -- srcsm_simulate_catalog_rand <stream> <n> <weights> <sim_fore> : array and number of unused stream elements
  | ["srcsm_simulate_catalog_rand", rng, n, ws, sf] => some (
      match parseList? parseRat? rng, n.toNat?, parseList? parseRat? ws, parseList? String.toNat? sf with
      | some rng, some n, some ws, some sf =>
          showM (fun r => s!"{showNats r.1} {r.2.length}") (SrcSM.simulate_catalog_rand rng n ws sf)
      | _, _, _, _ => "bad-op")
  -- srcsm_simulate_catalog_binary <fuel> <stream> <n> <weights> <sim_fore>
  | ["srcsm_simulate_catalog_binary", fuel, rng, n, ws, sf] => some (
      match fuel.toNat?, parseList? parseRat? rng, n.toNat?, parseList? parseRat? ws, parseList? String.toNat? sf with
      | some fuel, some rng, some n, some ws, some sf =>
          showM (fun r => s!"{showNats r.1} {r.2.length}") (SrcSM.simulate_catalog_binary fuel rng n ws sf)
      | _, _, _, _, _ => "bad-op")
  -- srcsm_load_ascii_catalogs <lines> : same line format and result format as `c12_decode` (errors by exception class)
  | ["srcsm_load_ascii_catalogs", ls] => some (
      match (if ls = "-" then some [] else (ls.splitOn ";").mapM Drive.C12.parseLine?) with
      | some lines => C12.showResult (SrcSM.load_ascii_catalogs C12.isHeader C12.readLine C12.mkCat lines)
      | none => "bad-op")
  -- srcsm_apply_mct <events> <m_main> <event_epoch> <mc> <x> <10**x> <t;mct;t;mct…> : ids kept
  --   events as in `c04_mct`. The transcendental parameters are the values the real run produced: `pow` is the one-point
  --   table (10, x) ↦ 10**x (anything else ↦ 0: a different exponent computed by the Lean definition shows up as a
  --   disagreement), `compute_mct` the table t ↦ mct of the recorded calls (a missing t ↦ 0); `days_to_millis` /
  --   `millis_to_days` are their float formulas (time_utils.py:56-62)
  | ["srcsm_apply_mct", ev, mMain, epoch, mc, x, tcd, tbl] => some (
      match Drive.C04.parseSemi? Drive.C04.parseEvent? ev, parseRat? mMain, parseInt? epoch, parseRat? mc, parseRat? x,
            parseRat? tcd, (if tbl = "-" then some [] else (tbl.splitOn ";").mapM parseRat?) with
      | some ev, some mMain, some epoch, some mc, some x, some tcd, some tbl =>
        let pow : Rat → Rat → Rat := fun a b => if a = 10 ∧ b = x then tcd else 0
        let d2m : Rat → Rat := fun d => Soft64.fmul (Soft64.fmul d 86400) 1000
        let m2d : Int → Rat := fun dt => Soft64.fdiv (Soft64.fdiv (Py.i2f dt) 86400) 1000
        let rec look : List Rat → Rat → Rat
          | t :: v :: rest, q => if t = q then v else look rest q
          | _, _ => 0
        let cmct : Rat → Rat → Rat := fun t _ => look tbl t
        showM Drive.C04.showEvIds
          (SrcSM.apply_mct pow d2m m2d cmct CatFilter.Event.originTime CatFilter.Event.magnitude ev mMain epoch mc)
      | _, _, _, _, _, _, _ => "bad-op")
  -- srcsm_create_tile_fix_len <fuel> <quadk> <zoom> <qk> : final qk
  | ["srcsm_create_tile_fix_len", fuel, q, zoom, qk] => some (
      match fuel.toNat?, parseInt? zoom, parseList? some qk with
      | some fuel, some zoom, some qk => showM (showList id) (SrcSM.create_tile_fix_len fuel q zoom qk)
      | _, _, _ => "bad-op")
  -- srcsm_create_tile <fuel> <quadk> <threshold> <zoom> <lon> <lat> <qk> <num> <quadkey:w:s:e:n;…> : final qk | final num
  --   `mercantile.quadkey_to_tile` = identity on the quadkey, `mercantile.bounds` = the table of the recorded calls
  | ["srcsm_create_tile", fuel, q, thr, zoom, lon, lat, qk, num, tbl] => some (
      let row? : String → Option (String × Rat × Rat × Rat × Rat) := fun r =>
        match r.splitOn ":" with
        | [k, w, s, e, n] => do some (k, ← parseRat? w, ← parseRat? s, ← parseRat? e, ← parseRat? n)
        | _ => none
      match fuel.toNat?, parseInt? thr, parseInt? zoom, parseList? parseRat? lon, parseList? parseRat? lat,
            parseList? some qk, parseList? parseInt? num, (if tbl = "-" then some [] else (tbl.splitOn ";").mapM row?) with
      | some fuel, some thr, some zoom, some lon, some lat, some qk, some num, some tbl =>
        let bounds : String → Rat × Rat × Rat × Rat := fun k =>
          match tbl.find? (fun r => r.1 == k) with
          | some r => r.2
          | none => (0, 0, 0, 0)
        showM (fun r => s!"{showList id r.1}|{showList toString r.2}")
          (SrcSM.create_tile (Tile := String) id bounds fuel q thr zoom lon lat qk num)
      | _, _, _, _, _, _, _, _ => "bad-op")
  -- srcsm_build_bitmask_loop <ny> <nx> <npolys> <idx> <idy> <poly_mask | none> : the final array, row by row, each
  --   position as `mask:index` (index `nan` where plane 1 still holds its initial nan). Initial array: plane 0 all 1,
  --   plane 1 all nan (stand-in −1: polygon numbers are ≥ 0)
  | ["srcsm_build_bitmask_loop", ny, nx, np, idx, idy, pm] => some (
      match ny.toNat?, nx.toNat?, np.toNat?, parseList? parseInt? idx, parseList? parseInt? idy,
            (if pm = "none" then some none else (parseList? parseInt? pm).map some) with
      | some ny, some nx, some np, some idx, some idy, some pm =>
        let a0 : PySM.NdArr Rat := { shape := [ny, nx, 2], get := fun q => if q.getD 2 0 = 0 then 1 else -1 }
        showM (fun r =>
            let a := r.1
            showList (fun (q : Nat × Nat) =>
              let m := a.get [q.1, q.2, 0]
              let i := a.get [q.1, q.2, 1]
              s!"{showRat m}:{if i = -1 then "nan" else showRat i}")
              ((List.range ny).flatMap (fun r => (List.range nx).map (fun c => (r, c)))))
          (SrcSM.build_bitmask_loop (Poly := Unit) (List.replicate np (), pm) a0 idx idy [] [])
      | _, _, _, _, _, _ => "bad-op")
  -- srcsm_filter <mode> <events> <stored filters> <statements | none> <float table> <strptime table>
  --   mode = inplace | stored | new ; statements and tables travel hex-encoded (utf-8), `;`-separated, `-` = empty;
  --   float table: text=rational pairs (`float(text)` of the real run; a missing text = ValueError), strptime table:
  --   text=epoch-ms pairs. Result: `<ids kept> | <final self.filters> [| <ids of self after the call>]`
  | ["srcsm_filter", mode, ev, stored, stmts, ftbl, ttbl] => some (
      let unhex : String → Option String := fun h =>
        let cs := h.toList
        let rec go : List Char → List UInt8 → Option (List UInt8)
          | [], acc => some acc.reverse
          | a :: b :: rest, acc =>
            let d : Char → Option Nat := fun c =>
              if c.isDigit then some (c.toNat - 48) else if 'a' ≤ c ∧ c ≤ 'f' then some (c.toNat - 87) else none
            match d a, d b with
            | some x, some y => go rest (UInt8.ofNat (16 * x + y) :: acc)
            | _, _ => none
          | _, _ => none
        (go cs []).bind (fun bs => String.fromUTF8? (ByteArray.mk bs.toArray))
      let strs? : String → Option (List String) := fun s => if s = "-" then some [] else (s.splitOn ";").mapM unhex
      let pairs? : String → Option (List (String × String)) := fun s =>
        if s = "-" then some [] else (s.splitOn ";").mapM (fun p => match p.splitOn "=" with
          | [k, v] => (unhex k).map (fun k => (k, v)) | _ => none)
      match Drive.C04.parseSemi? Drive.C04.parseEvent? ev, strs? stored, (if stmts = "none" then some none else (strs? stmts).map some),
            pairs? ftbl, pairs? ttbl with
      | some ev, some stored, some stmts, some ftbl, some ttbl =>
        let pf : String → PySM.M Rat := fun t => match ftbl.find? (fun p => p.1 == t) with
          | some p => (match parseRat? p.2 with | some v => .ok v | none => .error (.py .valueError))
          | none => .error (.py .valueError)
        let sp : String → PySM.M Int := fun t => match ttbl.find? (fun p => p.1 == t) with
          | some p => (match parseInt? p.2 with | some v => .ok v | none => .error (.py .valueError))
          | none => .error (.py .valueError)
        let hexs : List String → String := fun l => showList (fun (x : String) =>
          String.join (x.toUTF8.toList.map (fun b => let h := "0123456789abcdef".toList
            String.ofList [h.getD (b.toNat / 16) '0', h.getD (b.toNat % 16) '0']))) l
        match mode, stmts with
        | "inplace", some ss => showM (fun r => s!"{Drive.C04.showEvIds r.2}|{hexs r.1}") (SrcSM.filter_inplace pf sp C04F.fieldOf (stored, ev) ss)
        | "stored", none => showM (fun r => s!"{Drive.C04.showEvIds r.2}|{hexs r.1}") (SrcSM.filter_stored pf sp C04F.fieldOf (stored, ev))
        | "new", some ss =>
          showM (fun r => s!"{Drive.C04.showEvIds r.1.1}|{hexs r.1.2}|{Drive.C04.showEvIds r.2.2.1}|{hexs r.2.1}")
            (SrcSM.filter_new (Inst := List CatFilter.Event × List String) (CatId := Unit) (Fmt := Unit) (Name := Unit) (Reg := Unit)
              pf sp (fun d _ _ _ _ f => (d, f)) C04F.fieldOf (stored, ev, (), (), (), ()) ss)
        | _, _ => "bad-op"
      | _, _, _, _, _ => "bad-op")
  -- C03 gridding methods. Rows are (lon, lat, mag); the opaque lookups are the results of the real run (`ok:<indices>` or
  -- `err`), handed out only when called with exactly the columns of the catalog (else TypeError: a wrong argument shows)
  | ["srcsm_spatial_counts", lons, lats, ncell, gres] => some (
      match parseList? parseRat? lons, parseList? parseRat? lats, ncell.toNat?, C03.parseRes? gres with
      | some lons, some lats, some ncell, some gres =>
        let rows := List.zip lons (List.zip lats (lats.map (fun _ => (0 : Rat))))
        showM showNats (SrcSM.spatial_counts (Row := Rat × Rat × Rat) (Region := Nat)
          (fun a b => if a = lons ∧ b = lats then gres else .error .typeError) (fun n => (n : Int))
          (fun r => r.1) (fun r => r.2.1) (rows, ncell))
      | _, _, _, _ => "bad-op")
  | ["srcsm_magnitude_counts", mags, edges, bres] => some (
      match parseList? parseRat? mags, parseList? parseRat? edges, parseList? parseInt? bres with
      | some mags, some edges, some bres =>
        let rows := mags.map (fun m => ((0 : Rat), (0 : Rat), m))
        showM showNats (SrcSM.magnitude_counts (Row := Rat × Rat × Rat) (Region := Nat)
          (fun a b => if a = mags ∧ b = edges then bres else []) (fun r => r.2.2) (rows, 0) edges)
      | _, _, _ => "bad-op")
  | ["srcsm_spatial_magnitude_counts", lons, lats, mags, edges, ncell, gres, bres] => some (
      match parseList? parseRat? lons, parseList? parseRat? lats, parseList? parseRat? mags, parseList? parseRat? edges,
            ncell.toNat?, C03.parseRes? gres, parseList? parseInt? bres with
      | some lons, some lats, some mags, some edges, some ncell, some gres, some bres =>
        let rows := List.zip lons (List.zip lats mags)
        showM (fun (r : List (List Nat)) => if r.isEmpty then "-" else ";".intercalate (r.map showNats))
          (SrcSM.spatial_magnitude_counts (Row := Rat × Rat × Rat) (Region := Nat)
            (fun a b => if a = lons ∧ b = lats then gres else .error .typeError)
            (fun a b => if a = mags ∧ b = edges then bres else []) (fun n => (n : Int)) (fun _ => some edges)
            (fun r => r.1) (fun r => r.2.1) (fun r => r.2.2) (rows, ncell) edges)
      | _, _, _, _, _, _, _ => "bad-op")
  -- srcsm_poisson_test_loop <stream|inj> <nsim> <seed|none> <useObs 0/1> <weights> <sim_fore> <n_obs> <expected: bits>
  --   <log_bin_expectations: bits or ninf> <observed_data_nonzero> <target_event_forecast> <rng> <pois> <seeded rng>
  --   <seeded pois> <rows ;-separated | -> : `qs | obs_ll | simulated_ll | unused uniforms | unused Poisson draws`
  --   real layer at Float; `poisson_joint_log_likelihood_ndarray` is its formula (stats.py:191-195) on the prelude operations;
  --   the seeded streams are handed out for the seed of the request only
  | ["srcsm_poisson_test_loop", mode, nsim, seed, uo, ws, sf, nobs, expd, logs, odn, tef, rng, pois, srng, spois, rows] => some (
      let ell? : String → Option (ELL Float) := fun t => if t = "ninf" then some .negInf else (parseFloat? t).map .fin
      let showE : ELL Float → String := fun x => match x with | .negInf => "ninf" | .fin v => showFloat v
      match parseInt? nsim, (if seed = "none" then some none else (parseInt? seed).map some), parseList? parseRat? ws,
            parseList? String.toNat? sf, nobs.toNat?, parseFloat? expd, parseList? ell? logs, parseList? String.toNat? odn,
            parseList? ell? tef, parseList? parseRat? rng, parseList? String.toNat? pois, parseList? parseRat? srng,
            parseList? String.toNat? spois, parseList2? parseRat? rows with
      | some nsim, some seed, some ws, some sf, some nobs, some expd, some logs, some odn, some tef, some rng, some pois,
        some srng, some spois, some rows =>
        let jl : List (ELL Float) → List Nat → Float → ELL Float := fun l w e =>
          Py.esubFin (Py.esubFin (Py.esum l) (Py.rsum (w.map (fun n => (Py.loggammaSucc n : Float))))) e
        let sd : Int := match seed with | some s => s | none => 0
        let seedRng : Int → List Rat := fun s => if s = sd then srng else []
        let seedPois : Int → List Nat := fun s => if s = sd then spois else []
        let showR : (Rat × ELL Float × List (ELL Float)) → String := fun r =>
          s!"{showRat r.1}|{showE r.2.1}|{showList showE r.2.2}"
        if mode = "stream" then
          showM (fun r => s!"{showR r.1}|{r.2.1.length}|{r.2.2.length}")
            (SrcSM.poisson_test_loop jl seedRng seedPois rng pois nsim seed (uo == "1") ws sf [] nobs expd logs odn tef)
        else
          showM (fun r => s!"{showR r.1}|{r.2.length}")
            (SrcSM.poisson_test_loop_injected jl seedPois pois nsim rows seed (uo == "1") ws sf [] nobs expd logs odn tef)
      | _, _, _, _, _, _, _, _, _, _, _, _, _, _ => "bad-op")
  -- srcsm_binary_test_loop <stream|inj> <nsim> <seed|none> <weights> <sim_fore> <n_active_cells> <forecast: bits>
  --   <observed> <fuel> <rng> <seeded rng> <rows | -> : `qs | obs_ll | simulated_ll [| unused uniforms]`
  --   `binary_joint_log_likelihood_ndarray` is py2lean's generated definition (GeneratedSrc.lean) at Float
  | ["srcsm_binary_test_loop", mode, nsim, seed, ws, sf, n, fd, obs, fuel, rng, srng, rows] => some (
      match parseInt? nsim, (if seed = "none" then some none else (parseInt? seed).map some), parseList? parseRat? ws,
            parseList? String.toNat? sf, n.toNat?, parseList? parseFloat? fd, parseList? String.toNat? obs, fuel.toNat?,
            parseList? parseRat? rng, parseList? parseRat? srng, parseList2? parseRat? rows with
      | some nsim, some seed, some ws, some sf, some n, some fd, some obs, some fuel, some rng, some srng, some rows =>
        let bl : List Float → List Nat → Float := fun f c => Src.binary_joint_log_likelihood_ndarray f c
        let sd : Int := match seed with | some s => s | none => 0
        let showR : (Rat × Float × List Float) → String := fun r =>
          s!"{showRat r.1}|{showFloat r.2.1}|{showList showFloat r.2.2}"
        if mode = "stream" then
          showM (fun r => s!"{showR r.1}|{r.2.length}")
            (SrcSM.binary_test_loop (Masked := List Float) bl (fun s => if s = sd then srng else []) id fuel rng obs nsim seed
              fd ws sf [] n)
        else
          showM showR (SrcSM.binary_test_loop_injected (Masked := List Float) bl id obs nsim rows seed fd ws sf [] n)
      | _, _, _, _, _, _, _, _, _, _, _ => "bad-op")
  -- srcsm_get_expected_rates <cached 0/1> <n_cat after the pass | none> <counts of each catalog: `;`-separated, `err` = ValueError>
  --   <empty'> : the rates (rationals). A yielded catalog is the outcome of its `spatial_magnitude_counts()`; the pass hands
  --   out the list and leaves `n_cat`; the constructor keeps the data; `region.magnitudes` is not None
  | ["srcsm_get_expected_rates", cached, ncat, cats, empty] => some (
      let cat? : String → Option (PySM.M (List Nat)) := fun t =>
        if t = "err" then some (.error (.py .valueError)) else (parseList? String.toNat? t).map .ok
      match (if ncat = "none" then some none else (parseInt? ncat).map some),
            (if cats = "-" then some [] else (cats.splitOn ";").mapM cat?), parseList? String.toNat? empty with
      | some ncat, some cats, some empty =>
        showM (fun r => match r.1 with | some d => showList showRat d | none => "none")
          (SrcSM.get_expected_rates (T := Unit) (GF := List Rat) (Region := Unit) (Name := Unit) (Rest := Unit)
            (Cat := PySM.M (List Nat)) (fun _ _ d _ _ _ => d) (fun c => c) (fun c _ => c)
            (fun s => .ok (cats, (s.1, s.2.1, ncat, s.2.2.2.1, s.2.2.2.2.1, s.2.2.2.2.2.1, s.2.2.2.2.2.2)))
            (fun _ => some []) empty ((), (if cached = "1" then some [7] else none), none, (), (), (), ()))
      | _, _, _ => "bad-op")
  -- srcsm_catalog_number_test <event counts of the catalogs of the pass> <observed count> :
  --   `distribution | observed | delta_1 | delta_2`; `get_quantiles` is py2lean's generated definition
  | ["srcsm_catalog_number_test", cnts, obs] => some (
      match parseList? String.toNat? cnts, obs.toNat? with
      | some cnts, some obs =>
        let q : List Nat → Nat → Option Rat × Option Rat := fun d v =>
          Src.get_quantiles (d.map (fun (k : Nat) => (k : Rat))) (v : Rat)
        showM (fun (r : String × Unit) => r.1)
          (SrcSM.catalog_number_test (Qv := Option Rat) (Result := String) (ObsRepr := Unit) (FName := Unit) (MinMw := Unit)
            (ObsName := Unit) (Forecast := Unit) (Obs := Nat) (Cat := Nat) q
            (fun d nm o qs st _ _ _ _ => s!"{showNats d}|{o}|{showOpt showRat qs.1}|{showOpt showRat qs.2}|{nm}|{st}")
            (fun f => .ok (cnts, f)) id id (fun _ => ()) (fun _ => ()) (fun _ => ()) (fun _ => ()) () obs)
      | _, _ => "bad-op")
  -- srcsm_catalog_spatial_test <rates: bits> <expected_cond_count: bits> <observed spatial counts>
  --   <spatial counts of each catalog of the pass, `;`-separated> : `status|observed|quantile|distribution` in the format of the
  --   C10 driver. `_compute_likelihood` and `get_quantiles` are the hand model's functions at Float (tied by py2lean); the
  --   forecast has its expected rates already (the values are given), so `get_expected_rates` is not called
  | ["srcsm_catalog_spatial_test", rates, ecc, gobs, gcats] => some (
      match parseList? parseFloat? rates, parseFloat? ecc, parseList? String.toNat? gobs, parseList2? String.toNat? gcats with
      | some rates, some ecc, some gobs, some gcats =>
        let getq : List (Option (ELL Float)) → Option (ELL Float) → CatEvals.Quant × CatEvals.Quant := fun d v =>
          match v with
          | some x => (CatEvals.quantiles (d.filterMap id) x, CatEvals.quantiles (d.filterMap id) x)
          | none => (.sentinel, .sentinel)
        showM (fun (r : String × Unit) => r.1)
          (SrcSM.catalog_spatial_test (Qv := CatEvals.Quant) (Result := String) (MinMw := Unit) (ObsRepr := Unit)
            (FName := Unit) (ObsName := Unit) (Forecast := Unit) (Obs := Unit) (Cat := List Nat) (Region := Unit) (GF := Unit)
            CatEvals.computeLikelihood getq
            (fun d nm o q st _ _ _ _ =>
              s!"{st}|{showOpt Drive.C10.showELL o}|{Drive.C10.showQuant q.1}|{showList (showOpt Drive.C10.showELL) d}|{nm}")
            (fun f => .ok ((), f)) (fun _ => ecc) (fun _ => rates) (fun _ => .ok gobs) (fun c => .ok c)
            (fun _ => CatEvals.Quant.sentinel) (fun f => .ok (gcats, f)) (fun _ => some ()) (fun _ => some ())
            (fun _ => ()) (fun _ => ()) (fun _ => gobs.sum) (fun _ => ()) (fun _ => ()) () ())
      | _, _, _, _ => "bad-op")
  -- srcsm_catalog_pseudolikelihood_test <rates> <expected_cond_count> <observed spatial counts> <catalogs> <event_count of the
  --   observed catalog> : the same for `pseudolikelihood_test`; `none` when the function returns None
  | ["srcsm_catalog_pseudolikelihood_test", rates, ecc, gobs, gcats, evc] => some (
      match parseList? parseFloat? rates, parseFloat? ecc, parseList? String.toNat? gobs, parseList2? String.toNat? gcats,
            evc.toNat? with
      | some rates, some ecc, some gobs, some gcats, some evc =>
        let getq : List (Option (ELL Float)) → Option (ELL Float) → CatEvals.Quant × CatEvals.Quant := fun d v =>
          match v with
          | some x => (CatEvals.quantiles (d.filterMap id) x, CatEvals.quantiles (d.filterMap id) x)
          | none => (.sentinel, .sentinel)
        showM (fun (r : Option String × Unit) => r.1.getD "none")
          (SrcSM.catalog_pseudolikelihood_test (Qv := CatEvals.Quant) (Result := String) (MinMw := Unit) (ObsRepr := Unit)
            (FName := Unit) (ObsName := Unit) (Forecast := Unit) (Obs := Unit) (Cat := List Nat) (Region := Unit) (GF := Unit)
            (fun g r e n => (some (CatEvals.computeLikelihood g r e n).1, (CatEvals.computeLikelihood g r e n).2)) getq
            (fun d nm o q st _ _ _ _ =>
              s!"{st}|{showOpt Drive.C10.showELL o}|{Drive.C10.showQuant q.1}|{showList (showOpt Drive.C10.showELL) d}|{nm}")
            (fun f => .ok ((), f)) (fun _ => ecc) (fun _ => rates) (fun _ => .ok gobs) (fun c => .ok c)
            (fun _ => CatEvals.Quant.sentinel) (fun f => .ok (gcats, f)) (fun _ => some ()) (fun _ => some ())
            (fun _ => ()) (fun _ => ()) (fun _ => evc) (fun _ => ()) (fun _ => ()) () ())
      | _, _, _, _, _ => "bad-op")
  -- srcsm_catalog_magnitude_test <union histogram: bits> <observed magnitude counts> <magnitude counts of each catalog of the
  --   pass, `;`-separated> <event_count of the observed catalog> : `status|observed|quantile|distribution|name`;
  --   `cumulative_square_diff` and the quantiles are the hand model's functions at Float
  | ["srcsm_catalog_magnitude_test", union, hobs, mcs, evc] => some (
      match parseList? parseFloat? union, parseList? String.toNat? hobs, parseList2? String.toNat? mcs, evc.toNat? with
      | some union, some hobs, some mcs, some evc =>
        let getq : List Float → Float → CatEvals.Quant × CatEvals.Quant := fun d v =>
          (CatEvals.quantiles (d.map ELL.fin) (.fin v), CatEvals.quantiles (d.map ELL.fin) (.fin v))
        showM (fun (r : String × Unit) => r.1)
          (SrcSM.catalog_magnitude_test (Qv := CatEvals.Quant) (Result := String) (MinMw := Unit) (ObsRepr := Unit)
            (FName := Unit) (ObsName := Unit) (Forecast := Unit) (Obs := Unit) (Cat := List Nat) (Region := Unit)
            (Mags := Unit) (GF := Unit) getq CatEvals.cumulativeSquareDiff
            (fun d nm o q st _ _ _ _ =>
              s!"{st}|{showOpt showFloat o}|{match q.1 with | some q => Drive.C10.showQuant q | none => "none,none"}|{showList showFloat d}|{nm}")
            (fun f => .ok ((), f)) (fun _ => union) (fun _ => .ok hobs) (fun c => .ok c)
            (fun f => .ok (mcs, f)) (fun _ => some ()) (fun _ => some ())
            (fun _ => ()) (fun _ => ()) (fun _ => evc) (fun _ => ()) (fun _ => ()) (fun _ => some ()) () ())
      | _, _, _, _ => "bad-op")
  -- srcsm_ndk_loop <number of lines> <what each complete group does, `;`-separated: `v` = `_read_lines` raises ValueError,
  --   `o` = OSError, `t` = `_parse_datetime_to_zmap` raises ValueError, `r` = RuntimeError,
  --   `k,<epoch>,<lat>,<lng>,<depth>,<Mw>` = accepted> : the events `id:epoch:lat:lng:depth:Mw`.
  --   A line is (index of its group, position in the group); `_read_lines` looks the group up; the epoch travels in the
  --   `year` member of the dictionary and through `datetime(...)`
  | ["srcsm_ndk_loop", nlines, toks] => some (
      match nlines.toNat?, (if toks = "-" then some [] else some (toks.splitOn ";")) with
      | some n, some toks =>
        let lines : List (Nat × Nat) := (List.range n).map fun i => (i / 5, i % 5)
        let tokOf (g : List (Option (Nat × Nat))) : List String :=
          match g.head? with
          | some (some (gi, _)) => (toks.getD gi "v").splitOn ","
          | _ => ["v"]
        let rl (g : List (Option (Nat × Nat))) : PySM.M (List String) :=
          match tokOf g with
          | ["v"] => .error (.py .valueError)
          | ["o"] => .error .osError
          | t => .ok t
        let pz (d : List String) (_ : Unit) : PySM.M (List String) :=
          match d with
          | ["t"] => .error (.py .valueError)
          | ["r"] => .error .runtimeError
          | t => .ok t
        let num (t : List String) (i : Nat) : Rat := ((t.getD i "0") |> parseRat?).getD 0
        showM (showList fun (e : Nat × Int × Rat × Rat × Rat × Rat) =>
            s!"{e.1}:{e.2.1}:{showRat e.2.2.1}:{showRat e.2.2.2.1}:{showRat e.2.2.2.2.1}:{showRat e.2.2.2.2.2}")
          (SrcSM.ndk_loop (Line := Nat × Nat) (Rec := List String) (DateTok := List String) (TimeTok := Unit)
            (DtDict := List String) (Dt := Int) rl lines pz
            (fun y _ _ _ _ _ => .ok y) id id (fun _ => ())
            (fun t => num t 2) (fun t => num t 3) (fun t => num t 4) (fun t => num t 5)
            (fun t => ((t.getD 1 "0").toInt?).getD 0) (fun _ => 0) (fun _ => 0) (fun _ => 0) (fun _ => 0) (fun _ => 0) [])
      | _, _ => "bad-op")
  -- srcsm_write_ascii <old records: `;`-separated, cells `,`-separated, `-` = none> <events `;`-separated:
  --   lon,lat,mag,epoch,depth,id,time text> <catalog id | none> <write_header> <write_empty> <append> <has id column> :
  --   the records of the file after the call. A float cell is shown as its exact rational (the text of a float is the csv
  --   writer's layer), ids are bytes iff the id column exists, the time text of an epoch is looked up in the events
  | ["srcsm_write_ascii", old, evs, cid, wh, we, ap, hasid] => some (
      let recs? : String → Option (List (List String)) := fun s =>
        if s = "-" then some [] else some ((s.splitOn ";").map (·.splitOn ","))
      let ev? : String → Option (Rat × Rat × Rat × Int × Rat × String × String) := fun t =>
        match t.splitOn "," with
        | [a, b, c, d, e, f, g] =>
          match parseRat? a, parseRat? b, parseRat? c, parseInt? d, parseRat? e with
          | some a, some b, some c, some d, some e => some (a, b, c, d, e, f, g)
          | _, _, _, _, _ => none
        | _ => none
      let b? : String → Option Bool := fun t => if t = "1" then some true else if t = "0" then some false else none
      match recs? old, (if evs = "-" then some [] else (evs.splitOn ";").mapM ev?),
            (if cid = "none" then some none else (parseInt? cid).map some), b? wh, b? we, b? ap, b? hasid with
      | some old, some evs, some cid, some wh, some we, some ap, some hasid =>
        showM (fun (r : List (List String)) => if r.isEmpty then "-" else ";".intercalate (r.map (",".intercalate ·)))
          (SrcSM.write_ascii (Row := Rat × Rat × Rat × Int × Rat × String × String) (IdVal := Bool × String) (Cell := String)
            (fun i _ => if i.1 then .ok (false, i.2) else .error .attributeError)
            (fun ms => match evs.find? (fun e => e.2.2.2.1 == ms) with
              | some e => .ok e.2.2.2.2.2.2 | none => .error (.py .other))
            (fun cat _ => if hasid then .ok (cat.map fun e => (true, e.2.2.2.2.2.1)) else .error (.py .valueError))
            (fun t => (false, t)) id showRat (fun o => match o with | some i => toString i | none => "") (·.2)
            (·.1) (·.2.1) (·.2.2.1) (·.2.2.2.1) (·.2.2.2.2.1) old (evs, cid) wh we ap "id")
      | _, _, _, _, _, _, _ => "bad-op")
  -- srcsm_catalog_to_dict <__dict__: `key=token` `;`-separated; token `c…` = callable, `t…` = has to_dict, else plain>
  --   <rows of catalog.tolist(): items `,`-separated, rows `/`-separated; an item `b:…` is bytes> : the result dict in
  --   order, `key=token` (`T…` = the attribute's own to_dict) or `key=[rows]` (decoded bytes items shown as `s:…`)
  | ["srcsm_catalog_to_dict", d, rows] => some (
      let kv? : String → Option (String × String) := fun t =>
        match t.splitOn "=" with | [k, v] => some (k, v) | _ => none
      match (if d = "-" then some [] else (d.splitOn ";").mapM kv?),
            (if rows = "-" then some [] else some ((rows.splitOn "/").map (·.splitOn ","))) with
      | some d, some rows =>
        showM (fun (r : List (String × (String ⊕ List (List String)))) =>
            if r.isEmpty then "-" else ";".intercalate (r.map fun kv => kv.1 ++ "=" ++
              (match kv.2 with
               | .inl t => t
               | .inr rs => "[" ++ "/".intercalate (rs.map (",".intercalate ·)) ++ "]")))
          (SrcSM.catalog_to_dict (Attr := String) (Arr := List (List String)) (Item := String)
            (fun t => .ok ("T" ++ t)) id
            (fun it _ => if PySM.strStartsWith it "b:" then .ok ("s:" ++ PySM.strDrop it 2) else .error .attributeError)
            (fun t => PySM.strStartsWith t "c") (fun t => PySM.strStartsWith t "t") (d, rows))
      | _, _ => "bad-op")
  | _ => none
end Drive.SrcSM
