import PycsepVerif.Drive.C14
import PycsepVerif.Model.PersistText
import PycsepVerif.Model.FloatText
import PycsepVerif.Model.CatalogJson
/-! driver ops of property C14, text level: the characters of the CSEP-ASCII file.
  Texts travel as `x` + hex of their bytes (ASCII).  Float codec of these ops: `FloatText.floatStr` / `floatOfStr`
  (the model of `str(numpy.float64)` / `float()`), so nothing about the file is left to the harness. -/
namespace Drive.C14Text
open Proto Persist PersistText Drive.C14


def showRecords (rs : List (List (List Char))) : String :=
  if rs.isEmpty then "-" else ";".intercalate (rs.map (fun r => if r.isEmpty then "E" else ",".intercalate (r.map hex)))

def handle : List String → Option String
  -- c14_floatstr <rat;rat;…> : str(numpy.float64(x)) for each value
  | ["c14_floatstr", xs] => some (
      match (xs.splitOn ";").mapM parseRat? with
      | some xs => ";".intercalate (xs.map (fun x => hex (FloatText.floatStr x)))
      | none => "bad-op")
  -- c14_text_write <hdr> <emp> <cid> <events> <hasIdCol> : the characters write_ascii puts into a new file
  | ["c14_text_write", hdr, emp, cid, evs, hasid] => some (
      match parseCatId cid, parseEvents evs with
      | some cid, some evs => hex (writeText textCodec (mkCat cid evs) (flag hdr) (flag emp) false [] (flag hasid))
      | _, _ => "bad-op")
  -- c14_text_load <text> : csep.load_catalog on the characters of a file
  | ["c14_text_load", t] => some (
      match unhex t with
      | some t => (match loadText textCodec t with
          | .ok (evs, cid) => s!"ok {showCatId cid} {showEvents evs}"
          | .error .valueError => "ValueError"
          | .error .timeFormat => "CSEPIOException"
          | .error .indexError => "IndexError")
      | none => "bad-op")
  -- c14_csv_read <text> : list(csv.reader(...)) ; records `;`-separated, cells `,`-separated hex, `E` = the empty record
  | ["c14_csv_read", t] => some (
      match unhex t with
      | some t => showRecords (csvRead t)
      | none => "bad-op")
  -- c14_csv_write <records> : csv.writer(...).writerows(...)
  | ["c14_csv_write", rs] => some (
      let recs : Option (List (List (List Char))) :=
        if rs = "-" then some [] else
        (rs.splitOn ";").mapM (fun r => if r = "E" then some [] else (r.splitOn ",").mapM unhex)
      match recs with
      | some recs => hex (writeRecords recs)
      | none => "bad-op")
  -- c14_json_str <text;text;…> : json.dumps(s) for each string
  | ["c14_json_str", xs] => some (
      match (xs.splitOn ";").mapM unhex with
      | some xs => ";".intercalate (xs.map (fun x => hex (CatalogJson.encodeString x)))
      | none => "bad-op")
  -- c14_json_unstr <token;token;…> : json.loads(token) for each string token (`!` = error)
  | ["c14_json_unstr", xs] => some (
      match (xs.splitOn ";").mapM unhex with
      | some xs => ";".intercalate (xs.map (fun x => match CatalogJson.decodeString x with | some s => hex s | none => "!"))
      | none => "bad-op")
  | _ => none
end Drive.C14Text
