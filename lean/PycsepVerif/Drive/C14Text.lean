import PycsepVerif.Drive.C14
import PycsepVerif.Model.PersistText
import PycsepVerif.Model.FloatText
import PycsepVerif.Model.CatalogJson
import PycsepVerif.Model.CatalogDoc
/-! driver ops of property C14, text level: the characters of the CSEP-ASCII file.
  Texts travel as `x` + hex of their bytes (ASCII).  Float codec of these ops: `FloatText.floatStr` / `floatOfStr`
  (the model of `str(numpy.float64)` / `float()`), so nothing about the file is left to the harness. -/
namespace Drive.C14Text
open Proto Persist PersistText Drive.C14


def showRecords (rs : List (List (List Char))) : String :=
  if rs.isEmpty then "-" else ";".intercalate (rs.map (fun r => if r.isEmpty then "E" else ",".intercalate (r.map hex)))

def handle : List String → Option String
  -- c14_floatstr <rat;rat;…> : str(numpy.float64(x)) for each value
  | ["c14_floatstr", xs] => some (
      match (xs.splitOn ";").mapM parseRat? with
      | some xs => ";".intercalate (xs.map (fun x => hex (FloatText.floatStr x)))
      | none => "bad-op")
  -- c14_text_write <hdr> <emp> <cid> <events> <hasIdCol> : the characters write_ascii puts into a new file
  | ["c14_text_write", hdr, emp, cid, evs, hasid] => some (
      match parseCatId cid, parseEvents evs with
      | some cid, some evs => hex (writeText textCodec (mkCat cid evs) (flag hdr) (flag emp) false [] (flag hasid))
      | _, _ => "bad-op")
  -- c14_text_load <text> : csep.load_catalog on the characters of a file
  | ["c14_text_load", t] => some (
      match unhex t with
      | some t => (match loadText textCodec t with
          | .ok (evs, cid) => s!"ok {showCatId cid} {showEvents evs}"
          | .error .valueError => "ValueError"
          | .error .timeFormat => "CSEPIOException"
          | .error .indexError => "IndexError")
      | none => "bad-op")
  -- c14_csv_read <text> : list(csv.reader(...)) ; records `;`-separated, cells `,`-separated hex, `E` = the empty record
  | ["c14_csv_read", t] => some (
      match unhex t with
      | some t => showRecords (csvRead t)
      | none => "bad-op")
  -- c14_csv_write <records> : csv.writer(...).writerows(...)
  | ["c14_csv_write", rs] => some (
      let recs : Option (List (List (List Char))) :=
        if rs = "-" then some [] else
        (rs.splitOn ";").mapM (fun r => if r = "E" then some [] else (r.splitOn ",").mapM unhex)
      match recs with
      | some recs => hex (writeRecords recs)
      | none => "bad-op")
  -- c14_json_str <text;text;…> : json.dumps(s) for each string
  | ["c14_json_str", xs] => some (
      match (xs.splitOn ";").mapM unhex with
      | some xs => ";".intercalate (xs.map (fun x => hex (CatalogJson.encodeString x)))
      | none => "bad-op")
  -- c14_json_unstr <token;token;…> : json.loads(token) for each string token (`!` = error)
  | ["c14_json_unstr", xs] => some (
      match (xs.splitOn ";").mapM unhex with
      | some xs => ";".intercalate (xs.map (fun x => match CatalogJson.decodeString x with | some s => hex s | none => "!"))
      | none => "bad-op")
  -- c14_reprbits <b;b;…> : float.__repr__ / str(numpy.float64) of the doubles with these bit patterns (−0.0, subnormals too)
  | ["c14_reprbits", bs] => some (
      match (bs.splitOn ";").mapM String.toNat? with
      | some bs => ";".intercalate (bs.map (fun b => hex (CatalogDoc.reprBits b)))
      | none => "bad-op")
  -- c14_doc_load <text> : CSEPCatalog.load_json on the characters of a JSON file -> catalog id, name, events (bit patterns), region
  | ["c14_doc_load", t] => some (
      match unhex t with
      | some t =>
        (match (JsonText.parse CatalogDoc.catFloatText t).bind CatalogDoc.fromTree with
         | some c =>
           let ev := fun (e : CatalogDoc.DocEvent) => s!"{hex e.id.toList},{e.ms},{e.lat},{e.lon},{e.depth},{e.mag}"
           let evs := if c.events.isEmpty then "-" else ";".intercalate (c.events.map ev)
           let reg := match c.region with
             | none => "none"
             | some r => s!"{hex r.name.toList}:{r.dh}:" ++ ",".intercalate (r.polygons.map (fun (p : Nat × Nat) => s!"{p.1}/{p.2}"))
           s!"ok {showCatId c.catalogId} {match c.name with | none => "none" | some n => hex n.toList} {evs} {reg}"
         | none => "not-a-catalog-document")
      | none => "bad-op")
  | _ => none
end Drive.C14Text
