import PycsepVerif.Proto
import PycsepVerif.Model.NumberTest
import PycsepVerif.Model.NumberTestPub
/-! driver ops of C07 (Float instance of Model/NumberTest.lean). Floats travel as IEEE bit patterns.
  c07_pois  μ n anchor ε        -> "d1 d2"  (delta12S: anchored, log-space start; any μ)
  c07_poisd μ n ε               -> "d1 d2"  (delta12: the direct recurrence from exp(-μ); only sensible for μ < 700)
  c07_nbd   mean var n anchor ε -> "d1 d2 r p"
  c07_nbdd  mean var n ε        -> "d1 d2"
  c07_cat   sizes nobs          -> "k:n k:n" (catalog N-test)
  c07_pub   base scales n       -> "d1 d2 total"  (numberTestPub on GF.init base scaled by the history `scales`, a catalog of
                                   n rows; evaluated through delta12S = delta12 by `stable_eq`, anchor = min(n, ⌊total⌋))
  c07_pubn  base scales n var   -> "d1 d2 total"  (nbdNumberTestPub, the same way)
  c07_shift n                   -> "a b epsnum/epsden epsbits" (shiftF n; the rational epsF; the Float epsCode)
  c07_pubh  base ops n          -> "d1 d2 total"  (numberTestPub after a history of scale / scale_to_test_date calls, see parseOp?)
  c07_pubhn base ops n var      -> "d1 d2 total"  (nbdNumberTestPub, the same way)
  c07_shifte n eps              -> "a b"           (shiftFE eps n: any epsilon argument, a rational n/d)
  c07_ups   mean var            -> "u d"           (upsilonF = mean / var in Soft64, the code since D47; upsilonOldF = 1.0 - ((var - mean) / var), before)
  c07_puba  base factors n      -> "d1 d2 total"  (numberTestPubA: array-valued scale factor, broadcast by the caller)
  c07_puban base factors n var  -> "d1 d2 total"  (nbdNumberTestPubA)
  c07_cf    apply k ncat cats nobs -> "k:n k:n"   (catalogNTestCF after k earlier passes; an event is 1 = kept by the
                                   configured filters, 0 = dropped; cats `;`-separated, a lone "-" = ncat empty catalogs) -/
namespace Drive.C07
open Proto NumberTest

def show2 (p : Float × Float) : String := s!"{showFloat p.1} {showFloat p.2}"

/-- one history entry: `s<bits>` = scale(v); `i<bits>` = scale_to_test_date inside the period with that fraction;
    `o<bits>` = scale_to_test_date outside the period -/
def parseOp? (s : String) : Option (ScaleOp Float) :=
  match s.toList with
  | 's' :: r => (parseFloat? (String.ofList r)).map ScaleOp.set
  | 'i' :: r => (parseFloat? (String.ofList r)).map (ScaleOp.toDate true)
  | 'o' :: r => (parseFloat? (String.ofList r)).map (ScaleOp.toDate false)
  | _ => none

def handle : List String → Option String
  | ["c07_pois", mu, n, a, e] => some (match parseFloat? mu, n.toNat?, a.toNat?, parseFloat? e with
      | some mu, some n, some a, some e => show2 (delta12S mu a n e) | _, _, _, _ => "bad-op")
  | ["c07_poisd", mu, n, e] => some (match parseFloat? mu, n.toNat?, parseFloat? e with
      | some mu, some n, some e => show2 (delta12 mu n e) | _, _, _ => "bad-op")
  | ["c07_nbd", m, v, n, a, e] => some (match parseFloat? m, parseFloat? v, n.toNat?, a.toNat?, parseFloat? e with
      | some m, some v, some n, some a, some e =>
          let tp : Float × Float := nbdParams m v
          s!"{show2 (nbdDelta12S m a n v e)} {show2 tp}"
      | _, _, _, _, _ => "bad-op")
  | ["c07_nbdd", m, v, n, e] => some (match parseFloat? m, parseFloat? v, n.toNat?, parseFloat? e with
      | some m, some v, some n, some e => show2 (nbdDelta12 m n v e) | _, _, _, _ => "bad-op")
  | ["c07_cat", xs, v] => some (match parseList? String.toNat? xs, v.toNat? with
      | some xs, some v =>
          let q := catalogNTest xs v
          s!"{showOpt showPair q.1} {showOpt showPair q.2}"
      | _, _ => "bad-op")
  | ["c07_pub", base, scales, n] => some (match parseList? parseFloat? base, parseList? parseFloat? scales, n.toNat? with
      | some base, some scales, some n =>
          let f : GF Float := (GF.init base).scaleAll scales
          let mu := f.eventCount
          let a := if mu < 0.0 then 0 else min n (Float.floor mu).toUInt64.toNat
          s!"{show2 (delta12S mu a n (epsCode : Float))} {showFloat mu}"
      | _, _, _ => "bad-op")
  | ["c07_pubn", base, scales, n, v] => some (match parseList? parseFloat? base, parseList? parseFloat? scales, n.toNat?,
        parseFloat? v with
      | some base, some scales, some n, some v =>
          let f : GF Float := (GF.init base).scaleAll scales
          let mu := f.eventCount
          let a := if mu < 0.0 then 0 else min n (Float.floor mu).toUInt64.toNat
          s!"{show2 (nbdDelta12S mu a n v (epsCode : Float))} {showFloat mu}"
      | _, _, _, _ => "bad-op")
  | ["c07_puba", base, fs, n] => some (match parseList? parseFloat? base, parseList? parseFloat? fs, n.toNat? with
      | some base, some fs, some n =>
          let f : GFA Float := ⟨base, fs⟩
          let mu := f.eventCount
          let a := if mu < 0.0 then 0 else min n (Float.floor mu).toUInt64.toNat
          s!"{show2 (delta12S mu a n (epsCode : Float))} {showFloat mu}"
      | _, _, _ => "bad-op")
  | ["c07_puban", base, fs, n, v] => some (match parseList? parseFloat? base, parseList? parseFloat? fs, n.toNat?,
        parseFloat? v with
      | some base, some fs, some n, some v =>
          let f : GFA Float := ⟨base, fs⟩
          let mu := f.eventCount
          let a := if mu < 0.0 then 0 else min n (Float.floor mu).toUInt64.toNat
          s!"{show2 (nbdDelta12S mu a n v (epsCode : Float))} {showFloat mu}"
      | _, _, _, _ => "bad-op")
  | ["c07_cf", ap, k, ncat, cats, nobs] => some (match k.toNat?, ncat.toNat?, parseList2? String.toNat? cats, nobs.toNat? with
      | some k, some ncat, some cats, some nobs =>
          let cats := if cats.isEmpty then List.replicate ncat [] else cats
          let f : CF Nat := CF.passes (fun e => e == 1) k ⟨cats, ap == "1"⟩
          let q := (catalogNTestCF (fun e => e == 1) f (List.replicate nobs 1)).1
          s!"{showOpt showPair q.1} {showOpt showPair q.2}"
      | _, _, _, _ => "bad-op")
  | ["c07_shift", n] => some (match n.toNat? with
      | some n => let p := shiftF n; s!"{p.1} {p.2} {showRat epsF} {showFloat (epsCode : Float)}"
      | none => "bad-op")
  | ["c07_pubh", base, ops, n] => some (match parseList? parseFloat? base, parseList? parseOp? ops, n.toNat? with
      | some base, some ops, some n =>
          let f : GF Float := (GF.init base).applyAll ops
          let mu := f.eventCount
          let a := if mu < 0.0 then 0 else min n (Float.floor mu).toUInt64.toNat
          s!"{show2 (delta12S mu a n (epsCode : Float))} {showFloat mu}"
      | _, _, _ => "bad-op")
  | ["c07_pubhn", base, ops, n, v] => some (match parseList? parseFloat? base, parseList? parseOp? ops, n.toNat?,
        parseFloat? v with
      | some base, some ops, some n, some v =>
          let f : GF Float := (GF.init base).applyAll ops
          let mu := f.eventCount
          let a := if mu < 0.0 then 0 else min n (Float.floor mu).toUInt64.toNat
          s!"{show2 (nbdDelta12S mu a n v (epsCode : Float))} {showFloat mu}"
      | _, _, _, _ => "bad-op")
  | ["c07_shifte", n, e] => some (match n.toNat?, parseRat? e with
      | some n, some e => let p := shiftFE e n; s!"{p.1} {p.2}"
      | _, _ => "bad-op")
  | ["c07_ups", m, v] => some (match parseRat? m, parseRat? v with
      | some m, some v => s!"{showRat (upsilonF m v)} {showRat (upsilonOldF m v)}"
      | _, _ => "bad-op")
  | _ => none
end Drive.C07
