import PycsepVerif.Proto
import PycsepVerif.Model.ForecastIter
import PycsepVerif.Model.ForecastIterX
import PycsepVerif.Model.ForecastConcrete
import PycsepVerif.Model.ForecastReads
import PycsepVerif.Drive.C04
/-! driver ops of property C13 (prefix `c13_`) -/
namespace Drive.C13
open Proto ForecastIter

/-- an event is `keep:cell` or `keep:cell:own` (`own` = its bin on the grid of the region the catalog is bound to) -/
def parseEv? (s : String) : Option Ev :=
  match s.splitOn ":" with
  | [k, c] => do
      let kn ← k.toNat?
      let cn ← c.toNat?
      some { keep := kn != 0, cell := cn }
  | [k, c, o] => do
      let kn ← k.toNat?
      let cn ← c.toNat?
      let on ← o.toNat?
      some { keep := kn != 0, cell := cn, own := on }
  | _ => none

def parseId? (s : String) : Option (Option Nat) :=
  if s = "none" then some none else s.toNat?.map some

/-- catalogs separated by `;`, events by `,`, an empty catalog is `-`.  A catalog is either just its events (its id is
    its position, unbound, no statements carried) or `<id|none>.<grid>.<carries 0/1>=<events>` -/
def parseCat? (pos : Nat) (s : String) : Option Cat :=
  match s.splitOn "=" with
  | [evs] => do
      let evs ← parseList? parseEv? evs
      some { id := some pos, events := evs }
  | [hd, evs] => do
      let evs ← parseList? parseEv? evs
      match hd.splitOn "." with
      | [i, g, k] => do
          let i ← parseId? i
          let g ← g.toNat?
          let k ← k.toNat?
          some { id := i, events := evs, grid := g, carries := k != 0 }
      | _ => none
  | _ => none

def parseCats? (s : String) : Option (List Cat) :=
  let groups := s.splitOn ";"
  ((List.range groups.length).zip groups).mapM (fun (i, g) => parseCat? i g)

def parseOp? : String → Option Op
  | "P" => some .fullPass | "E" => some .getEventCounts | "R" => some .getExpectedRates
  | "S" => some .spatialCounts | "M" => some .magnitudeCounts
  | "N" => some .numberTest | "TS" => some .spatialTest | "TM" => some .magnitudeTest
  | "TP" => some .pseudolikelihoodTest | "TR" => some .resampledMagnitudeTest | "TL" => some .mllMagnitudeTest
  -- MLL_magnitude_test(full_calculation=True): the pooled magnitudes are gathered during the same first pass
  -- (catalog_evaluations.py:568-571), so its use of the forecast is that of the default calculation
  | "TLF" => some .mllMagnitudeTest
  | _ => none

def showEv (e : Ev) : String := s!"{if e.keep then 1 else 0}:{e.cell}"
def showCat (c : Cat) : String := s!"{showOpt toString c.id}={showList showEv c.events}"
def showCats (l : List Cat) : String := if l.isEmpty then "-" else ";".intercalate (l.map showCat)
def showOut : Out → String
  | .cats l => "c" ++ showCats l
  | .cats2 l₁ l₂ => "d" ++ showCats l₁ ++ "#" ++ showCats l₂
  | .counts l => "n" ++ showList toString l
  | .rates d n => "r" ++ showList toString d ++ "/" ++ toString n
  | .error => "e"
def showObs (o : Obs) : String := showOut o.1 ++ "@" ++ (match o.2 with | some n => toString n | none => "none")

/-- raw events (round 4): `<pf><pm><ps>:cell` or `<pf><pm><ps>:cell:own`, e.g. `101:3` -/
def parseREv? (s : String) : Option REv :=
  let flags (k : String) : Option (Bool × Bool × Bool) :=
    match k.toList with
    | [a, b, c] => if (a = '0' ∨ a = '1') ∧ (b = '0' ∨ b = '1') ∧ (c = '0' ∨ c = '1')
        then some (a = '1', b = '1', c = '1') else none
    | _ => none
  match s.splitOn ":" with
  | [k, c] => do
      let (pf, pm, ps) ← flags k
      let cn ← c.toNat?
      some { pf := pf, pm := pm, ps := ps, cell := cn }
  | [k, c, o] => do
      let (pf, pm, ps) ← flags k
      let cn ← c.toNat?
      let on ← o.toNat?
      some { pf := pf, pm := pm, ps := ps, cell := cn, own := on }
  | _ => none

def parseRCat? (pos : Nat) (s : String) : Option RCat :=
  match s.splitOn "=" with
  | [evs] => do
      let evs ← parseList? parseREv? evs
      some { id := some pos, events := evs }
  | [hd, evs] => do
      let evs ← parseList? parseREv? evs
      match hd.splitOn "." with
      | [i, g, k] => do
          let i ← parseId? i
          let g ← g.toNat?
          let k ← k.toNat?
          some { id := i, events := evs, grid := g, carries := k != 0 }
      | _ => none
  | _ => none

def parseRCats? (s : String) : Option (List RCat) :=
  let groups := s.splitOn ";"
  ((List.range groups.length).zip groups).mapM (fun (i, g) => parseRCat? i g)

/-- `<hasFilters><applyMct><filterSpatial>` -/
def parseCfg? (s : String) : Option Cfg :=
  match s.toList with
  | [a, b, c] => if (a = '0' ∨ a = '1') ∧ (b = '0' ∨ b = '1') ∧ (c = '0' ∨ c = '1')
      then some { hasFilters := a = '1', applyMct := b = '1', filterSpatial := c = '1' } else none
  | _ => none

/-- the initial state: `list <ncat|none>`, `stream <store>`, `streamn <store>:<ncat|none>` (a streamed forecast
    constructed with `n_cat=`) -/
def mkState? (kind a : String) (af : Bool) (nb nm : Nat) (cats : List Cat) : Option St :=
  if kind = "list" then
    (if a = "none" then some (initList cats none af nb nm)
     else (a.toNat?).map (fun n => initList cats (some n) af nb nm))
  else if kind = "stream" then some (initStream cats (a = "1") af nb nm)
  else if kind = "streamn" then
    match a.splitOn ":" with
    | [s, n] => (parseId? n).map (fun n => initStreamN cats (s = "1") af n nb nm)
    | _ => none
  else none

/-- c13_run <list|stream|streamn> <ncat|none|store flag|store:ncat> <applyFilters 0/1> <nBins> <nMag> <catalogs> <ops> -/
def handle : List String → Option String
  | ["c13_run", kind, a, af, nb, nm, cats, ops] => some (
      match parseCats? cats, parseList? parseOp? ops, nb.toNat?, nm.toNat? with
      | some cats, some ops, some nb, some nm =>
        match mkState? kind a (af = "1") nb nm cats with
        | some st => "|".intercalate ((run st ops).map showObs)
        | none => "bad-op"
      | _, _, _, _ => "bad-op")
  -- c13_runcfg <kind> <a> <af> <cfg> <nBins> <nMag> <raw catalogs> <ops> : the same machine on the abstraction
  --   (`absCat cfg`) of raw catalogs whose events say what each configured filter decides
  | ["c13_runcfg", kind, a, af, cfg, nb, nm, cats, ops] => some (
      match parseRCats? cats, parseCfg? cfg, parseList? parseOp? ops, nb.toNat?, nm.toNat? with
      | some raw, some cfg, some ops, some nb, some nm =>
        match mkState? kind a (af = "1") nb nm (raw.map (absCat cfg)) with
        | some st => "|".intercalate ((run st ops).map showObs)
        | none => "bad-op"
      | _, _, _, _, _ => "bad-op")
  -- c13_shared <ncat|none> <af> <nBins> <nMag> <catalogs> <w:op,w:op,…> : two in-memory forecasts over the same
  --   catalog objects, operations interleaved (w = 0 / 1)
  | ["c13_shared", a, af, nb, nm, cats, wops] => some (
      let parseWOp (s : String) : Option (Bool × Op) :=
        match s.splitOn ":" with
        | [w, o] => (parseOp? o).bind (fun op => if w = "0" then some (false, op) else if w = "1" then some (true, op) else none)
        | _ => none
      match parseCats? cats, parseList? parseWOp wops, nb.toNat?, nm.toNat? with
      | some cats, some ops, some nb, some nm =>
        match mkState? "list" a (af = "1") nb nm cats with
        | some st => "|".intercalate ((runShared st st ops).map showObs)
        | none => "bad-op"
      | _, _, _, _ => "bad-op")
  -- c13_seq <af> <cfg> <raw catalogs> : the code's filter sequence on each raw catalog (number of events left, and
  --   whether it agrees with filtering by the conjunction)
  | ["c13_seq", af, cfg, cats] => some (
      match parseRCats? cats, parseCfg? cfg with
      | some raw, some cfg =>
        let out := raw.map (fun c => if af = "1" then filtSeq cfg c else c)
        ",".intercalate (out.map (fun c => toString c.events.length))
      | _, _ => "bad-op")
  -- c13_abort <list|stream> <ncat|none|store> <af> <nBins> <nMag> <catalogs> <k> :
  --   what the next complete for-loop yields after a pass was aborted after k catalogs
  | ["c13_abort", kind, a, af, nb, nm, cats, k] => some (
      match parseCats? cats, k.toNat?, nb.toNat?, nm.toNat? with
      | some cats, some k, some nb, some nm =>
        let af := af = "1"
        let st? : Option St :=
          if kind = "list" then
            (if a = "none" then some (initList cats none af nb nm)
             else (a.toNat?).map (fun n => initList cats (some n) af nb nm))
          else if kind = "stream" then some (initStream cats (a = "1") af nb nm)
          else none
        match st? with
        | some st => (match fullPass (nextN k st) with
            | some (st', l) => showObs (.cats l, st'.nCat)
            | none => "e")
        | none => "bad-op"
      | _, _, _, _ => "bad-op")
  -- c13_runx <kind> <a> <af> <nBins> <nMag> <catalogs> <ops> : histories over P, E, R, S, M in which get_expected_rates may
  --   raise inside its pass (an event with cell >= nBins lies in no bin); a raise shows as `x<position>@n_cat`
  | ["c13_runx", kind, a, af, nb, nm, cats, ops] => some (
      match parseCats? cats, parseList? parseOp? ops, nb.toNat?, nm.toNat? with
      | some cats, some ops, some nb, some nm =>
        match mkState? kind a (af = "1") nb nm cats with
        | some st =>
          let showX (o : OutX × Option Nat) : String :=
            (match o.1 with | .out v => showOut v | .raised k => s!"x{k}") ++ "@" ++
              (match o.2 with | some n => toString n | none => "none")
          "|".intercalate ((runX st ops).map showX)
        | none => "bad-op"
      | _, _, _, _ => "bad-op")
  -- c13_runc <kind> <a> <af> <FILTERS> <MCT|none> <spatial> <REGION> <MAGEDGES> <CATS> <ops> : the forecast on ROWS.
  --   FILTERS / MCT / REGION / EVENTS as in Drive/C04.lean; CATS = `<id|none>=<EVENTS>` joined by `#`.  The model computes
  --   what every configured filter decides about every row (C04's nextFilter) and the row's space-magnitude bin itself.
  | ["c13_runc", kind, a, af, fs, mct, sp, rg, edges, cats, ops] => some (
      let parseRaw (s : String) : Option (Option Nat × CatFilter.Cat) :=
        match s.splitOn "=" with
        | [i, evs] => do
            let i ← parseId? i
            let evs ← Drive.C04.parseSemi? Drive.C04.parseEvent? evs
            some (i, ⟨evs, [], none⟩)
        | _ => none
      match Drive.C04.parseSemi? Drive.C04.parseStmt? fs, Drive.C04.parseMctOpt? mct, Drive.C04.parseRegion? rg,
            parseList? parseRat? edges, (cats.splitOn "#").mapM parseRaw, parseList? parseOp? ops with
      | some fs, some mct, some (some rg), some edges, some raws, some ops =>
        let f : ForecastConcrete.FCfg := ⟨af = "1", fs, mct, sp = "1", ⟨rg, edges⟩⟩
        let acats := raws.map (ForecastConcrete.absCat f)
        match mkState? kind a (af = "1") f.grid.nBins f.grid.nMag acats with
        | some st =>
          let showX (o : OutX × Option Nat) : String :=
            (match o.1 with | .out v => showOut v | .raised k => s!"x{k}") ++ "@" ++
              (match o.2 with | some n => toString n | none => "none")
          "|".intercalate ((runX st ops).map showX)
        | none => "bad-op"
      | _, _, _, _, _, _ => "bad-op")
  -- c13_runr <kind> <a> <af> <nBins> <nMag> <catalogs> <layout> <ops> : histories that mix the operations with READS of the
  --   expected rates in all argument forms: RD data, RS spatial_counts(), RC spatial_counts(cartesian=True), RM magnitude_counts(),
  --   RT total.  layout = for every position of the flattened bounding-box map the cell index or `x` (no cell: NaN).
  --   A read shows as `v<k or x,…>/<n>@<n_cat>`.
  | ["c13_runr", kind, a, af, nb, nm, cats, layout, ops] => some (
      let parseOpR (s : String) : Option OpR :=
        match s with
        | "RD" => some (.read .data) | "RS" => some (.read .spatial) | "RC" => some (.read .spatialCartesian)
        | "RM" => some (.read .magnitude) | "RT" => some (.read .total)
        | _ => (parseOp? s).map .op
      let parseCell (s : String) : Option (Option Nat) := if s = "x" then some none else s.toNat?.map some
      match parseCats? cats, parseList? parseOpR ops, parseList? parseCell layout, nb.toNat?, nm.toNat? with
      | some cats, some ops, some layout, some nb, some nm =>
        match mkState? kind a (af = "1") nb nm cats with
        | some st =>
          let showV (v : Option Nat) : String := match v with | some k => toString k | none => "x"
          let showR (o : OutR × Option Nat) : String :=
            (match o.1 with | .out v => showOut v | .view v n => "v" ++ showList showV v ++ "/" ++ toString n) ++ "@" ++
              (match o.2 with | some n => toString n | none => "none")
          "|".intercalate ((runR layout st ops).map showR)
        | none => "bad-op"
      | _, _, _, _, _ => "bad-op")
  | _ => none
end Drive.C13
