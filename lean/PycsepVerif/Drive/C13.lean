import PycsepVerif.Proto
import PycsepVerif.Model.ForecastIter
/-! driver ops of property C13 (prefix `c13_`) -/
namespace Drive.C13
open Proto ForecastIter

/-- an event is `keep:cell` or `keep:cell:own` (`own` = its bin on the grid of the region the catalog is bound to) -/
def parseEv? (s : String) : Option Ev :=
  match s.splitOn ":" with
  | [k, c] => do
      let kn ← k.toNat?
      let cn ← c.toNat?
      some { keep := kn != 0, cell := cn }
  | [k, c, o] => do
      let kn ← k.toNat?
      let cn ← c.toNat?
      let on ← o.toNat?
      some { keep := kn != 0, cell := cn, own := on }
  | _ => none

def parseId? (s : String) : Option (Option Nat) :=
  if s = "none" then some none else s.toNat?.map some

/-- catalogs separated by `;`, events by `,`, an empty catalog is `-`.  A catalog is either just its events (its id is
    its position, unbound, no statements carried) or `<id|none>.<grid>.<carries 0/1>=<events>` -/
def parseCat? (pos : Nat) (s : String) : Option Cat :=
  match s.splitOn "=" with
  | [evs] => do
      let evs ← parseList? parseEv? evs
      some { id := some pos, events := evs }
  | [hd, evs] => do
      let evs ← parseList? parseEv? evs
      match hd.splitOn "." with
      | [i, g, k] => do
          let i ← parseId? i
          let g ← g.toNat?
          let k ← k.toNat?
          some { id := i, events := evs, grid := g, carries := k != 0 }
      | _ => none
  | _ => none

def parseCats? (s : String) : Option (List Cat) :=
  let groups := s.splitOn ";"
  ((List.range groups.length).zip groups).mapM (fun (i, g) => parseCat? i g)

def parseOp? : String → Option Op
  | "P" => some .fullPass | "E" => some .getEventCounts | "R" => some .getExpectedRates
  | "S" => some .spatialCounts | "M" => some .magnitudeCounts
  | "N" => some .numberTest | "TS" => some .spatialTest | "TM" => some .magnitudeTest
  | _ => none

def showEv (e : Ev) : String := s!"{if e.keep then 1 else 0}:{e.cell}"
def showCat (c : Cat) : String := s!"{showOpt toString c.id}={showList showEv c.events}"
def showOut : Out → String
  | .cats l => "c" ++ (if l.isEmpty then "-" else ";".intercalate (l.map showCat))
  | .counts l => "n" ++ showList toString l
  | .rates d n => "r" ++ showList toString d ++ "/" ++ toString n
  | .error => "e"
def showObs (o : Obs) : String := showOut o.1 ++ "@" ++ (match o.2 with | some n => toString n | none => "none")

/-- c13_run <list|stream> <ncat|none|store flag> <applyFilters 0/1> <nBins> <nMag> <catalogs> <ops> -/
def handle : List String → Option String
  | ["c13_run", kind, a, af, nb, nm, cats, ops] => some (
      match parseCats? cats, parseList? parseOp? ops, nb.toNat?, nm.toNat? with
      | some cats, some ops, some nb, some nm =>
        let af := af = "1"
        let st? : Option St :=
          if kind = "list" then
            (if a = "none" then some (initList cats none af nb nm)
             else (a.toNat?).map (fun n => initList cats (some n) af nb nm))
          else if kind = "stream" then some (initStream cats (a = "1") af nb nm)
          else none
        match st? with
        | some st => "|".intercalate ((run st ops).map showObs)
        | none => "bad-op"
      | _, _, _, _ => "bad-op")
  -- c13_abort <list|stream> <ncat|none|store> <af> <nBins> <nMag> <catalogs> <k> :
  --   what the next complete for-loop yields after a pass was aborted after k catalogs
  | ["c13_abort", kind, a, af, nb, nm, cats, k] => some (
      match parseCats? cats, k.toNat?, nb.toNat?, nm.toNat? with
      | some cats, some k, some nb, some nm =>
        let af := af = "1"
        let st? : Option St :=
          if kind = "list" then
            (if a = "none" then some (initList cats none af nb nm)
             else (a.toNat?).map (fun n => initList cats (some n) af nb nm))
          else if kind = "stream" then some (initStream cats (a = "1") af nb nm)
          else none
        match st? with
        | some st => (match fullPass (nextN k st) with
            | some (st', l) => showObs (.cats l, st'.nCat)
            | none => "e")
        | none => "bad-op"
      | _, _, _, _ => "bad-op")
  | _ => none
end Drive.C13
