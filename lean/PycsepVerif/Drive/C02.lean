import PycsepVerif.Proto
import PycsepVerif.Model.Bin1d
import PycsepVerif.Model.Bin1dCalls
import PycsepVerif.Model.ReprDecimals
import PycsepVerif.Proofs.Bin1dTables
import PycsepVerif.Proofs.Bin1dTablesRegions
/-! driver ops of property C02 (1-D binning, bin-edge generators) -/
namespace Drive.C02
open Proto Bin1d

def parseDT? : String → Option DT
  | "f64" => some .f64 | "f32" => some .f32 | "i64" => some .i64 | _ => none

def parseTol? (s : String) : Option (Option Rat) :=
  if s = "none" then some none else (parseRat? s).map some

def showAllowed (l : List Int) : String := "|".intercalate (l.map toString)

/-- `c02_bin1d pd bd tol rc bins ps` → per point `idx:a|b` (model index : allowed set), or an exception tag -/
def bin1d (pd bd tol rc bins ps : String) : String :=
  match parseDT? pd, parseDT? bd, parseTol? tol, parseList? parseRat? bins, parseList? parseRat? ps with
  | some pd, some bd, some tol, some bins, some ps =>
    let c : Cfg := { pd := pd, bd := bd, tol := tol, rc := rc == "1" }
    let arr := bins.toArray
    let n := arr.size
    let edge := fun k => arr.getD k 0
    if n = 0 then "indexerror"
    else if hOf bd n edge < 0 then "valueerror"
    else if denOf bd n edge ≤ 0 then "unsupported"
    else showList (fun p => s!"{bin1dCore c n edge p}:{showAllowed (allowed c bins p)}") ps
  | _, _, _, _, _ => "bad-op"

/-- `c02_calls pd tol bins mags` (float64 edges) → `gmi:<E | indices>!mc:<counts>!gi:<indices>`: `get_magnitude_index(mags, tol)`
of a forecast with these magnitude edges (mags of dtype pd), `magnitude_counts(mag_bins, tol)` and `get_mag_idx()` of a catalog
with these (float64) magnitudes (Model/Bin1dCalls.lean) -/
def calls (pd tol bins mags : String) : String :=
  match parseDT? pd, parseTol? tol, parseList? parseRat? bins, parseList? parseRat? mags with
  | some pd, some tol, some bins, some mags =>
    if bins.length = 0 then "indexerror"
    else
      let gmi := match getMagnitudeIndex pd .f64 tol bins mags with
        | .ok l => showList toString l
        | .error _ => "E"
      s!"gmi:{gmi}!mc:{showList toString (magnitudeCounts tol bins mags)}!gi:{showList toString (getMagIdx bins mags)}"
  | _, _, _, _ => "bad-op"

def handle : List String → Option String
  | ["c02_calls", pd, tol, bins, mags] => some (calls pd tol bins mags)
  | ["c02_bin1d", pd, bd, tol, rc, bins, ps] => some (bin1d pd bd tol rc bins ps)
  | ["c02_cleaner", s, e, h, dec] => some (match parseRat? s, parseRat? e, parseRat? h, dec.toNat? with
      | some s, some e, some h, some dec =>
          (match cleanerRangeF s e h dec with
           | some l => showList showRat l
           | none => "fallback")
      | _, _, _, _ => "bad-op")
  -- `c02_numdec xs` → `num_decimals(x)` per value (Model/ReprDecimals.lean: computed from the model's `repr`)
  | ["c02_numdec", xs] => some (match parseList? parseRat? xs with
      | some xs => showList (fun x => toString (ReprDec.numDecimals x)) xs
      | none => "bad-op")
  -- `c02_reprval xs` → the exact value of `repr(x)` per value
  | ["c02_reprval", xs] => some (match parseList? parseRat? xs with
      | some xs => showList (fun x => showRat (DecimalText.reprValue x)) xs
      | none => "bad-op")
  -- `c02_cleaner_auto s e h` → `<decS>,<decH> <path> <list>`: cleaner_range with the decimals computed by the model, both paths
  | ["c02_cleaner_auto", s, e, h] => some (match parseRat? s, parseRat? e, parseRat? h with
      | some s, some e, some h =>
          let ds := ReprDec.numDecimals s
          let dh := ReprDec.numDecimals h
          let path := match cleanerRangeF s e h (max ds dh) with | some _ => "main" | none => "fallback"
          s!"{ds},{dh} {path} {showList showRat (ReprDec.cleanerRangeAuto s e h)}"
      | _, _, _ => "bad-op")
  | ["c02_decgrid", s, d, m, len] => some (match parseInt? s, parseInt? d, m.toNat?, len.toNat? with
      | some s, some d, some m, some len => showList showRat (decimalGrid s d m len)
      | _, _, _, _ => "bad-op")
  | ["c02_binreg", a0, h, n, rc, vs] => some (match parseRat? a0, parseRat? h, n.toNat?, parseList? parseRat? vs with
      | some a0, some h, some n, some vs => showList (fun v => toString (binReg a0 h n (rc == "1") v)) vs
      | _, _, _, _ => "bad-op")
  | ["c02_discretize", pd, bd, rc, bins, data] => some (
      match parseDT? pd, parseDT? bd, parseList? parseRat? bins, parseList? parseRat? data with
      | some pd, some bd, some bins, some data =>
        let arr := bins.toArray
        let edge := fun k => arr.getD k 0
        if bins.length ≥ 2 ∧ bins.getD 0 0 ≤ bins.getD 1 0 ∧ denOf bd bins.length edge ≤ 0 then "unsupported"
        else match discretizeF pd bd (rc == "1") bins data with
          | .ok l => showList showRat l
          | .error .valueError => "valueerror"
          | .error .indexError => "indexerror"
          | .error .csepException => "csepexception"
      | _, _, _, _ => "bad-op")
  | ["c02_hyp", bins, ps] => some (match parseList? parseRat? bins, parseList? parseRat? ps with
      | some bins, some ps =>
          if regularGridB bins then showList (fun p => if pointOKB bins p then "1" else "0") ps else "irregular"
      | _, _ => "bad-op")
  | ["c02_table", name] => some (match name with
      | "mw" => showList showRat (ofRaw Tables.mwRaw)
      | "m595" => showList showRat (ofRaw Tables.m595Raw)
      | "nzx" => showList showRat (ofRaw Tables.nzxRaw)
      | "nzy" => showList showRat (ofRaw Tables.nzyRaw)
      | "nzcx" => showList showRat (ofRaw Tables.nzcxRaw)
      | "nzcy" => showList showRat (ofRaw Tables.nzcyRaw)
      | "itcx" => showList showRat (ofRaw Tables.itcxRaw)
      | "itcy" => showList showRat (ofRaw Tables.itcyRaw)
      | "cacx" => showList showRat (ofRaw Tables.cacxRaw)
      | "cacy" => showList showRat (ofRaw Tables.cacyRaw)
      | "mwthr" => showList showRat (Tables.mwThr.map valRaw)
      | _ => "bad-op")
  | _ => none
end Drive.C02
