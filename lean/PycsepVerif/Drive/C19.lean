import PycsepVerif.Proto
import PycsepVerif.Model.Readers
import PycsepVerif.Model.ReaderText
import PycsepVerif.Model.NdkMagnitude
/-
  Driver ops of C19 (records are `;`-separated, fields `~`-separated, `-` = no records, `H` = header line).
    c19_csep   lon~lat~mag~Y~M~D~h~mi~s~us~depth
    c19_zmap   c0~c1~…            (all columns of the row, rationals)
    c19_horus  Y~M~D~h~mi~sec~lat~lon~depth~mw
    c19_jma    Y~M~D~h~mi~s~us~offsetSeconds~lon~lat~depth~mag     (exact nearest-ms; `c19_jmaf` = the float path)
    c19_ndk    Y~M~D~h~mi~secDigits~fracFirst~lat~lon~depth~mw
      → `ok:time~lat~lon~depth~mag;…` | `err:badTime` | `err:badRow`
    c19_days Y M D   → daysFromCivil
    c19_valid Y M D  → true/false
    c19_tables       → allowed types, class/loader mapping, ZMAP and HORUS column maps
    c19_text FMT HEX → the TEXT-level model (`Model/ReaderText.lean`) on the bytes of a whole file (hex, latin-1):
                       same answer format, or `outside` (file not in the model's domain); NDK events carry the scalar
                       moment in the magnitude field
    c19_float HEX    → `float(text)` as exact rational | `ValueError`
-/
namespace Drive.C19
open Proto Readers

def recs? {α} (f : List String → Option α) (s : String) : Option (List α) :=
  if s = "-" then some [] else (s.splitOn ";").mapM (fun r => f (r.splitOn "~"))

def showEvent (e : Event) : String :=
  "~".intercalate [toString e.time, showRat e.lat, showRat e.lon, showRat e.depth, showRat e.mag]

def showResult : Result → String
  | .ok es => "ok:" ++ ";".intercalate (es.map showEvent)
  | .error .badTime => "err:badTime"
  | .error .badRow => "err:badRow"

def clock? (y m d hh mi ss : String) : Option Clock := do
  some ⟨← parseInt? y, ← parseInt? m, ← parseInt? d, ← parseInt? hh, ← parseInt? mi, ← parseInt? ss⟩

def csepLine? : List String → Option CsepLine
  | ["H"] => some .header
  | [lon, lat, mag, y, m, d, hh, mi, ss, us, dep] => do
      some (.row ⟨← parseRat? lon, ← parseRat? lat, ← parseRat? mag, ← clock? y m d hh mi ss, ← parseInt? us,
                  ← parseRat? dep⟩)
  | _ => none

def horusRec? : List String → Option HorusRec
  | [y, m, d, hh, mi, sec, lat, lon, dep, mw] => do
      some ⟨← parseInt? y, ← parseInt? m, ← parseInt? d, ← parseInt? hh, ← parseInt? mi, ← parseRat? sec,
            ← parseRat? lat, ← parseRat? lon, ← parseRat? dep, ← parseRat? mw⟩
  | _ => none

def jmaLine? : List String → Option JmaLine
  | ["H"] => some .header
  | [y, m, d, hh, mi, ss, us, off, lon, lat, dep, mag] => do
      some (.row ⟨← clock? y m d hh mi ss, ← parseInt? us, ← parseInt? off, ← parseRat? lon, ← parseRat? lat,
                  ← parseRat? dep, ← parseRat? mag⟩)
  | _ => none

def ndkRec? : List String → Option NdkRec
  | [y, m, d, hh, mi, s, f, lat, lon, dep, mw] => do
      some ⟨← parseInt? y, ← parseInt? m, ← parseInt? d, ← parseInt? hh, ← parseInt? mi, ← parseInt? s, ← parseInt? f,
            ← parseRat? lat, ← parseRat? lon, ← parseRat? dep, ← parseRat? mw⟩
  | _ => none

def showCols (t : List (String × Nat)) : String := ",".intercalate (t.map (fun p => s!"{p.1}:{p.2}"))

def tables : String :=
  "allowed=" ++ ",".intercalate allowedTypes ++
  "|mapping=" ++ ",".intercalate (classLoaderMapping.map (fun p => s!"{p.1}:{p.2.1}:{p.2.2.getD "None"}")) ++
  "|zmap=" ++ showCols zmapCols ++ "|horus=" ++ showCols horusCols ++
  "|documented=" ++ ",".intercalate documentedTypes

def run {α} (p : Option (List α)) (f : List α → Result) : String :=
  match p with
  | some rs => showResult (f rs)
  | none => "bad-op"

def hexVal (c : Char) : Nat :=
  if c.isDigit then c.toNat - 48 else if 'a' ≤ c && c ≤ 'f' then c.toNat - 87 else c.toNat - 55

def unhex : List Char → List Char
  | a :: b :: t => Char.ofNat (16 * hexVal a + hexVal b) :: unhex t
  | _ => []

def textModel (fmt : String) (text : List Char) : Option (Option Result) :=
  match fmt with
  | "csep-csv" => some (some (ReaderText.csepFileQ text))
  | "zmap" => some (ReaderText.zmapFile text)
  | "jma-csv" => some (ReaderText.jmaFile text)
  | "ingv_horus" => some (ReaderText.horusFile text)
  | "ndk" => some (ReaderText.ndkFile text)
  | _ => none

def handle : List String → Option String
  -- c19_text_noquote: the older line-splitting model of csep_ascii (no quoting; `outside` on a quote character)
  | ["c19_text_noquote", hex] => some (match ReaderText.csepFile (unhex hex.toList) with
      | some r => showResult r | none => "outside")
  -- c19_ndk_mw <hex> : ndk(fname) from characters to events WITH the moment magnitude 2/3(log10 M0 - 9.1) computed in the
  -- model's real layer at Float (bit pattern of the double in the last field)
  | ["c19_ndk_mw", hex] => some (match NdkMagnitude.ndkFileMw (α := Float) (unhex hex.toList) with
      | some (.ok es) => "ok:" ++ ";".intercalate (es.map (fun e =>
          "~".intercalate [toString e.time, showRat e.lat, showRat e.lon, showRat e.depth, toString e.mw.toBits]))
      | some (.error .badTime) => "err:badTime"
      | some (.error .badRow) => "err:badRow"
      | none => "outside")
  | ["c19_text", fmt, hex] => some (match textModel fmt (unhex hex.toList) with
      | some (some r) => showResult r | some none => "outside" | none => "bad-op")
  | ["c19_text", fmt] => some (match textModel fmt [] with
      | some (some r) => showResult r | some none => "outside" | none => "bad-op")
  | ["c19_float", hex] => some (match ReaderText.pyFloat (unhex hex.toList) with
      | some r => showRat r | none => "ValueError")
  | ["c19_csep", s] => some (run (recs? csepLine? s) decodeCsep)
  | ["c19_zmap", s] => some (run (recs? (fun r => r.mapM parseRat?) s) decodeZmap)
  | ["c19_horus", s] => some (run (recs? horusRec? s) decodeHorus)
  | ["c19_jma", s] => some (run (recs? jmaLine? s) decodeJma)
  | ["c19_jmaf", s] => some (run (recs? jmaLine? s) decodeJmaF)
  | ["c19_ndk", s] => some (run (recs? ndkRec? s) decodeNdk)
  | ["c19_days", y, m, d] => some (match parseInt? y, parseInt? m, parseInt? d with
      | some y, some m, some d => toString (daysFromCivil y m d) | _, _, _ => "bad-op")
  | ["c19_valid", y, m, d] => some (match parseInt? y, parseInt? m, parseInt? d with
      | some y, some m, some d => toString (validDate y m d) | _, _, _ => "bad-op")
  | ["c19_tables"] => some tables
  | ["c19_select", t, l] => some (match selectLoader t (if l = "-" then none else some l) with
      | .valueError => "ValueError" | .keyError => "KeyError"
      | .use c r => s!"{c}:{r.getD "None"}")
  | ["c19_dispatch", t] => some (match dispatch t with
      | some (c, l) => s!"{c}:{l.getD "None"}" | none => "ValueError")
  | _ => none
end Drive.C19
