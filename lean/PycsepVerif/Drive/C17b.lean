import PycsepVerif.Proto
import PycsepVerif.Drive.C17
import PycsepVerif.Model.QuadGridding
/-!
  Driver ops of C17, round 4 (composition with the gridding model, `Model/QuadGridding.lean`).
    c17_selfcount thr zoom pts   → per leaf `key:num:sc` — from_catalog(pts, thr, zoom), the `num` recorded by `_create_tile`, and
                                   `spatial_counts()` of the SAME catalog bound to the finished grid (`fromCatalogThenCount`)
-/
namespace Drive.C17b
open Proto Quadtree QuadGridding Drive.C17

def zip3s : List Key → List Nat → List Nat → List String
  | k :: ks, n :: ns, c :: cs => s!"{showKey k}:{n}:{c}" :: zip3s ks ns cs
  | _, _, _ => []

def handle : List String → Option String
  | ["c17_selfcount", thr, zoom, pts] => some (match thr.toNat?, zoom.toNat?, parsePts? pts with
      | some t, some z, some ps =>
        let r := fromCatalogThenCount t z ps
        if r.2.2.length = r.1.length then showList id (zip3s r.1 r.2.1 r.2.2) else "inconsistent"
      | _, _, _ => "bad-op")
  | _ => none
end Drive.C17b
