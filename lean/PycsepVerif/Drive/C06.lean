import PycsepVerif.Proto
import PycsepVerif.RealOps
import PycsepVerif.Model.Sampler
import PycsepVerif.Model.SamplerExt
import PycsepVerif.Model.SamplerRng
import PycsepVerif.Model.SamplerSearch
/-! driver ops of property C06 (prefix `c06_`) -/
namespace Drive.C06
open Proto

def showRej : Sampler.Rej → String
  | .done arr rest => s!"done {showList toString arr} {rest.length}"
  | .indexError => "index-error"
  | .exhausted => "exhausted"

/-- `nsim` rejection-loop simulations consuming one stream one after another:
    (arrays finished, status, unused numbers) -/
def chain (ws : List Rat) (target : Nat) : Nat → List Rat → List (List Nat) → (List (List Nat) × String × Nat)
  | 0, stream, acc => (acc.reverse, "ok", stream.length)
  | k + 1, stream, acc => match Sampler.simulateBinary ws target stream with
      | .done arr rest => chain ws target k rest (arr :: acc)
      | .indexError => (acc.reverse, "index-error", 0)
      | .exhausted => (acc.reverse, "exhausted", 0)

def handle : List String → Option String
  -- c06_weights <rates> : Poisson sampling weights
  | ["c06_weights", rs] => some (match parseList? parseRat? rs with
      | some rs => showList showRat (Sampler.weights rs) | none => "bad-op")
  -- c06_weights_masked <rates> : binary / Brier sampling weights
  | ["c06_weights_masked", rs] => some (match parseList? parseRat? rs with
      | some rs => showList showRat (Sampler.weightsMasked rs) | none => "bad-op")
  -- c06_place <weights> <draws> : searchsorted(side='right') for every draw
  | ["c06_place", ws, ds] => some (match parseList? parseRat? ws, parseList? parseRat? ds with
      | some ws, some ds => showList toString (Sampler.placements ws ds) | _, _ => "bad-op")
  -- c06_sim <weights> <draws> : the simulated count array or index-error
  | ["c06_sim", ws, ds] => some (match parseList? parseRat? ws, parseList? parseRat? ds with
      | some ws, some ds => (match Sampler.simulate ws ds with
          | some arr => showList toString arr | none => "index-error")
      | _, _ => "bad-op")
  -- c06_rej <weights> <target> <stream> : the rejection loop
  | ["c06_rej", ws, t, ds] => some (match parseList? parseRat? ws, t.toNat?, parseList? parseRat? ds with
      | some ws, some t, some ds => showRej (Sampler.simulateBinary ws t ds) | _, _, _ => "bad-op")
  -- c06_run <p|m> <rates> <draws> : weights | placements | simulated array, all from the rates
  | ["c06_run", mode, rs, ds] => some (match parseList? parseRat? rs, parseList? parseRat? ds with
      | some rs, some ds =>
        let ws := if mode = "m" then Sampler.weightsMasked rs else Sampler.weights rs
        let arr := match Sampler.simulate ws ds with
          | some arr => showList toString arr | none => "index-error"
        s!"{showList showRat ws}|{showList toString (Sampler.placements ws ds)}|{arr}"
      | _, _ => "bad-op")
  -- c06_rejm <rates> <target> <stream> : masked weights, then the rejection loop
  | ["c06_rejm", rs, t, ds] => some (match parseList? parseRat? rs, t.toNat?, parseList? parseRat? ds with
      | some rs, some t, some ds => showRej (Sampler.simulateBinary (Sampler.weightsMasked rs) t ds)
      | _, _, _ => "bad-op")
  -- c06_rejchain <rates> <target> <nsim> <stream> : status arrays(;-separated) unused-count
  | ["c06_rejchain", rs, t, k, ds] => some (match parseList? parseRat? rs, t.toNat?, k.toNat?, parseList? parseRat? ds with
      | some rs, some t, some k, some ds =>
        let (arrs, st, rest) := chain (Sampler.weightsMasked rs) t k ds []
        let body := if arrs.isEmpty then "-" else ";".intercalate (arrs.map (showList toString))
        s!"{st} {body} {rest}"
      | _, _, _, _ => "bad-op")
  -- c06_quantile <sims> <obs>
  | ["c06_quantile", ss, o] => some (match parseList? parseRat? ss, parseRat? o with
      | some ss, some o => showPair (Sampler.quantile ss o) | _, _ => "bad-op")
  -- c06_seed <none|int>
  | ["c06_seed", s] => some (if s = "none" then toString (Sampler.seedApplied none) else
      match parseInt? s with | some i => toString (Sampler.seedApplied (some i)) | none => "bad-op")
  -- c06_nactive <observed counts> : number of active cells the binary / Brier tests prescribe
  | ["c06_nactive", os] => some (match parseList? (fun s => s.toNat?) os with
      | some os => toString (Sampler.nActive os) | none => "bad-op")
  -- c06_bintest <rates> <observed counts> <nsim> <stream> : whole array-level binary/Brier test fed with a stream
  --   (masked weights and the prescribed number of active cells both computed by the model): status arrays unused
  | ["c06_bintest", rs, os, k, ds] =>
      some (match parseList? parseRat? rs, parseList? (fun s => s.toNat?) os, k.toNat?, parseList? parseRat? ds with
      | some rs, some os, some k, some ds =>
        let (arrs, st, rest) := chain (Sampler.weightsMasked rs) (Sampler.nActive os) k ds []
        let body := if arrs.isEmpty then "-" else ";".intercalate (arrs.map (showList toString))
        s!"{st} {body} {rest}"
      | _, _, _, _ => "bad-op")
  -- c06_test <p|m> <rates> <observed counts> <rows ;-separated> : whole array-level test with injected numbers;
  --   prescribed count = sum(obs) (p) / nActive(obs) (m); `exception` = IndexError or failed count assertion
  | ["c06_test", mode, rs, os, rows] =>
      some (match parseList? parseRat? rs, parseList? (fun s => s.toNat?) os, parseList2? parseRat? rows with
      | some rs, some os, some rows =>
        let r := if mode = "m" then Sampler.binaryTestInjected rs os rows else Sampler.poissonTestInjected rs os rows
        (match r with
         | some arrs => if arrs.isEmpty then "-" else ";".intercalate (arrs.map (showList toString))
         | none => "exception")
      | _, _, _ => "bad-op")
  -- c06_mt <seed> <n> : the first n numbers of `numpy.random.seed(seed); numpy.random.rand(n)` (exact rationals)
  | ["c06_mt", s, n] => some (match s.toNat?, n.toNat? with
      | some s, some n => showList showRat (SamplerRng.stream s n) | _, _ => "bad-op")
  -- c06_seeded_p <rates> <observed counts> <nsim> <seed> : conditional Poisson test with seed=, no numbers handed in
  | ["c06_seeded_p", rs, os, k, s] =>
      some (match parseList? parseRat? rs, parseList? (fun s => s.toNat?) os, k.toNat?, s.toNat? with
      | some rs, some os, some k, some s => (match SamplerRng.poissonTestSeeded rs os k s with
         | some arrs => if arrs.isEmpty then "-" else ";".intercalate (arrs.map (showList toString))
         | none => "exception")
      | _, _, _, _ => "bad-op")
  -- c06_seeded_l <rates> <exp(-mean)> <nsim> <seed> : L-test (forecast mean < 10) with seed=: n1:arr1;n2:arr2...
  | ["c06_seeded_l", rs, en, k, s] =>
      some (match parseList? parseRat? rs, parseRat? en, k.toNat?, s.toNat? with
      | some rs, some en, some k, some s => (match SamplerRng.lTestSeeded rs en k s with
         | some arrs => if arrs.isEmpty then "-" else
             ";".intercalate (arrs.map (fun p => s!"{p.1}:{showList toString p.2}"))
         | none => "exception")
      | _, _, _, _ => "bad-op")
  -- c06_poisson <mean bits> <seed> <n> : the first n numbers of `numpy.random.seed(seed); numpy.random.poisson(mean)` (PTRS from 10 on)
  | ["c06_poisson", lam, s, n] => some (match parseFloat? lam, s.toNat?, n.toNat? with
      | some lam, some s, some n =>
        let rec go : Nat → SamplerRng.MT → List Nat → List Nat
          | 0, _, acc => acc.reverse
          | k + 1, st, acc => match SamplerRng.poissonFloat lam st with
              | some (x, st) => go k st (x :: acc)
              | none => acc.reverse
        showList toString (go n (SamplerRng.seed s) [])
      | _, _, _ => "bad-op")
  -- c06_seeded_lf <rates> <mean bits> <nsim> <seed> : L-test with seed= for ANY forecast mean
  | ["c06_seeded_lf", rs, lam, k, s] =>
      some (match parseList? parseRat? rs, parseFloat? lam, k.toNat?, s.toNat? with
      | some rs, some lam, some k, some s => (match SamplerRng.lTestSeededF rs lam k s with
         | some arrs => if arrs.isEmpty then "-" else
             ";".intercalate (arrs.map (fun p => s!"{p.1}:{showList toString p.2}"))
         | none => "exception")
      | _, _, _, _ => "bad-op")
  -- c06_seeded_m <rates> <observed counts> <nsim> <seed> <fuel> : binary / Brier test with seed=
  | ["c06_seeded_m", rs, os, k, s, f] =>
      some (match parseList? parseRat? rs, parseList? (fun s => s.toNat?) os, k.toNat?, s.toNat?, f.toNat? with
      | some rs, some os, some k, some s, some f => (match SamplerRng.binaryTestSeeded rs os k s f with
         | some arrs => if arrs.isEmpty then "-" else ";".intercalate (arrs.map (showList toString))
         | none => "not-finished")
      | _, _, _, _, _ => "bad-op")
  -- c06_bsearch <array> <keys> : numpy's binary search (side='right', bounds carried from key to key) on ANY array
  | ["c06_bsearch", ws, ks] => some (match parseList? parseRat? ws, parseList? parseRat? ks with
      | some ws, some ks => showList toString (SamplerSearch.searchsortedRight ws ks) | _, _ => "bad-op")
  | _ => none
end Drive.C06
