import PycsepVerif.Proto
import PycsepVerif.Model.Persist
/-! driver ops of property C14 (catalog persistence).
  string fields travel as `x` + hex of their bytes; an event is `xID,ms,lat,lon,depth,mag` (rationals n/d);
  events / file records are separated by `;`, `-` = none; a file record is `H` (header) or
  `lon,lat,mag,xTIME,depth,xCATID,xEVID`, a float cell that `float()` rejects is `!`.
  Float codec of the driver: the cell *is* the rational (`Option Rat`), i.e. the text codec is the harness's business. -/
namespace Drive.C14
open Proto Time Persist

def hexVal (c : Char) : Option Nat :=
  if '0' ≤ c ∧ c ≤ '9' then some (c.toNat - 48)
  else if 'a' ≤ c ∧ c ≤ 'f' then some (c.toNat - 87) else none

def unhexAux : List Char → Option (List Char)
  | [] => some []
  | a :: b :: rest => do
      let x ← hexVal a
      let y ← hexVal b
      let r ← unhexAux rest
      some (Char.ofNat (x * 16 + y) :: r)
  | _ => none

def unhex (s : String) : Option (List Char) :=
  match s.toList with
  | 'x' :: rest => unhexAux rest
  | _ => none

def hexDigit (n : Nat) : Char := if n < 10 then Char.ofNat (48 + n) else Char.ofNat (87 + n)
def hex (cs : List Char) : String :=
  String.ofList ('x' :: cs.flatMap (fun c => [hexDigit (c.toNat / 16), hexDigit (c.toNat % 16)]))

def codec : FloatCodec (Option Rat) := { enc := some, dec := id }

def parseEvent (s : String) : Option Event :=
  match s.splitOn "," with
  | [i, ms, lat, lon, dep, mag] => do
      let i ← unhex i
      let ms ← parseInt? ms
      let lat ← parseRat? lat
      let lon ← parseRat? lon
      let dep ← parseRat? dep
      let mag ← parseRat? mag
      some { id := i, ms := ms, lat := lat, lon := lon, depth := dep, mag := mag }
  | _ => none

def parseEvents (s : String) : Option (List Event) :=
  if s = "-" then some [] else (s.splitOn ";").mapM parseEvent

def showEvent (e : Event) : String :=
  s!"{hex e.id},{e.ms},{showRat e.lat},{showRat e.lon},{showRat e.depth},{showRat e.mag}"

def showEvents (es : List Event) : String := if es.isEmpty then "-" else ";".intercalate (es.map showEvent)

def parseCell (s : String) : Option (Option Rat) := if s = "!" then some none else (parseRat? s).map some
def showCell : Option Rat → String
  | none => "!" | some r => showRat r

def parseLine (s : String) : Option (Line (Option Rat)) :=
  if s = "H" then some Line.header else
  match s.splitOn "," with
  | [lon, lat, mag, t, dep, cid, eid] => do
      let lon ← parseCell lon
      let lat ← parseCell lat
      let mag ← parseCell mag
      let t ← unhex t
      let dep ← parseCell dep
      let cid ← unhex cid
      let eid ← unhex eid
      some (Line.row { lon := lon, lat := lat, mag := mag, time := t, depth := dep, catId := cid, evId := eid })
  | _ => none

def parseLines (s : String) : Option (List (Line (Option Rat))) :=
  if s = "-" then some [] else (s.splitOn ";").mapM parseLine

def showLine : Line (Option Rat) → String
  | Line.header => "H"
  | Line.row r => s!"{showCell r.lon},{showCell r.lat},{showCell r.mag},{hex r.time},{showCell r.depth},{hex r.catId},{hex r.evId}"

def showLines (ls : List (Line (Option Rat))) : String := if ls.isEmpty then "-" else ";".intercalate (ls.map showLine)

def parseCatId (s : String) : Option (Option Int) := if s = "none" then some none else (parseInt? s).map some
def showCatId : Option Int → String
  | none => "none" | some i => toString i

def flag (s : String) : Bool := s = "1"

def mkCat (cid : Option Int) (evs : List Event) : Catalog Unit :=
  { events := evs, catalogId := cid, name := none, region := none }

def handle : List String → Option String
  | ["c14_write", hdr, emp, app, cid, evs, old] => some (
      match parseCatId cid, parseEvents evs, parseLines old with
      | some cid, some evs, some old => showLines (writeAscii codec (mkCat cid evs) (flag hdr) (flag emp) (flag app) old)
      | _, _, _ => "bad-op")
  | ["c14_read", ls] => some (
      match parseLines ls with
      | some ls => (match loadAscii codec ls with
          | .ok (evs, cid) => s!"ok {showCatId cid} {showEvents evs}"
          | .error .valueError => "ValueError"
          | .error .timeFormat => "CSEPIOException")
      | none => "bad-op")
  | ["c14_timestr", ms] => some (match parseInt? ms with
      | some ms => String.ofList (timeString ms) | none => "bad-op")
  | ["c14_dict_rt", cid, evs] => some (
      match parseCatId cid, parseEvents evs with
      | some cid, some evs =>
          let c : Catalog Unit := fromDict (fun (_ : Unit) => ()) (toDict (fun (_ : Unit) => ()) (mkCat cid evs))
          s!"{showCatId c.catalogId} {showEvents c.events}"
      | _, _ => "bad-op")
  | ["c14_frame_rt", cid, evs] => some (
      match parseCatId cid, parseEvents evs with
      | some cid, some evs =>
          let c : Catalog Unit := fromDataframe (toDataframe (mkCat cid evs))
          s!"{showCatId c.catalogId} {showEvents c.events}"
      | _, _ => "bad-op")
  | _ => none
end Drive.C14
