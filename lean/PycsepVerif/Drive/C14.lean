import PycsepVerif.Proto
import PycsepVerif.Model.Persist
/-! driver ops of property C14 (catalog persistence).
  string fields travel as `x` + hex of their bytes; an event is `xID,ms,lat,lon,depth,mag` (rationals n/d);
  events / file records are separated by `;`, `-` = none; a file record is `H` (header) or
  `lon,lat,mag,xTIME,depth,xCATID,xEVID`, a float cell that `float()` rejects is `!`.
  Float codec of the driver: the cell *is* the rational (`Option Rat`), i.e. the text codec is the harness's business. -/
namespace Drive.C14
open Proto Time Persist

def hexVal (c : Char) : Option Nat :=
  if '0' ≤ c ∧ c ≤ '9' then some (c.toNat - 48)
  else if 'a' ≤ c ∧ c ≤ 'f' then some (c.toNat - 87) else none

def unhexAux : List Char → Option (List Char)
  | [] => some []
  | a :: b :: rest => do
      let x ← hexVal a
      let y ← hexVal b
      let r ← unhexAux rest
      some (Char.ofNat (x * 16 + y) :: r)
  | _ => none

def unhex (s : String) : Option (List Char) :=
  match s.toList with
  | 'x' :: rest => unhexAux rest
  | _ => none

def hexDigit (n : Nat) : Char := if n < 10 then Char.ofNat (48 + n) else Char.ofNat (87 + n)
def hex (cs : List Char) : String :=
  String.ofList ('x' :: cs.flatMap (fun c => [hexDigit (c.toNat / 16), hexDigit (c.toNat % 16)]))

def codec : FloatCodec (Option Rat) := { enc := some, dec := id }

def parseEvent (s : String) : Option Event :=
  match s.splitOn "," with
  | [i, ms, lat, lon, dep, mag] => do
      let i ← unhex i
      let ms ← parseInt? ms
      let lat ← parseRat? lat
      let lon ← parseRat? lon
      let dep ← parseRat? dep
      let mag ← parseRat? mag
      some { id := i, ms := ms, lat := lat, lon := lon, depth := dep, mag := mag }
  | _ => none

def parseEvents (s : String) : Option (List Event) :=
  if s = "-" then some [] else (s.splitOn ";").mapM parseEvent

def showEvent (e : Event) : String :=
  s!"{hex e.id},{e.ms},{showRat e.lat},{showRat e.lon},{showRat e.depth},{showRat e.mag}"

def showEvents (es : List Event) : String := if es.isEmpty then "-" else ";".intercalate (es.map showEvent)

def parseCell (s : String) : Option (Option Rat) := if s = "!" then some none else (parseRat? s).map some
def showCell : Option Rat → String
  | none => "!" | some r => showRat r

def parseLine (s : String) : Option (Line (Option Rat)) :=
  if s = "H" then some Line.header else
  match s.splitOn "," with
  | [lon, lat, mag, t, dep, cid, eid] => do
      let lon ← parseCell lon
      let lat ← parseCell lat
      let mag ← parseCell mag
      let t ← unhex t
      let dep ← parseCell dep
      let cid ← unhex cid
      let eid ← unhex eid
      some (Line.row { lon := lon, lat := lat, mag := mag, time := t, depth := dep, catId := cid, evId := eid })
  | _ => none

def parseLines (s : String) : Option (List (Line (Option Rat))) :=
  if s = "-" then some [] else (s.splitOn ";").mapM parseLine

def showLine : Line (Option Rat) → String
  | Line.header => "H"
  | Line.row r => s!"{showCell r.lon},{showCell r.lat},{showCell r.mag},{hex r.time},{showCell r.depth},{hex r.catId},{hex r.evId}"

def showLines (ls : List (Line (Option Rat))) : String := if ls.isEmpty then "-" else ";".intercalate (ls.map showLine)

def parseCatId (s : String) : Option (Option Int) := if s = "none" then some none else (parseInt? s).map some
def showCatId : Option Int → String
  | none => "none" | some i => toString i

def flag (s : String) : Bool := s = "1"

def mkCat (cid : Option Int) (evs : List Event) : Catalog Unit :=
  { events := evs, catalogId := cid, name := none, region := none }

/-! round 4: regions travel as `<name: x-hex | none> <dh n/d | none> <origins `a:b;a:b…` | - | none>` -/
def parseOptName (s : String) : Option (Option (List Char)) := if s = "none" then some none else (unhex s).map some
def showOptName : Option (List Char) → String
  | none => "none" | some n => hex n
def parsePair (s : String) : Option (Rat × Rat) :=
  match s.splitOn ":" with
  | [a, b] => do
      let a ← parseRat? a
      let b ← parseRat? b
      some (a, b)
  | _ => none
def parsePairs (s : String) : Option (List (Rat × Rat)) := if s = "-" then some [] else (s.splitOn ";").mapM parsePair
def showPairs (l : List (Rat × Rat)) : String :=
  if l.isEmpty then "-" else ";".intercalate (l.map (fun p => s!"{showRat p.1}:{showRat p.2}"))
def parseOptRat (s : String) : Option (Option Rat) := if s = "none" then some none else (parseRat? s).map some
def parseOptPairs (s : String) : Option (Option (List (Rat × Rat))) :=
  if s = "none" then some none else (parsePairs s).map some
def showRegion (r : Region) : String := s!"{showOptName r.name} {showRat r.dh} {showPairs r.origins}"

def handle : List String → Option String
  -- c14_writeg <hdr> <emp> <app> <cid> <events> <old> <hasIdCol> : write_ascii(id_col=…) with / without the column
  | ["c14_writeg", hdr, emp, app, cid, evs, old, hasid] => some (
      match parseCatId cid, parseEvents evs, parseLines old with
      | some cid, some evs, some old =>
          showLines (writeAsciiG codec (mkCat cid evs) (flag hdr) (flag emp) (flag app) old (flag hasid))
      | _, _, _ => "bad-op")
  -- c14_region_dict <name> <dh> <origins lon:lat> : the dict form (name, dh, polygons as lat:lon, class id)
  | ["c14_region_dict", name, dh, org] => some (
      match parseOptName name, parseRat? dh, parsePairs org with
      | some name, some dh, some org =>
          let d := Region.toDict { origins := org, dh := dh, name := name, magnitudes := none }
          s!"{showOptName d.name} {match d.dh with | some x => showRat x | none => "none"} " ++
          s!"{match d.polygons with | some p => showPairs p | none => "none"} {showOptName d.classId}"
      | _, _, _ => "bad-op")
  -- c14_region_rt <name> <dh> <origins> : the region after from_dict(to_dict())
  | ["c14_region_rt", name, dh, org] => some (
      match parseOptName name, parseRat? dh, parsePairs org with
      | some name, some dh, some org =>
          (match Region.fromDict (Region.toDict { origins := org, dh := dh, name := name, magnitudes := none }) with
           | .ok r => showRegion r
           | .error _ => "error")
      | _, _, _ => "bad-op")
  -- c14_region_load <present 0/1> <class id> <name> <dh> <polygons lat:lon> : the region branch of Catalog.from_dict
  | ["c14_region_load", present, cls, name, dh, polys] => some (
      match parseOptName cls, parseOptName name, parseOptRat dh, parseOptPairs polys with
      | some cls, some name, some dh, some polys =>
          let rd : Option RegionDict :=
            if flag present then some { name := name, dh := dh, polygons := polys, classId := cls } else none
          (match loadRegion rd with
           | .ok none => "none"
           | .ok (some r) => "region " ++ showRegion r
           | .error .keyError => "KeyError"
           | .error .attributeError => "AttributeError")
      | _, _, _, _ => "bad-op")
  -- c14_cells <dh> <origins> <points lon:lat> : cell of every point (`-1` = outside) and the per-cell counts
  | ["c14_cells", dh, org, pts] => some (
      match parseRat? dh, parsePairs org, parsePairs pts with
      | some dh, some org, some pts =>
          let r : Region := { origins := org, dh := dh, name := none, magnitudes := none }
          let cells := pts.map (fun p => match r.cellOf p.1 p.2 with | some i => toString i | none => "-1")
          let evs : List Event := pts.map (fun p => { id := [], ms := 0, lat := p.2, lon := p.1, depth := 0, mag := 0 })
          ",".intercalate cells ++ " " ++ ",".intercalate ((cellCounts r.afterDict evs).map toString)
      | _, _, _ => "bad-op")
  -- c14_frame_dt_rt <cid> <events> : through the datetime-indexed frame; also how many rows carry the label of row 0
  | ["c14_frame_dt_rt", cid, evs] => some (
      match parseCatId cid, parseEvents evs with
      | some cid, some evs =>
          let df := toDataframeDt (mkCat cid evs)
          let c : Catalog Unit := fromDataframeL df
          let dup := match evs with | e :: _ => (atLabel df e.ms).length | [] => 0
          s!"{showCatId c.catalogId} {showEvents c.events} {dup}"
      | _, _ => "bad-op")
  | ["c14_write", hdr, emp, app, cid, evs, old] => some (
      match parseCatId cid, parseEvents evs, parseLines old with
      | some cid, some evs, some old => showLines (writeAscii codec (mkCat cid evs) (flag hdr) (flag emp) (flag app) old)
      | _, _, _ => "bad-op")
  | ["c14_read", ls] => some (
      match parseLines ls with
      | some ls => (match loadAscii codec ls with
          | .ok (evs, cid) => s!"ok {showCatId cid} {showEvents evs}"
          | .error .valueError => "ValueError"
          | .error .timeFormat => "CSEPIOException")
      | none => "bad-op")
  | ["c14_timestr", ms] => some (match parseInt? ms with
      | some ms => String.ofList (timeString ms) | none => "bad-op")
  | ["c14_dict_rt", cid, evs] => some (
      match parseCatId cid, parseEvents evs with
      | some cid, some evs =>
          let c : Catalog Unit := fromDict (fun (_ : Unit) => ()) (toDict (fun (_ : Unit) => ()) (mkCat cid evs))
          s!"{showCatId c.catalogId} {showEvents c.events}"
      | _, _ => "bad-op")
  | ["c14_frame_rt", cid, evs] => some (
      match parseCatId cid, parseEvents evs with
      | some cid, some evs =>
          let c : Catalog Unit := fromDataframe (toDataframe (mkCat cid evs))
          s!"{showCatId c.catalogId} {showEvents c.events}"
      | _, _ => "bad-op")
  | _ => none
end Drive.C14
