import PycsepVerif.Proto
import PycsepVerif.Model.ResultJson
/-!
  Driver ops for C18 (all prefixed `c18_`).
    c18_tables                 → `Class|Class|…;key>Class|key>Class|…`  (the Lean tables resultClasses / factoryTable)
    c18_field  <val>           → `<json> <loaded> <safe:0|1>`   json.dump(default=_json_default) then json.load of one field
    c18_td     <val>           → `err` (to_dict raises TypeError) or `<loaded>` of the stored test_distribution
    c18_factory <hex-name>     → hex of the class name built, or `KeyError`
    c18_loaders <hex-type> <hex-cls> → `<class built by load_evaluation_result or KeyError>;<class built by load_json(cls)>`
    c18_region origins dh mask pts → `i,i,…;j,j,…` exact-lattice indices (n = outside) in the original region and in
                                 the region rebuilt from its dictionary
  Values travel in prefix (Polish) notation, tokens joined by `,`:
    i<int> b<0|1> f<bits|nan> F<bits|nan> I<int> B<0|1> G<bits|nan> o<hex> s<hex> n l<k> t<k> a<k>     (PyVal)
    N b<0|1> i<int> f<bits|nan> s<hex> l<k>                                               (Json)
  Strings are hex-encoded UTF-8.
-/
namespace Drive.C18
open Proto ResultJson

def hexDigit (n : Nat) : Char := if n < 10 then Char.ofNat (48 + n) else Char.ofNat (87 + n)
def hexVal? (c : Char) : Option Nat :=
  if '0' ≤ c ∧ c ≤ '9' then some (c.toNat - 48) else if 'a' ≤ c ∧ c ≤ 'f' then some (c.toNat - 87) else none

def toHex (s : String) : String :=
  String.ofList (s.toUTF8.toList.flatMap (fun b => [hexDigit (b.toNat / 16), hexDigit (b.toNat % 16)]))

def fromHexAux : List Char → ByteArray → Option ByteArray
  | [], acc => some acc
  | [_], _ => none
  | a :: b :: rest, acc => do
      let x ← hexVal? a
      let y ← hexVal? b
      fromHexAux rest (acc.push (UInt8.ofNat (16 * x + y)))

def fromHex? (s : String) : Option String := do
  let bytes ← fromHexAux s.toList ByteArray.empty
  String.fromUTF8? bytes

def parseF64? (s : String) : Option F64 := if s = "nan" then some .nan else s.toNat?.map .num
def showF64 : F64 → String
  | .nan => "nan"
  | .num b => toString b

def listOf : PyList → List PyVal
  | .nil => []
  | .cons v vs => v :: listOf vs
def jlistOf : JList → List Json
  | .nil => []
  | .cons v vs => v :: jlistOf vs

mutual
  /-- parse one value from the token stream; fuel = number of tokens -/
  def parseVal : Nat → List String → Option (PyVal × List String)
    | 0, _ => none
    | _ + 1, [] => none
    | fuel + 1, tok :: rest =>
      let body := (tok.drop 1).toString
      match tok.front with
      | 'i' => body.toInt?.map (fun n => (.pyInt n, rest))
      | 'b' => some (.pyBool (body = "1"), rest)
      | 'f' => (parseF64? body).map (fun x => (.pyFloat x, rest))
      | 'F' => (parseF64? body).map (fun x => (.npFloat64 x, rest))
      | 'I' => body.toInt?.map (fun n => (.npInt64 n, rest))
      | 'B' => some (.npBool (body = "1"), rest)
      | 'G' => (parseF64? body).map (fun x => (.npFloat32 x, rest))
      | 'o' => (fromHex? body).map (fun s => (.other s, rest))
      | 's' => (fromHex? body).map (fun s => (.str s, rest))
      | 'n' => some (.none, rest)
      | 'l' => body.toNat?.bind (fun k => (parseVals fuel k rest).map (fun (xs, r) => (.list xs, r)))
      | 't' => body.toNat?.bind (fun k => (parseVals fuel k rest).map (fun (xs, r) => (.tuple xs, r)))
      | 'a' => body.toNat?.bind (fun k => (parseVals fuel k rest).map (fun (xs, r) => (.ndarray xs, r)))
      | _ => none
  def parseVals : Nat → Nat → List String → Option (PyList × List String)
    | 0, _, _ => none
    | _ + 1, 0, rest => some (.nil, rest)
    | fuel + 1, k + 1, toks =>
      (parseVal fuel toks).bind (fun (v, r) => (parseVals fuel k r).map (fun (vs, r') => (.cons v vs, r')))
end

def parse? (s : String) : Option PyVal :=
  let toks := s.splitOn ","
  match parseVal (2 * toks.length + 2) toks with
  | some (v, []) => some v
  | _ => none

mutual
  def showVal : PyVal → List String
    | .pyInt n => [s!"i{n}"]
    | .pyBool b => [if b then "b1" else "b0"]
    | .pyFloat x => ["f" ++ showF64 x]
    | .npFloat64 x => ["F" ++ showF64 x]
    | .npInt64 n => [s!"I{n}"]
    | .npBool b => [if b then "B1" else "B0"]
    | .npFloat32 x => ["G" ++ showF64 x]
    | .other s => ["o" ++ toHex s]
    | .str s => ["s" ++ toHex s]
    | .none => ["n"]
    | .list xs => let l := showVals xs; s!"l{lenL xs}" :: l
    | .tuple xs => let l := showVals xs; s!"t{lenL xs}" :: l
    | .ndarray xs => let l := showVals xs; s!"a{lenL xs}" :: l
  def showVals : PyList → List String
    | .nil => []
    | .cons v vs => showVal v ++ showVals vs
  def lenL : PyList → Nat
    | .nil => 0
    | .cons _ vs => lenL vs + 1
end

mutual
  def showJson : Json → List String
    | .null => ["N"]
    | .bool b => [if b then "b1" else "b0"]
    | .int n => [s!"i{n}"]
    | .float x => ["f" ++ showF64 x]
    | .str s => ["s" ++ toHex s]
    | .arr xs => s!"l{lenJ xs}" :: showJsons xs
  def showJsons : JList → List String
    | .nil => []
    | .cons v vs => showJson v ++ showJsons vs
  def lenJ : JList → Nat
    | .nil => 0
    | .cons _ vs => lenJ vs + 1
end

def enc (v : PyVal) : String := ",".intercalate (showVal v)
def encJ (j : Json) : String := ",".intercalate (showJson j)

def parsePairs? (s : String) : Option (List (Rat × Rat)) := do
  let rows ← parseList2? parseRat? s
  rows.mapM (fun r => match r with | [x, y] => some (x, y) | _ => none)

def showIdx (o : Option Nat) : String := match o with | some i => toString i | none => "n"

def handle : List String → Option String
  | ["c18_tables"] => some ("|".intercalate resultClasses ++ ";" ++
      "|".intercalate (factoryTable.map (fun (k, v) => k ++ ">" ++ v)))
  | ["c18_field", v] => some (match parse? v with
      | some v => s!"{encJ (toJson v)} {enc (roundTrip v)} {if safeB v then 1 else 0}"
      | none => "bad-op")
  | ["c18_td", v] => some (match parse? v with
      | some v => (match tdList v with | some td => enc (roundTrip td) | none => "err")
      | none => "bad-op")
  | ["c18_factory", name] => some (match fromHex? name with
      | some n => (match factory n with | some c => toHex c | none => "KeyError")
      | none => "bad-op")
  | ["c18_loaders", typ, cls] => some (match fromHex? typ, fromHex? cls with
      | some t, some c =>
        -- class built by load_evaluation_result (factory on the stored type) ; class built by load_json(cls, …)
        let j : JResult := { type := t, testDistribution := .null, name := .null, observedStatistic := .null,
                             quantile := .null, status := .null, obsCatalogRepr := .null, simName := .null,
                             obsName := .null, minMw := .null }
        (match load j with | some r => toHex r.cls | none => "KeyError") ++ ";" ++ toHex (loadAs c j).cls
      | _, _ => "bad-op")
  | ["c18_region", origins, dh, mask, pts] => some (
      match parsePairs? origins, parseRat? dh, parseList? (fun s => s.toNat?.map (· != 0)) mask, parsePairs? pts with
      | some os, some d, some m, some ps =>
        let r : Region := { origins := os, dh := d, mask := if mask = "-" then none else some m, name := "r" }
        let r2 := Region.fromDict r.toDict
        showList (fun p => showIdx (r.indexOf p)) ps ++ ";" ++ showList (fun p => showIdx (r2.indexOf p)) ps
      | _, _, _, _ => "bad-op")
  | _ => none
end Drive.C18
