import PycsepVerif.Drive.C15
import PycsepVerif.Model.TimeCalls
import PycsepVerif.Model.Strptime
import PycsepVerif.Drive.C18
/-! driver ops of property C15, round 4 (call sites of the conversions; `Model/TimeCalls.lean`).
    c15_scale <s,e,t,s,e,t,…>          scale_to_test_date per triple (µs): `self` | `<n/d>` | `ZeroDivisionError`
    c15_stmt  <statement> <t,t,…|->    datetime statement of filter (blank ↦ `_`): `err` | `<kept,…|->`
    c15_nod   <string>                 _none_or_datetime of a string: `err` | `<us>`
    c15_fmtg  <c,c,c,c,c,f> <us>       strftime with `%Y<c>%m<c>%d<c>%H<c>%M<c>%S[<f>%f]` (code points; f = -1: no fraction)
    c15_parseg <c,c,c,c,c,f> <string>  strptime_to_utc_datetime with that explicit format: `none` | `<us>` -/
namespace Drive.C15b
open Proto Time
open Drive.C15 (showInt esc unesc)

def triples (f : Int → Int → Int → String) : List Int → List String
  | a :: b :: c :: rest => f a b c :: triples f rest
  | _ => []

def showScale (s e t : Int) : String :=
  match scaleToTestDate s e t with
  | .unchanged => "self"
  | .frac q => showRat q
  | .zeroDiv => "ZeroDivisionError"

def fmtG? (xs : List Int) : Option FormatG :=
  match xs with
  | [a, b, c, d, e, f] =>
    let ch (n : Int) : Char := Char.ofNat n.toNat
    some { d1 := ch a, d2 := ch b, sep := ch c, t1 := ch d, t2 := ch e, fsep := if f < 0 then none else some (ch f) }
  | _ => none

def handle : List String → Option String
  | ["c15_scale", xs] => some (match parseList? parseInt? xs with
      | some xs => ",".intercalate (triples showScale xs) | none => "bad-op")
  | ["c15_stmt", s, ts] => some (match parseList? parseInt? ts with
      | some ts =>
        let cs := unesc s
        (match datetimeStatement cs, filterDatetime cs ts with
         | some _, some kept => showList showInt kept
         | _, _ => "err")
      | none => "bad-op")
  | ["c15_nod", s] => some (match noneOrDatetime (.isString (unesc s)) with
      | some (some us) => showInt us
      | _ => "err")
  | ["c15_fmtg", codes, x] => some (match (parseList? parseInt? codes).bind fmtG?, parseInt? x with
      | some fmt, some us => esc (formatFieldsG fmt (fields us))
      | _, _ => "bad-op")
  | ["c15_parseg", codes, s] => some (match (parseList? parseInt? codes).bind fmtG? with
      | some fmt => showOpt showInt (strptimeG fmt (unesc s))
      | none => "bad-op")
  -- c15_strp <dt|epoch> <hex of the format> <hex of the string> : strptime_to_utc_datetime / _epoch with any format
  --   (general backtracking matcher of Model/Strptime.lean); `none` = the call raises
  | ["c15_strp", kind, hf, hs] => some (match Drive.C18.fromHex? (if hf = "-" then "" else hf), Drive.C18.fromHex? (if hs = "-" then "" else hs) with
      | some f, some s =>
        if kind = "dt" then showOpt showInt (strptimeToUtcDatetimeStr f.toList s.toList)
        else showOpt showInt (strptimeToUtcEpochStr f.toList s.toList)
      | _, _ => "bad-op")
  | _ => none
end Drive.C15b
