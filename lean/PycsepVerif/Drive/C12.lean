import PycsepVerif.Proto
import PycsepVerif.Model.AsciiCatalogs
/-
  Driver ops of C12.
    c12_decode <lines>     lines separated by `;`, `-` = empty file.  A line is `H` (header) or seven fields
                           `lon~lat~mag~time~depth~catid~eventid`; a blank field is the empty string; lon/lat/mag/depth
                           are rationals `n/d`, time is integer epoch milliseconds, catid an integer.
      → `ok:<cat>;<cat>…`  cat = `<id>|<ev>,<ev>…`, ev = `eventid~time~lat~lon~depth~mag` (`none` for a blank)
      → `err:decreasing` | `err:malformed`
-/
namespace Drive.C12
open Proto AsciiCatalogs

def optField {α} (f : String → Option α) (s : String) : Option (Option α) :=
  if s = "" then some none else (f s).map some

def parseLine? (s : String) : Option Line :=
  if s = "H" then some .header else
  match s.splitOn "~" with
  | [lon, lat, mag, t, dep, cid, eid] => do
      let lon ← optField parseRat? lon
      let lat ← optField parseRat? lat
      let mag ← optField parseRat? mag
      let t ← optField parseInt? t
      let dep ← optField parseRat? dep
      let cid ← parseInt? cid
      some (.row ⟨⟨eid, t, lat, lon, dep, mag⟩, cid⟩)
  | _ => none

def showO {α} (f : α → String) : Option α → String
  | none => "none"
  | some a => f a

def showEv (e : Ev) : String :=
  "~".intercalate [e.eventId, showO toString e.time, showO showRat e.lat, showO showRat e.lon,
                   showO showRat e.depth, showO showRat e.mag]

def showCat (c : Catalog) : String :=
  showO toString c.id ++ "|" ++ ",".intercalate (c.events.map showEv)

def showResult : Except Err (List Catalog) → String
  | .ok cs => "ok:" ++ ";".intercalate (cs.map showCat)
  | .error .decreasing => "err:decreasing"
  | .error .malformed => "err:malformed"

def handle : List String → Option String
  | ["c12_decode", ls] => some (
      match (if ls = "-" then some [] else (ls.splitOn ";").mapM parseLine?) with
      | some lines => showResult (decode lines)
      | none => "bad-op")
  | _ => none
end Drive.C12
