import PycsepVerif.Proto
import PycsepVerif.Model.Time
import PycsepVerif.Model.TimeExt
/-! driver ops of property C15 (time conversions). Lists are comma separated; a space inside a time string
    travels as `_`. -/
namespace Drive.C15
open Proto Time

def showInt (i : Int) : String := toString i

def unesc (s : String) : List Char := s.toList.map (fun c => if c = '_' then ' ' else c)
def esc (s : List Char) : String := String.ofList (s.map (fun c => if c = ' ' then '_' else c))

def showFields (f : Fields) : String :=
  ",".intercalate ([f.year, f.month, f.day, f.hour, f.minute, f.second, f.micro].map showInt)

def tz? : String → Option Tz
  | "naive" => some .naive | "utc" => some .utc | "other" => some .other | _ => none

def pairsMap (f : Int → Int → Rat) : List Int → List Rat
  | a :: b :: rest => f a b :: pairsMap f rest
  | _ => []

def handle : List String → Option String
  | ["c15_ms2dt", xs] => some (match parseList? parseInt? xs with
      | some xs => showList showInt (xs.map toDatetime) | none => "bad-op")
  | ["c15_dt2ms", tz, xs] => some (match tz? tz, parseList? parseInt? xs with
      | some tz, some xs => showList (showOpt showInt) (xs.map (datetimeToUtcEpoch tz)) | _, _ => "bad-op")
  | ["c15_fields", x] => some (match parseInt? x with
      | some x => showFields (fields x) | none => "bad-op")
  | ["c15_offields", xs] => some (match parseList? parseInt? xs with
      | some [y, m, d, h, mi, s, us] =>
          let f : Fields := { year := y, month := m, day := d, hour := h, minute := mi, second := s, micro := us }
          if validFields f then showInt (ofFields f) else "ValueError"
      | _ => "bad-op")
  | ["c15_decyear", xs] => some (match parseList? parseInt? xs with
      | some xs => showList showRat (xs.map decimalYear) | none => "bad-op")
  | ["c15_decyear_inv", xs] => some (match parseList? parseRat? xs with
      | some xs => showList showInt (xs.map decimalYearToDatetime) | none => "bad-op")
  | ["c15_str", kind, x] => some (match parseInt? x with
      | some x => (match kind with
          | "naive" => esc (strNaive x) | "aware" => esc (strAware x) | "T" => esc (isoformat 'T' x)
          | _ => "bad-op")
      | none => "bad-op")
  | ["c15_parse", kind, s] => some (
      let cs := unesc s
      match kind with
      | "dt" => showOpt showInt (strptimeToUtcDatetime cs)
      | "epoch" => showOpt showInt (strptimeToUtcEpoch cs)
      | "reader" => showOpt showInt (readerParse cs)
      | _ => "bad-op")
  -- wave 4 ------------------------------------------------------------------------------------------------
  -- c15_ms2dt_nt <ms,...> : the os.name == "nt" path; `<us>:a` aware / `<us>:n` naive
  | ["c15_ms2dt_nt", xs] => some (match parseList? parseInt? xs with
      | some xs => showList (fun (p : Int × Bool) => showInt p.1 ++ (if p.2 then ":a" else ":n")) (xs.map toDatetimeNt)
      | none => "bad-op")
  -- c15_ms2dt_nt_old <ms,...> : that path before fix D39 (finding)
  | ["c15_ms2dt_nt_old", xs] => some (match parseList? parseInt? xs with
      | some xs => showList (fun (p : Int × Bool) => showInt p.1 ++ (if p.2 then ":a" else ":n")) (xs.map toDatetimeNtOld)
      | none => "bad-op")
  -- c15_ms2dt_ntp <ms,...> : the proposed repair of that path
  | ["c15_ms2dt_ntp", xs] => some (match parseList? parseInt? xs with
      | some xs => showList (fun (p : Int × Bool) => showInt p.1 ++ (if p.2 then ":a" else ":n")) (xs.map toDatetimeNtPatched)
      | none => "bad-op")
  | ["c15_m2d", xs] => some (match parseList? parseInt? xs with
      | some xs => showList showRat (xs.map millisToDays) | none => "bad-op")
  | ["c15_d2m", xs] => some (match parseList? parseRat? xs with
      | some xs => showList showRat (xs.map daysToMillisF) | none => "bad-op")
  | ["c15_d2mi", xs] => some (match parseList? parseInt? xs with
      | some xs => showList showInt (xs.map daysToMillisI) | none => "bad-op")
  | ["c15_tdy", xs] => some (match parseList? parseRat? xs with
      | some xs => showList (showOpt showInt) (xs.map timedeltaFromYears) | none => "bad-op")
  -- c15_thy <startUs,endUs,startUs,endUs,...> : time_horizon_years of each window
  | ["c15_thy", xs] => some (match parseList? parseInt? xs with
      | some xs => showList showRat (pairsMap timeHorizonYears xs)
      | none => "bad-op")
  -- c15_len <firstMs,lastMs,...> : length_in_seconds
  | ["c15_len", xs] => some (match parseList? parseInt? xs with
      | some xs => showList showRat (pairsMap lengthInSeconds xs)
      | none => "bad-op")
  -- c15_parsex <dt|epoch> <sep: T|S|other char> <frac 0/1> <zone 0/1> <string> : explicit format argument
  | ["c15_parsex", kind, sep, fr, zn, s] => some (
      let cs := unesc s
      let sepc : Char := if sep = "S" then ' ' else (sep.toList.headD 'T')
      let fmt : Format := { sep := sepc, frac := fr = "1", zone := zn = "1" }
      match kind with
      | "dt" => showOpt showInt (strptimeExplicitDatetime fmt cs)
      | "epoch" => showOpt showInt (strptimeExplicitEpoch fmt cs)
      | _ => "bad-op")
  | ["c15_createutc", which, tz, x] => some (match tz? tz, parseInt? x with
      | some tz, some x =>
          (match (if which = "old" then createUtcDatetimeOld tz x else createUtcDatetime tz x) with
           | .ok us => showInt us | .assertionError => "AssertionError" | .attributeError => "AttributeError")
      | _, _ => "bad-op")
  | _ => none
end Drive.C15
