import PycsepVerif.Proto
import PycsepVerif.Model.Time
/-! driver ops of property C15 (time conversions). Lists are comma separated; a space inside a time string
    travels as `_`. -/
namespace Drive.C15
open Proto Time

def showInt (i : Int) : String := toString i

def unesc (s : String) : List Char := s.toList.map (fun c => if c = '_' then ' ' else c)
def esc (s : List Char) : String := String.ofList (s.map (fun c => if c = ' ' then '_' else c))

def showFields (f : Fields) : String :=
  ",".intercalate ([f.year, f.month, f.day, f.hour, f.minute, f.second, f.micro].map showInt)

def tz? : String → Option Tz
  | "naive" => some .naive | "utc" => some .utc | "other" => some .other | _ => none

def handle : List String → Option String
  | ["c15_ms2dt", xs] => some (match parseList? parseInt? xs with
      | some xs => showList showInt (xs.map toDatetime) | none => "bad-op")
  | ["c15_dt2ms", tz, xs] => some (match tz? tz, parseList? parseInt? xs with
      | some tz, some xs => showList (showOpt showInt) (xs.map (datetimeToUtcEpoch tz)) | _, _ => "bad-op")
  | ["c15_fields", x] => some (match parseInt? x with
      | some x => showFields (fields x) | none => "bad-op")
  | ["c15_offields", xs] => some (match parseList? parseInt? xs with
      | some [y, m, d, h, mi, s, us] =>
          let f : Fields := { year := y, month := m, day := d, hour := h, minute := mi, second := s, micro := us }
          if validFields f then showInt (ofFields f) else "ValueError"
      | _ => "bad-op")
  | ["c15_decyear", xs] => some (match parseList? parseInt? xs with
      | some xs => showList showRat (xs.map decimalYear) | none => "bad-op")
  | ["c15_decyear_inv", xs] => some (match parseList? parseRat? xs with
      | some xs => showList showInt (xs.map decimalYearToDatetime) | none => "bad-op")
  | ["c15_str", kind, x] => some (match parseInt? x with
      | some x => (match kind with
          | "naive" => esc (strNaive x) | "aware" => esc (strAware x) | "T" => esc (isoformat 'T' x)
          | _ => "bad-op")
      | none => "bad-op")
  | ["c15_parse", kind, s] => some (
      let cs := unesc s
      match kind with
      | "dt" => showOpt showInt (strptimeToUtcDatetime cs)
      | "epoch" => showOpt showInt (strptimeToUtcEpoch cs)
      | "reader" => showOpt showInt (readerParse cs)
      | _ => "bad-op")
  | _ => none
end Drive.C15
