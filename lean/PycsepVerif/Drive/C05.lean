import PycsepVerif.Proto
import PycsepVerif.Model.PoissonLL
/-! driver ops of C05 (Float instance of Model/PoissonLL). Floats travel as IEEE-754 bit patterns.
    `c05_stat <0|1> <rates> <counts>`, `c05_test <L|CL|S|M> <data rows ;-separated> <count rows>`,
    `c05_sim <L|CL|S|M> <data rows> <simulated counts (1-D)>`, `c05_marg <data rows>`, `c05_cells <data rows> <count rows>` (poisson_spatial_likelihood, list of bit patterns),
    `c05_mode <mode> <data rows> <count rows> <simulated count arrays ;-separated or ->` (observed then every simulated); answers: bits or `ninf`. -/
namespace Drive.C05
open Proto PoissonLL

def showELL : ELL Float → String
  | .negInf => "ninf"
  | .fin x => showFloat x

def parseMode? : String → Option Mode
  | "L" => some .L | "CL" => some .CL | "S" => some .S | "M" => some .M | _ => none

def parseNat? (s : String) : Option Nat := s.toNat?

def handle : List String → Option String
  | ["c05_stat", n, rs, cs] => some (match parseList? parseFloat? rs, parseList? parseNat? cs with
      | some rs, some cs =>
        if rs.length ≠ cs.length then "bad-op" else
        showELL (stat (α := Float) (n == "1") (rs.zip cs))
      | _, _ => "bad-op")
  | ["c05_test", m, d, c] => some (match parseMode? m, parseList2? parseFloat? d, parseList2? parseNat? c with
      | some m, some d, some c => showELL (testStat (α := Float) m d c)
      | _, _, _ => "bad-op")
  | ["c05_sim", m, d, c] => some (match parseMode? m, parseList2? parseFloat? d, parseList? parseNat? c with
      | some m, some d, some c => showELL (simStat (α := Float) m d c)
      | _, _, _ => "bad-op")
  | ["c05_mode", m, d, c, sims] =>
      some (match parseMode? m, parseList2? parseFloat? d, parseList2? parseNat? c, parseList2? parseNat? sims with
      | some m, some d, some c, some sims =>
        " ".intercalate (showELL (testStat (α := Float) m d c) :: sims.map (fun s => showELL (simStat (α := Float) m d s)))
      | _, _, _, _ => "bad-op")
  | ["c05_cells", d, c] => some (match parseList2? parseFloat? d, parseList2? parseNat? c with
      | some d, some c => showList showFloat (poissonSpatialMap (α := Float) d c)
      | _, _ => "bad-op")
  | ["c05_marg", d] => some (match parseList2? parseFloat? d with
      | some d => showList showFloat (spatialMarginal d) ++ " " ++ showList showFloat (magMarginal d)
      | none => "bad-op")
  | _ => none
end Drive.C05
