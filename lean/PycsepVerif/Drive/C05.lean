import PycsepVerif.Proto
import PycsepVerif.Model.PoissonLL
import PycsepVerif.Model.PoissonTest
import PycsepVerif.Model.PoissonSession
import PycsepVerif.Model.PoissonStream
import PycsepVerif.Model.FloatSum
/-! driver ops of C05 (Float instance of Model/PoissonLL). Floats travel as IEEE-754 bit patterns.
    `c05_stat <0|1> <rates> <counts>`, `c05_test <L|CL|S|M> <data rows ;-separated> <count rows>`,
    `c05_sim <L|CL|S|M> <data rows> <simulated counts (1-D)>`, `c05_marg <data rows>`, `c05_cells <data rows> <count rows>` (poisson_spatial_likelihood, list of bit patterns),
    `c05_mode <mode> <data rows> <count rows> <simulated count arrays ;-separated or ->` (observed then every simulated); answers: bits or `ninf`. -/
namespace Drive.C05
open Proto PoissonLL

/-- the exact rational value of a finite binary64 given by its bit pattern (the embedding `toQ` of the chained model) -/
def ratOfBits (b : Nat) : Rat :=
  let e : Nat := (b / 2 ^ 52) % 2048
  let m : Nat := b % 2 ^ 52
  let full : Nat := 2 ^ 52 + m
  let mag : Rat :=
    if e = 0 then mkRat (Int.ofNat m) (2 ^ 1074)
    else if e ≥ 1075 then ((full * 2 ^ (e - 1075) : Nat) : Rat)
    else mkRat (Int.ofNat full) (2 ^ (1075 - e))
  if b / 2 ^ 63 = 1 then -mag else mag

def floatToRat (x : Float) : Rat := ratOfBits x.toBits.toNat

def parseBitsRat? (s : String) : Option Rat := s.toNat?.map ratOfBits

/-- rows of injected numbers; `-` with `nsim > 0` means `nsim` empty rows (catalogs of zero events) -/
def parseRows? (nsim : Nat) (s : String) : Option (List (List Rat)) :=
  (parseList2? parseBitsRat? s).map (fun rows => if rows.isEmpty then List.replicate nsim [] else rows)

def showResult : Option (PoissonTest.Result Float) → String
  | none => "exception"
  | some r =>
    let stats := " ".intercalate (([r.obsLL] ++ r.simLL).map (fun v => match v with
      | .negInf => "ninf" | .fin x => showFloat x))
    let arrs := if r.sims.isEmpty then "-" else ";".intercalate (r.sims.map (showList toString))
    s!"{stats}|{arrs}|{showPair r.quantile}"

/-- `c:b` with `-1` for none -/
def parseEv? (s : String) : Option Gridding.Ev :=
  match s.splitOn ":" with
  | [c, b] => do
      let ci ← c.toInt?
      let bi ← b.toInt?
      some ⟨if ci < 0 then none else some ci.toNat, if bi < 0 then none else some bi.toNat⟩
  | _ => none

def showELL : ELL Float → String
  | .negInf => "ninf"
  | .fin x => showFloat x

def parseMode? : String → Option Mode
  | "L" => some .L | "CL" => some .CL | "S" => some .S | "M" => some .M | _ => none

def parseNat? (s : String) : Option Nat := s.toNat?

/-- one op of a session: `N|rows|edges`, `S|k|bits`, `E|edges`, `M|c|e|mag`, `T|mode|k|c`, `O` -/
def parseOp? (t : String) : Option (PoissonSession.Op Float) :=
  match t.splitOn "|" with
  | ["N", rows, edges] => do
      let d ← parseList2? parseFloat? rows
      let e ← parseList? parseRat? edges
      some (.newForecast d e)
  | ["S", k, c] => do some (.scale (← k.toNat?) (← parseFloat? c))
  -- array-valued factor: A|k|C|w (per cell, shape (n,1)), A|k|M|w (per magnitude, (m,) or (1,m)), A|k|B|rows (per bin, (n,m))
  | ["A", k, "C", w] => do some (.scaleBy (← k.toNat?) (.perCell (← parseList? parseFloat? w)))
  | ["A", k, "M", w] => do some (.scaleBy (← k.toNat?) (.perMag (← parseList? parseFloat? w)))
  | ["A", k, "B", w] => do some (.scaleBy (← k.toNat?) (.perBin (← parseList2? parseFloat? w)))
  | ["E", edges] => do some (.setEdges (← parseList? parseRat? edges))
  | ["M", c, e, m] => do some (.editMag (← c.toNat?) (← e.toNat?) (← parseRat? m))
  | ["T", m, k, c] => do some (.test (← parseMode? m) (← k.toNat?) (← c.toNat?))
  | ["O"] => some .otherEval
  | _ => none

/-- `cell:magnitude` -/
def parseSessEv? (s : String) : Option (Nat × Rat) :=
  match s.splitOn ":" with
  | [c, m] => do some ((← c.toNat?), (← parseRat? m))
  | _ => none

def handle : List String → Option String
  -- c05_session <ncell> <events cell:mag,…> <op> <op> … : two catalogs with these events (shared region / no region), a
  --   history of ops; answers what every `T` step reports
  | "c05_session" :: nc :: evs :: ops =>
      some (match nc.toNat?, parseList? parseSessEv? evs, ops.mapM parseOp? with
      | some nc, some evs, some ops =>
        let s0 : PoissonSession.State Float := ⟨[], [], [⟨evs, .full⟩, ⟨evs, .none⟩]⟩
        let outs := PoissonSession.runOps nc s0 ops
        if outs.isEmpty then "-" else " ".intercalate (outs.map (fun o => match o with
          | none => "undefined" | some v => showELL v))
      | _, _, _ => "bad-op")
  | ["c05_stat", n, rs, cs] => some (match parseList? parseFloat? rs, parseList? parseNat? cs with
      | some rs, some cs =>
        if rs.length ≠ cs.length then "bad-op" else
        showELL (stat (α := Float) (n == "1") (rs.zip cs))
      | _, _ => "bad-op")
  | ["c05_test", m, d, c] => some (match parseMode? m, parseList2? parseFloat? d, parseList2? parseNat? c with
      | some m, some d, some c => showELL (testStat (α := Float) m d c)
      | _, _, _ => "bad-op")
  | ["c05_sim", m, d, c] => some (match parseMode? m, parseList2? parseFloat? d, parseList? parseNat? c with
      | some m, some d, some c => showELL (simStat (α := Float) m d c)
      | _, _, _ => "bad-op")
  | ["c05_mode", m, d, c, sims] =>
      some (match parseMode? m, parseList2? parseFloat? d, parseList2? parseNat? c, parseList2? parseNat? sims with
      | some m, some d, some c, some sims =>
        " ".intercalate (showELL (testStat (α := Float) m d c) :: sims.map (fun s => showELL (simStat (α := Float) m d s)))
      | _, _, _, _ => "bad-op")
  | ["c05_cells", d, c] => some (match parseList2? parseFloat? d, parseList2? parseNat? c with
      | some d, some c => showList showFloat (poissonSpatialMap (α := Float) d c)
      | _, _ => "bad-op")
  | ["c05_marg", d] => some (match parseList2? parseFloat? d with
      | some d => showList showFloat (spatialMarginal d) ++ " " ++ showList showFloat (magMarginal d)
      | none => "bad-op")
  -- c05_run <use_observed_counts 0|1> <normalize_likelihood 0|1> <rates (bits)> <observed counts> <poisson draws|-> <nsim>
  --         <rows of random numbers (bits), ;-separated> : the whole `_poisson_likelihood_test`
  | ["c05_run", u, n, rs, cs, ds, k, rows] =>
      some (match parseList? parseFloat? rs, parseList? parseNat? cs, parseList? parseNat? ds, k.toNat? with
      | some rs, some cs, some ds, some k =>
        (match parseRows? k rows with
         | some rows => if rs.length ≠ cs.length then "bad-op" else
             showResult (PoissonTest.runN floatToRat (u == "1") (n == "1") rs cs ds k rows)
         | none => "bad-op")
      | _, _, _, _ => "bad-op")
  -- c05_public <L|CL|S|M> <nbin> <data rows (bits)> <events c:b,…> <poisson draws|-> <nsim> <rows> : a public test on a
  --         catalog given by its events' (cell, magnitude bin) lookups
  | ["c05_public", m, nb, d, evs, ds, k, rows] =>
      some (match parseMode? m, nb.toNat?, parseList2? parseFloat? d, parseList? parseEv? evs, parseList? parseNat? ds,
                  k.toNat? with
      | some m, some nb, some d, some evs, some ds, some k =>
        (match parseRows? k rows with
         | some rows => (match PoissonTest.publicTestN floatToRat m d nb evs ds k rows with
             | .error .outside => "error-outside"
             | .error .belowMin => "error-below-min"
             | .ok r => showResult r)
         | none => "bad-op")
      | _, _, _, _, _, _ => "bad-op")
  -- c05_stream <L|CL|S|M> <nbin> <data rows (bits)> <events c:b,…> <poisson draws|-> <nsim> <uniform stream (bits)> : a public
  --         test on the DEFAULT random path (random_numbers=None): the model cuts the stream into one block per simulation
  | ["c05_stream", m, nb, d, evs, ds, k, st] =>
      some (match parseMode? m, nb.toNat?, parseList2? parseFloat? d, parseList? parseEv? evs, parseList? parseNat? ds,
                  k.toNat?, parseList? parseBitsRat? st with
      | some m, some nb, some d, some evs, some ds, some k, some st =>
        (match PoissonTest.publicTestStream floatToRat m d nb evs ds k st with
         | .error .outside => "error-outside"
         | .error .belowMin => "error-below-min"
         | .ok r => showResult r)
      | _, _, _, _, _, _, _ => "bad-op")
  -- c05_soft <float log-rates of the target bins (bits)> <counts> <float loggamma(w+1) (bits)> <float expected count (bits)> :
  --         the statistic in the Soft64 layer exactly as numpy evaluates it today — one rounded product per target bin, numpy's
  --         pairwise summation of both arrays, two rounded subtractions (`PoissonRound.statF` on the pairwise bracketing); answer n/d
  | ["c05_soft", ls, ws, gs, e] => some (match parseList? parseBitsRat? ls, parseList? parseNat? ws, parseList? parseBitsRat? gs,
                                               parseBitsRat? e with
      | some ls, some ws, some gs, some e =>
        if ls.length ≠ ws.length ∨ ls.length ≠ gs.length then "bad-op" else
        let prods := (ls.zip ws).map (fun p => Soft64.fmul p.1 (p.2 : Rat))
        let s1 := FloatSum.pairwiseSum 64 prods
        let s2 := FloatSum.pairwiseSum 64 gs
        showRat (Soft64.fsub (Soft64.fsub s1 s2) e)
      | _, _, _, _ => "bad-op")
  -- c05_ter <data rows (bits)> <events c:b,…> : forecast.get_rates / target_event_rates(scale=False): the rate of every
  --         event's own (cell, magnitude bin), in catalog order; `index-error` when an index is outside the array
  | ["c05_ter", d, evs] => some (match parseList2? parseFloat? d, parseList? parseEv? evs with
      | some d, some evs =>
        (match PoissonTest.targetEventRates d (evs.map (fun e => (e.cell.getD d.length, e.bin.getD (d.headD []).length))) with
         | some rs => showList showFloat rs
         | none => "index-error")
      | _, _ => "bad-op")
  -- c05_pll <rates (bits)> <counts> : poisson_log_likelihood entry by entry
  | ["c05_pll", rs, cs] => some (match parseList? parseFloat? rs, parseList? parseNat? cs with
      | some rs, some cs => if rs.length ≠ cs.length then "bad-op" else
          showList showELL ((rs.zip cs).map (fun p => PoissonTest.poissonLogLikelihood (α := Float) p.1 p.2))
      | _, _ => "bad-op")
  | _ => none
end Drive.C05
