import PycsepVerif.Proto
import PycsepVerif.Drive.C18
import PycsepVerif.Model.JsonRecords
/-!
  Driver ops for the value-tree / record layer of C18 (all prefixed `c18_`).
    c18_tree    <val>          → `err` (json.dump raises TypeError) or `<json> <loaded> <safe:0|1>`
    c18_result  <val>          → the dict `result.to_dict()` written and loaded by load_evaluation_result:
                                 `err` | `KeyError` | `TypeError` | `<hexcls> <f1>;<f2>;…` (nine loaded fields, order of c18.FIELDS)
    c18_tdlist  <val>          → `err` (TypeError) or the value to_dict stores for test_distribution
    c18_evalcfg <val>          → written, loaded, EvaluationConfiguration.from_dict, to_dict again: `<val>` | error enum
    c18_cfgget  <val> <hexname>→ from_dict then get_evaluation_version / get_fnames: `<val> <val>` | error enum
    c18_cfgupd  <val> <hexname> <val> <val> → from_dict, update_version, to_dict: `<val>` | error enum
    c18_event   <val>          → written, loaded, Event.from_dict, to_dict again
    c18_repo    <val>          → written, loaded, FileSystem.from_dict, to_dict again
    c18_regto <hexname.|N> <dh> <lon:lat,…> → the dictionary CartesianGrid2D.to_dict builds (`<val>`)
    c18_regdict <val>          → CartesianGrid2D.from_dict of that dictionary:
                                 `ok <hexname|N> <dh> <lon:lat,…|-> <m,m,…|-|N>` | `AttributeError` | `TypeError` | `IndexError` | `unmodelled`
  Values: the prefix notation of Drive/C18.lean plus `d<k>` followed by k × (key token, value):
    key tokens  ks<hex> ki<int> kb<0|1> kn kx<hex>
  Printed dicts / objects have their entries sorted by the hex of the member name.
-/
namespace Drive.C18b
open Proto JsonTree
open ResultJson (F64)
open Drive.C18 (toHex fromHex? parseF64? showF64)

def parseKey? (tok : String) : Option Key :=
  let body := (tok.drop 2).toString
  if tok.startsWith "ks" then (fromHex? body).map Key.kstr
  else if tok.startsWith "ki" then body.toInt?.map Key.kint
  else if tok.startsWith "kb" then some (Key.kbool (body = "1"))
  else if tok = "kn" then some Key.knone
  else if tok.startsWith "kx" then (fromHex? body).map Key.kbad
  else none

mutual
  def parseVal : Nat → List String → Option (PyObj × List String)
    | 0, _ => none
    | _ + 1, [] => none
    | fuel + 1, tok :: rest =>
      let body := (tok.drop 1).toString
      match tok.front with
      | 'i' => body.toInt?.map (fun n => (.pyInt n, rest))
      | 'b' => some (.pyBool (body = "1"), rest)
      | 'f' => (parseF64? body).map (fun x => (.pyFloat x, rest))
      | 'F' => (parseF64? body).map (fun x => (.npFloat64 x, rest))
      | 'I' => body.toInt?.map (fun n => (.npInt64 n, rest))
      | 'B' => some (.npBool (body = "1"), rest)
      | 'G' => (parseF64? body).map (fun x => (.npFloat32 x, rest))
      | 'o' => (fromHex? body).map (fun s => (.other s, rest))
      | 's' => (fromHex? body).map (fun s => (.str s, rest))
      | 'n' => some (.none, rest)
      | 'l' => body.toNat?.bind (fun k => (parseVals fuel k rest).map (fun (xs, r) => (.list xs, r)))
      | 't' => body.toNat?.bind (fun k => (parseVals fuel k rest).map (fun (xs, r) => (.tuple xs, r)))
      | 'a' => body.toNat?.bind (fun k => (parseVals fuel k rest).map (fun (xs, r) => (.ndarray xs, r)))
      | 'd' => body.toNat?.bind (fun k => (parseKVs fuel k rest).map (fun (xs, r) => (.dict xs, r)))
      | _ => none
  def parseVals : Nat → Nat → List String → Option (PyList × List String)
    | 0, _, _ => none
    | _ + 1, 0, rest => some (.nil, rest)
    | fuel + 1, k + 1, toks =>
      (parseVal fuel toks).bind (fun (v, r) => (parseVals fuel k r).map (fun (vs, r') => (.cons v vs, r')))
  def parseKVs : Nat → Nat → List String → Option (PyKVs × List String)
    | 0, _, _ => none
    | _ + 1, 0, rest => some (.nil, rest)
    | _ + 1, _ + 1, [] => none
    | fuel + 1, k + 1, kt :: toks =>
      (parseKey? kt).bind (fun key =>
        (parseVal fuel toks).bind (fun (v, r) => (parseKVs fuel k r).map (fun (vs, r') => (.cons key v vs, r'))))
end

def parse? (s : String) : Option PyObj :=
  let toks := s.splitOn ","
  match parseVal (2 * toks.length + 2) toks with
  | some (v, []) => some v
  | _ => none

def showKey : Key → String
  | .kstr s => "ks" ++ toHex s
  | .kint n => s!"ki{n}"
  | .kbool b => if b then "kb1" else "kb0"
  | .knone => "kn"
  | .kbad s => "kx" ++ toHex s

def sortEntries (es : List (String × List String)) : List String :=
  let sorted := es.mergeSort (fun a b => decide (a.1 ≤ b.1))
  sorted.flatMap (fun e => e.1 :: e.2)

mutual
  def showVal : PyObj → List String
    | .pyInt n => [s!"i{n}"]
    | .pyBool b => [if b then "b1" else "b0"]
    | .pyFloat x => ["f" ++ showF64 x]
    | .npFloat64 x => ["F" ++ showF64 x]
    | .npInt64 n => [s!"I{n}"]
    | .npBool b => [if b then "B1" else "B0"]
    | .npFloat32 x => ["G" ++ showF64 x]
    | .other s => ["o" ++ toHex s]
    | .str s => ["s" ++ toHex s]
    | .none => ["n"]
    | .list xs => let l := showVals xs; s!"l{l.1}" :: l.2
    | .tuple xs => let l := showVals xs; s!"t{l.1}" :: l.2
    | .ndarray xs => let l := showVals xs; s!"a{l.1}" :: l.2
    | .dict kvs => let es := showKVs kvs; s!"d{es.length}" :: sortEntries es
  def showVals : PyList → Nat × List String
    | .nil => (0, [])
    | .cons v vs => let r := showVals vs; (r.1 + 1, showVal v ++ r.2)
  def showKVs : PyKVs → List (String × List String)
    | .nil => []
    | .cons k v rest => (showKey k, showVal v) :: showKVs rest
end

mutual
  def showJ : JVal → List String
    | .null => ["N"]
    | .bool b => [if b then "b1" else "b0"]
    | .int n => [s!"i{n}"]
    | .float x => ["f" ++ showF64 x]
    | .str s => ["s" ++ toHex s]
    | .arr xs => let l := showJs xs; s!"l{l.1}" :: l.2
    | .obj ms => let es := showJKVs ms; s!"d{es.length}" :: sortEntries es
  def showJs : JList → Nat × List String
    | .nil => (0, [])
    | .cons v vs => let r := showJs vs; (r.1 + 1, showJ v ++ r.2)
  def showJKVs : JKVs → List (String × List String)
    | .nil => []
    | .cons k v rest => ("ks" ++ toHex k, showJ v) :: showJKVs rest
end

def enc (v : PyObj) : String := ",".intercalate (showVal v)
def encJ (j : JVal) : String := ",".intercalate (showJ j)

def showErr : RecErr → String
  | .keyError => "KeyError"
  | .typeError => "TypeError"
  | .attributeError => "AttributeError"
  | .indexError => "IndexError"
  | .unmodelled => "unmodelled"

/-- write the dictionary, load the file, hand the loaded dict to `f` -/
def viaFile (v : PyObj) (f : PyObj → Except RecErr String) : String :=
  match encode v with
  | none => "err"
  | some j => match f (decode j) with
    | .ok s => s
    | .error e => showErr e

def showBits (x : F64) : String := showF64 x

def handle : List String → Option String
  | ["c18_tree", v] => some (match parse? v with
      | some v => (match encode v with
        | some j => s!"{encJ j} {enc (decode j)} {if safeB v then 1 else 0}"
        | none => "err")
      | none => "bad-op")
  | ["c18_tdlist", v] => some (match parse? v with
      | some v => (match tdListT v with | some td => enc td | none => "err")
      | none => "bad-op")
  | ["c18_result", v] => some (match parse? v with
      | some v => viaFile v (fun d => (loadDict d).map (fun r =>
          toHex r.cls ++ " " ++ ";".intercalate ([r.testDistribution, r.name, r.observedStatistic, r.quantile, r.status,
            r.obsCatalogRepr, r.simName, r.obsName, r.minMw].map enc)))
      | none => "bad-op")
  | ["c18_evalcfg", v] => some (match parse? v with
      | some v => viaFile v (fun d => (EvalConfig.fromDict d).map (fun c => enc c.toDict))
      | none => "bad-op")
  | ["c18_cfgget", v, name] => some (match parse? v, fromHex? name with
      | some v, some nm => (match EvalConfig.fromDict v with
        | .ok c => (match c.getVersion nm, c.getFnames nm with
          | .ok a, .ok b => enc a ++ " " ++ enc b
          | .error e, _ => showErr e
          | _, .error e => showErr e)
        | .error e => showErr e)
      | _, _ => "bad-op")
  | ["c18_cfgupd", v, name, ver, fn] => some (match parse? v, fromHex? name, parse? ver, parse? fn with
      | some v, some nm, some ver, some fn => (match EvalConfig.fromDict v with
        | .ok c => (match c.updateVersion nm ver fn with
          | some c' => enc c'.toDict
          | none => "unmodelled")
        | .error e => showErr e)
      | _, _, _, _ => "bad-op")
  | ["c18_event", v] => some (match parse? v with
      | some v => viaFile v (fun d => (Event.fromDict d).map (fun e => enc e.toDict))
      | none => "bad-op")
  | ["c18_repo", v] => some (match parse? v with
      | some v => viaFile v (fun d => (Repo.fromDict d).map (fun r => enc r.toDict))
      | none => "bad-op")
  | ["c18_regdict", v] => some (match parse? v with
      | some v => (match Grid.fromDict v with
        | .ok g =>
          let nm := match g.name with | some s => toHex s ++ "." | none => "N"
          let os := showList (fun (o : F64 × F64) => showBits o.1 ++ ":" ++ showBits o.2) g.origins
          let ms := match g.magnitudes with | some xs => showList showBits xs | none => "N"
          s!"ok {nm} {showBits g.dh} {os} {ms}"
        | .error e => showErr e)
      | none => "bad-op")
  | ["c18_regto", name, dh, origins] => some (
      let nm : Option (Option String) := if name = "N" then some none else (fromHex? (name.dropEnd 1).toString).map some
      let os : Option (List (F64 × F64)) := parseList? (fun s => match s.splitOn ":" with
        | [a, b] => (parseF64? a).bind (fun x => (parseF64? b).map (fun y => (x, y)))
        | _ => none) origins
      match nm, parseF64? dh, os with
      | some nm, some d, some os => enc (Grid.toDict { origins := os, dh := d, mask := none, name := nm, magnitudes := none })
      | _, _, _ => "bad-op")
  | _ => none
end Drive.C18b
