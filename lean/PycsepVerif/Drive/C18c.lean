import PycsepVerif.Proto
import PycsepVerif.Drive.C18b
import PycsepVerif.Model.JsonText
import PycsepVerif.Model.JsonFloat
import PycsepVerif.Model.EvalProducers
import PycsepVerif.Model.JsonLimits
/-!
  Driver ops for the JSON TEXT layer of C18.
    c18_text_render <val>  → the characters `FileSystem.save(val)` writes (`JsonText.saveText pyFloatText`: sort the entries of
                             every dict as `sorted(dct.items())` does, `JsonTree.encode`, `renderRaw`), as lower-case hex of the
                             UTF-8 bytes; `err` = TypeError.  `<val>` in the wire format of `c18_tree` (Drive/C18b.lean).
    c18_text_parse <hex>   → hex of the bytes of a file → `JsonText.parse pyFloatText` → `JsonTree.decode`, printed as
                             `c18_tree` prints loaded values (dict entries sorted by the hex of the name); `err` = the bytes are
                             not UTF-8 or the text does not parse (JSONDecodeError / UnicodeDecodeError); `-` = empty file.
    c18_text_floatok <bits> → `1` when the two computable hypotheses of the round-trip theorem hold for this double
                             (`JsonText.floatOkB pyFloatText bits`), else `0`
-/
namespace Drive.C18c
open Proto JsonTree JsonText
open Drive.C18 (toHex fromHex?)

def handle : List String → Option String
  | ["c18_text_render", v] => some (match Drive.C18b.parse? v with
      | some v => (match saveText pyFloatText v with
        | some cs => toHex (String.ofList cs)
        | none => "err")
      | none => "bad-op")
  | ["c18_text_parse", h] => some (match fromHex? (if h = "-" then "" else h) with
      | some s => (match loadText pyFloatText s.toList with
        | some v => Drive.C18b.enc v
        | none => "err")
      | none => "err")
  | ["c18_text_floatok", b] => some (match b.toNat? with
      | some b => if floatOkB pyFloatText b then "1" else "0"
      | none => "bad-op")
  -- c18_text_depth <L> <kind a|o|m> <d> → tag of `loadLimited L` on d nested arrays / objects / mixed: 0 value, 1 invalid, 2 RecursionError
  | ["c18_text_depth", l, kind, d] => some (match l.toNat?, d.toNat? with
      | some l, some d =>
        let openA := List.replicate d '['
        let closeA := List.replicate d ']'
        let txt : List Char :=
          if kind = "a" then openA ++ closeA
          else if kind = "o" then (List.replicate d ['{', '"', 'k', '"', ':']).flatten ++ ['1'] ++ List.replicate d '}'
          else (List.replicate d ['[', '{', '"', 'k', '"', ':']).flatten ++ ['0'] ++ (List.replicate d ['}', ']']).flatten
        toString (loadLimited l pyFloatText txt).tag
      | _, _ => "bad-op")
  -- c18_producers → `module.function>Class|…` (Model/EvalProducers.lean)
  | ["c18_producers"] => some ("|".intercalate (ResultJson.evalProducers.map (fun (k, v) => k ++ ">" ++ v)))
  | _ => none
end Drive.C18c
