import PycsepVerif.Proto
import PycsepVerif.Model.PairedTests
import PycsepVerif.Model.PairedPub
import PycsepVerif.Model.PairedRanks
/-! driver ops of C08. Floats travel as IEEE bit patterns, rationals as n/d.
  c08_t   rA rB N NA NB tcrit            -> "ig t lower upper var"          (Float instance of tTest)
  c08_bin dataA dataB ev NA NB tcrit     -> "ig t lower upper var n_active active-list"  (binaryT; nb = |dataA|)
  c08_w   x m                            -> "count t2 mn4 se24 z"           (exact wStats; z = Float wZ of them)
  c08_pubt baseA fA daysA baseB fB daysB ev scale tcrit -> "ig t lower upper var nA nB"   (pairedTPub; ev = flat bin indices)
  c08_pubb baseA fA daysA baseB fB daysB ev scale tcrit -> "ig t lower upper var n_active active-list" (binaryTPub)
  c08_rank x                             -> "2r1,2r2,..."                   (rankdata2: SciPy's sort-based algorithm, doubled ranks)
  c08_ties x m                           -> "byRank byValue"                (tieTermRanks / tieTerm of |x - m| without zeros)
  c08_pubw LA LB n1 n2 n                 -> "count t2 mn4 se24 z"           (wStatsPub on the float logs, rationals)
  c08_midx edges cells mags              -> flat bin index of every event, `none` if below the first edge (flatIdx) -/
namespace Drive.C08
open Proto PairedTests

def showT (o : TOut Float) : String :=
  s!"{showFloat o.ig} {showFloat o.t} {showFloat o.lower} {showFloat o.upper} {showFloat o.var}"

def ratToFloat (r : Rat) : Float := Float.ofInt r.num / Float.ofNat r.den

def handle : List String → Option String
  | ["c08_t", ra, rb, n, na, nb, tc] => some (
      match parseList? parseFloat? ra, parseList? parseFloat? rb, n.toNat?, parseFloat? na, parseFloat? nb, parseFloat? tc with
      | some ra, some rb, some n, some na, some nb, some tc => showT (tTest ra rb n na nb tc)
      | _, _, _, _, _, _ => "bad-op")
  | ["c08_bin", da, db, ev, na, nb, tc] => some (
      match parseList? parseFloat? da, parseList? parseFloat? db, parseList? String.toNat? ev, parseFloat? na, parseFloat? nb,
            parseFloat? tc with
      | some da, some db, some ev, some na, some nb, some tc =>
          let a := da.toArray; let b := db.toArray
          let act := activeBins a.size ev
          let o := binaryT (fun i => a.getD i 0.0) (fun i => b.getD i 0.0) a.size ev na nb tc
          s!"{showT o} {act.length} {showList toString act}"
      | _, _, _, _, _, _ => "bad-op")
  | ["c08_w", xs, m] => some (
      match parseList? parseRat? xs, parseRat? m with
      | some xs, some m =>
          let s := wStats xs m
          let z : Float := wZ (Float.ofNat s.t2 / 2.0) (Float.ofNat s.mn4 / 4.0) (ratToFloat s.se24)
          s!"{s.count} {s.t2} {s.mn4} {showRat s.se24} {showFloat z}"
      | _, _ => "bad-op")
  | ["c08_rank", xs] => some (
      match parseList? parseRat? xs with
      | some xs => showList toString (rankdata2 xs)
      | none => "bad-op")
  | ["c08_ties", xs, m] => some (
      match parseList? parseRat? xs, parseRat? m with
      | some xs, some m =>
          let l := (removeZeros (xs.map (fun a => Soft64.fsub a m))).map absQ
          s!"{tieTermRanks l} {tieTerm l}"
      | _, _ => "bad-op")
  | ["c08_pubt", ba, fa, da, bb, fb, db, ev, sc, tc] => some (
      match parseList? parseFloat? ba, parseFloat? fa, da.toNat?, parseList? parseFloat? bb, parseFloat? fb, db.toNat?,
            parseList? String.toNat? ev, parseFloat? tc with
      | some ba, some fa, some da, some bb, some fb, some db, some ev, some tc =>
          let A : Fc Float := ⟨ba, fa, da⟩; let B : Fc Float := ⟨bb, fb, db⟩
          let scale := sc == "1"
          s!"{showT (pairedTPub A B ev scale tc)} {showFloat (A.targetRates ev scale).2} {showFloat (B.targetRates ev scale).2}"
      | _, _, _, _, _, _, _, _ => "bad-op")
  | ["c08_pubb", ba, fa, da, bb, fb, db, ev, sc, tc] => some (
      match parseList? parseFloat? ba, parseFloat? fa, da.toNat?, parseList? parseFloat? bb, parseFloat? fb, db.toNat?,
            parseList? String.toNat? ev, parseFloat? tc with
      | some ba, some fa, some da, some bb, some fb, some db, some ev, some tc =>
          let A : Fc Float := ⟨ba, fa, da⟩; let B : Fc Float := ⟨bb, fb, db⟩
          let act := activeBins ba.length ev
          s!"{showT (binaryTPub A B ba.length ev (sc == "1") tc)} {act.length} {showList toString act}"
      | _, _, _, _, _, _, _, _ => "bad-op")
  | ["c08_pubw", la, lb, n1, n2, n] => some (
      match parseList? parseRat? la, parseList? parseRat? lb, parseRat? n1, parseRat? n2, parseRat? n with
      | some la, some lb, some n1, some n2, some n =>
          let s := wStatsPub la lb n1 n2 n
          let z : Float := wZ (Float.ofNat s.t2 / 2.0) (Float.ofNat s.mn4 / 4.0) (ratToFloat s.se24)
          s!"{s.count} {s.t2} {s.mn4} {showRat s.se24} {showFloat z}"
      | _, _, _, _, _ => "bad-op")
  | ["c08_midx", es, cs, ms] => some (
      match parseList? parseRat? es, parseList? String.toNat? cs, parseList? parseRat? ms with
      | some es, some cs, some ms =>
          showList (fun (p : Nat × Rat) => showOpt toString (flatIdx es p.1 p.2)) (cs.zip ms)
      | _, _, _ => "bad-op")
  | _ => none
end Drive.C08
