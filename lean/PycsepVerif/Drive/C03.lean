import PycsepVerif.Proto
import PycsepVerif.Model.Gridding
import PycsepVerif.Drive.C01
/-!
  Driver ops of property C03.

  `c03_cart <xs> <ys> <is> <js> <flags> <lons> <lats> <mags> <edges>`   Cartesian region, magnitude edges
  `c03_quad <b0> <b1> <b2> <b3> <lons> <lats> <mags> <edges>`           quadtree tiles [b0,b2) x [b1,b3)
   → `sc:<E|counts> sep:<E|flags> mc:<counts> smc:<E|rows ;-separated>`   (E = ValueError)
  `c03_filter <edges> <mags>` → per bin the number of magnitudes kept by the equivalent range filter
-/
namespace Drive.C03
open Proto Gridding

def showE {α} (f : α → String) (r : Except Err α) : String :=
  match r with | .error _ => "E" | .ok a => f a

def showNats (l : List Nat) : String := showList toString l
def showRows (l : List (List Nat)) : String := if l.isEmpty then "-" else ";".intercalate (l.map showNats)

def zip3 : List Rat → List Rat → List Rat → List (Rat × Rat × Rat)
  | a :: as, b :: bs, c :: cs => (a, b, c) :: zip3 as bs cs
  | _, _, _ => []

def zip4 : List Rat → List Rat → List Rat → List Rat → List (Rat × Rat × Rat × Rat)
  | a :: as, b :: bs, c :: cs, d :: ds => (a, b, c, d) :: zip4 as bs cs ds
  | _, _, _, _ => []

def handle : List String → Option String
  | ["c03_cart", xs, ys, is, js, fl, lons, lats, mags, edges] => some (
      match parseList? parseRat? xs, parseList? parseRat? ys, parseList? Drive.C01.parseNat? is,
            parseList? Drive.C01.parseNat? js, parseList? Drive.C01.parseNat? fl, parseList? parseRat? lons,
            parseList? parseRat? lats, parseList? parseRat? mags, parseList? parseRat? edges with
      | some xs, some ys, some is, some js, some fl, some lons, some lats, some mags, some edges =>
        let R := Region.Region.new xs ys (Drive.C01.topOf xs) (Drive.C01.topOf ys) (Drive.C01.mkCells is js fl)
        let evs := evsCart R edges (zip3 lons lats mags)
        let n := R.cells.length
        let locs := evs.map (·.cell)
        s!"sc:{showE showNats (spatialCountsCart n locs)} sep:{showE showNats (spatialEventProbabilityCart n locs)} mc:{showNats (magnitudeCounts edges.length (evs.map (·.bin)))} smc:{showE showRows (smcCart n edges.length evs)}"
      | _, _, _, _, _, _, _, _, _ => "bad-op")
  | ["c03_quad", b0, b1, b2, b3, lons, lats, mags, edges] => some (
      match parseList? parseRat? b0, parseList? parseRat? b1, parseList? parseRat? b2, parseList? parseRat? b3,
            parseList? parseRat? lons, parseList? parseRat? lats, parseList? parseRat? mags,
            parseList? parseRat? edges with
      | some b0, some b1, some b2, some b3, some lons, some lats, some mags, some edges =>
        let bounds := zip4 b0 b1 b2 b3
        let evs := evsQuad bounds edges (zip3 lons lats mags)
        let n := bounds.length
        let locs := evs.map (·.cell)
        s!"sc:{showNats (spatialCountsQuad n locs)} sep:{showNats (spatialEventProbabilityQuad n locs)} mc:{showNats (magnitudeCounts edges.length (evs.map (·.bin)))} smc:{showE showRows (smcQuad n edges.length evs)}"
      | _, _, _, _, _, _, _, _ => "bad-op")
  | ["c03_filter", edges, mags] => some (
      match parseList? parseRat? edges, parseList? parseRat? mags with
      | some edges, some mags =>
        showNats ((List.range edges.length).map (fun k =>
          match edges[k]? with
          | some lo => (magFilter lo edges[k+1]? mags).length
          | none => 0))
      | _, _ => "bad-op")
  | _ => none
end Drive.C03
