import PycsepVerif.Proto
import PycsepVerif.Model.Gridding
import PycsepVerif.Model.GriddingExt
import PycsepVerif.Model.GriddingSeq
import PycsepVerif.Generated
import PycsepVerif.Drive.C01
/-!
  Driver ops of property C03.

  `c03_cart <xs> <ys> <is> <js> <flags> <lons> <lats> <mags> <edges>`   Cartesian region, magnitude edges
  `c03_quad <b0> <b1> <b2> <b3> <lons> <lats> <mags> <edges>`           quadtree tiles [b0,b2) x [b1,b3)
   → `sc:<E|counts> sep:<E|flags> mc:<counts> smc:<E|rows ;-separated>`   (E = ValueError)
  `c03_filter <edges> <mags>` → per bin the number of magnitudes kept by the equivalent range filter

  helpers (Model/GriddingExt.lean):
  `c03_qthelpers <b0> <b1> <b2> <b3> <lons> <lats> <mags> <edges> <minEdge>`
   → `sc:<E:kind|counts>!<catalog afterwards> smc:<E:kind|rows>!<catalog afterwards>`   (rows of the catalog `lon:lat:mag`, `;`-separated)
  `c03_bincat <xs> <ys> <is> <js> <flags> <lons> <lats> <mags> <edges>`
   → `sc:<counts> p:<flags> smc:<rows> sk:<skipped rows>`
  `c03_idx_cart <xs> <ys> <is> <js> <flags> <lons> <lats> <mags> <edges | none>`
  `c03_idx_quad <b0> <b1> <b2> <b3> <lons> <lats> <mags> <edges | none>`
   → `sidx:<E|list> midx:<list, -1 = below> df:<E:kind | rid!mid | rid!none>`
  `c03_cartesian <xs> <ys> <is> <js> <flags> <data rows ;-separated>`
   → bounding-box array of the per-polygon row sums, rows `;`-separated, `n` = nan

  call sequences and forecast accumulation (Model/GriddingSeq.lean):
  `c03_seqc <xs> <ys> <is> <js> <flags> <lons> <lats> <mags> <BOUND> <CALLS>`   /   `c03_seqq <b0> <b1> <b2> <b3> <lons> …`
     BOUND `noregion | absent | unset | b:<edges>`; CALLS `;`-separated `mc:<edges|none>:<0|1>` `smc:<edges|none>` `midx` `sc` `sep`
   → per call, `|`-separated: `v:<counts>` `vb:<edges>!<counts>` `m:<rows>` `i:<idx>` `E:value` `E:config`, then ` state:<BOUND>`
     (the default bins are `Generated.csepMwBins`, re-extracted from csep/utils/constants.py on every run)
  `c03_expc <xs> <ys> <is> <js> <flags> <lons> <lats> <mags> <edges> <sizes>`   /   `c03_expq <b0> <b1> <b2> <b3> <lons> …`
     the events of all catalogs concatenated, `sizes` = events per catalog → `E` or the summed rows
-/
namespace Drive.C03
open Proto Gridding

def showE {α} (f : α → String) (r : Except Err α) : String :=
  match r with | .error _ => "E" | .ok a => f a

def showNats (l : List Nat) : String := showList toString l
def showRows (l : List (List Nat)) : String := if l.isEmpty then "-" else ";".intercalate (l.map showNats)

def zip3 : List Rat → List Rat → List Rat → List (Rat × Rat × Rat)
  | a :: as, b :: bs, c :: cs => (a, b, c) :: zip3 as bs cs
  | _, _, _ => []

def zip4 : List Rat → List Rat → List Rat → List Rat → List (Rat × Rat × Rat × Rat)
  | a :: as, b :: bs, c :: cs, d :: ds => (a, b, c, d) :: zip4 as bs cs ds
  | _, _, _, _ => []

def showQErr : QErr → String
  | .emptyMin => "E:emptyMin" | .emptyIndex => "E:emptyIndex" | .shape => "E:shape" | .outside => "E:outside"

def showRowsCat (l : List Row) : String :=
  if l.isEmpty then "-" else ";".intercalate (l.map fun e => s!"{showRat e.lon}:{showRat e.lat}:{showRat e.mag}")

def showQ {α} (f : α → String) (r : Except QErr α × List Row) : String :=
  (match r.1 with | .error e => showQErr e | .ok a => f a) ++ "!" ++ showRowsCat r.2

def showIdx (l : List (Option Nat)) : String :=
  showList (fun o => match o with | none => "-1" | some k => toString k) l

def showDf (r : Except DfErr (List Nat × Option (List (Option Nat)))) : String :=
  match r with
  | .error .outside => "E:outside" | .error .length => "E:length" | .error .emptyIndex => "E:emptyIndex"
  | .ok (rid, mid) => showNats rid ++ "!" ++ (match mid with | none => "none" | some m => showIdx m)

def parseEdgesOpt? (s : String) : Option (Option (List Rat)) :=
  if s = "none" then some none else (parseList? parseRat? s).map some

def showCartRat (o : Option Rat) : String := match o with | none => "n" | some v => showRat v

def parseBound? (s : String) : Option Bound :=
  if s = "noregion" then some .noRegion else if s = "absent" then some .absent else if s = "unset" then some .unset
  else match s.splitOn ":" with
    | ["b", e] => (parseList? parseRat? e).map .bins
    | _ => none

def parseGCall? (s : String) : Option GCall :=
  match s.splitOn ":" with
  | ["mc", e, rb] => do
      let e ← parseEdgesOpt? e
      let rb ← (if rb = "1" then some true else if rb = "0" then some false else none)
      some (.mc e rb)
  | ["smc", e] => (parseEdgesOpt? e).map .smc
  | ["midx"] => some .midx
  | ["sc"] => some .sc
  | ["sep"] => some .sep
  | _ => none

def showBound : Bound → String
  | .noRegion => "noregion" | .absent => "absent" | .unset => "unset"
  | .bins e => "b:" ++ showList showRat e

def showGOut : GOut → String
  | .vec v => "v:" ++ showNats v
  | .vecBins e v => "vb:" ++ showList showRat e ++ "!" ++ showNats v
  | .mat M => "m:" ++ showRows M
  | .idx l => "i:" ++ showIdx l
  | .err .value => "E:value"
  | .err .config => "E:config"

def seqOut (quad : Bool) (ncell : Nat) (locs : List (Option Nat)) (mags : List Rat) (b : Bound) (calls : List GCall) : String :=
  let r := runCalls quad ncell Generated.csepMwBins (locs.zip mags) b calls
  "|".intercalate (r.1.map showGOut) ++ " state:" ++ showBound r.2

def splitSizes {α} : List Nat → List α → List (List α)
  | [], _ => []
  | n :: ns, l => l.take n :: splitSizes ns (l.drop n)

def expOut (quad : Bool) (ncell nbin : Nat) (evs : List Ev) (sizes : List Nat) : String :=
  match splitSizes sizes evs with
  | [] => "bad-op"
  | c :: cs => showE showRows (expectedCounts quad ncell nbin c cs)

def handle : List String → Option String
  | ["c03_seqc", xs, ys, is, js, fl, lons, lats, mags, bound, calls] => some (
      match parseList? parseRat? xs, parseList? parseRat? ys, parseList? Drive.C01.parseNat? is,
            parseList? Drive.C01.parseNat? js, parseList? Drive.C01.parseNat? fl, parseList? parseRat? lons,
            parseList? parseRat? lats, parseList? parseRat? mags, parseBound? bound, (calls.splitOn ";").mapM parseGCall? with
      | some xs, some ys, some is, some js, some fl, some lons, some lats, some mags, some b, some calls =>
        let R := Region.Region.new xs ys (Drive.C01.topOf xs) (Drive.C01.topOf ys) (Drive.C01.mkCells is js fl)
        seqOut false R.cells.length ((lons.zip lats).map fun p => R.cellOf p) mags b calls
      | _, _, _, _, _, _, _, _, _, _ => "bad-op")
  | ["c03_seqq", b0, b1, b2, b3, lons, lats, mags, bound, calls] => some (
      match parseList? parseRat? b0, parseList? parseRat? b1, parseList? parseRat? b2, parseList? parseRat? b3,
            parseList? parseRat? lons, parseList? parseRat? lats, parseList? parseRat? mags, parseBound? bound,
            (calls.splitOn ";").mapM parseGCall? with
      | some b0, some b1, some b2, some b3, some lons, some lats, some mags, some b, some calls =>
        let bounds := zip4 b0 b1 b2 b3
        seqOut true bounds.length ((lons.zip lats).map fun p => qtFind bounds p) mags b calls
      | _, _, _, _, _, _, _, _, _ => "bad-op")
  | ["c03_expc", xs, ys, is, js, fl, lons, lats, mags, edges, sizes] => some (
      match parseList? parseRat? xs, parseList? parseRat? ys, parseList? Drive.C01.parseNat? is,
            parseList? Drive.C01.parseNat? js, parseList? Drive.C01.parseNat? fl, parseList? parseRat? lons,
            parseList? parseRat? lats, parseList? parseRat? mags, parseList? parseRat? edges,
            parseList? Drive.C01.parseNat? sizes with
      | some xs, some ys, some is, some js, some fl, some lons, some lats, some mags, some edges, some sizes =>
        let R := Region.Region.new xs ys (Drive.C01.topOf xs) (Drive.C01.topOf ys) (Drive.C01.mkCells is js fl)
        expOut false R.cells.length edges.length (evsCart R edges (zip3 lons lats mags)) sizes
      | _, _, _, _, _, _, _, _, _, _ => "bad-op")
  | ["c03_expq", b0, b1, b2, b3, lons, lats, mags, edges, sizes] => some (
      match parseList? parseRat? b0, parseList? parseRat? b1, parseList? parseRat? b2, parseList? parseRat? b3,
            parseList? parseRat? lons, parseList? parseRat? lats, parseList? parseRat? mags,
            parseList? parseRat? edges, parseList? Drive.C01.parseNat? sizes with
      | some b0, some b1, some b2, some b3, some lons, some lats, some mags, some edges, some sizes =>
        let bounds := zip4 b0 b1 b2 b3
        expOut true bounds.length edges.length (evsQuad bounds edges (zip3 lons lats mags)) sizes
      | _, _, _, _, _, _, _, _, _ => "bad-op")
  | ["c03_qthelpers", b0, b1, b2, b3, lons, lats, mags, edges, minEdge] => some (
      match parseList? parseRat? b0, parseList? parseRat? b1, parseList? parseRat? b2, parseList? parseRat? b3,
            parseList? parseRat? lons, parseList? parseRat? lats, parseList? parseRat? mags,
            parseList? parseRat? edges, parseRat? minEdge with
      | some b0, some b1, some b2, some b3, some lons, some lats, some mags, some edges, some me =>
        let bounds := zip4 b0 b1 b2 b3
        let evs : List Row := zip3 lons lats mags
        s!"sc:{showQ showNats (qtGetSpatialCounts bounds me evs)} smc:{showQ showRows (qtGetSpatialMagnitudeCounts bounds edges me evs)}"
      | _, _, _, _, _, _, _, _, _ => "bad-op")
  | ["c03_bincat", xs, ys, is, js, fl, lons, lats, mags, edges] => some (
      match parseList? parseRat? xs, parseList? parseRat? ys, parseList? Drive.C01.parseNat? is,
            parseList? Drive.C01.parseNat? js, parseList? Drive.C01.parseNat? fl, parseList? parseRat? lons,
            parseList? parseRat? lats, parseList? parseRat? mags, parseList? parseRat? edges with
      | some xs, some ys, some is, some js, some fl, some lons, some lats, some mags, some edges =>
        let R := Region.Region.new xs ys (Drive.C01.topOf xs) (Drive.C01.topOf ys) (Drive.C01.mkCells is js fl)
        let evs : List Row := zip3 lons lats mags
        let pts := evs.map fun e => (e.lon, e.lat)
        let n := R.cells.length
        let r := binCatalogSMC R n edges evs
        s!"sc:{showNats (binCatalogSpatialCounts R n pts)} p:{showNats (binCatalogProbability R n pts)} smc:{showRows r.1} sk:{showRowsCat r.2}"
      | _, _, _, _, _, _, _, _, _ => "bad-op")
  | ["c03_idx_cart", xs, ys, is, js, fl, lons, lats, mags, edges] => some (
      match parseList? parseRat? xs, parseList? parseRat? ys, parseList? Drive.C01.parseNat? is,
            parseList? Drive.C01.parseNat? js, parseList? Drive.C01.parseNat? fl, parseList? parseRat? lons,
            parseList? parseRat? lats, parseList? parseRat? mags, parseEdgesOpt? edges with
      | some xs, some ys, some is, some js, some fl, some lons, some lats, some mags, some edges =>
        let R := Region.Region.new xs ys (Drive.C01.topOf xs) (Drive.C01.topOf ys) (Drive.C01.mkCells is js fl)
        let evs : List Row := zip3 lons lats mags
        let sidx := match getSpatialIdxCart R evs with | .error _ => "E" | .ok l => showNats l
        let midx := match edges with | none => "none" | some ed => showIdx (getMagIdx ed evs)
        s!"sidx:{sidx} midx:{midx} df:{showDf (dfColumnsCart R edges evs)}"
      | _, _, _, _, _, _, _, _, _ => "bad-op")
  | ["c03_idx_quad", b0, b1, b2, b3, lons, lats, mags, edges] => some (
      match parseList? parseRat? b0, parseList? parseRat? b1, parseList? parseRat? b2, parseList? parseRat? b3,
            parseList? parseRat? lons, parseList? parseRat? lats, parseList? parseRat? mags, parseEdgesOpt? edges with
      | some b0, some b1, some b2, some b3, some lons, some lats, some mags, some edges =>
        let bounds := zip4 b0 b1 b2 b3
        let evs : List Row := zip3 lons lats mags
        let sidx := match getSpatialIdxQuad bounds evs with | .error _ => "E" | .ok l => showNats l
        let midx := match edges with | none => "none" | some ed => showIdx (getMagIdx ed evs)
        s!"sidx:{sidx} midx:{midx} df:{showDf (dfColumnsQuad bounds edges evs)}"
      | _, _, _, _, _, _, _, _ => "bad-op")
  | ["c03_cartesian", xs, ys, is, js, fl, data] => some (
      match parseList? parseRat? xs, parseList? parseRat? ys, parseList? Drive.C01.parseNat? is,
            parseList? Drive.C01.parseNat? js, parseList? Drive.C01.parseNat? fl, parseList2? parseRat? data with
      | some xs, some ys, some is, some js, some fl, some data =>
        let R := Region.Region.new xs ys (Drive.C01.topOf xs) (Drive.C01.topOf ys) (Drive.C01.mkCells is js fl)
        let rows := markedCartesian R data
        if rows.isEmpty then "-" else ";".intercalate (rows.map fun r => ",".intercalate (r.map showCartRat))
      | _, _, _, _, _, _ => "bad-op")
  | ["c03_cart", xs, ys, is, js, fl, lons, lats, mags, edges] => some (
      match parseList? parseRat? xs, parseList? parseRat? ys, parseList? Drive.C01.parseNat? is,
            parseList? Drive.C01.parseNat? js, parseList? Drive.C01.parseNat? fl, parseList? parseRat? lons,
            parseList? parseRat? lats, parseList? parseRat? mags, parseList? parseRat? edges with
      | some xs, some ys, some is, some js, some fl, some lons, some lats, some mags, some edges =>
        let R := Region.Region.new xs ys (Drive.C01.topOf xs) (Drive.C01.topOf ys) (Drive.C01.mkCells is js fl)
        let evs := evsCart R edges (zip3 lons lats mags)
        let n := R.cells.length
        let locs := evs.map (·.cell)
        s!"sc:{showE showNats (spatialCountsCart n locs)} sep:{showE showNats (spatialEventProbabilityCart n locs)} mc:{showNats (magnitudeCounts edges.length (evs.map (·.bin)))} smc:{showE showRows (smcCart n edges.length evs)}"
      | _, _, _, _, _, _, _, _, _ => "bad-op")
  | ["c03_quad", b0, b1, b2, b3, lons, lats, mags, edges] => some (
      match parseList? parseRat? b0, parseList? parseRat? b1, parseList? parseRat? b2, parseList? parseRat? b3,
            parseList? parseRat? lons, parseList? parseRat? lats, parseList? parseRat? mags,
            parseList? parseRat? edges with
      | some b0, some b1, some b2, some b3, some lons, some lats, some mags, some edges =>
        let bounds := zip4 b0 b1 b2 b3
        let evs := evsQuad bounds edges (zip3 lons lats mags)
        let n := bounds.length
        let locs := evs.map (·.cell)
        s!"sc:{showNats (spatialCountsQuad n locs)} sep:{showNats (spatialEventProbabilityQuad n locs)} mc:{showNats (magnitudeCounts edges.length (evs.map (·.bin)))} smc:{showE showRows (smcQuad n edges.length evs)}"
      | _, _, _, _, _, _, _, _ => "bad-op")
  | ["c03_filter", edges, mags] => some (
      match parseList? parseRat? edges, parseList? parseRat? mags with
      | some edges, some mags =>
        showNats ((List.range edges.length).map (fun k =>
          match edges[k]? with
          | some lo => (magFilter lo edges[k+1]? mags).length
          | none => 0))
      | _, _ => "bad-op")
  | _ => none
end Drive.C03
