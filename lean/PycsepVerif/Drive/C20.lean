import PycsepVerif.Proto
import PycsepVerif.RealOps
import PycsepVerif.Model.Perm
import PycsepVerif.Model.FloatSum
/-!
  Driver ops of C20 (all prefixed `c20_`). Events travel as two parallel lists `cells bins`; a family of catalogs as
  `cells;cells;...` and `bins;bins;...` (`-` = a catalog without events); floats as IEEE bit patterns.
-/
namespace Drive.C20
open Proto PermInv

def parseNat? (s : String) : Option Nat := s.toNat?

/-- `a;b;c` with every part a comma list (`-` = empty part); unlike `Proto.parseList2?` a lone `-` is ONE empty part -/
def parseParts? (s : String) : Option (List (List Nat)) := (s.splitOn ";").mapM (parseList? parseNat?)

def showNats (l : List Nat) : String := showList toString l
def showMat (m : List (List Nat)) : String := if m.isEmpty then "-" else ";".intercalate (m.map showNats)
def showEll : ELL Float → String
  | .negInf => "ninf"
  | .fin x => showFloat x

def zipEvents? (cells bins : List Nat) : Option (List Event) :=
  if cells.length = bins.length then some (cells.zip bins) else none

def handle : List String → Option String
  | ["c20_counts", nc, nb, cells, bins] => some (
      match parseNat? nc, parseNat? nb, parseList? parseNat? cells, parseList? parseNat? bins with
      | some nc, some nb, some cells, some bins =>
        match zipEvents? cells bins with
        | some ev =>
          let g := counts nc nb ev
          s!"{showNats g.spatial}|{showNats g.magnitude}|{showMat g.spaceMag}|{showNats g.occupancy}"
        | none => "bad-op"
      | _, _, _, _ => "bad-op")
  | ["c20_mean", nc, nb, cells, bins] => some (
      match parseNat? nc, parseNat? nb, parseParts? cells, parseParts? bins with
      | some nc, some nb, some cells, some bins =>
        if cells.length ≠ bins.length then "bad-op" else
        match (cells.zip bins).mapM (fun p => zipEvents? p.1 p.2) with
        | some cats =>
          let m := meanRatesRat nc nb cats
          s!"{showMat (sumCounts nc nb cats)}|" ++ (if m.isEmpty then "-" else ";".intercalate (m.map (showList showRat)))
        | none => "bad-op"
      | _, _, _, _ => "bad-op")
  | ["c20_jointll", norm, cnts, rates] => some (
      match parseNat? norm, parseList? parseNat? cnts, parseList? parseFloat? rates with
      | some norm, some cnts, some rates =>
        if cnts.length ≠ rates.length then "bad-op" else showEll (obsLL (norm != 0) (cnts.zip rates))
      | _, _, _ => "bad-op")
  | ["c20_ttest", r1, r2, n1, n2] => some (
      match parseList? parseFloat? r1, parseList? parseFloat? r2, parseFloat? n1, parseFloat? n2 with
      | some r1, some r2, some n1, some n2 =>
        if r1.length ≠ r2.length then "bad-op" else
        let o := tTest (r1.zip r2) n1 n2
        s!"{showFloat o.informationGain},{showFloat o.variance},{showFloat o.tStatistic}"
      | _, _, _, _ => "bad-op")
  | ["c20_wtest", r1, r2, n1, n2] => some (
      match parseList? parseFloat? r1, parseList? parseFloat? r2, parseFloat? n1, parseFloat? n2 with
      | some r1, some r2, some n1, some n2 =>
        if r1.length ≠ r2.length then "bad-op" else showFloat (wTestOfRates (r1.zip r2) n1 n2)
      | _, _, _, _ => "bad-op")
  | ["c20_simulate", w, n, us] => some (
      match parseList? parseRat? w, parseNat? n, parseList? parseRat? us with
      | some w, some n, some us => showNats (simulate w n us)
      | _, _, _ => "bad-op")
  | ["c20_binaryll", cnts, rates] => some (
      match parseList? parseNat? cnts, parseList? parseFloat? rates with
      | some cnts, some rates =>
        if cnts.length ≠ rates.length then "bad-op" else showFloat (binaryLL (cnts.zip rates))
      | _, _ => "bad-op")
  | ["c20_brier", cnts, rates] => some (
      match parseList? parseNat? cnts, parseList? parseFloat? rates with
      | some cnts, some rates =>
        if cnts.length ≠ rates.length then "bad-op" else showFloat (brierScore (cnts.zip rates))
      | _, _ => "bad-op")
  | ["c20_normll", cnts, rates] => some (
      match parseList? parseNat? cnts, parseList? parseFloat? rates with
      | some cnts, some rates =>
        if cnts.length ≠ rates.length then "bad-op" else
        match normLL (cnts.zip rates) with
        | none => "nan"
        | some v => showEll v
      | _, _ => "bad-op")
  | ["c20_simbinary", w, n, us] => some (
      match parseList? parseRat? w, parseNat? n, parseList? parseRat? us with
      | some w, some n, some us => showNats (simulateBinary w n us)
      | _, _, _ => "bad-op")
  | ["c20_locate", bounds, pts] => some (
      -- bounds: `w,s,e,n;w,s,e,n;…`, points: `lon,lat;lon,lat;…` (exact rationals); answer: the cell of every point in
      -- storage order, `x` for a point no cell holds
      match parseList2? parseRat? bounds, parseList2? parseRat? pts with
      | some bs, some ps =>
        match bs.mapM (fun b => match b with | [w, s, e, n] => some (Box.mk w s e n) | _ => none),
              ps.mapM (fun p => match p with | [lon, lat] => some (lon, lat) | _ => none) with
        | some boxes, some points =>
          showList (fun (o : Option Nat) => match o with | some i => toString i | none => "x")
            (points.map (fun p => findLocation boxes p.1 p.2))
        | _, _ => "bad-op"
      | _, _ => "bad-op")
  -- c20_fsum <terms as exact rationals> : "<sequential float sum> <numpy pairwise float sum>" (exact rationals, Soft64)
  | ["c20_fsum", xs] => some (
      match parseList? parseRat? xs with
      | some xs => s!"{showRat (FloatSum.seqSum xs)} {showRat (FloatSum.pairwiseSum 64 xs)}"
      | none => "bad-op")
  | _ => none
end Drive.C20
