import PycsepVerif.Proto
import PycsepVerif.Soft64
import PycsepVerif.Model.Region
import PycsepVerif.Model.RegionBuild
import PycsepVerif.Model.RegionOps
import PycsepVerif.Model.ReprDecimals
import PycsepVerif.RealOps
/-!
  Driver ops of property C01.

  `c01_region <xs> <ys> <is> <js> <flags> <lons> <lats> <cats> <arrays>`
     xs, ys   lower edges (exact rationals of the floats `region.xs`, `region.ys`)
     is js flags   per polygon: bounding-box column, row, and 1 = may unmask (no mask list, or mask flag 1)
     lons lats     query points
     cats          `;`-separated catalogs, each a comma list of indices into the points (`-` = none at all)
     arrays        1 = also print get_cartesian(arange(n)) (quadratic in the bounding box), 0 = print `-`
   → `<cart> <allowed> <cats>`
     cart      rows `;`-separated, entries polygon index or `n` (nan)
     allowed   per point the `|`-joined answers the property allows (`o` = outside), points `;`-separated
     cats      per catalog  gi:<E | list>!gm:<0/1 list>!fs:<kept positions>!sc:<E | counts>
  The upper sides are computed like calc.py:117 does: `bins[-1] + (bins[1] - bins[0])` in binary64 (Soft64).

  `c01_build <oxs> <oys> <dh> <flags> <decx> <decy> <decdh> <arrays> <loc>`   the float construction path (Model/RegionBuild.lean)
     oxs oys        origins handed to `from_origins` / `compute_vertices` (exact rationals of the floats)
     dh             spacing; `none:<x0>,<y0>,<x1>,<y1>` = `from_origins(origins)` without dh: inferred from the exact values of the
                    decimal strings `repr` shows for the first two origins (regions.py:745-753)
     flags          `none` (no poly_mask) or per polygon 1 ⇔ `poly_mask[k] == 1`
     decx decy decdh  `num_decimals` of min x, min y, dh as `cleaner_range` reads them from `repr`
     arrays         1 = also print bbox_mask / idx_map
     loc            indices for `get_location_of`
   → `<dh> <xs> <ys> <ux> <uy> <midx> <midy> <hash> <mask> <idxmap> <bbox> <loc>`
     ux uy     per polygon `origin + dh - tol` (the other three vertices are combinations of origin and these)
     hash      per polygon `idx:idy` of `bin1d_vec(midpoints, xs / ys)`
     mask      rows `;`-separated, one character 0/1 per column;   idxmap   rows `;`-separated, entries index or `n`
     bbox      `get_bbox()` four rationals;   loc   polygon numbers or `IndexError`

     round 4: `decx decy decdh` = `auto auto auto` → the three `num_decimals` are computed by the model (Model/ReprDecimals.lean,
     from `DecimalText.reprValue`); dh = `none:auto` → the two repr values of `from_origins` without dh are computed by the model too.
     The harness sends only these forms now; the numeric forms remain for replays of older corpus cases.

  `c01_lookup <oxs> <oys> <dh | none:auto> <flags> <lons> <lats>` → `<xs> <ys> <allowed>`   END TO END: the region is built by the model from
     the origins alone (`ReprDec.fromOriginsAuto`), then every point gets the set of answers the property allows on THAT region

  `c01_global <dh>` → `<lons> <lats> <xs> <ys>`   global_region(dh): the coordinates `itertools.product` is taken of, and the edge arrays

  `c01_masked <oxs> <oys> <dh> <contains> <decx> <decy> <decdh>`   masked_region (Model/RegionOps.lean `maskedRegionF`)
     oxs oys     origins of the OLD region's polygons (polygons = compute_vertex(origin, dh, eps)); contains = 0/1 per polygon
     decx decy decdh   `num_decimals` of the NEW region's min x, min y and dh
   → `<xs> <ys> <hash> <kept>`   edge arrays and midpoint hash of the new region, old polygon number of every new polygon

  `c01_incres <oxs> <oys> <dh> <factor>` → `<dh'> <xs> <ys>` (points in the order of the recursion; the harness compares as a set)
     or `AssertionError`   (increase_grid_resolution, Model/RegionOps.lean `incRes`)

  `c01_spacing <ax> <ay> <bx> <by>` → the spacing or `ValueError`   (grid_spacing)

  `c01_filter <xs> <ys> <is> <js> <flagsA> <flagsB> <lons> <lats> <bound> <cstats> <ops>`   filter_spatial as a state machine
     two regions A, B on the same polygons (different mask flags); bound = `a`/`b`/`n` region bound at construction; cstats = 0/1
     `compute_stats` of the catalog; ops `;`-separated, each three characters: region argument `a`/`b`/`n`, update_stats 0/1, in_place 0/1;
     every op is applied to the catalog object `self` as the previous op left it
   → per op `E` or `<self events>!<self region a/b/n>!<out events>!<out stats>` ; events as `lon:lat` lists, stats four entries (`N` = None) or `-`

  `c01_area <oxbits> <oybits> <dhbits>` → per polygon the IEEE bits of `get_cell_area()` (binary64 `Float`, libm cosine)
-/
namespace Drive.C01
open Proto Region

def parseNat? (s : String) : Option Nat := s.toNat?

def showON (o : Option Nat) : String := match o with | none => "o" | some k => toString k
def showCart (o : Option Nat) : String := match o with | none => "n" | some k => toString k

/-- `bins[-1] + h` with `h = bins[1] - bins[0]` in float64; irrelevant (single-edge grids are open) when n < 2 -/
def topOf (edges : List Rat) : Rat :=
  match edges with
  | e0 :: e1 :: _ => Soft64.fadd (edges.getLast?.getD e1) (Soft64.fsub e1 e0)
  | [e0] => e0 + 1
  | [] => 0

def mkCells : List Nat → List Nat → List Nat → List Cell
  | i :: is, j :: js, f :: fs => ⟨i, j, f == 1⟩ :: mkCells is js fs
  | _, _, _ => []

def sortON (l : List (Option Nat)) : List (Option Nat) :=
  let key : Option Nat → Nat := fun o => match o with | none => 0 | some k => k + 1
  (l.toArray.qsort (fun a b => key a < key b)).toList

def showExc (r : Except Outside (List Nat)) : String :=
  match r with | .error _ => "E" | .ok l => showList toString l

def catalog (R : Region) (pts : Array (Rat × Rat)) (ids : List Nat) : String :=
  let ps := ids.filterMap (fun k => pts[k]?)
  let gm := R.getMasked ps
  let kept := ((ids.zip gm).filter (fun q => !q.2)).map (·.1)
  -- filter_spatial keeps events; report the positions (indices into the point pool) of the kept events
  let fs := (R.filterSpatial ps)
  let keptOk := fs.length == kept.length
  s!"gi:{showExc (R.getIndexOf ps)}!gm:{showList (fun b => if b then "1" else "0") gm}!fs:{if keptOk then showList toString kept else "bad"}!sc:{showExc (R.spatialCounts ps)}"

def parseFlags? (s : String) : Option (Option (List Bool)) :=
  if s = "none" then some none else (parseList? parseNat? s).map (fun l => some (l.map (· == 1)))

def parseDh? (s : String) : Option (Rat ⊕ (List Rat)) :=
  if s == "none:auto" then some (.inr [])
  else if s.startsWith "none:" then
    match parseList? parseRat? (s.drop 5).toString with
    | some l => if l.length = 4 then some (.inr l) else none
    | none => none
  else (parseRat? s).map .inl

def build (oxs oys : List Rat) (dh : Rat ⊕ (List Rat)) (flags : Option (List Bool)) (dec : Option (Nat × Nat × Nat)) (arrays : Bool)
    (loc : List Int) : String :=
  let origins := oxs.zip oys
  let dhv := match dh with
    | .inl d => d
    | .inr [] => ReprDec.inferDhAuto origins      -- `none:auto`: the repr values are computed by the model
    | .inr r => inferDh (r.getD 0 0, r.getD 1 0) (r.getD 2 0, r.getD 3 0)
  let tol := Soft64.eps64
  let b := match dec with
    | some dec => fromOrigins origins dhv flags dec
    | none => ReprDec.fromOriginsAuto origins dhv flags
  let ux := origins.map (fun o => upperF o.1 dhv tol)
  let uy := origins.map (fun o => upperF o.2 dhv tol)
  let R := b.region
  let ny := b.ys.length
  let nx := b.xs.length
  let mask := if arrays then ";".intercalate ((List.range ny).map fun r =>
      String.join ((List.range nx).map fun c => if R.grid.masked r c then "1" else "0")) else "-"
  let imap := if arrays then ";".intercalate ((List.range ny).map fun r =>
      ",".intercalate ((List.range nx).map fun c => showCart (R.grid.idxAt r c))) else "-"
  let bb := getBbox b.xs b.ys dhv
  let locs := match getLocationOf origins.length loc with
    | .ok l => showList toString l
    | .error _ => "IndexError"
  " ".intercalate [showRat dhv, showList showRat b.xs, showList showRat b.ys, showList showRat ux, showList showRat uy,
    showList (fun m => showRat m.1) b.mids, showList (fun m => showRat m.2) b.mids,
    showList (fun h => s!"{h.1}:{h.2}") b.hash, mask, imap,
    ",".intercalate [showRat bb.1, showRat bb.2.1, showRat bb.2.2.1, showRat bb.2.2.2], locs]


def showPts (l : List (Rat × Rat)) : String := showList (fun p => s!"{showRat p.1}:{showRat p.2}") l
def showOR (o : Option Rat) : String := match o with | none => "N" | some r => showRat r
def showStats (o : Option Stats) : String :=
  match o with
  | none => "-"
  | some s => ",".intercalate [showOR s.minLon, showOR s.maxLon, showOR s.minLat, showOR s.maxLat]

def masked (oxs oys : List Rat) (dh : Rat) (contains : List Bool) (dec : Option (Nat × Nat × Nat)) : String :=
  let polys := (oxs.zip oys).map (fun o => computeVertex o dh Soft64.eps64)
  let b := match dec with
    | some dec => maskedRegionF polys dh contains dec
    | none => ReprDec.maskedRegionAuto polys dh contains
  " ".intercalate [showList showRat b.xs, showList showRat b.ys, showList (fun h => s!"{h.1}:{h.2}") b.hash,
    showList toString (keptIdx contains)]

def incres (oxs oys : List Rat) (dh factor : Rat) : String :=
  match incRes 64 (oxs.zip oys) dh factor with
  | none => "AssertionError"
  | some (pts, h) => " ".intercalate [showRat h, showList (fun p => showRat p.1) pts, showList (fun p => showRat p.2) pts]

def spacing (ax ay bx by_ : Rat) : String :=
  match gridSpacing (ax, ay) (bx, by_) with
  | .ok d => showRat d
  | .error _ => "ValueError"

def regTag (A B : Region) (r : Option Region) : String :=
  match r with
  | none => "n"
  | some R => if R.cells == A.cells then "a" else if R.cells == B.cells then "b" else "?"

def runOps (A B : Region) : Cat → List String → List String
  | _, [] => []
  | c, op :: ops =>
    let ch := op.toList
    let reg : Option Region := match ch.getD 0 'n' with | 'a' => some A | 'b' => some B | _ => none
    let us := ch.getD 1 '0' == '1'
    let ip := ch.getD 2 '0' == '1'
    match c.filterSpatialOp reg us ip with
    | .error _ => "E" :: runOps A B c ops
    | .ok (c', out) =>
      s!"{showPts c'.events}!{regTag A B c'.region}!{showPts out.events}!{showStats out.stats}" :: runOps A B c' ops

local instance : NatCast Float := ⟨Float.ofNat⟩

/-- numpy.pi -/
def piF : Float := 3.141592653589793

def area (ox oy : List Float) (dh : Float) : String :=
  showList showFloat (cellAreas (α := Float) piF Float.cos (fun a b => a == b) (ox.zip oy) dh)

/-- the three decimals: numbers (supplied), or `auto auto auto` = computed by the model (Model/ReprDecimals.lean) -/
def parseDecs? (a b c : String) : Option (Option (Nat × Nat × Nat)) :=
  if a == "auto" && b == "auto" && c == "auto" then some none
  else match a.toNat?, b.toNat?, c.toNat? with
    | some x, some y, some z => some (some (x, y, z))
    | _, _, _ => none

def handle : List String → Option String
  | ["c01_build", oxs, oys, dh, fl, decx, decy, decdh, arrays, loc] => some (
      match parseList? parseRat? oxs, parseList? parseRat? oys, parseDh? dh,
            parseFlags? fl, parseDecs? decx decy decdh, parseList? parseInt? loc with
      | some oxs, some oys, some dh, some fl, some dec, some loc =>
        build oxs oys dh fl dec (arrays == "1") loc
      | _, _, _, _, _, _ => "bad-op")
  | ["c01_masked", oxs, oys, dh, cont, decx, decy, decdh] => some (
      match parseList? parseRat? oxs, parseList? parseRat? oys, parseRat? dh, parseList? parseNat? cont,
            parseDecs? decx decy decdh with
      | some oxs, some oys, some dh, some cont, some dec => masked oxs oys dh (cont.map (· == 1)) dec
      | _, _, _, _, _ => "bad-op")
  -- `c01_lookup <oxs> <oys> <dh | none:auto> <flags> <lons> <lats>` → `<xs> <ys> <allowed>`: END TO END — the region is built by the
  -- model from the origins alone (`ReprDec.fromOriginsAuto`: decimals, edge arrays, midpoint hash, mask loop), then every point gets
  -- the set of answers the property allows on THAT region (`Region.allowed`); nothing but the origins comes from the harness
  | ["c01_lookup", oxs, oys, dh, fl, lons, lats] => some (
      match parseList? parseRat? oxs, parseList? parseRat? oys, parseDh? dh, parseFlags? fl,
            parseList? parseRat? lons, parseList? parseRat? lats with
      | some oxs, some oys, some dh, some fl, some lons, some lats =>
        let origins := oxs.zip oys
        let dhv := match dh with
          | .inl d => d
          | .inr [] => ReprDec.inferDhAuto origins
          | .inr r => inferDh (r.getD 0 0, r.getD 1 0) (r.getD 2 0, r.getD 3 0)
        let b := ReprDec.fromOriginsAuto origins dhv fl
        let R := b.region
        let pts := lons.zip lats
        let allowed := if pts.isEmpty then "-" else
          ";".intercalate (pts.map (fun p => "|".intercalate ((sortON (R.allowed p)).map showON)))
        s!"{showList showRat b.xs} {showList showRat b.ys} {allowed}"
      | _, _, _, _, _, _ => "bad-op")
  -- `c01_global <dh>` → `<lons> <lats> <xs> <ys>`: the origin coordinates `global_region(dh)` takes the product of, and the region's edge arrays (no hash: 6.5·10^6 cells at 0.1)
  | ["c01_global", dh] => some (match parseRat? dh with
      | some dh =>
        let lons := (ReprDec.cleanerRangeAuto (-180) 180 dh).dropLast
        let lats := (ReprDec.cleanerRangeAuto (-90) 90 dh).dropLast
        -- the region's own edge arrays: cleaner_range(min lon, max lon, dh) etc.
        let xs := ReprDec.cleanerRangeAuto (Region.minL lons) (Region.maxL lons) dh
        let ys := ReprDec.cleanerRangeAuto (Region.minL lats) (Region.maxL lats) dh
        s!"{showList showRat lons} {showList showRat lats} {showList showRat xs} {showList showRat ys}"
      | none => "bad-op")
  | ["c01_incres", oxs, oys, dh, factor] => some (
      match parseList? parseRat? oxs, parseList? parseRat? oys, parseRat? dh, parseRat? factor with
      | some oxs, some oys, some dh, some f => incres oxs oys dh f
      | _, _, _, _ => "bad-op")
  | ["c01_spacing", ax, ay, bx, by_] => some (
      match parseRat? ax, parseRat? ay, parseRat? bx, parseRat? by_ with
      | some ax, some ay, some bx, some by_ => spacing ax ay bx by_
      | _, _, _, _ => "bad-op")
  | ["c01_filter", xs, ys, is, js, fa, fb, lons, lats, bound, cstats, ops] => some (
      match parseList? parseRat? xs, parseList? parseRat? ys, parseList? parseNat? is, parseList? parseNat? js,
            parseList? parseNat? fa, parseList? parseNat? fb, parseList? parseRat? lons, parseList? parseRat? lats with
      | some xs, some ys, some is, some js, some fa, some fb, some lons, some lats =>
        let A := Region.new xs ys (topOf xs) (topOf ys) (mkCells is js fa)
        let B := Region.new xs ys (topOf xs) (topOf ys) (mkCells is js fb)
        let reg : Option Region := if bound == "a" then some A else if bound == "b" then some B else none
        let c := Cat.mk' (lons.zip lats) reg (cstats == "1")
        " ".intercalate (runOps A B c (ops.splitOn ";"))
      | _, _, _, _, _, _, _, _ => "bad-op")
  | ["c01_area", ox, oy, dh] => some (
      match parseList? parseFloat? ox, parseList? parseFloat? oy, parseFloat? dh with
      | some ox, some oy, some dh => area ox oy dh
      | _, _, _ => "bad-op")
  | ["c01_region", xs, ys, is, js, fl, lons, lats, cats, arrays] => some (
      match parseList? parseRat? xs, parseList? parseRat? ys, parseList? parseNat? is, parseList? parseNat? js,
            parseList? parseNat? fl, parseList? parseRat? lons, parseList? parseRat? lats,
            parseList2? parseNat? cats with
      | some xs, some ys, some is, some js, some fl, some lons, some lats, some cats =>
        let R := Region.new xs ys (topOf xs) (topOf ys) (mkCells is js fl)
        let pts := lons.zip lats
        let cart := if arrays == "1" then
            let rows := R.getCartesian (List.range R.cells.length)
            ";".intercalate (rows.map (fun r => ",".intercalate (r.map showCart)))
          else "-"
        let allowed := if pts.isEmpty then "-" else
          ";".intercalate (pts.map (fun p => "|".intercalate ((sortON (R.allowed p)).map showON)))
        let parr := pts.toArray
        let cs := if cats.isEmpty then "-" else ";".intercalate (cats.map (catalog R parr))
        s!"{cart} {allowed} {cs}"
      | _, _, _, _, _, _, _, _ => "bad-op")
  | _ => none
end Drive.C01
