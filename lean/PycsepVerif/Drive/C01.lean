import PycsepVerif.Proto
import PycsepVerif.Soft64
import PycsepVerif.Model.Region
/-!
  Driver ops of property C01.

  `c01_region <xs> <ys> <is> <js> <flags> <lons> <lats> <cats> <arrays>`
     xs, ys   lower edges (exact rationals of the floats `region.xs`, `region.ys`)
     is js flags   per polygon: bounding-box column, row, and 1 = may unmask (no mask list, or mask flag 1)
     lons lats     query points
     cats          `;`-separated catalogs, each a comma list of indices into the points (`-` = none at all)
     arrays        1 = also print get_cartesian(arange(n)) (quadratic in the bounding box), 0 = print `-`
   → `<cart> <allowed> <cats>`
     cart      rows `;`-separated, entries polygon index or `n` (nan)
     allowed   per point the `|`-joined answers the property allows (`o` = outside), points `;`-separated
     cats      per catalog  gi:<E | list>!gm:<0/1 list>!fs:<kept positions>!sc:<E | counts>
  The upper sides are computed like calc.py:117 does: `bins[-1] + (bins[1] - bins[0])` in binary64 (Soft64).
-/
namespace Drive.C01
open Proto Region

def parseNat? (s : String) : Option Nat := s.toNat?

def showON (o : Option Nat) : String := match o with | none => "o" | some k => toString k
def showCart (o : Option Nat) : String := match o with | none => "n" | some k => toString k

/-- `bins[-1] + h` with `h = bins[1] - bins[0]` in float64; irrelevant (single-edge grids are open) when n < 2 -/
def topOf (edges : List Rat) : Rat :=
  match edges with
  | e0 :: e1 :: _ => Soft64.fadd (edges.getLast?.getD e1) (Soft64.fsub e1 e0)
  | [e0] => e0 + 1
  | [] => 0

def mkCells : List Nat → List Nat → List Nat → List Cell
  | i :: is, j :: js, f :: fs => ⟨i, j, f == 1⟩ :: mkCells is js fs
  | _, _, _ => []

def sortON (l : List (Option Nat)) : List (Option Nat) :=
  let key : Option Nat → Nat := fun o => match o with | none => 0 | some k => k + 1
  (l.toArray.qsort (fun a b => key a < key b)).toList

def showExc (r : Except Outside (List Nat)) : String :=
  match r with | .error _ => "E" | .ok l => showList toString l

def catalog (R : Region) (pts : Array (Rat × Rat)) (ids : List Nat) : String :=
  let ps := ids.filterMap (fun k => pts[k]?)
  let gm := R.getMasked ps
  let kept := ((ids.zip gm).filter (fun q => !q.2)).map (·.1)
  -- filter_spatial keeps events; report the positions (indices into the point pool) of the kept events
  let fs := (R.filterSpatial ps)
  let keptOk := fs.length == kept.length
  s!"gi:{showExc (R.getIndexOf ps)}!gm:{showList (fun b => if b then "1" else "0") gm}!fs:{if keptOk then showList toString kept else "bad"}!sc:{showExc (R.spatialCounts ps)}"

def handle : List String → Option String
  | ["c01_region", xs, ys, is, js, fl, lons, lats, cats, arrays] => some (
      match parseList? parseRat? xs, parseList? parseRat? ys, parseList? parseNat? is, parseList? parseNat? js,
            parseList? parseNat? fl, parseList? parseRat? lons, parseList? parseRat? lats,
            parseList2? parseNat? cats with
      | some xs, some ys, some is, some js, some fl, some lons, some lats, some cats =>
        let R := Region.new xs ys (topOf xs) (topOf ys) (mkCells is js fl)
        let pts := lons.zip lats
        let cart := if arrays == "1" then
            let rows := R.getCartesian (List.range R.cells.length)
            ";".intercalate (rows.map (fun r => ",".intercalate (r.map showCart)))
          else "-"
        let allowed := if pts.isEmpty then "-" else
          ";".intercalate (pts.map (fun p => "|".intercalate ((sortON (R.allowed p)).map showON)))
        let parr := pts.toArray
        let cs := if cats.isEmpty then "-" else ";".intercalate (cats.map (catalog R parr))
        s!"{cart} {allowed} {cs}"
      | _, _, _, _, _, _, _, _ => "bad-op")
  | _ => none
end Drive.C01
