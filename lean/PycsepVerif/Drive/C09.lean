import PycsepVerif.Proto
import PycsepVerif.Model.Ecdf
import PycsepVerif.Model.EcdfNumpy
import PycsepVerif.Model.EcdfCode
import PycsepVerif.Model.EcdfPromote
namespace Drive.C09
open Proto

/-- comparison domain: `x` exact, `h` binary16, `s` binary32, `d` binary64 -/
def parseDom? : String → Option Ecdf.Dom
  | "x" => some .exact | "h" => some .f16 | "s" => some .f32 | "d" => some .f64 | _ => none

def showNp : Ecdf.NpOut → String
  | .prob k n => s!"{k}:{n}"
  | .indexError => "IndexError"

/-- a float64 query value: `inf`, `-inf`, `nan` or an exact rational -/
def parseQ? : String → Option Ecdf.Q
  | "inf" => some .posInf | "-inf" => some .negInf | "nan" => some .nan
  | s => (parseRat? s).map Ecdf.Q.fin

def showOut : Ecdf.Out → String
  | .none => "none"
  | .val p => showRat p
  | .indexError => "IndexError"

def parseDT? : String → Option Ecdf.DT
  | "uint8" => some .u8 | "uint16" => some .u16 | "uint32" => some .u32 | "uint64" => some .u64
  | "int8" => some .i8 | "int16" => some .i16 | "int32" => some .i32 | "int64" => some .i64
  | "float16" => some .f16 | "float32" => some .f32 | "float64" => some .f64 | _ => none

def showDT : Ecdf.DT → String
  | .u8 => "uint8" | .u16 => "uint16" | .u32 => "uint32" | .u64 => "uint64"
  | .i8 => "int8" | .i16 => "int16" | .i32 => "int32" | .i64 => "int64"
  | .f16 => "float16" | .f32 => "float32" | .f64 => "float64"

/-- how the query is handed over: `pyint`, `pyfloat`, or a numpy dtype name -/
def parseQK? : String → Option Ecdf.QK
  | "pyint" => some .pyInt | "pyfloat" => some .pyFloat
  | s => (parseDT? s).map Ecdf.QK.np

def handle : List String → Option String
  -- the promotion table itself (Model/EcdfPromote.lean), compared with numpy.result_type on all pairs
  | ["c09_result_type", a, b] => some (match parseDT? a, parseDT? b with
      | some a, some b => showDT (Ecdf.resultType a b) | _, _ => "bad-op")
  -- promotion-aware layer driven by dtype NAMES: `ecdf_dt E QK xs v` → `<ge> <le>`
  | ["ecdf_dt", e, q, xs, v] => some (match parseDT? e, parseQK? q, parseList? parseRat? xs, parseRat? v with
      | some e, some q, some xs, some v =>
        showOpt showNp (Ecdf.geEcdfDT e q xs v) ++ " " ++ showOpt showNp (Ecdf.leEcdfDT e q xs v)
      | _, _, _, _ => "bad-op")
  -- statement-level layer (Model/EcdfCode.lean): arrays, subscripts, binary search, `cdf=`, ±inf / nan queries.
  -- `ecdf_code xs v`  /  `ecdf_code xs v ys` (cdf = ecdf(ys))  →  `<ge> <le>`
  | ["ecdf_code", xs, v] => some (match parseList? parseRat? xs, parseQ? v with
      | some xs, some v => showOut (Ecdf.geCode xs v none) ++ " " ++ showOut (Ecdf.leCode xs v none)
      | _, _ => "bad-op")
  | ["ecdf_code", xs, v, ys] => some (match parseList? parseRat? xs, parseQ? v, parseList? parseRat? ys with
      | some xs, some v, some ys =>
        showOut (Ecdf.geCode xs v (some (Ecdf.ecdfArr ys))) ++ " " ++ showOut (Ecdf.leCode xs v (some (Ecdf.ecdfArr ys)))
      | _, _, _ => "bad-op")
  | ["binned_code", xs, vs] => some (match parseList? parseRat? xs, parseList? parseQ? vs with
      | some xs, some vs => showOpt (showList showOut) (Ecdf.binnedCode xs vs) | _, _ => "bad-op")
  | ["ge_ecdf", xs, v] => some (match parseList? parseRat? xs, parseRat? v with
      | some xs, some v => showOpt showPair (Ecdf.geEcdf xs v) | _, _ => "bad-op")
  | ["le_ecdf", xs, v] => some (match parseList? parseRat? xs, parseRat? v with
      | some xs, some v => showOpt showPair (Ecdf.leEcdf xs v) | _, _ => "bad-op")
  | ["binned_ecdf", xs, vs] => some (match parseList? parseRat? xs, parseList? parseRat? vs with
      | some xs, some vs => showOpt (showList showPair) (Ecdf.binnedEcdf xs vs) | _, _ => "bad-op")
  -- promotion-aware layer: `ecdf_np SC SE xs v` → `<ge> <le>` (each `k:n`, `IndexError` or `none`)
  | ["ecdf_np", sc, se, xs, v] => some (match parseDom? sc, parseDom? se, parseList? parseRat? xs, parseRat? v with
      | some sc, some se, some xs, some v =>
        showOpt showNp (Ecdf.geEcdfNp sc.cast se.cast xs v) ++ " " ++ showOpt showNp (Ecdf.leEcdfNp sc.cast se.cast xs v)
      | _, _, _, _ => "bad-op")
  -- the floats returned for the two probabilities (exact model counts, one binary64 division each)
  | ["ecdf_float", xs, v] => some (match parseList? parseRat? xs, parseRat? v with
      | some xs, some v =>
        (match Ecdf.geEcdf xs v, Ecdf.leEcdf xs v with
         | some (k1, n1), some (k2, n2) => showRat (Ecdf.probF k1 n1) ++ " " ++ showRat (Ecdf.probF k2 n2)
         | _, _ => "none")
      | _, _ => "bad-op")
  | ["sup_dist_na", d1, d2] => some (match parseList? parseRat? d1, parseList? parseRat? d2 with
      | some d1, some d2 => showRat (Ecdf.supDistNa d1 d2) ++ " " ++ showRat (Ecdf.supDistNaF d1 d2)
      | _, _ => "bad-op")
  | ["sup_dist", c1, c2] => some (match parseList? parseRat? c1, parseList? parseRat? c2 with
      | some c1, some c2 => showRat (Ecdf.supDistF c1 c2) | _, _ => "bad-op")
  | ["min_max", xs] => some (match parseList? parseRat? xs with
      | some xs => showOpt showRat (Ecdf.minOrNone xs) ++ " " ++ showOpt showRat (Ecdf.maxOrNone xs)
      | none => "bad-op")
  | _ => none
end Drive.C09
