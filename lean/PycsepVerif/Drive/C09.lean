import PycsepVerif.Proto
import PycsepVerif.Model.Ecdf
namespace Drive.C09
open Proto

def handle : List String → Option String
  | ["ge_ecdf", xs, v] => some (match parseList? parseRat? xs, parseRat? v with
      | some xs, some v => showOpt showPair (Ecdf.geEcdf xs v) | _, _ => "bad-op")
  | ["le_ecdf", xs, v] => some (match parseList? parseRat? xs, parseRat? v with
      | some xs, some v => showOpt showPair (Ecdf.leEcdf xs v) | _, _ => "bad-op")
  | ["binned_ecdf", xs, vs] => some (match parseList? parseRat? xs, parseList? parseRat? vs with
      | some xs, some vs => showOpt (showList showPair) (Ecdf.binnedEcdf xs vs) | _, _ => "bad-op")
  | _ => none
end Drive.C09
