import PycsepVerif.Proto
import PycsepVerif.Model.Ecdf
import PycsepVerif.Model.EcdfNumpy
namespace Drive.C09
open Proto

/-- comparison domain: `x` exact, `h` binary16, `s` binary32, `d` binary64 -/
def parseDom? : String → Option Ecdf.Dom
  | "x" => some .exact | "h" => some .f16 | "s" => some .f32 | "d" => some .f64 | _ => none

def showNp : Ecdf.NpOut → String
  | .prob k n => s!"{k}:{n}"
  | .indexError => "IndexError"

def handle : List String → Option String
  | ["ge_ecdf", xs, v] => some (match parseList? parseRat? xs, parseRat? v with
      | some xs, some v => showOpt showPair (Ecdf.geEcdf xs v) | _, _ => "bad-op")
  | ["le_ecdf", xs, v] => some (match parseList? parseRat? xs, parseRat? v with
      | some xs, some v => showOpt showPair (Ecdf.leEcdf xs v) | _, _ => "bad-op")
  | ["binned_ecdf", xs, vs] => some (match parseList? parseRat? xs, parseList? parseRat? vs with
      | some xs, some vs => showOpt (showList showPair) (Ecdf.binnedEcdf xs vs) | _, _ => "bad-op")
  -- promotion-aware layer: `ecdf_np SC SE xs v` → `<ge> <le>` (each `k:n`, `IndexError` or `none`)
  | ["ecdf_np", sc, se, xs, v] => some (match parseDom? sc, parseDom? se, parseList? parseRat? xs, parseRat? v with
      | some sc, some se, some xs, some v =>
        showOpt showNp (Ecdf.geEcdfNp sc.cast se.cast xs v) ++ " " ++ showOpt showNp (Ecdf.leEcdfNp sc.cast se.cast xs v)
      | _, _, _, _ => "bad-op")
  -- the floats returned for the two probabilities (exact model counts, one binary64 division each)
  | ["ecdf_float", xs, v] => some (match parseList? parseRat? xs, parseRat? v with
      | some xs, some v =>
        (match Ecdf.geEcdf xs v, Ecdf.leEcdf xs v with
         | some (k1, n1), some (k2, n2) => showRat (Ecdf.probF k1 n1) ++ " " ++ showRat (Ecdf.probF k2 n2)
         | _, _ => "none")
      | _, _ => "bad-op")
  | ["sup_dist_na", d1, d2] => some (match parseList? parseRat? d1, parseList? parseRat? d2 with
      | some d1, some d2 => showRat (Ecdf.supDistNa d1 d2) ++ " " ++ showRat (Ecdf.supDistNaF d1 d2)
      | _, _ => "bad-op")
  | ["sup_dist", c1, c2] => some (match parseList? parseRat? c1, parseList? parseRat? c2 with
      | some c1, some c2 => showRat (Ecdf.supDistF c1 c2) | _, _ => "bad-op")
  | ["min_max", xs] => some (match parseList? parseRat? xs with
      | some xs => showOpt showRat (Ecdf.minOrNone xs) ++ " " ++ showOpt showRat (Ecdf.maxOrNone xs)
      | none => "bad-op")
  | _ => none
end Drive.C09
