import PycsepVerif.Proto
import PycsepVerif.GeneratedSrc
/-! driver ops `src_<f>`: the definitions generated from the Python source (GeneratedSrc.lean), made executable so that
    harness/src_tie.py can compare them with the real Python functions (validation of translator + prelude). -/
namespace Drive.Src
open Proto

def showInt (i : Int) : String := toString i

def tz? : String → Option Py.Tz
  | "naive" => some .naive | "utc" => some .utc | "other" => some .other | _ => none

def showErr : Py.Err → String
  | .valueError => "ValueError" | .indexError => "IndexError" | .assertionError => "AssertionError" | .other => "Exception"

def showExcept {β : Type} (f : β → String) : Except Py.Err β → String
  | .ok b => f b
  | .error e => showErr e

def handle : List String → Option String
  | ["src_get_tolerance", xs] => some (match parseList? parseRat? xs with
      | some xs => showList showRat (xs.map Src.get_tolerance) | none => "bad-op")
  | ["src_bin1d_vec", rc, bins, ps] => some (match parseList? parseRat? bins, parseList? parseRat? ps with
      | some bins, some ps => showList (fun p => showExcept showInt (Src.bin1d_vec p bins (rc == "1"))) ps
      | _, _ => "bad-op")
  | ["src_cleaner_range", s, e, h, ds, dh] => some (
      match parseRat? s, parseRat? e, parseRat? h, parseInt? ds, parseInt? dh with
      | some s, some e, some h, some ds, some dh =>
          showList showRat (Src.cleaner_range (fun x => if x = s then ds else dh) s e h)
      | _, _, _, _, _ => "bad-op")
  | ["src_datetime_to_utc_epoch", tz, xs] => some (match tz? tz, parseList? parseInt? xs with
      | some tz, some xs => showList (fun us => showExcept showInt (Src.datetime_to_utc_epoch { us := us, tz := tz })) xs
      | _, _ => "bad-op")
  | ["src_epoch_time_to_utc_datetime", xs] => some (match parseList? parseInt? xs with
      | some xs => showList (fun ms => showInt (Src.epoch_time_to_utc_datetime ms).us) xs | none => "bad-op")
  | ["src_decimal_year", xs] => some (match parseList? parseInt? xs with
      | some xs => showList (fun us => showRat (Src.decimal_year { us := us, tz := .utc })) xs | none => "bad-op")
  -- real layer at Float; floats travel as IEEE bit patterns; the scipy functions are the synthetic linear functions
  -- harness/src_tie.py installs in their place (they test that every argument is passed through)
  | ["src_number_test_ndarray", mu, n, eps] => some (match parseFloat? mu, n.toNat?, parseFloat? eps with
      | some mu, some n, some eps =>
          let r := Src.number_test_ndarray (fun x m => x * 0.25 + m * 0.5) mu n eps
          s!"{showFloat r.1},{showFloat r.2}"
      | _, _, _ => "bad-op")
  | ["src_nbd_number_test_ndarray", mean, n, var, eps] => some (
      match parseFloat? mean, n.toNat?, parseFloat? var, parseFloat? eps with
      | some mean, some n, some var, some eps =>
          let r := Src.nbd_number_test_ndarray (fun x t u => x * 0.25 + t * 0.5 + u * 0.125) mean n var eps
          s!"{showFloat r.1},{showFloat r.2}"
      | _, _, _, _ => "bad-op")
  | ["src_t_test_ndarray", ra, rb, n, na, nb, alpha] => some (
      match parseList? parseFloat? ra, parseList? parseFloat? rb, parseFloat? n, parseFloat? na, parseFloat? nb,
        parseFloat? alpha with
      | some ra, some rb, some n, some na, some nb, some alpha =>
          let r := Src.t_test_ndarray (fun q df => q * 2.0 + df * 0.125) ra rb n na nb alpha
          showList showFloat [r.1, r.2.1, r.2.2.1, r.2.2.2.1, r.2.2.2.2]
      | _, _, _, _, _, _ => "bad-op")
  | ["src_brier_score_ndarray", fc, obs, dims] => some (
      match parseList? parseFloat? fc, parseList? String.toNat? obs, parseList? String.toNat? dims with
      | some fc, some obs, some dims => showFloat (Src.brier_score_ndarray fc obs dims)
      | _, _, _ => "bad-op")
  | ["src_poisson_joint_log_likelihood_ndarray", logs, obs, nf] => some (
      match parseList? parseFloat? logs, parseList? String.toNat? obs, parseFloat? nf with
      | some logs, some obs, some nf =>
          let e : List (ELL Float) := logs.map (fun x => if x == (-1.0 / 0.0) then ELL.negInf else ELL.fin x)
          (match Src.poisson_joint_log_likelihood_ndarray e obs nf with
           | .negInf => "ninf"
           | .fin x => showFloat x)
      | _, _, _ => "bad-op")
  | ["src_poisson_likelihood_stat", fc, obs, uoc, nl] => some (
      match parseList? parseFloat? fc, parseList? String.toNat? obs with
      | some fc, some obs =>
          (match Src.poisson_likelihood_stat fc obs (uoc == "1") (nl == "1") with
           | .negInf => "ninf"
           | .fin x => showFloat x)
      | _, _ => "bad-op")
  | _ => none
end Drive.Src
