import PycsepVerif.Proto
import PycsepVerif.GeneratedSrc
import PycsepVerif.Drive.C18b
/-! driver ops `src_<f>`: the definitions generated from the Python source (GeneratedSrc.lean), made executable so that
    harness/src_tie.py can compare them with the real Python functions (validation of translator + prelude). -/
namespace Drive.Src
open Proto

def showInt (i : Int) : String := toString i

def tz? : String → Option Py.Tz
  | "naive" => some .naive | "utc" => some .utc | "other" => some .other | _ => none

def showErr : Py.Err → String
  | .valueError => "ValueError" | .indexError => "IndexError" | .assertionError => "AssertionError" | .other => "Exception"

def showErrX : Py.ErrX → String
  | .keyError => "KeyError" | .typeError => "TypeError" | .attributeError => "AttributeError" | .valueError => "ValueError"
  | .other => "Exception"

def showExcept {β : Type} (f : β → String) : Except Py.Err β → String
  | .ok b => f b
  | .error e => showErr e

def showELL : ELL Float → String
  | .negInf => "ninf"
  | .fin x => showFloat x

def handle : List String → Option String
  | ["src_get_tolerance", xs] => some (match parseList? parseRat? xs with
      | some xs => showList showRat (xs.map Src.get_tolerance) | none => "bad-op")
  | ["src_bin1d_vec", rc, bins, ps] => some (match parseList? parseRat? bins, parseList? parseRat? ps with
      | some bins, some ps => showList (fun p => showExcept showInt (Src.bin1d_vec p bins (rc == "1"))) ps
      | _, _ => "bad-op")
  | ["src_get_index_of", lons, lats, xs, ys, bbox, idxm] => some (
      match parseList? parseRat? lons, parseList? parseRat? lats, parseList? parseRat? xs, parseList? parseRat? ys,
        parseList2? parseRat? bbox, parseList2? parseRat? idxm with
      | some lons, some lats, some xs, some ys, some bbox, some idxm =>
          showExcept (showList showInt) (Src.get_index_of lons lats xs ys bbox idxm)
      | _, _, _, _, _, _ => "bad-op")
  | ["src_get_masked", lons, lats, xs, ys, bbox] => some (
      match parseList? parseRat? lons, parseList? parseRat? lats, parseList? parseRat? xs, parseList? parseRat? ys,
        parseList2? parseRat? bbox with
      | some lons, some lats, some xs, some ys, some bbox =>
          showExcept (showList (fun b => if b then "1" else "0")) (Src.get_masked lons lats xs ys bbox)
      | _, _, _, _, _ => "bad-op")
  | ["src_compute_vertex", x, y, dh, tol] => some (match parseRat? x, parseRat? y, parseRat? dh, parseRat? tol with
      | some x, some y, some dh, some tol =>
          let r := Src.compute_vertex (x, y) dh tol
          showList showRat [r.1.1, r.1.2, r.2.1.1, r.2.1.2, r.2.2.1.1, r.2.2.1.2, r.2.2.2.1, r.2.2.2.2]
      | _, _, _, _ => "bad-op")
  -- C11 (exact layer: rationals; 2-D arrays as `;`-separated rows)
  | ["src_gds_data", rows, sc] => some (match parseList2? parseRat? rows, parseRat? sc with
      | some rows, some sc => ";".intercalate ((Src.gds_data rows sc).map (showList showRat)) | _, _ => "bad-op")
  | ["src_gds_sum", rows] => some (match parseList2? parseRat? rows with
      | some rows => showRat (Src.gds_sum rows) | none => "bad-op")
  | ["src_gds_scale", v] => some (match parseRat? v with | some v => showRat (Src.gds_scale v) | none => "bad-op")
  | ["src_mgds_spatial_counts", rows] => some (match parseList2? parseRat? rows with
      | some rows => showList showRat (Src.mgds_spatial_counts rows) | none => "bad-op")
  | ["src_mgds_magnitude_counts", rows] => some (match parseList2? parseRat? rows with
      | some rows => showList showRat (Src.mgds_magnitude_counts rows) | none => "bad-op")
  | ["src_get_magnitude_index", mags, edges] => some (match parseList? parseRat? mags, parseList? parseRat? edges with
      | some mags, some edges => showExcept (showList showInt) (Src.get_magnitude_index mags edges) | _, _ => "bad-op")
  | ["src_get_rates", n1, n2, n3, idx, idm, rows, other] => some (
      match n1.toNat?, n2.toNat?, n3.toNat?, parseList? parseInt? idx, parseList? parseInt? idm, parseList2? parseRat? rows,
        parseList2? parseRat? other with
      | some n1, some n2, some n3, some idx, some idm, some rows, some other =>
          let z := fun (n : Nat) => List.replicate n (0 : Rat)
          (if other.isEmpty then showExcept (showList showRat) (Src.get_rates (z n1) (z n2) (z n3) idx idm rows)
           else showExcept (showList showRat) (Src.get_rates_data (z n1) (z n2) (z n3) other idx idm rows))
      | _, _, _, _, _, _, _ => "bad-op")
  | ["src_target_event_rates", sc, days, n, idx, idm, rows] => some (
      match parseInt? days, n.toNat?, parseList? parseInt? idx, parseList? parseInt? idm, parseList2? parseRat? rows with
      | some days, some n, some idx, some idm, some rows =>
          let z := List.replicate n (0 : Rat)
          showExcept (fun (r : List Rat × Rat) => s!"{showList showRat r.1};{showRat r.2}")
            (Src.target_event_rates (sc == "1") rows days z z z idx idm)
      | _, _, _, _, _ => "bad-op")
  | ["src_load_ascii", sw, rows] => some (match parseList2? parseRat? rows with
      | some rows =>
          let r := Src.load_ascii (sw == "1") rows
          let pt := fun (p : Rat × Rat) => s!"{showRat p.1}:{showRat p.2}"
          let bb := r.1.map (fun b => s!"{pt b.1}|{pt b.2.1}|{pt b.2.2.1}|{pt b.2.2.2}")
          s!"{showList id bb};{showList showRat r.2.1};{showList showRat r.2.2.1};{showList showRat r.2.2.2}"
      | none => "bad-op")
  | ["src_scale_to_test_date", t, e, st] => some (match parseInt? t, parseInt? e, parseInt? st with
      | some t, some e, some st =>
          showOpt showRat (Src.scale_to_test_date { us := t, tz := .naive } { us := e, tz := .naive } { us := st, tz := .naive })
      | _, _, _ => "bad-op")
  | ["src_zmap_record", eid, row] => some (match parseInt? eid, parseList? parseRat? row with
      | some eid, some row => showExcept (fun (r : Int × Int × Rat × Rat × Rat × Rat) =>
          s!"{r.1}:{r.2.1}:{showRat r.2.2.1}:{showRat r.2.2.2.1}:{showRat r.2.2.2.2.1}:{showRat r.2.2.2.2.2}")
          (Src.zmap_record eid row)
      | _, _ => "bad-op")
  | ["src_horus_record", ints, rats] => some (match parseList? parseInt? ints, parseList? parseRat? rats with
      | some [y, mo, d, hh, mi], some [sec, lat, lon, dep, mw] =>
          showExcept (fun (r : Py.Datetime × Int × Rat × Rat × Rat × Rat) =>
            s!"{r.1.us}:{r.2.1}:{showRat r.2.2.1}:{showRat r.2.2.2.1}:{showRat r.2.2.2.2.1}:{showRat r.2.2.2.2.2}")
            (Src.horus_record 0 y mo d hh mi sec lat lon dep mw)
      | _, _ => "bad-op")
  -- C18 object layer: values in the prefix notation of Drive/C18b.lean, fields separated by `;`
  | ["src_er_init", fs] => some (match (fs.splitOn ";").mapM Drive.C18b.parse? with
      | some [a, b, c, d, e, f, g, h, i] =>
          let r := Src.er_init a b c d e f g h i
          ";".intercalate ([r.1, r.2.1, r.2.2.1, r.2.2.2.1, r.2.2.2.2.1, r.2.2.2.2.2.1, r.2.2.2.2.2.2.1, r.2.2.2.2.2.2.2.1,
            r.2.2.2.2.2.2.2.2].map Drive.C18b.enc)
      | _ => "bad-op")
  | ["src_er_to_dict", fs] => some (match (fs.splitOn ";").mapM Drive.C18b.parse? with
      | some [a, b, c, d, e, f, g, h, i, t] =>
          (match Src.er_to_dict a b c d e f g h i t with
           | .ok d => Drive.C18b.enc d
           | .error e => showErrX e)
      | _ => "bad-op")
  | ["src_er_from_dict", v] => some (match Drive.C18b.parse? v with
      | some d =>
          (match Src.er_from_dict d with
           | .ok r => ";".intercalate ([r.1, r.2.1, r.2.2.1, r.2.2.2.1, r.2.2.2.2.1, r.2.2.2.2.2.1, r.2.2.2.2.2.2.1,
               r.2.2.2.2.2.2.2.1, r.2.2.2.2.2.2.2.2].map Drive.C18b.enc)
           | .error e => showErrX e)
      | none => "bad-op")
  | ["src_grid_from_dict", v] => some (match Drive.C18b.parse? v with
      | some d =>
          (match Src.grid_from_dict d with
           | .ok r => ";".intercalate ([r.1, r.2.1, r.2.2.1, r.2.2.2].map Drive.C18b.enc)
           | .error e => showErrX e)
      | none => "bad-op")
  | ["src_grid_to_dict", quad, name, dh, origins] => some (
      let nm : Option (Option String) := if name = "N" then some none else (Drive.C18.fromHex? (name.dropEnd 1).toString).map some
      let os : Option (List (ResultJson.F64 × ResultJson.F64)) := parseList? (fun s => match s.splitOn ":" with
        | [a, b] => (Drive.C18.parseF64? a).bind (fun x => (Drive.C18.parseF64? b).map (fun y => (x, y)))
        | _ => none) origins
      match nm, Drive.C18.parseF64? dh, os with
      | some nm, some d, some os =>
          (match (if quad == "1" then Src.quad_to_dict nm os
                  else Src.grid_to_dict nm d os (JsonTree.PyObj.str "CartesianGrid2D")) with
           | .ok v => Drive.C18b.enc v
           | .error e => showErrX e)
      | _, _, _ => "bad-op")
  | ["src_discretize", rc, bins, ps] => some (match parseList? parseRat? bins, parseList? parseRat? ps with
      | some bins, some ps => showExcept (showList showRat) (Src.discretize ps bins (rc == "1"))
      | _, _ => "bad-op")
  | ["src_cleaner_range", s, e, h, ds, dh] => some (
      match parseRat? s, parseRat? e, parseRat? h, parseInt? ds, parseInt? dh with
      | some s, some e, some h, some ds, some dh =>
          showList showRat (Src.cleaner_range (fun x => if x = s then ds else dh) s e h)
      | _, _, _, _, _ => "bad-op")
  | ["src_datetime_to_utc_epoch", tz, xs] => some (match tz? tz, parseList? parseInt? xs with
      | some tz, some xs => showList (fun us => showExcept showInt (Src.datetime_to_utc_epoch { us := us, tz := tz })) xs
      | _, _ => "bad-op")
  | ["src_epoch_time_to_utc_datetime", xs] => some (match parseList? parseInt? xs with
      | some xs => showList (fun ms => showInt (Src.epoch_time_to_utc_datetime ms).us) xs | none => "bad-op")
  -- strings travel as comma-separated character codes (`-` = empty)
  | ["src_parse_string_format", cs] => some (match parseList? String.toNat? cs with
      | some cs => String.ofList (Src.parse_string_format (cs.map Char.ofNat)) |>.replace " " "_" | none => "bad-op")
  | ["src_strptime_to_utc_datetime", cs, fs] => some (match parseList? String.toNat? cs, parseList? String.toNat? fs with
      | some cs, some fs => showExcept (fun (d : Py.Datetime) => showInt d.us)
          (Src.strptime_to_utc_datetime (cs.map Char.ofNat) (fs.map Char.ofNat)) | _, _ => "bad-op")
  | ["src_strptime_to_utc_epoch", cs, fs] => some (match parseList? String.toNat? cs, parseList? String.toNat? fs with
      | some cs, some fs => showExcept showInt (Src.strptime_to_utc_epoch (cs.map Char.ofNat) (fs.map Char.ofNat))
      | _, _ => "bad-op")
  | ["src_csep_record", i, first, cells] => some (
      let cs : Option (List (List Char)) := if cells == "E" then some [] else
        (cells.splitOn ";").mapM (fun c => (parseList? String.toNat? c).map (fun l => l.map Char.ofNat))
      match parseInt? i, cs with
      | some i, some cs => showExcept (fun (r : Option (((List Char ⊕ Int) × Int × Rat × Rat × Rat × Rat) × Int)) =>
          match r with
          | none => "none"
          | some ((eid, ms, lat, lon, dep, mag), cid) =>
            let e := match eid with
              | .inl s => "L" ++ ",".intercalate (s.map (fun (c : Char) => toString c.toNat))
              | .inr n => s!"R{n}"
            s!"{e}:{ms}:{showRat lat}:{showRat lon}:{showRat dep}:{showRat mag}:{cid}") (Src.csep_record i cs (first == "1"))
      | _, _ => "bad-op")
  | ["src_jma_record", i, first, cells] => some (
      let cs : Option (List (List Char)) := if cells == "E" then some [] else
        (cells.splitOn ";").mapM (fun c => (parseList? String.toNat? c).map (fun l => l.map Char.ofNat))
      match parseInt? i, cs with
      | some i, some cs => showExcept (fun (r : Option (Int × Int × Rat × Rat × Rat × Rat)) =>
          match r with
          | none => "none"
          | some (eid, ms, lat, lon, dep, mag) =>
            s!"{eid}:{ms}:{showRat lat}:{showRat lon}:{showRat dep}:{showRat mag}") (Src.jma_record i cs (first == "1"))
      | _, _ => "bad-op")
  | ["src_csep_is_header", cells] => some (
      let cs : Option (List (List Char)) := if cells == "E" then some [] else
        (cells.splitOn ";").mapM (fun c => (parseList? String.toNat? c).map (fun l => l.map Char.ofNat))
      match cs with
      | some cs => showExcept (fun (b : Bool) => if b then "True" else "False") (Src.csep_is_header cs)
      | none => "bad-op")
  | ["src_parse_datetime_to_zmap", ds, ts] => some (match parseList? String.toNat? ds, parseList? String.toNat? ts with
      | some ds, some ts => showExcept (fun (r : Int × Int × Int × Int × Int × Int) =>
          s!"{r.1}:{r.2.1}:{r.2.2.1}:{r.2.2.2.1}:{r.2.2.2.2.1}:{r.2.2.2.2.2}")
          (Src.parse_datetime_to_zmap (ds.map Char.ofNat) (ts.map Char.ofNat))
      | _, _ => "bad-op")
  | ["src_reader_parse_datetime", cs] => some (match parseList? String.toNat? cs with
      | some cs => showExcept showInt (Src.reader_parse_datetime (cs.map Char.ofNat)) | none => "bad-op")
  | ["src_millis_to_days", xs] => some (match parseList? parseInt? xs with
      | some xs => showList (fun x => showRat (Src.millis_to_days x)) xs | none => "bad-op")
  | ["src_days_to_millis_f", xs] => some (match parseList? parseRat? xs with
      | some xs => showList (fun x => showRat (Src.days_to_millis_f x)) xs | none => "bad-op")
  | ["src_days_to_millis_i", xs] => some (match parseList? parseInt? xs with
      | some xs => showList (fun x => showInt (Src.days_to_millis_i x)) xs | none => "bad-op")
  | ["src_timedelta_from_years", xs] => some (match parseList? parseRat? xs with
      | some xs => showList (fun x => showExcept showInt (Src.timedelta_from_years x)) xs | none => "bad-op")
  | ["src_decimal_year_to_utc_datetime", xs] => some (match parseList? parseRat? xs with
      | some xs => showList (fun x => showInt (Src.decimal_year_to_utc_datetime x).us) xs | none => "bad-op")
  | ["src_decimal_year_to_utc_epoch", xs] => some (match parseList? parseRat? xs with
      | some xs => showList (fun x => showExcept showInt (Src.decimal_year_to_utc_epoch x)) xs | none => "bad-op")
  | ["src_decimal_year", xs] => some (match parseList? parseInt? xs with
      | some xs => showList (fun us => showRat (Src.decimal_year { us := us, tz := .utc })) xs | none => "bad-op")
  -- real layer at Float; floats travel as IEEE bit patterns; the scipy functions are the synthetic linear functions
  -- harness/src_tie.py installs in their place (they test that every argument is passed through)
  | ["src_number_test_ndarray", mu, n, eps] => some (match parseFloat? mu, n.toNat?, parseFloat? eps with
      | some mu, some n, some eps =>
          let r := Src.number_test_ndarray (fun x m => x * 0.25 + m * 0.5) mu n eps
          s!"{showFloat r.1},{showFloat r.2}"
      | _, _, _ => "bad-op")
  | ["src_nbd_number_test_ndarray", mean, n, var, eps] => some (
      match parseFloat? mean, n.toNat?, parseFloat? var, parseFloat? eps with
      | some mean, some n, some var, some eps =>
          let r := Src.nbd_number_test_ndarray (fun x t u => x * 0.25 + t * 0.5 + u * 0.125) mean n var eps
          s!"{showFloat r.1},{showFloat r.2}"
      | _, _, _, _ => "bad-op")
  | ["src_number_test", mu, n] => some (match parseFloat? mu, n.toNat? with
      | some mu, some n =>
          let r := Src.number_test (fun x m => x * 0.25 + m * 0.5) mu n
          s!"{showFloat r.1.1},{showFloat r.1.2},{r.2.1},{showFloat r.2.2}"
      | _, _ => "bad-op")
  | ["src_negative_binomial_number_test", mean, n, var] => some (match parseFloat? mean, n.toNat?, parseFloat? var with
      | some mean, some n, some var =>
          let r := Src.negative_binomial_number_test (fun x t u => x * 0.25 + t * 0.5 + u * 0.125) var mean n
          s!"{showFloat r.1.1},{showFloat r.1.2},{r.2.1},{showFloat r.2.2}"
      | _, _, _ => "bad-op")
  | ["src_t_test_ndarray", ra, rb, n, na, nb, alpha] => some (
      match parseList? parseFloat? ra, parseList? parseFloat? rb, parseFloat? n, parseFloat? na, parseFloat? nb,
        parseFloat? alpha with
      | some ra, some rb, some n, some na, some nb, some alpha =>
          let r := Src.t_test_ndarray (fun q df => q * 2.0 + df * 0.125) ra rb n na nb alpha
          showList showFloat [r.1, r.2.1, r.2.2.1, r.2.2.2.1, r.2.2.2.2]
      | _, _, _, _, _, _ => "bad-op")
  | ["src_w_test_ndarray", m, xs] => some (
      match parseRat? m, parseList? parseRat? xs with
      | some m, some xs =>
          let r := Src.w_test_ndarray (α := Float) (fun z => 1.0 / (1.0 + z)) xs m
          showList showFloat [r.1, r.2]
      | _, _ => "bad-op")
  | ["src_paired_t_test", ra, rb, n, na, nb, alpha] => some (
      match parseList? parseFloat? ra, parseList? parseFloat? rb, n.toNat?, parseFloat? na, parseFloat? nb,
        parseFloat? alpha with
      | some ra, some rb, some n, some na, some nb, some alpha =>
          let r := Src.paired_t_test (fun q df => q * 2.0 + df * 0.125) alpha (ra, na) (rb, nb) n
          showList showFloat [r.1.1, r.1.2, r.2.1, r.2.2.1, r.2.2.2]
      | _, _, _, _, _, _ => "bad-op")
  | ["src_binary_paired_t_test", d1, d2, n, na, nb, alpha, counts] => some (
      match parseList? parseFloat? d1, parseList? parseFloat? d2, n.toNat?, parseFloat? na, parseFloat? nb,
        parseFloat? alpha, parseList? String.toNat? counts with
      | some d1, some d2, some n, some na, some nb, some alpha, some counts =>
          let r := Src.binary_paired_t_test (fun q df => q * 2.0 + df * 0.125) alpha ([], na) ([], nb) d1 d2 counts n
          showList showFloat [r.1.1, r.1.2, r.2.1, r.2.2.1, r.2.2.2]
      | _, _, _, _, _, _, _ => "bad-op")
  -- float64 layer; numpy.log replaced by the exact function x ↦ x/4 + 3 on both sides (tests the plumbing)
  | ["src_w_test_inputs", ra, rb, n, n1, n2] => some (
      match parseList? parseRat? ra, parseList? parseRat? rb, n.toNat?, parseRat? n1, parseRat? n2 with
      | some ra, some rb, some n, some n1, some n2 =>
          let r := Src.w_test_inputs (fun x => Soft64.fadd (Soft64.fmul x (1 / 4)) 3) (ra, 0) (rb, 0) n n1 n2
          s!"{showList showRat r.1};{showRat r.2}"
      | _, _, _, _, _ => "bad-op")
  | ["src_matrix_binary_t_test", ra, rb, n, na, nb, alpha, counts] => some (
      match parseList? parseFloat? ra, parseList? parseFloat? rb, parseFloat? n, parseFloat? na, parseFloat? nb,
        parseFloat? alpha, parseList? String.toNat? counts with
      | some ra, some rb, some n, some na, some nb, some alpha, some counts =>
          let r := Src.matrix_binary_t_test (fun q df => q * 2.0 + df * 0.125) ra rb n na nb alpha counts
          showList showFloat [r.1, r.2.1, r.2.2.1, r.2.2.2.1, r.2.2.2.2]
      | _, _, _, _, _, _, _ => "bad-op")
  | ["src_brier_score_ndarray", fc, obs, dims] => some (
      match parseList? parseFloat? fc, parseList? String.toNat? obs, parseList? String.toNat? dims with
      | some fc, some obs, some dims => showFloat (Src.brier_score_ndarray fc obs dims)
      | _, _, _ => "bad-op")
  | ["src_poisson_joint_log_likelihood_ndarray", logs, obs, nf] => some (
      match parseList? parseFloat? logs, parseList? String.toNat? obs, parseFloat? nf with
      | some logs, some obs, some nf =>
          let e : List (ELL Float) := logs.map (fun x => if x == (-1.0 / 0.0) then ELL.negInf else ELL.fin x)
          (match Src.poisson_joint_log_likelihood_ndarray e obs nf with
           | .negInf => "ninf"
           | .fin x => showFloat x)
      | _, _, _ => "bad-op")
  | ["src_poisson_likelihood_stat", fc, obs, uoc, nl] => some (
      match parseList? parseFloat? fc, parseList? String.toNat? obs with
      | some fc, some obs =>
          (match Src.poisson_likelihood_stat fc obs (uoc == "1") (nl == "1") with
           | .negInf => "ninf"
           | .fin x => showFloat x)
      | _, _ => "bad-op")
  | ["src_binary_joint_log_likelihood_ndarray", fc, obs] => some (
      match parseList? parseFloat? fc, parseList? String.toNat? obs with
      | some fc, some obs => showFloat (Src.binary_joint_log_likelihood_ndarray fc obs)
      | _, _ => "bad-op")
  | ["src_cumulative_square_diff", a, b] => some (match parseList? parseFloat? a, parseList? parseFloat? b with
      | some a, some b => showFloat (Src.cumulative_square_diff a b) | _, _ => "bad-op")
  | ["src_binary_spatial_likelihood", ncat, nfore, sc, cnt] => some (
      match ncat.toNat?, parseFloat? nfore, parseList? parseFloat? sc, parseList? String.toNat? cnt with
      | some ncat, some nfore, some sc, some cnt => showList showFloat (Src.binary_spatial_likelihood ncat nfore sc cnt)
      | _, _, _, _ => "bad-op")
  | ["src_poisson_spatial_likelihood", ncat, nfore, sc, cnt] => some (
      match ncat.toNat?, parseFloat? nfore, parseList? parseFloat? sc, parseList? String.toNat? cnt with
      | some ncat, some nfore, some sc, some cnt => showList showFloat (Src.poisson_spatial_likelihood ncat nfore sc cnt)
      | _, _, _, _ => "bad-op")
  | ["src_compute_likelihood", g, r, ecc, nobs] => some (
      match parseList? String.toNat? g, parseList? parseFloat? r, parseFloat? ecc, nobs.toNat? with
      | some g, some r, some ecc, some nobs =>
          let o := Src.compute_likelihood g r ecc nobs
          s!"{showELL o.1},{match o.2 with | none => "nan" | some x => showELL x}"
      | _, _, _, _ => "bad-op")
  | ["src_geographical_area_from_bounds", a, b, c, d] => some (
      match parseFloat? a, parseFloat? b, parseFloat? c, parseFloat? d with
      | some a, some b, some c, some d =>
          showFloat (Src.geographical_area_from_bounds Float.cos 3.141592653589793 a b c d)
      | _, _, _, _ => "bad-op")
  -- C09 (float64 sample and queries as exact rationals; one result per query)
  | ["src_ecdf", xs] => some (match parseList? parseRat? xs with
      | some xs => let r := Src.ecdf xs; s!"{showList showRat r.1};{showList showRat r.2}"
      | none => "bad-op")
  | ["src_greater_equal_ecdf", xs, vs] => some (match parseList? parseRat? xs, parseList? parseRat? vs with
      | some xs, some vs => showList (fun v => showOpt showRat (Src.greater_equal_ecdf xs v)) vs
      | _, _ => "bad-op")
  | ["src_less_equal_ecdf", xs, vs] => some (match parseList? parseRat? xs, parseList? parseRat? vs with
      | some xs, some vs => showList (fun v => showOpt showRat (Src.less_equal_ecdf xs v)) vs
      | _, _ => "bad-op")
  | ["src_min_or_none", xs] => some (match parseList? parseRat? xs with
      | some xs => showOpt showRat (Src.min_or_none xs) | none => "bad-op")
  | ["src_max_or_none", xs] => some (match parseList? parseRat? xs with
      | some xs => showOpt showRat (Src.max_or_none xs) | none => "bad-op")
  | ["src_sup_dist", a, b] => some (match parseList? parseRat? a, parseList? parseRat? b with
      | some a, some b => showRat (Src.sup_dist a b) | _, _ => "bad-op")
  | ["src_sup_dist_na", a, b] => some (match parseList? parseRat? a, parseList? parseRat? b with
      | some a, some b => showRat (Src.sup_dist_na a b) | _, _ => "bad-op")
  | ["src_get_quantiles", xs, vs] => some (match parseList? parseRat? xs, parseList? parseRat? vs with
      | some xs, some vs => showList (fun v => let r := Src.get_quantiles xs v
                                               s!"{showOpt showRat r.1}:{showOpt showRat r.2}") vs
      | _, _ => "bad-op")
  | _ => none
end Drive.Src
