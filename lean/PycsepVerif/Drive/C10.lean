import PycsepVerif.Proto
import PycsepVerif.Model.CatalogEvals
import PycsepVerif.Model.Resample
import PycsepVerif.Model.ResampleFull
/-!
  Driver ops for C10 (all prefixed `c10_`).  A grid travels as the flat row-major list of its C·K counts,
  a forecast as `;`-separated flat grids, resampling draws as `;`-separated histograms (K counts each).
  Results: `status|observed|quantile|distribution`, floats as IEEE bit patterns, `-inf`, `none`.
-/
namespace Drive.C10
open Proto CatEvals

def unflat (C K : Nat) (flat : List Nat) : Grid := (List.range C).map fun i => (flat.drop (i * K)).take K

def parseNat? (s : String) : Option Nat := s.toNat?

def showELL : ELL Float → String
  | .negInf => "-inf"
  | .fin x => showFloat x

def showStatus : Status → String
  | .normal => "normal" | .undersampled => "undersampled" | .notValid => "not-valid"

def showQuant : Quant → String
  | .sentinel => "sentinel"
  | .pair d1 d2 => showOpt showPair d1 ++ "," ++ showOpt showPair d2

def showResult (r : Result Float) : String :=
  showStatus r.status ++ "|" ++ showOpt showELL r.observed ++ "|" ++ showQuant r.quantile ++ "|" ++
    showList showELL r.distribution

def showQVal : QVal → String
  | .prob k n => s!"{k}:{n}" | .none => "none" | .minusOne => "-1"

def parseStatus? : String → Option Status
  | "normal" => some .normal | "undersampled" => some .undersampled | "not-valid" => some .notValid | _ => none

/-- `status/k1:n1/k2:n2`, `status/none/none`, `status/sentinel` -/
def parseSQ? (s : String) : Option (Status × Quant) :=
  let pp (t : String) : Option (Option (Nat × Nat)) :=
    if t = "none" then some none else
    match t.splitOn ":" with
    | [a, b] => do let k ← a.toNat?; let n ← b.toNat?; pure (some (k, n))
    | _ => none
  match s.splitOn "/" with
  | [st, "sentinel"] => do let x ← parseStatus? st; pure (x, Quant.sentinel)
  | [st, a, b] => do let x ← parseStatus? st; let d1 ← pp a; let d2 ← pp b; pure (x, Quant.pair d1 d2)
  | _ => none

def withGrids (c k sims obs : String) (f : Nat → Nat → List Grid → Grid → String) : String :=
  match c.toNat?, k.toNat?, parseList2? parseNat? sims, parseList? parseNat? obs with
  | some C, some K, some ss, some o => f C K (ss.map (unflat C K)) (unflat C K o)
  | _, _, _, _ => "bad-op"

/-- an event of the union: `mag@bin`, bin `n` = below the first edge -/
def parseMagEv? (s : String) : Option MagEv :=
  match s.splitOn "@" with
  | [m, "n"] => do let q ← parseRat? m; pure (q, none)
  | [m, b] => do let q ← parseRat? m; let k ← b.toNat?; pure (q, some k)
  | _ => none

def handle : List String → Option String
  -- resampling step of `MLL_magnitude_test(full_calculation=True)`: `c10_resample_full MAGS LAMBDA_U IDX1;IDX2;…`
  -- (events `mag@bin` in iteration order, drawn integers) → `H1;H2;…|alignedOK|unionGridded`
  | ["c10_resample_full", mags, lam, idxs] => some (
      match parseList? parseRat? mags, parseList? parseMagEv? lam, parseList2? parseNat? idxs with
      | some ms, some l, some ix =>
        ";".intercalate ((fullDraws ms l ix).map (showList toString)) ++ "|" ++ toString (alignedOK ms l) ++ "|" ++
          showList toString (unionGridded ms.length l)
      | _, _, _ => "bad-op")
  | ["c10_n", c, k, sims, obs] => some (withGrids c k sims obs fun _ _ ss o =>
      let r := numberTest ss o
      showList toString r.distribution ++ "|" ++ toString r.observed ++ "|" ++
        showOpt showPair r.quantile.1 ++ "," ++ showOpt showPair r.quantile.2)
  | ["c10_s", c, k, sims, obs] => some (withGrids c k sims obs fun C K ss o =>
      showResult (spatialTest (α := Float) C K ss o))
  | ["c10_pl", c, k, sims, obs] => some (withGrids c k sims obs fun C K ss o =>
      match pseudolikelihoodTest (α := Float) C K ss o with
      | none => "noresult" | some r => showResult r)
  | ["c10_m", c, k, sims, obs] => some (withGrids c k sims obs fun C K ss o =>
      showResult (magnitudeTest (α := Float) C K ss o))
  | ["c10_rm", c, k, sims, obs, draws] => some (withGrids c k sims obs fun _ K ss o =>
      match parseList2? parseNat? draws with
      | some ds => showResult (resampledMagnitudeTest (α := Float) K ss o ds) | none => "bad-op")
  | ["c10_mll", c, k, sims, obs, draws] => some (withGrids c k sims obs fun _ K ss o =>
      match parseList2? parseNat? draws with
      | some ds => showResult (mllMagnitudeTest (α := Float) lgamma1Float K ss o ds) | none => "bad-op")
  -- observed catalog with `nout` further events below the first magnitude edge
  | ["c10_no", c, k, sims, obs, nout] => some (withGrids c k sims obs fun _ _ ss o =>
      match nout.toNat? with
      | some n =>
        let r := numberTestOut ss o n
        showList toString r.distribution ++ "|" ++ toString r.observed ++ "|" ++
          showOpt showPair r.quantile.1 ++ "," ++ showOpt showPair r.quantile.2
      | none => "bad-op")
  | ["c10_mo", c, k, sims, obs, nout] => some (withGrids c k sims obs fun C K ss o =>
      match nout.toNat? with
      | some n => showResult (magnitudeTestOut (α := Float) C K ss o n) | none => "bad-op")
  | ["c10_rmo", c, k, sims, obs, draws, nout] => some (withGrids c k sims obs fun _ K ss o =>
      match parseList2? parseNat? draws, nout.toNat? with
      | some ds, some n => showResult (resampledMagnitudeTestOut (α := Float) K ss o ds n) | _, _ => "bad-op")
  | ["c10_mllo", c, k, sims, obs, draws, nout] => some (withGrids c k sims obs fun _ K ss o =>
      match parseList2? parseNat? draws, nout.toNat? with
      | some ds, some n => showResult (mllMagnitudeTestOut (α := Float) lgamma1Float K ss o ds n) | _, _ => "bad-op")
  | ["c10_rates", c, k, sims] => some (withGrids c k sims "-" fun C K ss _ =>
      let m : List (List Float) := meanRates C K ss
      showList showFloat (spatialRates m) ++ "|" ++ showList showFloat (magRates K m) ++ "|" ++
        showFloat (totalRate m))
  | ["c10_calib", d1, rs] => some (
      match parseList? parseSQ? rs with
      | some l => showList showQVal (calibrationSample l (d1 = "1")) | none => "bad-op")
  | ["c10_ks", qs] => some (match parseList? parseRat? qs with
      | some l => showRat (ksUniform l) | none => "bad-op")
  -- resampling step: `c10_resample MAGS UNION US1;US2;…` (magnitude edges and uniforms as exact rationals) →
  -- `H1;H2;…|centresOK|sumsOK`
  | ["c10_resample", mags, union, uss] => some (
      match parseList? parseRat? mags, parseList? parseNat? union, parseList2? parseRat? uss with
      | some ms, some u, some us =>
        let hs := resampleDraws ms u us
        ";".intercalate (hs.map (showList toString)) ++ "|" ++ toString (centresOK ms)
      | _, _, _ => "bad-op")
  | ["c10_lgamma1", x] => some (match parseFloat? x with
      | some v => showFloat (lgamma1Float v) | none => "bad-op")
  | _ => none
end Drive.C10
