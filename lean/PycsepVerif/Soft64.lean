/-
  Soft64 — IEEE-754 binary64 arithmetic (round-to-nearest, ties-to-even) defined on core `Rat`.

  Every finite float64 is a dyadic rational, so a float is represented by the rational it denotes.
  `fl64 x` is the float64 nearest to the real `x` (ties to even), including the subnormal range.
  Overflow to infinity, NaN and signed zero are NOT modelled: the harness never sends operands whose
  results leave the finite range, and reports `unsupported` otherwise.

  Import-free on purpose (core `Rat` only) so that the kernel can evaluate every definition
  (`decide +kernel`) and the driver needs no Mathlib.
-/

namespace Soft64

/-- 2^e as a rational, for any integer exponent. -/
def pow2 (e : Int) : Rat :=
  if e ≥ 0 then ((2 ^ e.toNat : Nat) : Rat) else 1 / ((2 ^ (-e).toNat : Nat) : Rat)

/-- floor(log2 x) for a positive rational `x = p/q`. Returns 0 for non-positive input. -/
def ilog2 (x : Rat) : Int :=
  if x ≤ 0 then 0 else
    let p : Nat := x.num.toNat
    let q : Nat := x.den
    let c : Int := (Nat.log2 p : Int) - (Nat.log2 q : Int)
    if pow2 c ≤ x then c else c - 1

/-- round to nearest integer, ties to even -/
def roundHalfEven (x : Rat) : Int :=
  let f := x.floor
  let r := x - (f : Rat)
  if r < 1/2 then f
  else if r > 1/2 then f + 1
  else if f % 2 = 0 then f else f + 1

/-- unit in the last place of the binade containing |x| (subnormal range clamped) -/
def ulpExp (x : Rat) : Int :=
  let e := ilog2 (if x < 0 then -x else x)
  (if e < -1022 then -1022 else e) - 52

/-- the binary64 value nearest to `x`, ties to even. -/
def fl64 (x : Rat) : Rat :=
  if x = 0 then 0 else
    let u := pow2 (ulpExp x)
    ((roundHalfEven (x / u) : Int) : Rat) * u

def fadd (a b : Rat) : Rat := fl64 (a + b)
def fsub (a b : Rat) : Rat := fl64 (a - b)
def fmul (a b : Rat) : Rat := fl64 (a * b)
def fdiv (a b : Rat) : Rat := fl64 (a / b)
def fabs (a : Rat) : Rat := if a < 0 then -a else a
/-- numpy.floor on a float64: exact (floor of a float is a float) -/
def ffloor (a : Rat) : Rat := ((a.floor : Int) : Rat)

/-- machine epsilon of float64, 2^-52 -/
def eps64 : Rat := pow2 (-52)

/-- numpy.round / Python round on a float64 to 0 decimals: half-to-even on the exact value -/
def fround (a : Rat) : Rat := ((roundHalfEven a : Int) : Rat)

/-- is `x` exactly representable (within the finite range, overflow not checked) -/
def isF64 (x : Rat) : Bool := fl64 x == x

/-- sequential float cumulative sum (numpy.cumsum is a left fold) -/
def cumsumF (xs : List Rat) : List Rat :=
  (xs.foldl (fun (acc : Rat × List Rat) x =>
      let s := fadd acc.1 x
      (s, s :: acc.2)) (0, [])).2.reverse

/-! binary32 for float32 inputs -/
def ulpExp32 (x : Rat) : Int :=
  let e := ilog2 (if x < 0 then -x else x)
  (if e < -126 then -126 else e) - 23

def fl32 (x : Rat) : Rat :=
  if x = 0 then 0 else
    let u := pow2 (ulpExp32 x)
    ((roundHalfEven (x / u) : Int) : Rat) * u

def eps32 : Rat := pow2 (-23)

end Soft64
