import PycsepVerif.Model.TimeExt
/-
  Call sites of the time conversions inside the anchored files (property C15, round 4): code of csep/core/forecasts.py
  and csep/core/catalogs.py that reaches the conversions of time_utils.py and was observed by the oracle only.

  * forecasts.py:257-285  `GriddedForecast.scale_to_test_date`  (three `decimal_year` calls, two float subtractions,
                          one float division; the early returns)                                   → `scaleToTestDate`
  * catalogs.py:518-528, :537-544  `filter('datetime <op> <date> <time>')` — the statement is split on single blanks,
                          date and time are joined again and sent through `strptime_to_utc_epoch`;
                          the column is compared with `float(value)`                               → `datetimeStatement`
  * catalogs.py:1254-1260 `_none_or_datetime` (the three time members of `CSEPCatalog.from_dict`)   → `noneOrDatetime`
  * catalogs.py:952, __init__.py:518  start time parsed from a file name with the explicit format
                          `%Y-%m-%dT%H-%M-%S-%f` (all separators are parameters of the model)      → `strptimeFieldsG`

  Import-free apart from Model/Time*, Soft64: the native driver links it.
-/
namespace Time
open Soft64

/-! ## `GriddedForecast.scale_to_test_date` (forecasts.py:257-285) -/

/-- what the call does to the forecast -/
inductive ScaleOut where
  | unchanged            -- `return self` without touching the scale (test date at / outside the ends)
  | frac (q : Rat)       -- `self.scale(fore_frac)` with this float
  | zeroDiv              -- ZeroDivisionError: `fore_dur == 0.0` (start and end closer than the float resolution)
deriving DecidableEq, Repr

/-- ```
    if test_datetime >= self.end_time: return self
    if test_datetime <= self.start_time: return self
    fore_dur = decimal_year(self.end_time) - decimal_year(self.start_time)
    test_date_dec = decimal_year(test_datetime + datetime.timedelta(1))
    fore_frac = (test_date_dec - decimal_year(self.start_time)) / fore_dur
    res = self.scale(fore_frac)
    ```
    datetimes as microseconds (all three naive or all three aware: a mixture raises TypeError in the comparison,
    not modelled); Python float division by 0.0 raises. -/
def scaleToTestDate (startUs endUs testUs : Int) : ScaleOut :=
  if testUs ≥ endUs then .unchanged
  else if testUs ≤ startUs then .unchanged
  else
    let ds := decimalYear startUs
    let dur := fsub (decimalYear endUs) ds
    let td := decimalYear (testUs + usPerDay)
    if dur = 0 then .zeroDiv else .frac (fdiv (fsub td ds) dur)

/-! ## datetime statements of `filter` (catalogs.py:518-528) -/

/-- `s.split(' ')`: split on every single blank, empty pieces kept -/
def splitSpacesAux : List Char → List Char → List (List Char)
  | [], cur => [cur.reverse]
  | c :: cs, cur => if c = ' ' then cur.reverse :: splitSpacesAux cs [] else splitSpacesAux cs (c :: cur)

def splitSpaces (s : List Char) : List (List Char) := splitSpacesAux s []

/-- the statement keyword -/
def kwDatetime : List Char := ['d', 'a', 't', 'e', 't', 'i', 'm', 'e']

/-- a filter statement whose first word is `datetime`:
    `_, oper, date, time = statements.split(' ')` (ValueError unless exactly four pieces),
    `value = strptime_to_utc_epoch(' '.join([date, time]))`; result: the operator text and the threshold in epoch
    milliseconds the `origin_time` column is compared with (`float(value)`, exact below 2^53).
    `none` = the statement is not a datetime statement or raises. -/
def datetimeStatement (s : List Char) : Option (List Char × Int) :=
  match splitSpaces s with
  | [name, oper, date, time] =>
    if name = kwDatetime then (strptimeToUtcEpoch (date ++ ' ' :: time)).map (fun v => (oper, v)) else none
  | _ => none

/-- the comparison operators `filter` knows (catalogs.py:506-510); `none` = KeyError -/
def applyOper (oper : List Char) (x v : Int) : Option Bool :=
  if oper = ['>'] then some (decide (x > v))
  else if oper = ['<'] then some (decide (x < v))
  else if oper = ['>', '='] then some (decide (x ≥ v))
  else if oper = ['<', '='] then some (decide (x ≤ v))
  else if oper = ['=', '='] then some (decide (x = v))
  else none

/-- the events (origin times in epoch ms) a datetime statement keeps; `none` = the call raises -/
def filterDatetime (s : List Char) (times : List Int) : Option (List Int) :=
  match datetimeStatement s with
  | none => none
  | some (oper, v) =>
    match applyOper oper 0 0 with
    | none => none
    | some _ => some (times.filter (fun t => (applyOper oper t v).getD false))

/-! ## `_none_or_datetime` (catalogs.py:1254-1260) -/

/-- a time member found in a catalog dictionary -/
inductive TimeMember where
  | isNone
  | isDatetime (us : Int)
  | isString (s : List Char)
deriving DecidableEq, Repr

/-- `_none_or_datetime(value)`: a datetime is returned unchanged, None stays None, a string goes through
    `parse_string_format` and `strptime_to_utc_datetime(value, format=…)`. Outer `none` = the call raises. -/
def noneOrDatetime : TimeMember → Option (Option Int)
  | .isNone => some none
  | .isDatetime us => some (some us)
  | .isString s =>
    match parseStringFormat s with
    | none => none
    | some fmt =>
      -- strptime_to_utc_datetime sniffs again when it is handed the default format string (time_utils.py:100): the same
      -- deterministic function of the same string, hence the same format
      (strptimeWith fmt s).map some

/-! ## explicit formats with other separators (catalogs.py:952 / __init__.py:518: `%Y-%m-%dT%H-%M-%S-%f`) -/

/-- `%Y<d1>%m<d2>%d<sep>%H<t1>%M<t2>%S[<fsep>%f]` -/
structure FormatG where
  d1 : Char
  d2 : Char
  sep : Char
  t1 : Char
  t2 : Char
  fsep : Option Char
deriving DecidableEq, Repr

/-- `datetime.strptime(s, fmt)` for such a format, canonical field widths (as `strptimeFields`) -/
def strptimeFieldsG (fmt : FormatG) (s : List Char) : Option Fields := do
  let (y, s) ← take4 s
  let s ← expect fmt.d1 s
  let (mo, s) ← take2 s
  let s ← expect fmt.d2 s
  let (d, s) ← take2 s
  let s ← expect fmt.sep s
  let (h, s) ← take2 s
  let s ← expect fmt.t1 s
  let (mi, s) ← take2 s
  let s ← expect fmt.t2 s
  let (sec, s) ← take2 s
  let (us, s) ← (match fmt.fsep with
    | some c => do
      let s ← expect c s
      match s with
      | x :: _ => if (digit? x).isSome then some (takeFrac 6 100000 0 s) else none
      | [] => none
    | none => some (0, s))
  if s ≠ [] then none else
  let f : Fields := { year := y, month := mo, day := d, hour := h, minute := mi, second := sec, micro := us }
  if validFields f then some f else none

/-- `dt.strftime(fmt)` for such a format (`%f` always six digits) -/
def formatFieldsG (fmt : FormatG) (f : Fields) : List Char :=
  d4 f.year.toNat ++ (fmt.d1 :: (d2 f.month.toNat ++ (fmt.d2 :: (d2 f.day.toNat ++ (fmt.sep ::
    (d2 f.hour.toNat ++ (fmt.t1 :: (d2 f.minute.toNat ++ (fmt.t2 :: (d2 f.second.toNat ++
      (match fmt.fsep with
       | some c => c :: d6 f.micro.toNat
       | none => [])))))))))))

/-- the format of the stochastic-event-set file names -/
def fileNameFormat : FormatG := { d1 := '-', d2 := '-', sep := 'T', t1 := '-', t2 := '-', fsep := some '-' }

/-- `strptime_to_utc_datetime(s, format=<such a format>)` -/
def strptimeG (fmt : FormatG) (s : List Char) : Option Int := (strptimeFieldsG fmt s).map ofFields

end Time
