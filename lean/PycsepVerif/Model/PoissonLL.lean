import PycsepVerif.RealOps
/-
  Model of the Poisson consistency-test statistics of pyCSEP (C05), real layer (generic over `RealOps α`):

    csep/utils/stats.py:178-195             poisson_joint_log_likelihood_ndarray
    csep/core/poisson_evaluations.py:604-   _poisson_likelihood_test (the statistic part: lines 634-652 and 691-694;
                                            the per-simulation statistic lines 671-679 is the SAME function of the
                                            simulated count array)
    csep/core/poisson_evaluations.py:171,293,342,391   conditional_likelihood_test / magnitude_test / spatial_test /
                                            likelihood_test (which array and which flags go into the statistic)
    csep/core/forecasts.py:196-214          MarkedGriddedDataSet.spatial_counts / magnitude_counts (the marginals)

  A flattened pair (forecast array, observed-count array) of the same shape is a list of bins `(rate, count)`.
  Values are `ELL α`: `numpy.log(0.0) = -inf`, `-inf * w = -inf` (w > 0), and `-inf - x = -inf`.
-/
namespace PoissonLL
variable {α : Type} [RealOps α]
open RealOps

/-- `x * w` for a target bin (w > 0): `-inf * w = -inf` -/
def mulNat : ELL α → Nat → ELL α
  | .negInf, _ => .negInf
  | .fin a, w => .fin (mul a (ofNat w))

/-- `x - a` with a finite `a` -/
def subFin : ELL α → α → ELL α
  | .negInf, _ => .negInf
  | .fin x, a => .fin (sub x a)

/-- target bins: `numpy.nonzero(observed_data.ravel())` (poisson_evaluations.py:651) -/
def targets (bins : List (α × Nat)) : List (α × Nat) := bins.filter (fun p => decide (0 < p.2))

/-- `target_event_forecast = log_bin_expectations[target_idx] * observed_data_nonzero` (lines 654-656) followed by
    `poisson_joint_log_likelihood_ndarray` (stats.py:191-194):
    `sum(log-rate * w) - sum(loggamma(w + 1)) - n_fore`, both sums over the target bins only. -/
def jointLL (bins : List (α × Nat)) (expected : α) : ELL α :=
  let t := targets bins
  let sumLog := ELL.sum (t.map (fun p => mulNat (ELL.log p.1) p.2))
  let penalty := RealOps.sum (t.map (fun p => logFact p.2))
  subFin (subFin sumLog penalty) expected

/-- `n_obs = numpy.sum(observed_data)` (line 634) -/
def nObs (bins : List (α × Nat)) : Nat := (bins.map (·.2)).sum
/-- `n_fore = numpy.sum(forecast_data)` (line 635) -/
def nFore (bins : List (α × Nat)) : α := RealOps.sum (bins.map (·.1))

/-- the statistic of `_poisson_likelihood_test` as a function of (forecast array, count array).
    `normalise = use_observed_counts and normalize_likelihood` (line 640): the rates are multiplied by
    `scale = n_obs / n_fore` and the expected count is `int(n_obs)`; otherwise the rates are used as they are and the
    expected count is `numpy.sum(forecast_data)`. -/
def stat (normalise : Bool) (bins : List (α × Nat)) : ELL α :=
  if normalise then
    let scale : α := div (ofNat (nObs bins)) (nFore bins)
    jointLL (bins.map (fun p => (mul p.1 scale, p.2))) (ofNat (nObs bins))
  else
    jointLL bins (nFore bins)

/-! ### marginals (forecasts.py:196-214): a 2-D array is a list of rows (space) of magnitude columns -/

/-- element-wise sum of two rows (the shorter one is padded, so no shape hypothesis is needed for totals) -/
def addRows : List α → List α → List α
  | [], ys => ys
  | xs, [] => xs
  | x :: xs, y :: ys => add x y :: addRows xs ys

/-- `numpy.sum(data, axis=1)` -/
def spatialMarginal (data : List (List α)) : List α := data.map RealOps.sum
/-- `numpy.sum(data, axis=0)` -/
def magMarginal (data : List (List α)) : List α := data.foldl addRows []

def addRowsN : List Nat → List Nat → List Nat
  | [], ys => ys
  | xs, [] => xs
  | x :: xs, y :: ys => (x + y) :: addRowsN xs ys
/-- observed spatial counts / magnitude counts of a gridded catalog given its space-magnitude counts -/
def spatialMarginalN (cnt : List (List Nat)) : List Nat := cnt.map List.sum
def magMarginalN (cnt : List (List Nat)) : List Nat := cnt.foldl addRowsN []

inductive Mode where
  | L | CL | S | M
  deriving Repr, DecidableEq

/-- which arrays and flags each public test passes to `_poisson_likelihood_test`:
    L  (line 423): data, spatial_magnitude_counts, normalize_likelihood=False
    CL (line 204): data, spatial_magnitude_counts, normalize_likelihood=False (use_observed_counts only changes the
                   number of simulated events, not the statistic)
    S  (line 365): spatial_counts of both, normalize_likelihood=True
    M  (line 316): magnitude_counts of both, normalize_likelihood=True -/
def testStat (m : Mode) (data : List (List α)) (cnt : List (List Nat)) : ELL α :=
  match m with
  | .L => stat false (data.flatten.zip cnt.flatten)
  | .CL => stat false (data.flatten.zip cnt.flatten)
  | .S => stat true ((spatialMarginal data).zip (spatialMarginalN cnt))
  | .M => stat true ((magMarginal data).zip (magMarginalN cnt))

/-- a simulated entry of `test_distribution` (lines 671-679): the same statistic, of the (already marginalised,
    flattened) forecast array and the simulated count array `sim_fore` -/
def simStat (m : Mode) (data : List (List α)) (sim : List Nat) : ELL α :=
  match m with
  | .L => stat false (data.flatten.zip sim)
  | .CL => stat false (data.flatten.zip sim)
  | .S => stat true ((spatialMarginal data).zip sim)
  | .M => stat true ((magMarginal data).zip sim)

/-! ### per-cell map `poisson_spatial_likelihood` (poisson_evaluations.py:226-254) -/

/-- one cell: `first_term + second_term + third_term` with `first = -λ*scale`, `second = w * log(λ*scale)`,
    `third = -loggamma(w+1)`. Plain `α` arithmetic as in numpy (at Float: `0 * log 0 = nan`, see notes/C05.md). -/
def poissonCell (s r : α) (w : Nat) : α :=
  add (add (mul (neg r) s) (mul (ofNat w) (log (mul r s)))) (neg (logFact w))

/-- `scale = catalog.event_count / forecast.event_count`; cells are the spatial marginals -/
def poissonSpatialMap (data : List (List α)) (cnt : List (List Nat)) : List α :=
  let s : α := div (ofNat cnt.flatten.sum) (RealOps.sum data.flatten)
  ((spatialMarginal data).zip (spatialMarginalN cnt)).map (fun p => poissonCell s p.1 p.2)

end PoissonLL
