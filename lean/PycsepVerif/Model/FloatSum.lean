import PycsepVerif.Soft64
/-!
  Float summation in an arbitrary order (property C20: "unchanged (to rounding)").

  Every sum the evaluations compute — `numpy.sum` (pairwise blocks), `numpy.cumsum`, Python's `sum()`
  (binomial_evaluations.py:103), `numpy.add.reduce` along an axis — adds the same float64 terms in SOME bracketing.
  `STree` is a bracketing, `evalF` its float value (one `Soft64.fadd` per inner node), `leaves` the terms in storage order.
  Re-ordering events / catalogs / cells permutes the leaves and may change the bracketing.
-/
namespace FloatSum
open Soft64

inductive STree where
  | leaf (x : Rat)
  | node (l r : STree)
  deriving Repr

namespace STree

def leaves : STree → List Rat
  | leaf x => [x]
  | node l r => l.leaves ++ r.leaves

/-- the float value: `fadd` at every inner node -/
def evalF : STree → Rat
  | leaf x => x
  | node l r => fadd l.evalF r.evalF

/-- number of float additions on the longest path from a term to the result -/
def depth : STree → Nat
  | leaf _ => 0
  | node l r => max l.depth r.depth + 1

end STree

/-- Σ|x| -/
def absSum (xs : List Rat) : Rat := (xs.map fabs).sum

/-- sequential summation `((0 + x₀) + x₁) + …` (Python `sum`, `numpy.cumsum`'s last element, numpy.sum of < 8 terms) -/
def seqSum (xs : List Rat) : Rat := xs.foldl fadd 0

/-- the left comb `((0 + x₀) + x₁) + …` as a bracketing -/
def comb : STree → List Rat → STree
  | t, [] => t
  | t, x :: xs => comb (STree.node t (STree.leaf x)) xs

/-- `k` consecutive blocks of 8 terms -/
def chunks8 : Nat → List Rat → List (List Rat)
  | 0, _ => []
  | k + 1, xs => xs.take 8 :: chunks8 k (xs.drop 8)

/-- `r[0..7] += a[i..i+7]` for every further block: eight interleaved accumulators -/
def accumulate (blocks : List (List Rat)) : List Rat :=
  (blocks.drop 1).foldl (fun acc blk => List.zipWith fadd acc blk) (blocks.headD [])

/-- `((r0+r1)+(r2+r3)) + ((r4+r5)+(r6+r7))` -/
def combine8 (r : List Rat) : Rat :=
  let g := fun j => r.getD j 0
  fadd (fadd (fadd (g 0) (g 1)) (fadd (g 2) (g 3))) (fadd (fadd (g 4) (g 5)) (fadd (g 6) (g 7)))

/-- `numpy.sum` of a contiguous float64 array (numpy/_core/src/umath/loops_utils.h.src `pairwise_sum`): fewer than 8 terms
    sequentially from 0; up to 128 terms eight interleaved accumulators, combined as ((r0+r1)+(r2+r3))+((r4+r5)+(r6+r7)), the
    remaining `n % 8` terms added one by one; above 128 terms split at `n/2` rounded down to a multiple of 8.
    `fuel` bounds the recursion depth (halving: 64 levels are enough for any array). -/
def pairwiseSum : Nat → List Rat → Rat
  | 0, xs => xs.foldl fadd 0
  | fuel + 1, xs =>
    let n := xs.length
    if n < 8 then xs.foldl fadd 0
    else if n ≤ 128 then
      let nb := n - n % 8
      (xs.drop nb).foldl fadd (combine8 (accumulate (chunks8 (nb / 8) xs)))
    else
      let n2 := n / 2 - (n / 2) % 8
      fadd (pairwiseSum fuel (xs.take n2)) (pairwiseSum fuel (xs.drop n2))

end FloatSum
