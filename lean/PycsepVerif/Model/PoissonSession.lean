import PycsepVerif.Model.PoissonTest
/-!
  Histories of public calls on forecast / catalog objects that share a region object (property C05, round 5).

  * csep/core/forecasts.py:60-155  `GriddedDataSet`: `_data`, `_scale`, `data = _data * _scale`, `scale(val)` (absolute)
  * csep/core/forecasts.py:166-171 + regions.py:307-315  the constructor of a gridded forecast calls
        `create_space_magnitude_region(region, magnitudes)`, which RE-BINDS `region.magnitudes` of the region object it is
        given — every forecast and catalog sharing that object sees the new edges
  * csep/core/poisson_evaluations.py:193-198, 417-422 (after fix D40): the L / CL tests bind the forecast's region to an
        observed catalog whose region is None or has no magnitudes; the S / M tests leave the catalog as it is
  * every evaluation (the four Poisson tests, paired T-test with scale=True/False, W-test, N-test, target_event_rates,
        reads of marginals and count arrays) is a READ of forecast and catalog

  State = what the objects ARE: stored arrays and scale factors, the magnitude edges bound to the shared region, each
  catalog's events (cell of the location, magnitude) and what kind of region it is bound to.
-/
namespace PoissonSession
variable {α : Type} [RealOps α]
open RealOps PoissonLL PoissonTest

/-- the value handed to `GriddedDataSet.scale(val)` ("int, float, or ndarray", forecasts.py:143-155): a scalar (python number,
    numpy scalar, 0-d or (1,1) array) or an ndarray that numpy broadcasts against the (cells × magnitude bins) array:
    per-cell factors of shape (n, 1), per-magnitude factors of shape (m,) or (1, m), per-bin factors of shape (n, m) -/
inductive Factor (α : Type) where
  | scalar (c : α)
  | perCell (w : List α)
  | perMag (w : List α)
  | perBin (w : List (List α))

structure Fore (α : Type) where
  stored : List (List α)
  scale : Factor α

/-- `self._data * val` with numpy broadcasting (shapes are supplied matching; `zip` stops where numpy would raise) -/
def Factor.apply (stored : List (List α)) : Factor α → List (List α)
  | .scalar c => stored.map (fun row => row.map (fun x => mul x c))
  | .perCell w => (stored.zip w).map (fun p => p.1.map (fun x => mul x p.2))
  | .perMag w => stored.map (fun row => (row.zip w).map (fun p => mul p.1 p.2))
  | .perBin w => (stored.zip w).map (fun p => (p.1.zip p.2).map (fun q => mul q.1 q.2))

/-- `data = self._data * self._scale` (forecasts.py:75): every consumer — `data`, `spatial_counts()`, `magnitude_counts()`,
    `event_count`, `target_event_rates` — reduces THIS array, never the stored one -/
def Fore.data (f : Fore α) : List (List α) := f.scale.apply f.stored

inductive CatRegion where
  /-- no region | magnitude-less, the forecast's cells in its order | magnitude-less, other cells / order (round 5) | the
      forecast's space-magnitude region (or one that bins identically) -/
  | none | spatialOnly | spatialOther | full
  deriving Repr, DecidableEq

structure Cat where
  events : List (Nat × Rat)
  region : CatRegion

structure State (α : Type) where
  fores : List (Fore α)
  edges : List Rat
  cats : List Cat

inductive Op (α : Type) where
  | newForecast (stored : List (List α)) (edges : List Rat)
  | scale (k : Nat) (c : α)
  | scaleBy (k : Nat) (w : Factor α)
  | setEdges (edges : List Rat)
  | editMag (c e : Nat) (m : Rat)
  | test (m : Mode) (k c : Nat)
  | otherEval

/-- the region binding of the L / CL tests (D40); S and M do not touch the catalog -/
def bindRegion (m : Mode) (r : CatRegion) : CatRegion :=
  match m, r with
  | .L, .none => .full
  | .L, .spatialOnly => .full
  | .L, .spatialOther => .full
  | .CL, .spatialOther => .full
  | .CL, .none => .full
  | .CL, .spatialOnly => .full
  | _, r => r

def step (s : State α) : Op α → State α
  | .newForecast stored edges => { s with fores := s.fores ++ [⟨stored, .scalar one⟩], edges := edges }
  | .scale k c => { s with fores := s.fores.modify k (fun f => { f with scale := .scalar c }) }
  | .scaleBy k w => { s with fores := s.fores.modify k (fun f => { f with scale := w }) }
  | .setEdges edges => { s with edges := edges }
  | .editMag c e m => { s with cats := s.cats.modify c (fun cat =>
      { cat with events := cat.events.modify e (fun ev => (ev.1, m)) }) }
  | .test m _ c => { s with cats := s.cats.modify c (fun cat => { cat with region := bindRegion m cat.region }) }
  | .otherEval => s

/-- the observed count matrix of catalog c under the edges bound now (C03's gridding) -/
def counts (s : State α) (ncell : Nat) (c : Nat) : Option (List (List Nat)) :=
  match s.cats[c]? with
  | none => none
  | some cat =>
    match Gridding.smcCart ncell s.edges.length
        (cat.events.map (fun ev => ⟨some ev.1, Gridding.magBin s.edges ev.2⟩)) with
    | .ok M => some M
    | .error _ => none

/-- what a Poisson test of forecast k against catalog c reports in state s -/
def observe (s : State α) (ncell : Nat) (m : Mode) (k c : Nat) : Option (ELL α) :=
  match s.fores[k]?, counts s ncell c with
  | some f, some M => some (testStat m f.data M)
  | _, _ => none

/-- run a history; collect what every `test` step reports -/
def runOps (ncell : Nat) : State α → List (Op α) → List (Option (ELL α))
  | _, [] => []
  | s, op :: ops =>
    match op with
    | .test m k c => observe s ncell m k c :: runOps ncell (step s op) ops
    | _ => runOps ncell (step s op) ops

end PoissonSession
