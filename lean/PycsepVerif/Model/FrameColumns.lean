import PycsepVerif.Model.Persist
/-
  FrameColumns — the DataFrame of a catalog as a table with NAMED columns (property C14, `to_dataframe` catalogs.py:364-395,
  `from_dataframe` :186-216).

  `Model/Persist.lean` models a frame row as the event plus `counts` and `catalog_id`.  Here a row is what pandas holds: a
  cell per column NAME, and `from_dataframe` is what the code does — it SELECTS BY NAME:
      df['catalog_id'].iloc[0]                  (KeyError / IndexError → catalog id None)
      df[col_list]  with col_list = dtype.names (KeyError if one of the six is missing: not caught)
  so the position of a column, and any further column (`counts`, `datetime`, `region_id`, `mag_id`, whatever the user adds),
  cannot matter.  pandas' storage of the cells themselves (dtype of a column, NaN for missing) stays trusted.
-/
namespace FrameColumns
open Persist

inductive Cell where
  | str (s : List Char)
  | int (i : Int)
  | flt (x : Rat)
  | none
deriving DecidableEq, Repr

/-- one row: cells by column name, in the frame's column order -/
abbrev FRow := List (String × Cell)

def catIdCell : Option Int → Cell
  | some i => .int i
  | Option.none => .none

/-- the columns `to_dataframe` writes for one event; `extra` = the cells of the further columns of this row
    (`datetime`, `region_id`, `mag_id`, …) -/
def rowOfEvent (cid : Option Int) (e : Event) (extra : FRow) : FRow :=
  [("id", .str e.id), ("origin_time", .int e.ms), ("latitude", .flt e.lat), ("longitude", .flt e.lon),
   ("depth", .flt e.depth), ("magnitude", .flt e.mag), ("counts", .int 1), ("catalog_id", catIdCell cid)] ++ extra

/-- `to_dataframe(...)`: `extras k` = the further cells of row `k` -/
def toFrame {R} (cat : Catalog R) (extras : Nat → FRow) : List FRow :=
  (List.range cat.events.length).zipWith (fun k e => rowOfEvent cat.catalogId e (extras k)) cat.events

inductive FrameErr where
  | keyError      -- one of the six dtype columns is missing (`df[col_list]`)
  | typeError     -- a cell of another kind than the column's dtype (outside this model's frames)
deriving DecidableEq, Repr

def cellOf (r : FRow) (name : String) : Except FrameErr Cell :=
  match r.lookup name with
  | some c => .ok c
  | Option.none => .error .keyError

def strCell (r : FRow) (name : String) : Except FrameErr (List Char) :=
  match cellOf r name with
  | .ok (.str s) => .ok s
  | .ok _ => .error .typeError
  | .error e => .error e

def intCell (r : FRow) (name : String) : Except FrameErr Int :=
  match cellOf r name with
  | .ok (.int i) => .ok i
  | .ok _ => .error .typeError
  | .error e => .error e

def fltCell (r : FRow) (name : String) : Except FrameErr Rat :=
  match cellOf r name with
  | .ok (.flt x) => .ok x
  | .ok _ => .error .typeError
  | .error e => .error e

/-- one record of `df[col_list].to_records(index=False)` -/
def eventOfRow (r : FRow) : Except FrameErr Event := do
  let i ← strCell r "id"
  let ms ← intCell r "origin_time"
  let lat ← fltCell r "latitude"
  let lon ← fltCell r "longitude"
  let dep ← fltCell r "depth"
  let mag ← fltCell r "magnitude"
  pure { id := storeId i, ms := ms, lat := lat, lon := lon, depth := dep, mag := mag }

/-- `df['catalog_id'].iloc[0]`, `None` when the column or the first row is missing -/
def catIdOf : List FRow → Option Int
  | [] => Option.none
  | r :: _ => match r.lookup "catalog_id" with
    | some (.int i) => some i
    | _ => Option.none

/-- `from_dataframe(df)`: events and catalog id -/
def fromFrame (rows : List FRow) : Except FrameErr (List Event × Option Int) :=
  match rows.mapM eventOfRow with
  | .ok evs => .ok (evs, catIdOf rows)
  | .error e => .error e

end FrameColumns
