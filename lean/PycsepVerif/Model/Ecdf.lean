/-
  Model of csep/utils/stats.py: ecdf, greater_equal_ecdf, less_equal_ecdf, get_quantiles, binned_ecdf.
  Exact layer: samples and query values are rationals (every float64 / int64 is one).
  A probability is returned as the pair (k, n) standing for the float k / float(n)
  (the harness checks that the implementation's float equals Python's k/n exactly).
-/
namespace Ecdf

/-- numpy.sort -/
def sort (xs : List Rat) : List Rat := xs.mergeSort (fun a b => decide (a ≤ b))

/-- numpy.searchsorted(ex, v, side='left') on a sorted array: first index i with ex[i] ≥ v -/
def searchLeft (ex : List Rat) (v : Rat) : Nat := (ex.takeWhile (fun a => decide (a < v))).length

/-- numpy.searchsorted(ex, v, side='right') on a sorted array: first index i with ex[i] > v -/
def searchRight (ex : List Rat) (v : Rat) : Nat := (ex.takeWhile (fun a => decide (a ≤ v))).length

/-- ey[i] = (i+1)/n as the pair (i+1, n);  eyc = ey reversed: eyc[i] = (n-i, n) -/
def ey (n i : Nat) : Nat × Nat := (i + 1, n)
def eyc (n i : Nat) : Nat × Nat := (n - i, n)

/-- greater_equal_ecdf(x, val): `none` for an empty sample -/
def geEcdf (x : List Rat) (v : Rat) : Option (Nat × Nat) :=
  let ex := sort x
  let n := ex.length
  match ex.head?, ex.getLast? with
  | some e0, some last =>
    if v > last then some (0, n)          -- `if val > ex[-1]: return 0.0`
    else if v < e0 then some (n, n)       -- `if val < ex[0]: return 1.0`
    else some (eyc n (searchLeft ex v))   -- `eyc[numpy.searchsorted(ex, val)]`
  | _, _ => none

/-- less_equal_ecdf(x, val) -/
def leEcdf (x : List Rat) (v : Rat) : Option (Nat × Nat) :=
  let ex := sort x
  let n := ex.length
  match ex.head?, ex.getLast? with
  | some e0, some last =>
    if v > last then some (n, n)
    else if v < e0 then some (0, n)
    else some (ey n (searchRight ex v - 1))  -- `ey[searchsorted(ex, val, side='right') - 1]`
  | _, _ => none

/-- get_quantiles(sim, obs) = (delta_1, delta_2) -/
def getQuantiles (x : List Rat) (v : Rat) : Option (Nat × Nat) × Option (Nat × Nat) :=
  (geEcdf x v, leEcdf x v)

/-- binned_ecdf(x, vals): none for empty x, otherwise less_equal_ecdf at every val -/
def binnedEcdf (x : List Rat) (vals : List Rat) : Option (List (Nat × Nat)) :=
  if x.isEmpty then none else some (vals.filterMap (fun v => leEcdf x v))

end Ecdf
