import PycsepVerif.Model.Sampler
/-!
  The array-level binary / Brier tests as whole functions of (forecast array, observed array, random numbers)
  (property C06, round 4): the prescribed number of simulated cells is computed by the model from the observed array.

  * binomial_evaluations.py:157 / brier_evaluations.py:104
        `n_active_cells = len(numpy.unique(numpy.nonzero(observed_data.ravel())))`          → `nActive`
  * binomial_evaluations.py:161-170 / brier_evaluations.py:108-115 (the simulation loop)       → `binaryTestInjected`,
        `binaryTestStream`
  * poisson_evaluations.py:634,660-661 `n_obs = numpy.sum(observed_data)`, `int(n_obs)`         → `poissonTestInjected`
-/
namespace Sampler

/-- number of non-zero entries of the flattened observed array: the number of active cells -/
def nActive (obs : List Nat) : Nat := obs.countP (fun c => decide (c ≠ 0))

/-- binary / Brier test with injected numbers (one row per simulation): masked weights, `nActive obs` cells prescribed;
    `none` = IndexError or the count assertion failed -/
def binaryTestInjected (rates : List Rat) (obs : List Nat) (rows : List (List Rat)) : Option (List (List Nat)) :=
  simRows (weightsMasked rates) (nActive obs) rows

/-- binary / Brier test without injected numbers: `nsim` rejection loops consuming one stream of uniforms -/
def binaryTestStream (rates : List Rat) (obs : List Nat) (nsim : Nat) (stream : List Rat) : Option (List (List Nat)) :=
  testBinaryStream (weightsMasked rates) (nActive obs) nsim stream

/-- conditional Poisson test (CL, S, M) with injected numbers: unmasked weights, `sum obs` events prescribed -/
def poissonTestInjected (rates : List Rat) (obs : List Nat) (rows : List (List Rat)) : Option (List (List Nat)) :=
  simRows (weights rates) obs.sum rows

end Sampler
