/-
  Model of `CSEPCatalog.load_ascii_catalogs` (csep/core/catalogs.py:921-1050), the decoder of catalog-forecast
  CSV files, reached from `csep.load_catalog_forecast` (csep/__init__.py:479, through
  `CatalogForecast(loader=…)._load_catalogs`, csep/core/forecasts.py:632) and from
  `csep.load_stochastic_event_sets` (csep/__init__.py:65).

  Exact layer.  The model starts from the rows that `csv.reader` hands to the loop (tokenisation trusted) with the
  fields already converted by `read_catalog_line` (catalogs.py:966-984): `read_float` gives a float or `None`,
  the time string gives epoch milliseconds or stays `''`, `int(line[5])` is the catalog id, `line[6]` the event id.
  A blank / unparsable field is `none`.  Every float64 is a rational, times are integer milliseconds.

  The Python generator is transcribed branch by branch as `step : St → Line → Except Err (St × List Catalog)`
  (state = `prev_id`, `events`; the list = what the iteration `yield`s) followed by the final flush.
-/
namespace AsciiCatalogs

/-- `temp_event = (event_id, origin_time, lat, lon, depth, magnitude)` (catalogs.py:982). -/
structure Ev where
  eventId : String
  time : Option Int
  lat : Option Rat
  lon : Option Rat
  depth : Option Rat
  mag : Option Rat
deriving DecidableEq, Repr

/-- one parsed csv row: the event tuple and `catalog_id = int(line[5])` -/
structure Row where
  ev : Ev
  catId : Int
deriving DecidableEq, Repr

/-- a line of the file: a header line (`line[0].lower() == 'lon'`, catalogs.py:960) or a data row -/
inductive Line where
  | header
  | row (r : Row)
deriving DecidableEq, Repr

/-- what `cls(data=events, catalog_id=id)` is built from; the id is `None` only for a file without data rows -/
structure Catalog where
  id : Option Int
  events : List Ev
deriving DecidableEq, Repr

/-- both are `ValueError` in Python: the explicit ordering error (catalogs.py:1041) and `int('catalog_id')` on a
    header line met after the first data row -/
inductive Err where
  | decreasing
  | malformed
deriving DecidableEq, Repr

/-- loop state: `prev_id`, `events` (catalogs.py:996-998) -/
structure St where
  prev : Option Int
  events : List Ev
deriving DecidableEq, Repr

/-- first emptiness test (catalogs.py:1008): `all(val in (None, '') for val in temp_event[1:])`;
    the event id is NOT looked at -/
def isEmpty (e : Ev) : Bool :=
  e.time.isNone && e.lat.isNone && e.lon.isNone && e.depth.isNone && e.mag.isNone

/-- second emptiness test (catalogs.py:1024): `all(val in (None, '') for val in temp_event)`, event id included -/
def allBlank (e : Ev) : Bool := (e.eventId == "") && isEmpty e

/-- `events = [temp_event]` if not empty else `[]` (catalogs.py:1014-1017, 1031-1034, 1045-1048) -/
def firstOf (e : Ev) : List Ev := if isEmpty e then [] else [e]

def emptyCat (k : Int) : Catalog := ⟨some k, []⟩

/-- the part of the loop body after the `prev_id is None` block, with `prev_id = p` (catalogs.py:1022-1050) -/
def body (p : Int) (events : List Ev) (r : Row) : Except Err (St × List Catalog) :=
  if r.catId = p then
    -- same catalog: accumulate (second emptiness test)
    .ok (⟨some r.catId, if allBlank r.ev then events else events ++ [r.ev]⟩, [])
  else if r.catId = p + 1 then
    -- next catalog: yield the finished one
    .ok (⟨some r.catId, firstOf r.ev⟩, [⟨some p, events⟩])
  else if r.catId > p + 1 then
    -- gap: yield the finished one, then `num_empty_catalogs` empty ones with ids catalog_id - num + id
    let num := r.catId - p - 1
    .ok (⟨some r.catId, firstOf r.ev⟩,
         ⟨some p, events⟩ :: (List.range num.toNat).map (fun (k : Nat) => emptyCat (r.catId - num + (k : Int))))
  else
    .error .decreasing

/-- one iteration of `for line in catalog_reader` (catalogs.py:999-1050) -/
def step (s : St) : Line → Except Err (St × List Catalog)
  | .header =>
    match s.prev with
    | none => .ok (s, [])             -- `if prev_id is None: if is_header_line(line): continue`
    | some _ => .error .malformed     -- read as a data row: `int(line[5])` raises ValueError
  | .row r =>
    match s.prev with
    | none =>
      -- `prev_id = 0`; leading gap if the first id is not 0 (catalogs.py:1010-1021)
      if r.catId ≠ 0 then
        .ok (⟨some r.catId, firstOf r.ev⟩, (List.range r.catId.toNat).map (fun (k : Nat) => emptyCat (k : Int)))
      else body 0 s.events r
    | some p => body p s.events r

def prepend (pre : List Catalog) : Except Err (List Catalog) → Except Err (List Catalog)
  | .ok r => .ok (pre ++ r)
  | .error e => .error e

/-- the whole generator run to exhaustion (`list(load_ascii_catalogs(f))`): the catalogs yielded line by line,
    then the final flush `cls(data=events, catalog_id=prev_id)` (catalogs.py:1052-1053).  An exception anywhere
    makes the whole result an error (a consumer that iterates lazily sees the catalogs yielded before it). -/
def loop (s : St) : List Line → Except Err (List Catalog)
  | [] => .ok [⟨s.prev, s.events⟩]
  | l :: ls =>
    match step s l with
    | .error e => .error e
    | .ok (s', out) => prepend out (loop s' ls)

instance decEqResult : DecidableEq (Except Err (List Catalog)) := fun a b =>
  match a, b with
  | .ok x, .ok y => if h : x = y then isTrue (by rw [h]) else isFalse (by intro h'; injection h'; contradiction)
  | .error x, .error y => if h : x = y then isTrue (by rw [h]) else isFalse (by intro h'; injection h'; contradiction)
  | .ok _, .error _ => isFalse (by intro h; injection h)
  | .error _, .ok _ => isFalse (by intro h; injection h)

def decode (lines : List Line) : Except Err (List Catalog) := loop ⟨none, []⟩ lines

/-! ## Specification of a well-formed file -/

/-- an event of a forecast catalog: every data field is present; the event id may be any string (also empty) -/
structure Event where
  lon : Rat
  lat : Rat
  mag : Rat
  time : Int
  depth : Rat
  eventId : String
deriving DecidableEq, Repr

def Event.toEv (e : Event) : Ev := ⟨e.eventId, some e.time, some e.lat, some e.lon, some e.depth, some e.mag⟩

/-- `lon,lat,mag,time,depth,<i>,event_id` -/
def rowOf (i : Nat) (e : Event) : Line := .row ⟨e.toEv, (i : Int)⟩

/-- the placeholder row of an empty catalog, `,,,,,<i>,` (tests/artifacts/test_ascii_catalogs/*.csv) -/
def placeholder (i : Nat) : Line := .row ⟨⟨"", none, none, none, none, none⟩, (i : Int)⟩

/-- the lines of catalog `i` when it is present in the file -/
def encodeCat (i : Nat) : List Event → List Line
  | [] => [placeholder i]
  | c => c.map (rowOf i)

/-- catalogs `i, i+1, …` grouped by increasing id.  One Boolean is consumed per non-final catalog: for an empty
    catalog `true` = placeholder row, `false` = omitted (ignored for a non-empty catalog; missing choices count
    as `true`).  The final catalog is always present. -/
def encodeFrom : Nat → List (List Event) → List Bool → List Line
  | _, [], _ => []
  | i, [c], _ => encodeCat i c
  | i, c :: c' :: cs, ch =>
    (if c.isEmpty && !(ch.headD true) then [] else encodeCat i c) ++ encodeFrom (i + 1) (c' :: cs) ch.tail

def encode (cats : List (List Event)) (choices : List Bool) (header : Bool) : List Line :=
  (if header then [Line.header] else []) ++ encodeFrom 0 cats choices

def numberFrom : Nat → List (List Event) → List Catalog
  | _, [] => []
  | i, c :: cs => ⟨some (i : Int), c.map Event.toEv⟩ :: numberFrom (i + 1) cs

/-- the expected result: ids 0..n-1, each with exactly its own events in file order -/
def number (cats : List (List Event)) : List Catalog := numberFrom 0 cats

end AsciiCatalogs
