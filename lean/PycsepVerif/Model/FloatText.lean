import PycsepVerif.Model.DecimalText
/-
  FloatText — the CHARACTERS of `str(numpy.float64(x))`, i.e. what `csv.DictWriter` writes into the lon / lat / mag /
  depth cells of `write_ascii` (catalogs.py:350-358: the cells are numpy.float64 scalars; `_csv.c` calls `str()` on a
  field that is not exactly a Python `float`).

  numpy (scalartypes.c.src `format_double` → Dragon4, unique mode, = Python's `repr` algorithm): the SHORTEST decimal
  digit string that reads back as `x`, the one nearest to `x` among the shortest; laid out
    * positionally when 1e-4 ≤ |x| < 1e16 (at least one digit on each side of the point: `5.0`, `0.0001`, `123.456`),
    * in scientific notation otherwise (`1e+16`, `1.5e-05`, `5e-324`; exponent sign always, at least two digits).

  `shortest x` = the digits as (mantissa, exponent) with value `mantissa · 10^exponent` — the same search as
  `DecimalText.reprSearch`, which keeps only the value; `floatStr x` = the characters.  `Proofs/FloatText.lean`:
  `DecimalText.parseBody (floatStr x) = some (reprValue x)` and hence `float(str(x)) = x`.
  The sign of a zero is not represented (−0.0 ↦ `0.0`); inf / nan are not numbers of the model.
-/
namespace FloatText
open DecimalText Soft64

/-- value of a (mantissa, exponent) pair -/
def pairVal (p : Int × Int) : Rat := (p.1 : Rat) * pow10 p.2

/-- `DecimalText.candidates` with the digits kept: the two neighbours of `x` on the grid of `n`-significant-digit
    decimals, nearest first (ties: even mantissa first) -/
def candPairs (x : Rat) (n : Nat) : List (Int × Int) :=
  let e := ilog10 x - (n : Int) + 1
  let t := x / pow10 e
  let lo : Int := t.floor
  let r := t - (lo : Rat)
  if r < 1/2 then [(lo, e), (lo + 1, e)] else if r > 1/2 then [(lo + 1, e), (lo, e)]
  else if lo % 2 = 0 then [(lo, e), (lo + 1, e)] else [(lo + 1, e), (lo, e)]

/-- `DecimalText.reprSearch` with the digits kept -/
def searchPairs (x : Rat) : Nat → Nat → Int × Int
  | 0, n => (candPairs x n).headD (0, 0)
  | fuel + 1, n =>
    match (candPairs x n).find? (fun p => fl64 (pairVal p) == x) with
    | some p => p
    | none => searchPairs x fuel (n + 1)

/-- trailing zeros of the mantissa moved into the exponent (`10·10^3` is printed as `1e+04`) -/
def stripZeros : Nat → Nat → Int → Nat × Int
  | 0, m, e => (m, e)
  | fuel + 1, m, e => if m ≠ 0 ∧ m % 10 = 0 then stripZeros fuel (m / 10) (e + 1) else (m, e)

/-- shortest digits of a positive double: mantissa without trailing zeros, exponent -/
def shortest (x : Rat) : Nat × Int :=
  let p := searchPairs x 16 1
  stripZeros 20 p.1.natAbs p.2

/-- decimal digits of a natural number, most significant first (`fuel` = number of digits allowed) -/
def decDigits : Nat → Nat → List Nat
  | 0, _ => []
  | fuel + 1, n => if n < 10 then [n] else decDigits fuel (n / 10) ++ [n % 10]

def dChar (d : Nat) : Char := Char.ofNat (48 + d)
def rDigits (ds : List Nat) : List Char := ds.map dChar
def zeros (k : Nat) : List Nat := List.replicate k 0

/-- exponent digits: at least two (`e-05`, `e+16`, `e-324`) -/
def expDigits (k : Nat) : List Nat := if k < 10 then [0, k] else decDigits (k + 1) k

/-- layout of the digits `ds` (value `0.ds · 10^decpt`), Python `repr` / numpy `str` rule -/
def layout (ds : List Nat) (decpt : Int) : List Char :=
  let nd : Int := ds.length
  if -4 < decpt ∧ decpt ≤ 16 then
    if decpt ≤ 0 then rDigits [0] ++ '.' :: rDigits (zeros (-decpt).toNat ++ ds)
    else if decpt < nd then rDigits (ds.take decpt.toNat) ++ '.' :: rDigits (ds.drop decpt.toNat)
    else rDigits (ds ++ zeros (decpt - nd).toNat) ++ '.' :: rDigits [0]
  else
    let ex := decpt - 1
    rDigits (ds.take 1) ++ ((if ds.length > 1 then '.' :: rDigits (ds.drop 1) else []) ++
      ('e' :: (if ex < 0 then '-' else '+') :: rDigits (expDigits ex.natAbs)))

/-- `str(numpy.float64(x))` for a finite `x` (zero or normal) -/
def floatStr (x : Rat) : List Char :=
  if x = 0 then "0.0".toList else
  let s := shortest (if x < 0 then -x else x)
  let ds := decDigits (s.1 + 1) s.1
  (if x < 0 then ['-'] else []) ++ layout ds ((ds.length : Int) + s.2)

/-- `float(text)` on the characters of a cell (finite results only) -/
def floatOfStr (s : List Char) : Option Rat := pyFloat (String.ofList s)

end FloatText
