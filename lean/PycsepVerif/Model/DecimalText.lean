import PycsepVerif.Soft64
/-
  DecimalText — decimal text → binary64, character by character.

  Model of what `float(tok)` (CPython `PyFloat_FromString` → `_Py_string_to_number_with_underscores` →
  `PyOS_string_to_double`/`strtod`) and numpy's text readers (`numpy.loadtxt` / `genfromtxt(...).astype(float)`,
  which hand every token to the same `strtod` grammar) do with a token that denotes a FINITE decimal number:

      [blanks] [+|-] ( digits [. [digits]] | . digits ) [ (e|E) [+|-] digits ] [blanks]

  `parseDecimal` returns the EXACT rational the text denotes (`none` = the token is not such a numeral: `float()` raises
  `ValueError`, or the token is one of the words `inf`, `infinity`, `nan`, which do not denote a finite number);
  `toF64` rounds it to the nearest binary64 (`Soft64.fl64`, ties to even — `strtod` is correctly rounded) and answers
  `none` when the result overflows to an infinity.  The sign of a zero is not represented (`-0.0` ↦ 0).

  Used by C11 (`GriddedForecast.load_ascii`: `numpy.loadtxt`, csep/core/forecasts.py:400; the cell size
  `float(Decimal(repr(hi)) - Decimal(repr(lo)))`, :418) and C12 (`read_float`, `int(line[5])`,
  csep/core/catalogs.py:951-981).  Also here: `reprValue`, an executable model of the VALUE of `repr(x)` (the shortest
  decimal that rounds to `x`, nearest to `x` among those), so that `Decimal(repr(x))` is inside the model.

  Import-free apart from Soft64 (core `Rat`), structural recursion only: the kernel can evaluate every definition.
-/
namespace DecimalText
open Soft64

/-- ASCII decimal digit -/
def isDigit (c : Char) : Bool := decide (48 ≤ c.toNat) && decide (c.toNat ≤ 57)
def digitVal (c : Char) : Nat := c.toNat - 48

/-- the blanks `float()` / `int()` strip at both ends (`Py_ISSPACE`: TAB LF VT FF CR SPACE; the separators FS GS RS US
    are NOT stripped: `float('\x1c1')` raises) -/
def isBlank (c : Char) : Bool :=
  c = ' ' || c = '\t' || c = '\n' || c = '\r' || c.toNat = 11 || c.toNat = 12

def dropBlanks : List Char → List Char
  | [] => []
  | c :: cs => if isBlank c then dropBlanks cs else c :: cs

/-- `s.strip()` on the ASCII blanks -/
def strip (s : List Char) : List Char := (dropBlanks (dropBlanks s).reverse).reverse

/-- leading digits of `s`: (accumulated value starting from `acc`, how many digits were read on top of `n`, rest) -/
def takeDigits : List Char → Nat → Nat → Nat × Nat × List Char
  | [], acc, n => (acc, n, [])
  | c :: cs, acc, n => if isDigit c then takeDigits cs (10 * acc + digitVal c) (n + 1) else (acc, n, c :: cs)

/-- 10^e as a rational, any integer exponent -/
def pow10 (e : Int) : Rat :=
  if e ≥ 0 then ((10 ^ e.toNat : Nat) : Rat) else 1 / ((10 ^ (-e).toNat : Nat) : Rat)

/-- optional sign: (negative?, rest) -/
def takeSign : List Char → Bool × List Char
  | '-' :: cs => (true, cs)
  | '+' :: cs => (false, cs)
  | cs => (false, cs)

/-- the exponent part: nothing, or `e|E [+|-] digits` up to the end of the token; `none` = malformed -/
def parseExp : List Char → Option Int
  | [] => some 0
  | c :: cs =>
    if c = 'e' ∨ c = 'E' then
      let sr := takeSign cs
      let d := takeDigits sr.2 0 0
      if d.2.1 = 0 ∨ d.2.2 ≠ [] then none
      else some (if sr.1 then -(d.1 : Int) else (d.1 : Int))
    else none

/-- a numeral without surrounding blanks: sign, integer digits, optional point and fraction digits (at least one digit
    in all), optional exponent, nothing else.  Value = ± (all mantissa digits as one integer) · 10^(exp − #fraction). -/
def parseBody (cs : List Char) : Option Rat :=
  let sr := takeSign cs
  let ip := takeDigits sr.2 0 0
  let fp : Nat × Nat × List Char := match ip.2.2 with
    | '.' :: r => takeDigits r ip.1 0
    | r => (ip.1, 0, r)
  if ip.2.1 + fp.2.1 = 0 then none else
  match parseExp fp.2.2 with
  | none => none
  | some e =>
    let q := (fp.1 : Rat) * pow10 (e - (fp.2.1 : Int))
    some (if sr.1 then -q else q)

/-- Python's digit-group underscores (`float('1_000.5')`): every `_` must stand between two digits; they are then
    removed (`_Py_string_to_number_with_underscores`).  `prev` = the previous character was a digit. `none` = ValueError. -/
def dropUnderscores : Bool → List Char → Option (List Char)
  | _, [] => some []
  | prev, '_' :: cs =>
    if prev then
      match cs with
      | c :: _ => if isDigit c then dropUnderscores false cs else none
      | [] => none
    else none
  | _, c :: cs => (dropUnderscores (isDigit c) cs).map (c :: ·)

/-- exact value of a decimal token as numpy's readers / C `strtod` see it (no blanks, no underscores) -/
def parseToken (s : String) : Option Rat := parseBody s.toList

/-- exact value of a decimal string as Python's `float()` sees it (blanks stripped, digit-group underscores) -/
def parseDecimal (s : String) : Option Rat :=
  match dropUnderscores false (strip s.toList) with
  | none => none
  | some cs => parseBody cs

/-- 2^1024: what rounds to this or beyond is an infinity -/
def f64Limit : Rat := pow2 1024

/-- round the exact value to binary64; `none` = overflow to ±inf -/
def toF64 (q : Rat) : Option Rat :=
  let y := fl64 q
  if fabs y < f64Limit then some y else none

/-- `float(s)` for finite results: `none` = ValueError, a non-finite word, or overflow -/
def pyFloat (s : String) : Option Rat := (parseDecimal s).bind toF64
/-- a numpy.loadtxt / `.astype(float)` token -/
def npFloat (s : String) : Option Rat := (parseToken s).bind toF64

/-- Python `int(s)` for decimal text: blanks stripped, optional sign, digits with single underscores between digits -/
def pyInt (s : String) : Option Int :=
  match dropUnderscores false (strip s.toList) with
  | none => none
  | some cs =>
    let sr := takeSign cs
    let d := takeDigits sr.2 0 0
    if d.2.1 = 0 ∨ d.2.2 ≠ [] then none else some (if sr.1 then -(d.1 : Int) else (d.1 : Int))

/-! ## whitespace-separated tokens of a line (numpy.loadtxt with the default delimiter) -/

/-- split on runs of blanks; no empty tokens -/
def splitBlanksAux : List Char → List Char → List (List Char) → List (List Char)
  | [], cur, acc => (if cur.isEmpty then acc else cur.reverse :: acc).reverse
  | c :: cs, cur, acc =>
    if isBlank c then splitBlanksAux cs [] (if cur.isEmpty then acc else cur.reverse :: acc)
    else splitBlanksAux cs (c :: cur) acc

def splitBlanks (s : List Char) : List (List Char) := splitBlanksAux s [] []

/-- the part of a line before a `#` comment -/
def dropComment : List Char → List Char
  | [] => []
  | c :: cs => if c = '#' then [] else c :: dropComment cs

/-- lines of a text (`\n`, `\r\n`, `\r` all end a line; a final line without terminator counts) -/
def splitLinesAux : List Char → List Char → List (List Char) → List (List Char)
  | [], cur, acc => (if cur.isEmpty then acc else cur.reverse :: acc).reverse
  | '\r' :: '\n' :: cs, cur, acc => splitLinesAux cs [] (cur.reverse :: acc)
  | c :: cs, cur, acc =>
    if c = '\n' ∨ c = '\r' then splitLinesAux cs [] (cur.reverse :: acc) else splitLinesAux cs (c :: cur) acc

def splitLines (s : List Char) : List (List Char) := splitLinesAux s [] []

/-- `numpy.loadtxt(f, ndmin=2)` on a text: comment tails and blank lines dropped, every remaining line split on blanks,
    every token read as a finite double; `none` = some token is not a finite number, or the rows are ragged (ValueError) -/
def loadtxt (text : String) : Option (List (List Rat)) :=
  let rows := ((splitLines text.toList).map (fun l => splitBlanks (dropComment l))).filter (fun r => !r.isEmpty)
  match rows.mapM (fun r => r.mapM (fun t => (parseBody t).bind toF64)) with
  | none => none
  | some rs =>
    match rs with
    | [] => some []
    | r :: _ => if rs.all (fun r' => r'.length == r.length) then some rs else none

/-! ## the value of `repr(x)`: shortest decimal that rounds to `x` -/

/-- ⌊log10 x⌋ for positive `x`, by search downwards from `hi` with fuel -/
def ilog10Aux : Nat → Int → Rat → Int
  | 0, k, _ => k
  | fuel + 1, k, x => if pow10 k ≤ x then k else ilog10Aux fuel (k - 1) x

/-- ⌊log10 x⌋ for positive `x` in the binary64 range (−324 ≤ result ≤ 308): the search starts just above the
    estimate (⌊log2 x⌋ + 1)·0.30103 (never above 400) and steps down until 10^k ≤ x -/
def ilog10 (x : Rat) : Int :=
  let est : Int := ((ilog2 x + 1) * 30103) / 100000 + 2
  ilog10Aux 800 (if est ≤ 400 then est else 400) x

/-- the two neighbours of `x` on the grid of `n`-significant-digit decimals, nearest first (ties: even multiple first) -/
def candidates (x : Rat) (n : Nat) : List Rat :=
  let scale := pow10 (ilog10 x - (n : Int) + 1)
  let t := x / scale
  let lo : Int := t.floor
  let r := t - (lo : Rat)
  let a := (lo : Rat) * scale
  let b := ((lo + 1 : Int) : Rat) * scale
  if r < 1/2 then [a, b] else if r > 1/2 then [b, a] else if lo % 2 = 0 then [a, b] else [b, a]

/-- search over 1, 2, … significant digits; at 17 digits the nearest decimal is taken unconditionally
    (`Proofs/DecimalText`: it always rounds back) -/
def reprSearch (x : Rat) : Nat → Nat → Rat
  | 0, n => (candidates x n).headD x
  | fuel + 1, n =>
    match (candidates x n).find? (fun c => fl64 c == x) with
    | some c => c
    | none => reprSearch x fuel (n + 1)

/-- the rational denoted by `repr(x)` for a finite binary64 `x` (so `Decimal(repr(x))` as an exact number) -/
def reprValue (x : Rat) : Rat :=
  if x = 0 then 0 else if x < 0 then -(reprSearch (-x) 16 1) else reprSearch x 16 1

end DecimalText
