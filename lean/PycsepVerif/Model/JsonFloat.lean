import PycsepVerif.Model.JsonText
import PycsepVerif.Model.DecimalText
/-
  The numeral of a finite float in a JSON file (stage 2 of the text layer of C18): an executable instance `pyFloatText` of
  `JsonText.FloatText`.

    reprF = float.__repr__ with sys.float_repr_style == 'short' (CPython Objects/floatobject.c `float_repr` →
            `PyOS_double_to_string(x, 'r', 0, Py_DTSF_ADD_DOT_0, NULL)` → Python/pystrtod.c `format_float_short`):
            the shortest digit string that rounds back to x (`DecimalText.reprValue`, David Gay's mode 0), written
              * with an exponent, `d[.ddd]e±XX` (at least two exponent digits), when the decimal exponent is < −4 or ≥ 16
                (pystrtod.c: `if (decpt <= -4 || decpt > 16) use_exp = 1`, decimal exponent = decpt − 1),
              * else positionally, padded with zeros, and `.0` appended when there is no fraction (Py_DTSF_ADD_DOT_0);
            `-` in front for negative values and for −0.0.
    readF = float(lexeme) (scanner.py:52 → `PyFloat_FromString` → correctly rounded `strtod`): `DecimalText.parseBody`
            (exact rational of the lexeme), `Soft64.fl64` (round to nearest even), overflow → ±inf (`float('1e999')` is
            `inf`, no error), the sign of a zero taken from the lexeme (`-0.0`, `-0e0`).
  Doubles travel as bit patterns (`F64.num bits`): `bitsToRat` / `ratToBits`.

  Import-free apart from Model files and Soft64; structural recursion only.
-/
namespace JsonText
open ResultJson (F64)
open Soft64

def two52 : Nat := 4503599627370496
def two63 : Nat := 9223372036854775808

/-- a bit pattern denotes a finite double -/
def finiteBits (b : Nat) : Bool := decide (b < 2 * two63) && decide ((b / two52) % 2048 ≠ 2047)

/-- the absolute value of the finite double with bit pattern `b` -/
def bitsToAbs (b : Nat) : Rat :=
  let e := (b / two52) % 2048
  let m := b % two52
  if e = 0 then (m : Rat) * pow2 (-1074) else ((two52 + m : Nat) : Rat) * pow2 ((e : Int) - 1075)

def bitsNeg (b : Nat) : Bool := decide (b / two63 % 2 = 1)

/-- bit pattern (without sign) of a non-negative double given as a rational -/
def absToBits (y : Rat) : Nat :=
  if y = 0 then 0 else
  let e := ilog2 y
  if e < -1022 then (y / pow2 (-1074)).floor.toNat
  else ((e + 1023).toNat) * two52 + ((y / pow2 (e - 52)).floor.toNat - two52)

def trimZerosRev : List Char → List Char
  | [] => []
  | c :: cs => if c = '0' then trimZerosRev cs else c :: cs

/-- drop trailing zeros (keep one digit) -/
def trimZeros (ds : List Char) : List Char :=
  match (trimZerosRev ds.reverse).reverse with
  | [] => ['0']
  | r => r

/-- the shortest digits of a positive finite double: (digit characters without trailing zeros, decimal exponent of the
    first digit).  `reprValue x` has at most 17 significant digits, so `reprValue x / 10^(k − 16)` is an integer. -/
def shortDigits (x : Rat) : List Char × Int :=
  let r := DecimalText.reprValue x
  let k := DecimalText.ilog10 r
  let d17 := (r / DecimalText.pow10 (k - 16)).floor.toNat
  (trimZeros (natDigits d17), k)

def pad2 (ds : List Char) : List Char := if ds.length < 2 then '0' :: ds else ds

/-- `format_float_short` for format code 'r' on the digits `ds` with decimal exponent `k` -/
def formatShort (ds : List Char) (k : Int) : List Char :=
  if k < -4 ∨ k ≥ 16 then
    let mant := match ds with
      | [] => []
      | [d] => [d]
      | d :: rest => d :: '.' :: rest
    mant ++ ('e' :: (if k < 0 then '-' else '+') :: pad2 (natDigits k.natAbs))
  else if k < 0 then
    '0' :: '.' :: (List.replicate (k.natAbs - 1) '0' ++ ds)
  else
    let n := k.toNat + 1                        -- digits in front of the point
    if ds.length ≤ n then ds ++ (List.replicate (n - ds.length) '0' ++ ['.', '0'])
    else ds.take n ++ ('.' :: ds.drop n)

/-- `float.__repr__` of the finite double with bit pattern `b` -/
def pyReprF (b : Nat) : List Char :=
  let a := bitsToAbs b
  let body := if a = 0 then ['0', '.', '0'] else let p := shortDigits a; formatShort p.1 p.2
  if bitsNeg b then '-' :: body else body

/-- `float(lexeme)` -/
def pyReadF (lx : List Char) : Option F64 :=
  match DecimalText.parseBody lx with
  | none => none
  | some q =>
    let neg := match lx with | c :: _ => decide (c = '-') | [] => false
    let y := fl64 (fabs q)
    let mag := if y < DecimalText.f64Limit then absToBits y else posInfBits
    some (.num (if neg then two63 + mag else mag))

def pyFloatText : FloatText := { reprF := pyReprF, readF := pyReadF }

end JsonText
