import PycsepVerif.Model.JsonText
import PycsepVerif.Model.DecimalText
import PycsepVerif.Model.FloatText
/-
  The numeral of a finite float in a JSON file (stage 2 of the text layer of C18): an executable instance `pyFloatText` of
  `JsonText.FloatText`.

    reprF = float.__repr__ with sys.float_repr_style == 'short' (CPython Objects/floatobject.c `float_repr` →
            `PyOS_double_to_string(x, 'r', 0, Py_DTSF_ADD_DOT_0, NULL)` → Python/pystrtod.c `format_float_short`):
            the shortest digit string that rounds back to x (`DecimalText.reprValue`, David Gay's mode 0), written
              * with an exponent, `d[.ddd]e±XX` (at least two exponent digits), when the decimal exponent is < −4 or ≥ 16
                (pystrtod.c: `if (decpt <= -4 || decpt > 16) use_exp = 1`, decimal exponent = decpt − 1),
              * else positionally, padded with zeros, and `.0` appended when there is no fraction (Py_DTSF_ADD_DOT_0);
            `-` in front for negative values and for −0.0.
    readF = float(lexeme) (scanner.py:52 → `PyFloat_FromString` → correctly rounded `strtod`): `DecimalText.parseBody`
            (exact rational of the lexeme), `Soft64.fl64` (round to nearest even), overflow → ±inf (`float('1e999')` is
            `inf`, no error), the sign of a zero taken from the lexeme (`-0.0`, `-0e0`).
  Doubles travel as bit patterns (`F64.num bits`): `bitsToRat` / `ratToBits`.

  Import-free apart from Model files and Soft64; structural recursion only.
-/
namespace JsonText
open ResultJson (F64)
open Soft64

def two52 : Nat := 4503599627370496
def two63 : Nat := 9223372036854775808

/-- a bit pattern denotes a finite double -/
def finiteBits (b : Nat) : Bool := decide (b < 2 * two63) && decide ((b / two52) % 2048 ≠ 2047)

/-- the absolute value of the finite double with bit pattern `b` -/
def bitsToAbs (b : Nat) : Rat :=
  let e := (b / two52) % 2048
  let m := b % two52
  if e = 0 then (m : Rat) * pow2 (-1074) else ((two52 + m : Nat) : Rat) * pow2 ((e : Int) - 1075)

def bitsNeg (b : Nat) : Bool := decide (b / two63 % 2 = 1)

/-- bit pattern (without sign) of a non-negative double given as a rational -/
def absToBits (y : Rat) : Nat :=
  if y = 0 then 0 else
  let e := ilog2 y
  if e < -1022 then (y / pow2 (-1074)).floor.toNat
  else ((e + 1023).toNat) * two52 + ((y / pow2 (e - 52)).floor.toNat - two52)

/-- `float.__repr__` of the finite double with bit pattern `b`: the shortest digits in Python's layout are
    `FloatText.floatStr` (Model/FloatText.lean, property C14: proved to denote `reprValue` and to read back); the sign of a
    zero, which `floatStr` does not represent, is written here (`-0.0`). -/
def pyReprF (b : Nat) : List Char :=
  let a := bitsToAbs b
  if a = 0 then (if bitsNeg b then ['-', '0', '.', '0'] else ['0', '.', '0'])
  else FloatText.floatStr (if bitsNeg b then -a else a)

/-- `float(lexeme)` -/
def pyReadF (lx : List Char) : Option F64 :=
  match DecimalText.parseBody lx with
  | none => none
  | some q =>
    let neg := match lx with | c :: _ => decide (c = '-') | [] => false
    let y := fl64 (fabs q)
    let mag := if y < DecimalText.f64Limit then absToBits y else posInfBits
    some (.num (if neg then two63 + mag else mag))

def pyFloatText : FloatText := { reprF := pyReprF, readF := pyReadF }

end JsonText
