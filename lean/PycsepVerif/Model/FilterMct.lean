import PycsepVerif.Model.Filter
/-
  Model of csep/core/catalogs.py `AbstractBaseCatalog.apply_mct` (:598-644) — the time-dependent magnitude-of-completeness
  cut after a mainshock — and of the filter stage of `CatalogForecast.__next__` (csep/core/forecasts.py:618-625), which
  chains `filter(self.filters)`, `apply_mct(event.magnitude, epoch(event.time))`, `filter_spatial(self.region)` on every
  catalog it yields.

  Exact layer. The head of `apply_mct` computes two floats from `(m_main, event_epoch, mc)`:

      t_crit_days   = 10 ** -((mc - m_main + 4.5) / 0.75)                       :615
      t_crit_millis = days_to_millis(t_crit_days)                               :616   (days * 86400 * 1000)
      t_crit_epoch  = t_crit_millis + event_epoch                               :622

  and, per scanned event, the float `compute_mct(millis_to_days(time - event_epoch), m_main) = m_main - 4.5 - 0.75*log10(t)`
  (:611, :636-637). `10 **` and `log10` are transcendental: the model takes their RESULTS as inputs (`tCrit`, and the
  decision `below e` = `mw < mct` of every event), exactly as the sampler model takes the uniform draws. Everything else — the
  early return for an empty catalog (fix D37, cafbaf1; before it `times[0]` raised IndexError: `applyMctD37`), the short-circuit on the first event, the `break` at the first event later
  than `t_crit_epoch` (which leaves ALL later rows untouched, in or out of the window: the code assumes a time-sorted catalog),
  the `continue` for events before the mainshock, the boolean-mask indexing and the in-place replacement — is modelled as is.
-/
namespace CatFilter

/-- the quantities `apply_mct` derives from `(m_main, event_epoch, mc)` before / while it scans the catalog -/
structure Mct where
  /-- `event_epoch`: epoch milliseconds of the mainshock (an int, or a float) -/
  eventEpoch : Rat
  /-- `t_crit_epoch` (catalogs.py:622), a float64 -/
  tCrit : Rat
  /-- `mw < compute_mct(millis_to_days(time - event_epoch), m_main)` (catalogs.py:636-639) for one row -/
  below : Event → Bool

inductive MctErr where
  | emptyCatalog      -- IndexError: `times[0]` on a catalog without events (the code BEFORE fix D37)
  deriving DecidableEq, Repr

/-- the loop catalogs.py:630-640 together with the mask indexing :642 -/
def mctLoop (p : Mct) : List Event → List Event
  | [] => []
  | e :: es =>
    if p.tCrit < (e.originTime : Rat) then e :: es                        -- :632 `break`: the mask stays True from here on
    else if (e.originTime : Rat) < p.eventEpoch then e :: mctLoop p es    -- :634 `continue`
    else if p.below e then mctLoop p es                                   -- :639 `filter[i] = False`
    else e :: mctLoop p es

/-- `apply_mct` on the rows of the catalog (catalogs.py:618-648, with fix D37: `if self.event_count == 0: return self`) -/
def applyMct (p : Mct) (es : List Event) : List Event :=
  match es with
  | [] => []                                                              -- D37: nothing to cut
  | e :: _ => if p.tCrit < (e.originTime : Rat) then es else mctLoop p es -- short-circuit on the first row

/-- the code BEFORE fix D37: `times[0]` on an empty catalog raised IndexError -/
def applyMctD37 (p : Mct) (es : List Event) : Except MctErr (List Event) :=
  match es with
  | [] => .error .emptyCatalog
  | e :: _ => if p.tCrit < (e.originTime : Rat) then .ok es else .ok (mctLoop p es)

/-- the window of the cut and the specification predicate: a row is REMOVED iff it lies in
    `[event_epoch, t_crit_epoch]` and its magnitude is below the completeness magnitude at its time -/
def inWindow (p : Mct) (e : Event) : Bool := decide ((e.originTime : Rat) ≤ p.tCrit)

def mctKeep (p : Mct) (e : Event) : Bool :=
  !(decide (p.eventEpoch ≤ (e.originTime : Rat)) && decide ((e.originTime : Rat) ≤ p.tCrit) && p.below e)

/-- `apply_mct` is always in place and returns `self`: the object keeps filters and region -/
def stepMct (c : Cat) (p : Mct) : Cat := { c with events := applyMct p c.events }

/-! ### spatial filter with a quadtree region (`QuadtreeGrid2D.get_masked`, added by fix D42 cf7bcb4) -/

/-- the tiles of a quadtree grid as half-open boxes `[x0, x1) × [y0, y1)` (regions.py `bounds`: x0, y0, x1, y1) -/
structure QuadRegion where
  bounds : List (Rat × Rat × Rat × Rat)
  deriving DecidableEq, Repr

def inTile (b : Rat × Rat × Rat × Rat) (lon lat : Rat) : Bool :=
  decide (b.1 ≤ lon) && decide (b.2.1 ≤ lat) && decide (lon < b.2.2.1) && decide (lat < b.2.2.2)

/-- `mask[i] = numpy.size(self._find_location(lon, lat)) == 0`: True = in no tile -/
def QuadRegion.masked (r : QuadRegion) (lon lat : Rat) : Bool := !(r.bounds.any (fun b => inTile b lon lat))

def filterSpatialQuad (r : QuadRegion) (es : List Event) : List Event :=
  filterSpatialBy (fun e => r.masked e.longitude e.latitude) es

/-! ### the filter stage of `CatalogForecast.__next__` (forecasts.py:618-625) -/

/-- the members of a `CatalogForecast` that decide what happens to a yielded catalog -/
structure NextCfg where
  applyFilters : Bool            -- `self.apply_filters`
  filters : List RawStmt         -- `self.filters` (`filters or []`)
  mct : Option Mct               -- `self.apply_mct` together with `self.event`
  spatial : Bool                 -- `self.filter_spatial`
  region : Option Region         -- `self.region`

inductive NextErr where
  | noRegion                     -- CSEPCatalogException out of `filter_spatial(None)` on a catalog without region
  deriving DecidableEq, Repr

/-- forecasts.py:619-625. All three calls use their default `in_place=True`, so the yielded object is the stored
    catalog itself, modified. `if self.filters:` skips an empty list (no exception). -/
def nextFilter (cfg : NextCfg) (c : Cat) : Except NextErr Cat :=
  if !cfg.applyFilters then .ok c else
  let c1 : Cat := if cfg.filters.isEmpty then c else (stepFilter c cfg.filters true).2
  let c2 : Cat := match cfg.mct with
    | none => c1
    | some p => stepMct c1 p
  if cfg.spatial then
    match resolveRegion c2 cfg.region with
    | none => .error .noRegion
    | some r => .ok (stepSpatial c2 r true).2
  else .ok c2

end CatFilter
