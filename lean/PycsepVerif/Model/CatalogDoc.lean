import PycsepVerif.Model.JsonFloat
import PycsepVerif.Model.FloatText
/-
  CatalogDoc — the JSON DOCUMENT of a catalog (property C14): what `write_json` (csep/core/catalogs.py:225-235,
  `json.dump(self.to_dict(), f, indent=4, separators=(',', ': '), sort_keys=True, default=…)`) and the repository layer
  (`csep.write_json`, repositories.py:93) put into the file, and what `load_json` / `from_dict` (:219, :146) make of it.

  The text layer is the C18 owner's `Model/JsonText.lean` (`render`, `parse`: CPython's pure-Python encoder with `indent=4`
  and the scanner / decoder, all of JSON).  This file adds
    * `catFloatText`: an instance of `JsonText.FloatText` whose writer is `FloatText.floatStr` (the shortest-round-trip digits
      of `Model/FloatText.lean`, the layout shared by `float.__repr__` and `str(numpy.float64)`) on the magnitude of the bit
      pattern, `-` in front when the sign bit is set (so −0.0 is `-0.0`), and whose reader is `JsonText.pyReadF`;
    * the dict form of a catalog as a JSON tree (`toTree`): `catalog` = list of `[id, origin_time, lat, lon, depth, mag]`,
      `catalog_id`, `name`, `region` (`CartesianGrid2D.to_dict`: `name`, `dh`, `polygons`, `class_id`), and whatever OTHER
      members `to_dict` copies (`filters`, `metadata`, `date_accessed`, the statistics …) as an arbitrary list `extra`;
    * `fromTree`: what `from_dict` reads back of those four members (looked up by name).
  Doubles travel as bit patterns (sign, exponent, fraction), so negative zero and subnormals are ordinary values here.
-/
namespace CatalogDoc
open JsonText JsonTree
open ResultJson (F64)

/-- `float.__repr__` through the digits of `Model/FloatText.lean`; `float()` as in `Model/JsonFloat.lean` -/
def reprBits (b : Nat) : List Char :=
  let body := FloatText.floatStr (bitsToAbs b)
  if bitsNeg b then '-' :: body else body

def catFloatText : FloatText := { reprF := reprBits, readF := pyReadF }

/-- one event of the document: id, origin time, four doubles as bit patterns -/
structure DocEvent where
  id : String
  ms : Int
  lat : Nat
  lon : Nat
  depth : Nat
  mag : Nat
deriving DecidableEq, Repr

/-- `CartesianGrid2D.to_dict()` (regions.py:689): name (a str: `str(self.name)`), spacing, polygon origins as (lat, lon) -/
structure DocRegion where
  name : String
  dh : Nat
  polygons : List (Nat × Nat)
deriving DecidableEq, Repr

structure DocCatalog where
  events : List DocEvent
  catalogId : Option Int
  name : Option String
  region : Option DocRegion
deriving DecidableEq, Repr

def listJ : List JVal → JList
  | [] => .nil
  | v :: vs => .cons v (listJ vs)

def flt (b : Nat) : JVal := .float (.num b)

def eventJ (e : DocEvent) : JVal :=
  .arr (listJ [.str e.id, .int e.ms, flt e.lat, flt e.lon, flt e.depth, flt e.mag])

def polygonJ (p : Nat × Nat) : JVal := .obj (.cons "lat" (flt p.1) (.cons "lon" (flt p.2) .nil))

def regionJ (r : DocRegion) : JVal :=
  .obj (.cons "name" (.str r.name) (.cons "dh" (flt r.dh) (.cons "polygons" (.arr (listJ (r.polygons.map polygonJ)))
    (.cons "class_id" (.str "CartesianGrid2D") .nil))))

def optJ {α} (f : α → JVal) : Option α → JVal
  | none => .null
  | some a => f a

/-- members appended in front of the other attributes -/
def appendKVs : JKVs → JKVs → JKVs
  | .nil, r => r
  | .cons k v ms, r => .cons k v (appendKVs ms r)

/-- the dict form as a JSON tree; `extra` = the other members of `to_dict()` -/
def toTree (c : DocCatalog) (extra : JKVs) : JVal :=
  .obj (.cons "catalog" (.arr (listJ (c.events.map eventJ)))
    (.cons "catalog_id" (optJ JVal.int c.catalogId)
      (.cons "name" (optJ JVal.str c.name)
        (.cons "region" (optJ regionJ c.region) extra))))

/-- `adict[key]` on a JSON object -/
def getM (k : String) : JKVs → Option JVal
  | .nil => none
  | .cons k' v rest => if k' = k then some v else getM k rest

def unlistJ : JList → List JVal
  | .nil => []
  | .cons v vs => v :: unlistJ vs

def bitsOf : JVal → Option Nat
  | .float (.num b) => some b
  | _ => none

def eventOfJ : JVal → Option DocEvent
  | .arr xs =>
    match unlistJ xs with
    | [.str i, .int ms, a, b, c, d] => do
      some ⟨i, ms, ← bitsOf a, ← bitsOf b, ← bitsOf c, ← bitsOf d⟩
    | _ => none
  | _ => none

def polygonOfJ : JVal → Option (Nat × Nat)
  | .obj ms => do
    let a ← (getM "lat" ms).bind bitsOf
    let b ← (getM "lon" ms).bind bitsOf
    some (a, b)
  | _ => none

def regionOfJ : JVal → Option DocRegion
  | .obj ms => do
    let n ← (match getM "name" ms with | some (.str s) => some s | _ => none)
    let dh ← (getM "dh" ms).bind bitsOf
    let ps ← (match getM "polygons" ms with | some (.arr xs) => (unlistJ xs).mapM polygonOfJ | _ => none)
    some ⟨n, dh, ps⟩
  | _ => none

/-- what `from_dict` reads of the four members the property speaks about (`none` = the document is not of this shape) -/
def fromTree : JVal → Option DocCatalog
  | .obj ms => do
    let evs ← (match getM "catalog" ms with | some (.arr xs) => (unlistJ xs).mapM eventOfJ | _ => none)
    let cid ← (match getM "catalog_id" ms with | some (.int n) => some (some n) | some .null => some none | _ => none)
    let name ← (match getM "name" ms with | some (.str s) => some (some s) | some .null => some none | _ => none)
    let region ← (match getM "region" ms with
      | some .null => some none
      | some r => (regionOfJ r).map some
      | none => none)
    some ⟨evs, cid, name, region⟩
  | _ => none

/-- `write_json` then `load_json`, on characters -/
def saveLoad (c : DocCatalog) (extra : JKVs) : Option DocCatalog :=
  (parse catFloatText (render catFloatText (toTree c extra))).bind fromTree

end CatalogDoc
