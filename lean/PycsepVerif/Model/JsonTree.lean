import PycsepVerif.Model.ResultJson
/-
  General JSON value-tree model for C18 (exact layer, no Mathlib).

  `Model/ResultJson.lean` knows scalars and arrays only.  Dictionaries occur at the top level of every `to_dict()`
  (models.py:42, :82, :247; repositories.py:98; regions.py:689, :1201), inside `EvaluationConfiguration.evaluations`
  (list of {'name','version','fnames'}), inside region dictionaries (`polygons`: list of {'lat','lon'}) and may occur
  inside result fields.  This file adds them:

    PyObj   = the kinds of `ResultJson.PyVal` + `dict` (association list in iteration order, keys of kind `Key`)
    JVal    = null | bool | int | float | str | arr | obj          (the tree in the file)
    encode  = repositories.py:93  json.dump(data, f, indent=4, separators=(',', ': '), sort_keys=True,
                                            default=_json_default)         `none` = TypeError
    decode  = repositories.py:57  json.load(f)

  Facts of CPython 3.12 `json` that are transcribed here (each re-checked against the real library on every run by the
  correspondence of harness/c18.py, op `c18_tree`):
    * `indent=4` selects the pure-Python encoder; with `sort_keys=True` it does `sorted(dct.items())` BEFORE looking
      at the keys.  Keys are compared with `<`; every two distinct keys of one dict are eventually compared, so a dict
      whose keys are not all of one comparable class (str | int/bool | a single None) raises TypeError.
    * then each key: str → itself, True/False → "true"/"false", None → "null", int → its decimal repr; anything else
      (numpy integers, numpy.bool_, tuples, bytes, …) raises TypeError — `default=` is NOT applied to keys.
    * `json.load` builds objects with `dict(pairs)`: every key is a str, a later duplicate member name wins.
  Not modelled: float keys (need the text layer), the ORDER of the members of an object (JSON objects are unordered,
  Python dict equality ignores order; harness and driver compare with members sorted by name) — the only other
  observable effect of `sort_keys=True`, the TypeError, IS modelled.
-/
namespace JsonTree
open ResultJson (F64)

/-- a dictionary key as Python sees it -/
inductive Key where
  | kstr (s : String)
  | kint (n : Int)
  | kbool (b : Bool)
  | knone
  /-- a hashable object json refuses as a key: numpy.int64, numpy.bool_, tuple, bytes, … (`s` = its repr, unused) -/
  | kbad (s : String)
  deriving DecidableEq, Repr

/-- which keys `<` can compare with each other -/
inductive KeyClass where
  | str | num | none
  deriving DecidableEq, Repr

def Key.cls : Key → Option KeyClass
  | .kstr _ => some .str
  | .kint _ => some .num
  | .kbool _ => some .num
  | .knone => some .none
  | .kbad _ => Option.none

/-- json/encoder.py `_iterencode_dict`: the member name written for a key -/
def Key.coerce : Key → String
  | .kstr s => s
  | .kint n => toString n
  | .kbool true => "true"
  | .kbool false => "false"
  | .knone => "null"
  | .kbad _ => ""          -- never written: TypeError

def Key.isStr : Key → Bool
  | .kstr _ => true
  | _ => false

mutual
  inductive PyObj where
    | pyInt (n : Int)
    | pyBool (b : Bool)
    | pyFloat (x : F64)
    | npFloat64 (x : F64)
    | npInt64 (n : Int)
    | npBool (b : Bool)
    | npFloat32 (x : F64)
    | other (s : String)
    | str (s : String)
    | none
    | list (xs : PyList)
    | tuple (xs : PyList)
    | ndarray (tolist : PyList)
    /-- a Python dict, entries in iteration order -/
    | dict (kvs : PyKVs)
  inductive PyList where
    | nil
    | cons (v : PyObj) (vs : PyList)
  inductive PyKVs where
    | nil
    | cons (k : Key) (v : PyObj) (rest : PyKVs)
end

mutual
  inductive JVal where
    | null
    | bool (b : Bool)
    | int (n : Int)
    | float (x : F64)
    | str (s : String)
    | arr (xs : JList)
    | obj (ms : JKVs)
  inductive JList where
    | nil
    | cons (v : JVal) (vs : JList)
  inductive JKVs where
    | nil
    | cons (k : String) (v : JVal) (rest : JKVs)
end

/-! ### keys of a dict -/

def PyKVs.hasKey (k : Key) : PyKVs → Bool
  | .nil => false
  | .cons k' _ rest => decide (k' = k) || rest.hasKey k

def JKVs.hasKey (s : String) : JKVs → Bool
  | .nil => false
  | .cons k _ rest => decide (k = s) || rest.hasKey s

def PyKVs.allCls (c : KeyClass) : PyKVs → Bool
  | .nil => true
  | .cons k _ rest => decide (k.cls = some c) && rest.allCls c

def PyKVs.isNil : PyKVs → Bool
  | .nil => true
  | .cons _ _ _ => false

/-- `sorted(dct.items())` succeeds and every key is one json accepts: all keys str, or all int/bool, or one None -/
def PyKVs.sortable : PyKVs → Bool
  | .nil => true
  | .cons k _ rest =>
    match k.cls with
    | Option.none => false
    | some .none => rest.isNil        -- `None < None` raises too (cannot occur in a real dict)
    | some c => rest.allCls c

mutual
  /-- `json.dump(v, sort_keys=True, default=_json_default)`; `none` = TypeError -/
  def encode : PyObj → Option JVal
    | .pyInt n => some (.int n)
    | .pyBool b => some (.bool b)
    | .pyFloat x => some (.float x)
    | .npFloat64 x => some (.float x)
    | .npInt64 n => some (.int n)
    | .npBool b => some (.bool b)
    | .npFloat32 x => some (.float x)
    | .other s => some (.str s)
    | .str s => some (.str s)
    | .none => some .null
    | .list xs => (encodeL xs).map .arr
    | .tuple xs => (encodeL xs).map .arr
    | .ndarray xs => (encodeL xs).map .arr
    | .dict kvs => if kvs.sortable then (encodeKVs kvs).map .obj else Option.none
  def encodeL : PyList → Option JList
    | .nil => some .nil
    | .cons v vs =>
      match encode v, encodeL vs with
      | some j, some js => some (.cons j js)
      | _, _ => Option.none
  def encodeKVs : PyKVs → Option JKVs
    | .nil => some .nil
    | .cons k v rest =>
      match encode v, encodeKVs rest with
      | some j, some js => some (.cons k.coerce j js)
      | _, _ => Option.none
end

mutual
  /-- `json.load` -/
  def decode : JVal → PyObj
    | .null => .none
    | .bool b => .pyBool b
    | .int n => .pyInt n
    | .float x => .pyFloat x
    | .str s => .str s
    | .arr xs => .list (decodeL xs)
    | .obj ms => .dict (decodeKVs ms)
  def decodeL : JList → PyList
    | .nil => .nil
    | .cons v vs => .cons (decode v) (decodeL vs)
  /-- `dict(pairs)`: a later duplicate member name wins -/
  def decodeKVs : JKVs → PyKVs
    | .nil => .nil
    | .cons k v rest => if rest.hasKey k then decodeKVs rest else .cons (.kstr k) (decode v) (decodeKVs rest)
end

/-- write then load; `none` = the write raised TypeError -/
def roundTrip (v : PyObj) : Option PyObj := (encode v).map decode

mutual
  /-- "equal after the round trip": as `ResultJson.norm`; dict entries keep their keys, values are normalised -/
  def norm : PyObj → PyObj
    | .npFloat64 x => .pyFloat x
    | .npInt64 n => .pyInt n
    | .npBool b => .pyBool b
    | .npFloat32 x => .pyFloat x
    | .list xs => .list (normL xs)
    | .tuple xs => .list (normL xs)
    | .ndarray xs => .list (normL xs)
    | .dict kvs => .dict (normKVs kvs)
    | .pyInt n => .pyInt n
    | .pyBool b => .pyBool b
    | .pyFloat x => .pyFloat x
    | .other s => .other s
    | .str s => .str s
    | .none => .none
  def normL : PyList → PyList
    | .nil => .nil
    | .cons v vs => .cons (norm v) (normL vs)
  def normKVs : PyKVs → PyKVs
    | .nil => .nil
    | .cons k v rest => .cons k (norm v) (normKVs rest)
end

mutual
  /-- the safe kinds: those of `ResultJson.Safe`, and dicts whose keys are (pairwise distinct) strings and whose values
      are safe -/
  def Safe : PyObj → Prop
    | .pyInt _ | .pyBool _ | .pyFloat _ | .npFloat64 _ | .str _ | .none => True
    | .npInt64 _ | .npBool _ | .npFloat32 _ => True
    | .list xs | .tuple xs | .ndarray xs => SafeL xs
    | .dict kvs => SafeKVs kvs
    | .other _ => False
  def SafeL : PyList → Prop
    | .nil => True
    | .cons v vs => Safe v ∧ SafeL vs
  def SafeKVs : PyKVs → Prop
    | .nil => True
    | .cons k v rest => k.isStr = true ∧ rest.hasKey k = false ∧ Safe v ∧ SafeKVs rest
end

mutual
  def safeB : PyObj → Bool
    | .pyInt _ | .pyBool _ | .pyFloat _ | .npFloat64 _ | .str _ | .none => true
    | .npInt64 _ | .npBool _ | .npFloat32 _ => true
    | .list xs | .tuple xs | .ndarray xs => safeLB xs
    | .dict kvs => safeKVsB kvs
    | .other _ => false
  def safeLB : PyList → Bool
    | .nil => true
    | .cons v vs => safeB v && safeLB vs
  def safeKVsB : PyKVs → Bool
    | .nil => true
    | .cons k v rest => k.isStr && !rest.hasKey k && safeB v && safeKVsB rest
end

mutual
  /-- plain Python data: exactly what `json.load` can return -/
  def Plain : PyObj → Prop
    | .pyInt _ | .pyBool _ | .pyFloat _ | .str _ | .none => True
    | .list xs => PlainL xs
    | .dict kvs => PlainKVs kvs
    | .npFloat64 _ | .npInt64 _ | .npBool _ | .npFloat32 _ | .other _ | .tuple _ | .ndarray _ => False
  def PlainL : PyList → Prop
    | .nil => True
    | .cons v vs => Plain v ∧ PlainL vs
  def PlainKVs : PyKVs → Prop
    | .nil => True
    | .cons k v rest => k.isStr = true ∧ rest.hasKey k = false ∧ Plain v ∧ PlainKVs rest
end

mutual
  /-- a JSON tree in which no object has two members of the same name (hereditarily) -/
  def NoDup : JVal → Prop
    | .null | .bool _ | .int _ | .float _ | .str _ => True
    | .arr xs => NoDupL xs
    | .obj ms => NoDupKVs ms
  def NoDupL : JList → Prop
    | .nil => True
    | .cons v vs => NoDup v ∧ NoDupL vs
  def NoDupKVs : JKVs → Prop
    | .nil => True
    | .cons k v rest => rest.hasKey k = false ∧ NoDup v ∧ NoDupKVs rest
end

/-! ### embedding of the scalar/array model of `Model/ResultJson.lean` -/

mutual
  def ofPyVal : ResultJson.PyVal → PyObj
    | .pyInt n => .pyInt n
    | .pyBool b => .pyBool b
    | .pyFloat x => .pyFloat x
    | .npFloat64 x => .npFloat64 x
    | .npInt64 n => .npInt64 n
    | .npBool b => .npBool b
    | .npFloat32 x => .npFloat32 x
    | .other s => .other s
    | .str s => .str s
    | .none => .none
    | .list xs => .list (ofPyList xs)
    | .tuple xs => .tuple (ofPyList xs)
    | .ndarray xs => .ndarray (ofPyList xs)
  def ofPyList : ResultJson.PyList → PyList
    | .nil => .nil
    | .cons v vs => .cons (ofPyVal v) (ofPyList vs)
end

mutual
  def ofJson : ResultJson.Json → JVal
    | .null => .null
    | .bool b => .bool b
    | .int n => .int n
    | .float x => .float x
    | .str s => .str s
    | .arr xs => .arr (ofJList xs)
  def ofJList : ResultJson.JList → JList
    | .nil => .nil
    | .cons v vs => .cons (ofJson v) (ofJList vs)
end

/-! ### dictionary access -/

/-- `adict[s]` / `adict.get(s)` on a dict: the entry whose key is the str `s` -/
def PyKVs.get (s : String) : PyKVs → Option PyObj
  | .nil => Option.none
  | .cons k v rest => if k = .kstr s then some v else rest.get s

def PyList.toList : PyList → List PyObj
  | .nil => []
  | .cons v vs => v :: vs.toList

def PyList.ofList : List PyObj → PyList
  | [] => .nil
  | v :: vs => .cons v (PyList.ofList vs)

def PyKVs.ofList : List (String × PyObj) → PyKVs
  | [] => .nil
  | (k, v) :: rest => .cons (.kstr k) v (PyKVs.ofList rest)

end JsonTree
