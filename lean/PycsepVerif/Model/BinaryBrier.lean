import PycsepVerif.RealOps
/-
  Model of the binary (Bernoulli) joint log-likelihood and of the Brier score of pyCSEP (C16), real layer:

    csep/core/binomial_evaluations.py:80-101   binary_joint_log_likelihood_ndarray (with its masked-array handling)
    csep/core/binomial_evaluations.py:130-193  _binary_likelihood_test (statistic of observed / simulated arrays: 176,187)
    csep/core/binomial_evaluations.py:196,246  binary_spatial_test / binary_conditional_likelihood_test
    csep/core/brier_evaluations.py:9-33        _brier_score_ndarray
    csep/core/brier_evaluations.py:76-136,139  _brier_score_test / brier_score_test

  A flattened pair (forecast array, count array) is a list of bins `(rate, count)`; a bin is active iff count > 0
  (`numpy.nonzero(catalog.ravel())`, `observations.ravel() > 0`).
-/
namespace BinaryBrier
variable {α : Type} [RealOps α]
open RealOps

/-- one entry of `first_term.data + second_term.data` (binomial_evaluations.py:92-101).

    inactive bin (y = 0): `first_term` is `0 * log(..)` = ∓0 and `second_term = (1-y) * (-forecast.data) = -rate`
    (the RAW data, so a non-positive rate is used as it is).

    active bin (y = 1): `second_term = 0 * (-rate) = ∓0` and `first_term = y * log(1.0 - exp(-forecast_masked))`.
      * rate ≤ 0: the entry is masked (line 92). `y * masked` is `numpy.ma.multiply(y, masked)`, whose result carries
        the FIRST operand's data in masked slots (`numpy.copyto(result, da, where=m)`), i.e. `y = 1.0`:
        such a bin contributes `+1.0` (verified numerically on numpy 2.5: forecast [0.5, 0.0], catalog [1, 1] gives
        log(1 - e^-0.5) + 1.0).
      * rate > 0 but `1.0 - exp(-rate)` not positive (binary64: rate below 2^-53, `exp(-rate)` rounds to 1):
        `numpy.log` on a masked array masks its domain violations, the same `+1.0` results. Dead branch over ℝ.
      * otherwise `log(1 - exp(-rate))`. -/
def binTerm (r : α) (active : Bool) : α :=
  if active then
    if le r zero then one
    else
      let p := sub one (exp (neg r))
      if le p zero then one else log p
  else neg r

/-- `binary_joint_log_likelihood_ndarray(forecast, catalog)`: Python's builtin `sum` over the entries (left fold from 0) -/
def binaryLL (bins : List (α × Nat)) : α :=
  RealOps.sum (bins.map (fun p => binTerm p.1 (decide (0 < p.2))))

/-- `scipy.stats.poisson.cdf(0, rate)` is `P(X ≤ 0) = e^{-rate}` (trusted; compared numerically on every run) -/
def poisCdf0 (r : α) : α := exp (neg r)

/-- `np.square(prob_success - (observations > 0))` for one cell (brier_evaluations.py:26-27) -/
def brierCell (r : α) (active : Bool) : α :=
  let d := sub (sub one (poisCdf0 r)) (if active then one else zero)
  mul d d

/-- `_brier_score_ndarray`: `brier = -2 * brier_cell.sum()`, then `brier /= n_dim` for every dimension of the
    observation array (lines 28-32). `dims` is `observations.shape`. -/
def brier (dims : List Nat) (bins : List (α × Nat)) : α :=
  dims.foldl (fun b n => div b (ofNat n))
    (mul (neg two) (RealOps.sum (bins.map (fun p => brierCell p.1 (decide (0 < p.2))))))

/-! ### the public tests: which arrays they score (no rate scaling anywhere in `_binary_likelihood_test`) -/

def spatialMarginal (data : List (List α)) : List α := data.map RealOps.sum
def spatialMarginalN (cnt : List (List Nat)) : List Nat := cnt.map List.sum

/-- `binary_spatial_test`: binary LL of (forecast.spatial_counts(), catalog.spatial_counts()) -/
def binarySpatialStat (data : List (List α)) (cnt : List (List Nat)) : α :=
  binaryLL ((spatialMarginal data).zip (spatialMarginalN cnt))

/-- `binary_conditional_likelihood_test`: binary LL of (forecast.data, catalog.spatial_magnitude_counts()) -/
def binaryCLStat (data : List (List α)) (cnt : List (List Nat)) : α :=
  binaryLL (data.flatten.zip cnt.flatten)

/-- `brier_score_test`, observed statistic: the 2-D arrays, divided by both dimensions -/
def brierObsStat (data : List (List α)) (cnt : List (List Nat)) : α :=
  brier [cnt.length, (cnt.headD []).length] (data.flatten.zip cnt.flatten)

/-- `brier_score_test`, a simulated entry: the simulated array is 1-D (`sampling_weights.shape`), one division -/
def brierSimStat (data : List (List α)) (sim : List Nat) : α :=
  brier [sim.length] (data.flatten.zip sim)

/-- simulated entries of the two binary tests: the simulated array is 1-D over the (marginalised, flattened) forecast -/
def binarySpatialSim (data : List (List α)) (sim : List Nat) : α := binaryLL ((spatialMarginal data).zip sim)
def binaryCLSim (data : List (List α)) (sim : List Nat) : α := binaryLL (data.flatten.zip sim)

/-! ### per-cell map `binary_spatial_likelihood` (poisson_evaluations.py:257-290) -/

/-- one cell: `(1 - X) * (-λ*scale) + X * log(1.0 - exp(-λ*scale))`, X = 1 iff the cell holds an event.
    Plain `α` arithmetic, no masking here (at Float: `0 * log 0 = nan` for an empty cell of rate 0). -/
def binaryCell (s r : α) (w : Nat) : α :=
  let x : α := if 0 < w then one else zero
  add (mul (sub one x) (mul (neg r) s)) (mul x (log (sub one (exp (mul (neg r) s)))))

/-- `scale = catalog.event_count / forecast.event_count`; cells are the spatial marginals -/
def binarySpatialMap (data : List (List α)) (cnt : List (List Nat)) : List α :=
  let s : α := div (ofNat cnt.flatten.sum) (RealOps.sum data.flatten)
  ((spatialMarginal data).zip (spatialMarginalN cnt)).map (fun p => binaryCell s p.1 p.2)

end BinaryBrier
