import PycsepVerif.Soft64
/-
  Model of csep/core/forecasts.py: `GriddedForecast.load_ascii` (:386-436), `get_rates` (:331-361),
  `MarkedGriddedDataSet.get_magnitude_index` (:217-241), `GriddedDataSet.data / sum / scale` (:66-152),
  `MarkedGriddedDataSet.spatial_counts / magnitude_counts` (:197-215), `GriddedForecast.scale_to_test_date` (:257-287).

  Exact layer: a file is a list of rows of rationals (every float64 that `numpy.loadtxt` produces is one).
  The region's point lookup (`CartesianGrid2D.get_index_of`, C01) and `bin1d_vec(..., right_continuous=True)` (C02) are
  modelled by their exact half-open meaning (lower edges included); the float bin formula and its round-off band
  are the subject of C01/C02 and of the band rule in the harness.
  Soft64 layer: the inferred cell size `dh` (one `fl64` of a decimal subtraction).
-/
namespace ForecastFile

/-- one line of a CSEP1 forecast file: `Lon_0 Lon_1 Lat_0 Lat_1 z_0 z_1 Mag_0 Mag_1 Rate Flag`
    (with `swap_latlon` the first four are `Lat_0 Lat_1 Lon_0 Lon_1`); `c0..c3` are the columns as written -/
structure Row where
  c0 : Rat
  c1 : Rat
  c2 : Rat
  c3 : Rat
  z0 : Rat
  z1 : Rat
  m0 : Rat
  m1 : Rat
  rate : Rat
  flag : Rat
  deriving DecidableEq, Repr

abbrev File := List Row

/-- `data[:, :4]` of one row -/
def Row.poly (r : Row) : Rat × Rat × Rat × Rat := (r.c0, r.c1, r.c2, r.c3)

/-- `numpy.sort(numpy.unique(x, return_index=True)[1])` then `x[sorted_idx]`:
    the distinct values in first-appearance order -/
def uniqFirst {α} [DecidableEq α] : List α → List α
  | [] => []
  | a :: l => a :: (uniqFirst l).filter (fun b => decide (b ≠ a))

/-- a spatial cell of the region: its half-open box and the file's flag (first row in which the cell appears) -/
structure Cell where
  lon0 : Rat
  lon1 : Rat
  lat0 : Rat
  lat1 : Rat
  flag : Rat
  deriving DecidableEq, Repr

/-- the `bboxes` list comprehension (forecasts.py:414-417): which raw columns are longitude / latitude -/
def mkCell (swap : Bool) (p : Rat × Rat × Rat × Rat) (flag : Rat) : Cell :=
  if swap then ⟨p.2.2.1, p.2.2.2, p.1, p.2.1, flag⟩ else ⟨p.1, p.2.1, p.2.2.1, p.2.2.2, flag⟩

/-- the loaded forecast object -/
structure Forecast where
  cells : List Cell        -- `region.polygons` with `poly_mask`, in first-appearance order
  dh : Rat                 -- `region.dh`
  mags : List Rat          -- `magnitudes`
  base : List Rat          -- `_data`, the rate column, read as shape (cells.length, mags.length) row-major
  scale : Rat              -- `_scale`
  deriving DecidableEq, Repr

/-- flag of the first row showing polygon `p` (`poly_mask = all_poly_mask[sorted_idx]`) -/
def firstFlag (f : File) (p : Rat × Rat × Rat × Rat) : Rat :=
  match f.find? (fun r => decide (r.poly = p)) with
  | some r => r.flag
  | none => 0

/-- the `reshape(n_poly, n_mag_bins)` succeeds (and the file is not empty) -/
def loadOk (f : File) : Bool :=
  !f.isEmpty && decide (f.length = (uniqFirst (f.map Row.poly)).length * (uniqFirst (f.map Row.m0)).length)

/-- the object `load_ascii` builds. `dLo dHi` are the decimal values of `repr(unique_poly[0,2])`,
    `repr(unique_poly[0,3])` (supplied by the harness, which checks they read back as the floats):
    `dh = float(Decimal(repr(hi)) - Decimal(repr(lo)))` -/
def build (swap : Bool) (dLo dHi : Rat) (f : File) : Forecast :=
  { cells := (uniqFirst (f.map Row.poly)).map (fun p => mkCell swap p (firstFlag f p))
    dh := Soft64.fl64 (dHi - dLo)
    mags := uniqFirst (f.map Row.m0)
    base := f.map Row.rate
    scale := 1 }

/-- `load_ascii`; `none` = the reshape raises (or the file is empty) -/
def load (swap : Bool) (dLo dHi : Rat) (f : File) : Option Forecast :=
  if loadOk f then some (build swap dLo dHi f) else none

/-- the point is in the half-open box of the cell, lower and left sides included -/
def Cell.contains (c : Cell) (lon lat : Rat) : Bool :=
  decide (c.lon0 ≤ lon) && decide (lon < c.lon1) && decide (c.lat0 ≤ lat) && decide (lat < c.lat1)

/-- `region.get_index_of`: index of the cell whose box contains the point; `none` (ValueError) when there is none
    or the cell's flag is not 1 (`bbox_mask == 1`) -/
def getIndexOf (cells : List Cell) (lon lat : Rat) : Option Nat :=
  match cells.findIdx? (fun c => c.contains lon lat) with
  | none => none
  | some i => match cells[i]? with
    | some c => if c.flag = 1 then some i else none
    | none => none

/-- `bin1d_vec(mags, magnitudes, right_continuous=True)` in its exact meaning: the last edge ≤ m; the top bin is
    open-ended; `none` (ValueError "mags outside the range") below the first edge -/
def getMagnitudeIndex (mags : List Rat) (m : Rat) : Option Nat :=
  let j := mags.findIdx (fun e => decide (m < e))     -- first edge above m (or the length)
  if j = 0 then none else some (j - 1)

/-- `self.data[idx, idm]` on the (cells, magnitudes) array stored row-major -/
def dataAt (F : Forecast) (i k : Nat) : Option Rat :=
  if k < F.mags.length then (F.base[i * F.mags.length + k]?).map (· * F.scale) else none

/-- `get_rates(lon, lat, mag)` for one point; `none` = ValueError -/
def getRates (F : Forecast) (lon lat m : Rat) : Option Rat :=
  match getIndexOf F.cells lon lat, getMagnitudeIndex F.mags m with
  | some i, some k => dataAt F i k
  | _, _ => none

/-- the `data` property: `_data * _scale` -/
def data (F : Forecast) : List Rat := F.base.map (· * F.scale)

/-- `sum()` / `event_count` -/
def total (F : Forecast) : Rat := (data F).sum

/-- rows of the (cells, magnitudes) array -/
def chunks {α} (m : Nat) : Nat → List α → List (List α)
  | 0, _ => []
  | n + 1, l => l.take m :: chunks m n (l.drop m)

def rowsOf (F : Forecast) : List (List Rat) := chunks F.mags.length F.cells.length (data F)

/-- `spatial_counts()` = `numpy.sum(data, axis=1)` -/
def spatialCounts (F : Forecast) : List Rat := (rowsOf F).map List.sum

/-- element-wise sum of two rows -/
def addRows : List Rat → List Rat → List Rat
  | a :: l, b :: r => (a + b) :: addRows l r
  | _, _ => []

/-- `magnitude_counts()` = `numpy.sum(data, axis=0)` -/
def magnitudeCounts (F : Forecast) : List Rat :=
  (rowsOf F).foldr addRows (List.replicate F.mags.length 0)

/-! ### scaling: a state machine -/

/-- `scale(val)`: `self._scale = val` -/
def scaleBy (F : Forecast) (v : Rat) : Forecast := { F with scale := v }

/-- one call of a scale history. `toTestDate none` is a test date outside (start, end): the call returns
    `self` unchanged (forecasts.py:272-276); `toTestDate (some q)` calls `self.scale(q)` with the decimal-year
    fraction `q` -/
inductive ScaleOp where
  | scale (v : Rat)
  | toTestDate (frac : Option Rat)
  deriving DecidableEq, Repr

def applyOp (F : Forecast) : ScaleOp → Forecast
  | .scale v => scaleBy F v
  | .toTestDate (some q) => scaleBy F q
  | .toTestDate none => F

def runOps (F : Forecast) (ops : List ScaleOp) : Forecast := ops.foldl applyOp F

/-- the factor a call puts in force, if any -/
def ScaleOp.factor? : ScaleOp → Option Rat
  | .scale v => some v
  | .toTestDate q => q

/-- the factor in force after a history that started at factor `s` -/
def lastFactor (s : Rat) (ops : List ScaleOp) : Rat := ops.foldl (fun acc o => (o.factor?).getD acc) s

/-! ### the bounding-box ("cartesian") layout of the spatial marginal -/

/-- the loop of `CartesianGrid2D._build_bitmask_vec` (regions.py:783-793) seen from one lattice node `p = (row, column)`:
    `a[idy[k], idx[k], 1] = k` (the last cell hashed to a node wins) and `a[idy[k], idx[k], 0] = 0` (mask open) when
    `poly_mask[k] == 1`. The state is (mask open?, `idx_map` entry). Which node a cell is hashed to (midpoint → `bin1d_vec`
    on the cleaned edge ranges) is C01's subject: the positions are inputs. -/
def hashLoop (p : Nat × Nat) : List (Cell × (Nat × Nat)) → Nat → Bool × Option Nat → Bool × Option Nat
  | [], _, st => st
  | (c, q) :: rest, k, st =>
    hashLoop p rest (k + 1) (if q = p then (st.1 || decide (c.flag = 1), some k) else st)

/-- the cell whose value `get_cartesian` shows at node (i, j): `idx_map[i, j]` when `bbox_mask[i, j] == 0`, else nothing -/
def cartIdx (cells : List Cell) (pos : List (Nat × Nat)) (i j : Nat) : Option Nat :=
  let st := hashLoop (i, j) (cells.zip pos) 0 (false, none)
  if st.1 then st.2 else none

/-- `region.get_cartesian(v)` (regions.py:657-674): `v[idx_map[i, j]]` where the mask is open, NaN (`none`) elsewhere;
    the array has one row per lattice latitude and one column per lattice longitude -/
def getCartesian (cells : List Cell) (pos : List (Nat × Nat)) (ny nx : Nat) (v : List Rat) : List (List (Option Rat)) :=
  (List.range ny).map (fun i => (List.range nx).map (fun j => (cartIdx cells pos i j).bind (fun k => v[k]?)))

/-- `spatial_counts(cartesian=True)` (forecasts.py:207-208): the map layout of `numpy.sum(self.data, axis=1)` -/
def spatialCountsCartesian (F : Forecast) (pos : List (Nat × Nat)) (ny nx : Nat) : List (List (Option Rat)) :=
  getCartesian F.cells pos ny nx (spatialCounts F)

/-- `numpy.nansum` of a map layout -/
def nansum (g : List (List (Option Rat))) : Rat := (g.map (fun r => (r.map (fun o => o.getD 0)).sum)).sum

/-! ### calls that only read the forecast, interleaved with the scale calls -/

/-- `target_event_rates(catalog, scale)` (forecasts.py:289-329): the rate of every target event and the total expected
    count, of `data` (`scale=False`, `days = none`) or of a COPY of `data` divided by the number of days of the forecast
    period (`scale=True`). Nothing is stored. -/
def targetEventRates (F : Forecast) (days : Option Rat) (pts : List (Rat × Rat × Rat)) : List (Option Rat) × Rat :=
  let d := days.getD 1
  (pts.map (fun p => (getRates F p.1 p.2.1 p.2.2).map (· / d)), total F / d)

/-- what the read-only calls are asked about: target events / lookup points, and the map layout of the region -/
structure Env where
  pts : List (Rat × Rat × Rat)
  pos : List (Nat × Nat)
  ny : Nat
  nx : Nat

inductive Read where
  | targetRates (days : Option Rat)   -- `target_event_rates(catalog, scale=days.isSome)`
  | rates                             -- `get_rates(lons, lats, mags)`
  | sum                               -- `sum()` / `event_count`
  | spatial                           -- `spatial_counts()`
  | spatialCartesian                  -- `spatial_counts(cartesian=True)`
  | magnitude                         -- `magnitude_counts()`
  | data                              -- the `data` property
  deriving DecidableEq, Repr

inductive Obs where
  | rates (r : List (Option Rat)) (total : Option Rat)
  | scalar (v : Rat)
  | vec (v : List Rat)
  | grid (g : List (List (Option Rat)))
  deriving DecidableEq, Repr

/-- the value a read-only call returns: a function of the stored rates and the factor in force, nothing else -/
def observe (E : Env) (F : Forecast) : Read → Obs
  | .targetRates days => let r := targetEventRates F days E.pts; .rates r.1 (some r.2)
  | .rates => .rates (E.pts.map (fun p => getRates F p.1 p.2.1 p.2.2)) none
  | .sum => .scalar (total F)
  | .spatial => .vec (spatialCounts F)
  | .spatialCartesian => .grid (spatialCountsCartesian F E.pos E.ny E.nx)
  | .magnitude => .vec (magnitudeCounts F)
  | .data => .vec (data F)

inductive Call where
  | write (o : ScaleOp)
  | read (r : Read)
  deriving DecidableEq, Repr

/-- one call of a history: `scale` / `scale_to_test_date` replace the factor, every other public method leaves the
    object as it is and returns its observation -/
def stepCall (E : Env) (st : Forecast × List Obs) : Call → Forecast × List Obs
  | .write o => (applyOp st.1 o, st.2)
  | .read r => (st.1, st.2 ++ [observe E st.1 r])

def runCalls (E : Env) (F : Forecast) (cs : List Call) : Forecast × List Obs := cs.foldl (stepCall E) (F, [])

/-- the scale calls of a history -/
def writesOf : List Call → List ScaleOp
  | [] => []
  | .write o :: cs => o :: writesOf cs
  | .read _ :: cs => writesOf cs

/-! ### the file as the caller sees it -/

def Row.swapCols (r : Row) : Row := { r with c0 := r.c2, c1 := r.c3, c2 := r.c0, c3 := r.c1 }

/-- (lon, lat, magnitude) is in the row's half-open space–magnitude box (file written without `swap_latlon`) -/
def Row.inBoxSpace (r : Row) (lon lat : Rat) : Prop := r.c0 ≤ lon ∧ lon < r.c1 ∧ r.c2 ≤ lat ∧ lat < r.c3
def Row.inBox (r : Row) (lon lat m : Rat) : Prop := r.inBoxSpace lon lat ∧ r.m0 ≤ m ∧ m < r.m1

/-- two half-open rectangles do not intersect -/
def disjointPoly (p q : Rat × Rat × Rat × Rat) : Prop :=
  p.2.1 ≤ q.1 ∨ q.2.1 ≤ p.1 ∨ p.2.2.2 ≤ q.2.2.1 ∨ q.2.2.2 ≤ p.2.2.1

instance (p q : Rat × Rat × Rat × Rat) : Decidable (disjointPoly p q) := by unfold disjointPoly; infer_instance

/-- the rows in row-major product order of (cells, magnitudes) -/
def product {α β} (xs : List α) (ys : List β) : List (α × β) := xs.flatMap (fun x => ys.map (fun y => (x, y)))

/-- Well-formed file (decidable):
    * non-empty; every cell contributes one contiguous block listing the same lower magnitude edges in the same
      order (the (cell, Mag_0) sequence is the row-major product of the distinct cells and the distinct edges);
    * the flag is constant inside a cell's block;
    * magnitude edges strictly increase, and a row's upper magnitude edge does not pass the next lower edge;
    * the cells' half-open rectangles are pairwise disjoint. -/
structure WellFormed (f : File) : Prop where
  nonempty : f ≠ []
  blocks : f.map (fun r => (r.poly, r.m0)) = product (uniqFirst (f.map Row.poly)) (uniqFirst (f.map Row.m0))
  flags : ∀ r ∈ f, r.flag = firstFlag f r.poly
  magsSorted : (uniqFirst (f.map Row.m0)).Pairwise (· < ·)
  magUpper : ∀ r ∈ f, ∀ e ∈ uniqFirst (f.map Row.m0), r.m0 < e → r.m1 ≤ e
  disjoint : (uniqFirst (f.map Row.poly)).Pairwise disjointPoly

instance (f : File) : Decidable (WellFormed f) :=
  if h1 : f ≠ [] then
    if h2 : f.map (fun r => (r.poly, r.m0)) = product (uniqFirst (f.map Row.poly)) (uniqFirst (f.map Row.m0)) then
      if h3 : ∀ r ∈ f, r.flag = firstFlag f r.poly then
        if h4 : (uniqFirst (f.map Row.m0)).Pairwise (· < ·) then
          if h5 : ∀ r ∈ f, ∀ e ∈ uniqFirst (f.map Row.m0), r.m0 < e → r.m1 ≤ e then
            if h6 : (uniqFirst (f.map Row.poly)).Pairwise disjointPoly then
              isTrue ⟨h1, h2, h3, h4, h5, h6⟩
            else isFalse (fun h => h6 h.disjoint)
          else isFalse (fun h => h5 h.magUpper)
        else isFalse (fun h => h4 h.magsSorted)
      else isFalse (fun h => h3 h.flags)
    else isFalse (fun h => h2 h.blocks)
  else isFalse (fun h => h1 h.nonempty)

end ForecastFile
