import PycsepVerif.Model.Time
/-
  Extension of the model of csep/utils/time_utils.py (property C15, wave 4): the parts of the anchored code that were
  outside `Model/Time.lean`.

  * time_utils.py:24-36   the `os.name == "nt" and epoch_time < 0` branch of `epoch_time_to_utc_datetime`
                          (string splitting of `str(float)`; returns a NAIVE datetime)            → `toDatetimeNt`
  * time_utils.py:19-20, 50-51, 189-190   `None` pass-through of the three converters           → `optMap`
  * time_utils.py:63-69   `millis_to_days`, `days_to_millis`                                      → `millisToDays`, `daysToMillis*`
  * time_utils.py:78-90   `timedelta_from_years`                                                  → `timedeltaFromYears`
  * time_utils.py:71-76, 92-110  `strptime_to_utc_epoch/datetime` with an EXPLICIT format         → `strptimeExplicit*`
  * time_utils.py:122-125 `create_utc_datetime`                                                   → `createUtcDatetime`
  * forecasts.py:559-560  `CatalogForecast.time_horizon_years`                                    → `timeHorizonYears`
  * catalogs.py:794-798   `CSEPCatalog.length_in_seconds`                                         → `lengthInSeconds`

  Import-free apart from Model/Time (Soft64): the native driver links it.
-/
namespace Time
open Soft64

/-! ## the Windows branch of `epoch_time_to_utc_datetime` (time_utils.py:24-36) -/

def d3 (n : Nat) : List Char := [digitChar (n / 100), digitChar (n / 10), digitChar n]

/-- remove trailing `'0'` characters -/
def stripZeros (s : List Char) : List Char := (s.reverse.dropWhile (fun c => c == '0')).reverse

/-- the digits after the decimal point of `str(ms / 1000)` for an integer `ms`, `f = |ms| % 1000`: the float
    `ms / 1000` is the double nearest to a decimal with three places, and `repr` prints the SHORTEST decimal that
    reads back as that double — the three places with trailing zeros removed, at least one digit kept
    (`-1.5`, `-0.001`, `-1.0`). Holds while half an ulp of `ms/1000` is below 0.0005, i.e. |ms| < 2^42·1000
    (trusted fact about `float.__repr__`; compared with the real `str(float)` through the correspondence). -/
def reprFrac (f : Nat) : List Char :=
  let s := stripZeros (d3 f)
  if s.isEmpty then ['0'] else s

/-- `int(s)` for a string of decimal digits (leading zeros allowed: `int("05") = 5`) -/
def intOfDigits (s : List Char) : Nat := s.foldl (fun acc c => acc * 10 + (digit? c).getD 0) 0

/-- `epoch_time_to_utc_datetime(ms)` when `os.name == "nt"` AS IT WAS before fix D39 (/repo 19a6b81) — kept as the
    model of the unrepaired code for the kernel-checked finding: (microseconds after the epoch, result is tz-aware).
    ```
    epoch_time = epoch_time_milli / 1000
    if os.name == "nt" and epoch_time < 0:
        whole, frac = str(epoch_time).split(".")       # isinstance(epoch_time, int) is never true: `/` gives a float
        sec = int(whole); milli_sec = int(frac) * -1
        dt = datetime.datetime(1970, 1, 1) + datetime.timedelta(seconds=sec, milliseconds=milli_sec)   # NAIVE
    else:
        dt = datetime.datetime.fromtimestamp(epoch_time, datetime.timezone.utc)
    ```
    `whole` is `'-'` followed by the digits of `|ms| // 1000` (`int("-0") = 0`), `frac` is `reprFrac (|ms| % 1000)`;
    integer `timedelta` arguments are exact. -/
def toDatetimeNtOld (ms : Int) : Int × Bool :=
  let t := msToSecF ms
  if t < 0 then
    let a := ms.natAbs
    let sec : Int := -((a / 1000 : Nat) : Int)
    let milli : Int := -((intOfDigits (reprFrac (a % 1000)) : Nat) : Int)
    (sec * 1000000 + milli * 1000, false)
  else (fromTimestamp t, true)

/-- the value of `timedelta(seconds=t)` in microseconds for a float `t` (CPython `delta_new` / `_pydatetime`):
    `frac, whole = modf(t)`, `round(frac * 1e6)` half-even. Used by the PROPOSED repair of the Windows branch
    `datetime(1970,1,1,tzinfo=utc) + timedelta(seconds=epoch_time)` and by `timedelta_from_years`. -/
def timedeltaSeconds (t : Rat) : Int :=
  let ip := truncR t
  ip * usPerSec + roundHalfEven (fmul (t - (ip : Rat)) 1000000)

/-- the repair of the Windows branch applied to every epoch (what fix D39 does for the negative ones) -/
def toDatetimeNtPatched (ms : Int) : Int × Bool := (timedeltaSeconds (msToSecF ms), true)

/-- `epoch_time_to_utc_datetime(ms)` when `os.name == "nt"`, as it is NOW (time_utils.py:24-30, after D39):
    ```
    if os.name == "nt" and epoch_time < 0:
        dt = datetime.datetime(1970, 1, 1, tzinfo=utc) + datetime.timedelta(seconds=epoch_time)
    else:
        dt = datetime.datetime.fromtimestamp(epoch_time, datetime.timezone.utc)
    ``` -/
def toDatetimeNt (ms : Int) : Int × Bool :=
  let t := msToSecF ms
  if t < 0 then (timedeltaSeconds t, true) else (fromTimestamp t, true)

/-! ## `None` pass-through (time_utils.py:19, 50, 189) -/

/-- `if x is None: return x` in front of a conversion -/
def optMap {α β : Type} (f : α → β) : Option α → Option β
  | none => none
  | some x => some (f x)

/-! ## days ↔ milliseconds (time_utils.py:63-69; SECONDS_PER_DAY = 86400, an int) -/

/-- `millis / SECONDS_PER_DAY / 1000` for an integer (or int64) `millis`: two true divisions -/
def millisToDays (ms : Int) : Rat := fdiv (fdiv (ms : Rat) 86400) 1000

/-- `days * SECONDS_PER_DAY * 1000` for a float `days`: two float products -/
def daysToMillisF (d : Rat) : Rat := fmul (fmul d 86400) 1000

/-- the same for an `int` number of days: exact integer arithmetic -/
def daysToMillisI (d : Int) : Int := d * 86400 * 1000

/-! ## `timedelta_from_years` (time_utils.py:78-90; SECONDS_PER_ASTRONOMICAL_YEAR = 31557600) -/

/-- `timedelta(seconds=31557600 * time_in_years)` in microseconds for a float argument; `none` = ValueError (negative) -/
def timedeltaFromYears (y : Rat) : Option Int :=
  if y < 0 then none else some (timedeltaSeconds (fmul 31557600 y))

/-! ## explicit format argument (time_utils.py:71-76, 92-110) -/

/-- `strptime_to_utc_datetime(s, format=fmt)` with `fmt` different from the default string: the sniffing is skipped,
    the given format is used as it is; a parsed `%z` offset is discarded by `.replace(tzinfo=utc)` -/
def strptimeExplicitDatetime (fmt : Format) (s : List Char) : Option Int := strptimeWith fmt s

/-- `strptime_to_utc_epoch(s, format=fmt)` -/
def strptimeExplicitEpoch (fmt : Format) (s : List Char) : Option Int := (strptimeWith fmt s).map dtToMs

/-- outcome of `create_utc_datetime` -/
inductive CreateOut where
  | ok (us : Int)          -- the same wall clock, labelled UTC
  | assertionError         -- `assert datetime.tzinfo is None` failed
  | attributeError         -- `datetime.timezone` looked up on the ARGUMENT
deriving DecidableEq, Repr

/-- `create_utc_datetime(datetime)` AS IT WAS before fix D38 (/repo 36eaa50; time_utils.py:122-125): the parameter is called `datetime` and shadows the
    module, so after the assertion `datetime.replace(tzinfo=datetime.timezone.utc)` evaluates `datetime.timezone` on the
    argument, a `datetime.datetime` instance, which has no such attribute: AttributeError for every naive argument. -/
def createUtcDatetimeOld (tz : Tz) (_us : Int) : CreateOut :=
  match tz with
  | .naive => .attributeError
  | _ => .assertionError

/-- what the docstring describes ("Creates TZAware UTC datetime object from unaware object") -/
def createUtcDatetimeFixed (tz : Tz) (us : Int) : CreateOut :=
  match tz with
  | .naive => .ok us
  | _ => .assertionError

/-- `create_utc_datetime(dt)` as it is NOW (after D38): `assert dt.tzinfo is None; return dt.replace(tzinfo=utc)` -/
def createUtcDatetime (tz : Tz) (us : Int) : CreateOut := createUtcDatetimeFixed tz us

/-! ## derived durations -/

/-- forecasts.py:560 `(self.end_epoch - self.start_epoch) / SECONDS_PER_ASTRONOMICAL_YEAR / 1000`
    (integer difference, two true divisions) -/
def timeHorizonYears (startUs endUs : Int) : Rat :=
  fdiv (fdiv ((dtToMs endUs - dtToMs startUs : Int) : Rat) 31557600) 1000

/-- catalogs.py:794 `(dts[-1] - dts[0]).total_seconds()` with `dts = get_datetimes()`:
    `timedelta.total_seconds()` is `(days*86400 + seconds)*10**6 + microseconds) / 10**6`, one true division -/
def lengthInSeconds (firstMs lastMs : Int) : Rat :=
  fdiv ((toDatetime lastMs - toDatetime firstMs : Int) : Rat) 1000000

end Time
