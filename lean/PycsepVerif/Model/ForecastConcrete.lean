import PycsepVerif.Model.FilterMct
import PycsepVerif.Model.ForecastIterX
/-!
  The catalogs of a `CatalogForecast` as ROWS (round 4 of C13): the abstraction `ForecastIter.Ev = (keep, cell)` that
  the harness used to supply is computed here from the rows by the model of the filter code itself (C04).

  * a raw catalog is a `CatFilter.Cat` (rows `(id, origin_time, latitude, longitude, depth, magnitude)`, its own filters / region);
  * the forecast's configuration `FCfg` = what `__next__` reads (forecasts.py:619-625): `apply_filters`, `filters`,
    `apply_mct` + the mainshock (as `CatFilter.Mct`), `filter_spatial`, the space-magnitude region;
  * `yieldOf` = the catalog `__next__` hands out = `CatFilter.nextFilter` (C04's model of the three in-place calls);
  * `keepC` = the conjunction of the configured predicates, `cellOf` = the flat space-magnitude bin of a row on the forecast's
    grid (`spaceIdx` × number of magnitude bins + `magIdx`; a row that lies in no bin gets the index `nBins`, which makes
    `ForecastIter.countable` false: `spatial_magnitude_counts` raises for it).

  The spatial lookup is the exact half-open cell test of `CatFilter.inCell` (C01/C02 own the floating-point lookup); the
  magnitude bin is the last left edge not above the magnitude (open-ended top bin, catalogs.py:789 `right_continuous=True`).
-/
namespace ForecastConcrete
open CatFilter

structure Grid where
  region : Region              -- cells in the region's index order
  magEdges : List Rat          -- left edges of the magnitude bins, increasing
  deriving Repr

def Grid.nMag (g : Grid) : Nat := g.magEdges.length
def Grid.nBins (g : Grid) : Nat := g.region.cells.length * g.magEdges.length

/-- index of the first cell that contains the point (`region.get_index_of`) -/
def spaceIdx (r : Region) (lon lat : Rat) : Option Nat := r.cells.findIdx? (fun c => inCell r.dh c lon lat)

/-- `bin1d_vec(mags, edges, right_continuous=True)`: number of edges not above the magnitude, minus one; `none` = below the first edge -/
def magIdx (edges : List Rat) (m : Rat) : Option Nat :=
  let k := (edges.takeWhile (fun x => decide (x ≤ m))).length
  if k = 0 then none else some (k - 1)

def cellOf (g : Grid) (e : Event) : Nat :=
  match spaceIdx g.region e.longitude e.latitude, magIdx g.magEdges e.magnitude with
  | some s, some m => s * g.nMag + m
  | _, _ => g.nBins

/-- what `CatalogForecast.__next__` reads of the forecast -/
structure FCfg where
  applyFilters : Bool
  filters : List RawStmt
  mct : Option Mct
  spatial : Bool
  grid : Grid

def FCfg.next (f : FCfg) : NextCfg := ⟨f.applyFilters, f.filters, f.mct, f.spatial, some f.grid.region⟩

/-- the catalog `__next__` yields for a stored / loaded catalog (forecasts.py:619-625; the region is given, so no exception) -/
def yieldOf (f : FCfg) (c : CatFilter.Cat) : CatFilter.Cat :=
  match nextFilter f.next c with
  | .ok c' => c'
  | .error _ => c

/-- survives every CONFIGURED filter -/
def keepC (f : FCfg) (e : Event) : Bool :=
  (f.filters.map RawStmt.parse).all (fun s => s.holds e)
    && (match f.mct with | none => true | some p => mctKeep p e)
    && (!f.spatial || !f.grid.region.masked e.longitude e.latitude)

def absEv (f : FCfg) (e : Event) : ForecastIter.Ev := { keep := keepC f e, cell := cellOf f.grid e }

/-- the abstract catalog of `Model/ForecastIter.lean` computed from the rows -/
def absCat (f : FCfg) (ic : Option Nat × CatFilter.Cat) : ForecastIter.Cat :=
  { id := ic.1, events := ic.2.events.map (absEv f) }

/-- the forecast objects of the three source kinds, on rows -/
def initListC (f : FCfg) (raws : List (Option Nat × CatFilter.Cat)) (nCat : Option Nat) : ForecastIter.St :=
  ForecastIter.initList (raws.map (absCat f)) nCat f.applyFilters f.grid.nBins f.grid.nMag

def initStreamC (f : FCfg) (raws : List (Option Nat × CatFilter.Cat)) (store : Bool) (nCat : Option Nat) : ForecastIter.St :=
  ForecastIter.initStreamN (raws.map (absCat f)) store f.applyFilters nCat f.grid.nBins f.grid.nMag

/-- the specification list in terms of the filter code: every raw catalog pushed ONCE through `__next__`'s filter stage -/
def yieldedOnce (f : FCfg) (raws : List (Option Nat × CatFilter.Cat)) : List ForecastIter.Cat :=
  raws.map (fun ic => absCat f (ic.1, yieldOf f ic.2))

end ForecastConcrete
