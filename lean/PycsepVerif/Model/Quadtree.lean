/-
  Model of the quadtree grid of csep/core/regions.py
    _create_tile (:912), _create_tile_fix_len (:967), quadtree_grid_bounds (:846),
    QuadtreeGrid2D.get_index_of (:1050) / _find_location (:1073) / get_cell_area (:1041) / get_bbox (:1177),
    from_catalog (:1206), from_single_resolution (:1251), from_quadkeys (:1282),
    geographical_area_from_bounds (:824)
  and of the part of `mercantile` they rely on (quadkey_to_tile, bounds).

  Exact layer, import-free.

  * A quadkey is a list of digits 0..3, most significant first.  mercantile.quadkey_to_tile: digit '1' sets the
    x bit, '2' the y bit, '3' both; so x-bit = d % 2, y-bit = d / 2, and y (the tile row) grows SOUTHWARD.
  * A tile (X, Y, z) is the dyadic square of the unit square with west edge X/2^z, east edge (X+1)/2^z,
    north edge Y/2^z, south edge (Y+1)/2^z (unit-square coordinate y = 0 is the northern latitude limit).
  * mercantile.bounds: west = X / 2^z * 360 - 180 (exact in binary64 for z ≤ 40), and the latitude of a
    horizontal edge is `latOf y`, y = Y/2^z, for the Web-Mercator function latOf y = deg(atan(sinh(π(1-2y)))),
    which is strictly decreasing in y.  It is kept ABSTRACT: the theorems only use that it is strictly antitone.
  * The library's membership test (`_create_tile`, `_find_location`)
        lon >= west ∧ lat >= south ∧ lon < east ∧ lat < north
    becomes, for lon = -180 + 360 x and lat = latOf y,
        X/2^z ≤ x < (X+1)/2^z   ∧   Y/2^z < y ≤ (Y+1)/2^z
    (south inclusive = larger y inclusive).  `InTile` is this predicate with the division cleared.
-/
namespace Quadtree

abbrev Digit := Fin 4
abbrev Key := List Digit

/-- a point of the unit square: x eastward (lon = -180 + 360 x), y southward (lat = latOf y) -/
structure Pt where
  x : Rat
  y : Rat
  deriving Repr, DecidableEq

def xbit (d : Digit) : Nat := d.val % 2
def ybit (d : Digit) : Nat := d.val / 2

/-- mercantile.quadkey_to_tile: column index -/
def tileX (k : Key) : Nat := k.foldl (fun a d => 2 * a + xbit d) 0
/-- mercantile.quadkey_to_tile: row index (0 = northernmost) -/
def tileY (k : Key) : Nat := k.foldl (fun a d => 2 * a + ybit d) 0

/-- 2^z as a rational, z = len(quadkey) -/
def scale (k : Key) : Rat := ((2 ^ k.length : Nat) : Rat)

/-- unit-square edges of a tile -/
def xW (k : Key) : Rat := (tileX k : Rat) / scale k
def xE (k : Key) : Rat := ((tileX k : Rat) + 1) / scale k
def yN (k : Key) : Rat := (tileY k : Rat) / scale k
def yS (k : Key) : Rat := ((tileY k : Rat) + 1) / scale k

/-- mercantile.bounds(...).west / .east : `xtile / Z2 * 360.0 - 180.0` -/
def lonOf (x : Rat) : Rat := x * 360 - 180
def lonW (k : Key) : Rat := lonOf (xW k)
def lonE (k : Key) : Rat := lonOf (xE k)

/-- half-open membership of regions.py:938 / :1079 in unit-square coordinates (division cleared):
    west ≤ x < east, north < y ≤ south -/
def InTile (k : Key) (p : Pt) : Prop :=
  (tileX k : Rat) ≤ p.x * scale k ∧ p.x * scale k < (tileX k : Rat) + 1 ∧
  (tileY k : Rat) < p.y * scale k ∧ p.y * scale k ≤ (tileY k : Rat) + 1

instance (k : Key) (p : Pt) : Decidable (InTile k p) := by unfold InTile; infer_instance

def inTile (k : Key) (p : Pt) : Bool := decide (InTile k p)

/-- `num_eqs = numpy.size(lat[eqs])` (regions.py:940) -/
def count (pts : List Pt) (k : Key) : Nat := pts.countP (inTile k)

def child (k : Key) (d : Digit) : Key := k ++ [d]

/-- `_create_tile(quadk, threshold, zoom, lon, lat, qk, num)` (regions.py:912): the list of (leaf quadkey, num_eqs)
    appended to `qk` / `num`, in order.  `fuel` bounds the recursion; the library's recursion stops because
    `len(quadk) < zoom` fails, so any fuel ≥ zoom − len(quadk) gives the library's result
    (`Quadtree.createTile_fuel` in Proofs). -/
def createTile (thr zoom : Nat) (pts : List Pt) : Nat → Key → List (Key × Nat)
  | 0, k => [(k, count pts k)]
  | fuel + 1, k =>
    if count pts k > thr ∧ k.length < zoom then
      createTile thr zoom pts fuel (child k 0) ++ createTile thr zoom pts fuel (child k 1) ++
      createTile thr zoom pts fuel (child k 2) ++ createTile thr zoom pts fuel (child k 3)
    else [(k, count pts k)]

/-- the quadkeys that were split (internal nodes), same recursion -/
def splitNodes (thr zoom : Nat) (pts : List Pt) : Nat → Key → List Key
  | 0, _ => []
  | fuel + 1, k =>
    if count pts k > thr ∧ k.length < zoom then
      k :: (splitNodes thr zoom pts fuel (child k 0) ++ splitNodes thr zoom pts fuel (child k 1) ++
            splitNodes thr zoom pts fuel (child k 2) ++ splitNodes thr zoom pts fuel (child k 3))
    else []

/-- `_create_tile_fix_len(quadk, zoom, qk)` (regions.py:967) -/
def fixLen (zoom : Nat) : Nat → Key → List Key
  | 0, k => [k]
  | fuel + 1, k =>
    if k.length < zoom then
      fixLen zoom fuel (child k 0) ++ fixLen zoom fuel (child k 1) ++
      fixLen zoom fuel (child k 2) ++ fixLen zoom fuel (child k 3)
    else [k]

/-- the four depth-1 tiles every grid starts from: '0','1','2','3' -/
def roots : List Key := [[0], [1], [2], [3]]

/-- QuadtreeGrid2D.from_catalog(catalog, threshold, zoom): leaf quadkeys with their event counts (:1232-1235) -/
def fromCatalog (thr zoom : Nat) (pts : List Pt) : List (Key × Nat) :=
  roots.flatMap (fun r => createTile thr zoom pts (zoom - 1) r)

/-- QuadtreeGrid2D.from_single_resolution(zoom) (:1265-1268) -/
def singleRes (zoom : Nat) : List Key :=
  roots.flatMap (fun r => fixLen zoom (zoom - 1) r)

/-- `_find_location` (:1073): index of the FIRST cell whose half-open bounds contain the point, `none` for the
    empty `numpy.where` result -/
def findLocation (cells : List Key) (p : Pt) : Option Nat := cells.findIdx? (fun k => inTile k p)

/-- `get_index_of` for array input (:1061-1066): found indices appended; points in no cell contribute nothing -/
def getIndexOf (cells : List Key) (ps : List Pt) : List Nat := ps.filterMap (findLocation cells)

/-- get_bbox (:1180) in unit-square terms: (min west, max east, max south edge y, min north edge y) -/
def bboxX (cells : List Key) : Option (Rat × Rat) :=
  match cells with
  | [] => none
  | c :: cs => some (cs.foldl (fun m k => if xW k < m then xW k else m) (xW c),
                     cs.foldl (fun m k => if m < xE k then xE k else m) (xE c))

/-- prefix-free key set: no key is a prefix of another listed key (checked pairwise, both directions) -/
def prefixFree (cells : List Key) : Prop := cells.Pairwise (fun a b => ¬ a <+: b ∧ ¬ b <+: a)

/-- geographical_area_from_bounds (:824) for a tile, with `s y = sin (latOf y)` abstract and c = 2πR²:
      strip = 2π(1 − cos(90° − south)) − 2π(1 − cos(90° − north)) = 2π (s(yN) − s(yS))
      area  = strip · R² / (360 / (east − west)) = c · (s(yN) − s(yS)) / 2^z                                   -/
def area {α : Type} [Sub α] [Mul α] [Div α] [NatCast α] (c : α) (s : Rat → α) (k : Key) : α :=
  c * (s (yN k) - s (yS k)) / ((2 ^ k.length : Nat) : α)

end Quadtree
