import PycsepVerif.Model.DecimalText
import PycsepVerif.Model.RegionBuild
import PycsepVerif.Model.RegionOps
/-
  `num_decimals` (the nested helper of csep/utils/calc.py:237-239 `cleaner_range`) INSIDE the model — properties C02 and C01.

      def num_decimals(x):
          return max(0, -decimal.Decimal(repr(float(x))).as_tuple().exponent)

  Until round 4 the number of decimals `repr` shows was an INPUT of `Bin1d.cleanerRangeF` / `Region.buildF`, computed by the
  harness with the code's own rule. Here it is computed from `DecimalText.reprValue` (the exact value of the shortest decimal
  that rounds to `x`, proved to read back: `repr_reads_back`):

    * `leastDec r`    the least d ≥ 0 with `r·10^d` an integer (the decimals of the positional / exponent form: `repr` strips
                      trailing zeros, so the exponent of `Decimal(repr(x))` is −d whenever d > 0);
    * `numDecimals x` CPython's `repr(float)` (`float_repr_style = 'short'`, format code `r`): positional notation with a
                      forced `.0` for integral values below 10^16 (→ exponent −1 → ONE decimal), exponent notation from 10^16
                      on (`1e+16`, `1.2345e+20`: exponent ≥ 0 → 0 decimals); below 10^-4 exponent notation (`1e-05`,
                      `1.5e-07`), whose Decimal exponent is again −(least d).
    * `cleanerRangeAuto`, `fromOriginsAuto`, `inferDhAuto`, `fromOriginsNoDh`, `maskedRegionAuto`, `globalRegionF`:
                      the code paths of C02 / C01 with NO decimal input left.
-/
namespace ReprDec
open Soft64 DecimalText

/-- the rational is an integer -/
def isIntQ (r : Rat) : Bool := r.den == 1

/-- search d, d+1, … for the first exponent with `r·10^d` integral; `fuel` steps -/
def leastDecAux : Nat → Nat → Rat → Nat
  | 0, d, _ => d
  | fuel + 1, d, r => if isIntQ (r * ((10 ^ d : Nat) : Rat)) then d else leastDecAux fuel (d + 1) r

/-- `num_decimals(x)` for a finite binary64 `x` (calc.py:237-239). The fuel `17 − ⌊log10|x|⌋` suffices because `repr` shows at
most 17 significant digits (`numDecimals_spec`). -/
def numDecimals (x : Rat) : Nat :=
  let d := leastDecAux ((16 - ilog10 (fabs x)).toNat + 1) 0 (reprValue x)
  if d = 0 then (if fabs x < ((10 ^ 16 : Nat) : Rat) then 1 else 0) else d

/-- `cleaner_range(start, end, h)` with nothing supplied from outside (calc.py:223-255, both paths) -/
def cleanerRangeAuto (start end_ h : Rat) : List Rat :=
  Region.cleanerRangeAll start end_ h (numDecimals start) (numDecimals h)

/-- HISTORICAL: `cleaner_range` before fix D49 -/
def cleanerRangeAutoOld (start end_ h : Rat) : List Rat :=
  Region.cleanerRangeAllOld start end_ h (numDecimals start) (numDecimals h)

/-- the three `num_decimals` values `_build_bitmask_vec` causes to be computed (regions.py:775-776) -/
def decsOf (origins : List (Rat × Rat)) (dh : Rat) : Nat × Nat × Nat :=
  (numDecimals (Region.minL (origins.map (·.1))), numDecimals (Region.minL (origins.map (·.2))), numDecimals dh)

/-- `CartesianGrid2D(polygons, dh, mask)` on vertex lists -/
def buildAuto (polys : List (List (Rat × Rat))) (dh : Rat) (flags : Option (List Bool)) : Region.BuiltF :=
  Region.buildF polys dh flags (decsOf (polys.map Region.polyOrigin) dh)

/-- `CartesianGrid2D.from_origins(origins, dh)` -/
def fromOriginsAuto (origins : List (Rat × Rat)) (dh : Rat) (flags : Option (List Bool)) : Region.BuiltF :=
  Region.fromOrigins origins dh flags (decsOf origins dh)

/-- regions.py:745-753: the spacing inferred from `repr` of the first two origins -/
def inferDhAuto (origins : List (Rat × Rat)) : Rat :=
  let a := origins.getD 0 (0, 0)
  let b := origins.getD 1 (0, 0)
  Region.inferDh (reprValue a.1, reprValue a.2) (reprValue b.1, reprValue b.2)

/-- `CartesianGrid2D.from_origins(origins)` (no `dh`) -/
def fromOriginsNoDh (origins : List (Rat × Rat)) (flags : Option (List Bool)) : Region.BuiltF :=
  fromOriginsAuto origins (inferDhAuto origins) flags

/-- `masked_region(region, polygon)` given `polygon.contains(midpoints)` -/
def maskedRegionAuto (polys : List (List (Rat × Rat))) (dh : Rat) (contains : List Bool) : Region.BuiltF :=
  buildAuto (Region.compress polys contains) dh none

/-- `itertools.product(lons, lats)` -/
def product (a b : List Rat) : List (Rat × Rat) := a.flatMap (fun x => b.map (fun y => (x, y)))

/-- regions.py:269-289 `global_region(dh)`: `cleaner_range(-180.0, 180.0, dh)[:-1]` × `cleaner_range(-90, 90.0, dh)[:-1]` as
origins of `compute_vertices(coords, dh)` -/
def globalOrigins (dh : Rat) : List (Rat × Rat) :=
  product (cleanerRangeAuto (-180) 180 dh).dropLast (cleanerRangeAuto (-90) 90 dh).dropLast

def globalRegionF (dh : Rat) : Region.BuiltF := fromOriginsAuto (globalOrigins dh) dh none

end ReprDec
