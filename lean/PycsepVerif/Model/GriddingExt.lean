import PycsepVerif.Model.Gridding
/-
  Model of the remaining gridding code paths of csep/core/regions.py, catalogs.py and forecasts.py (exact layer) —
  property C03 (helpers).

    QuadtreeGrid2D._get_spatial_counts            regions.py:1101  → `preFilter`, `qtSC`, `qtGetSpatialCounts`
    QuadtreeGrid2D._get_spatial_magnitude_counts  regions.py:1138  → `addAtPairs`, `qtSMC`, `qtGetSpatialMagnitudeCounts`
    QuadtreeGrid2D.get_bbox ([2], [3])            regions.py:1179  → `bboxS`, `bboxN`
    _bin_catalog_spatial_counts                   regions.py:516   → `binCatalogSpatialCounts`
    _bin_catalog_probability                      regions.py:543   → `binCatalogProbability`
    _bin_catalog_spatio_magnitude_counts          regions.py:481   → `binCatalogSMC`
    CSEPCatalog.get_mag_idx / get_spatial_idx     catalogs.py:394, :401 → `getMagIdx`, `getSpatialIdxCart`, `getSpatialIdxQuad`
    CSEPCatalog.to_dataframe (region_id, mag_id)  catalogs.py:386-390   → `dfColumnsCart`, `dfColumnsQuad`
    GriddedDataSet / MarkedGriddedDataSet.spatial_counts(cartesian=True)  forecasts.py:96, :208 → `griddedCartesian`, `markedCartesian`

  A catalog row is (longitude, latitude, magnitude).  The two quadtree helpers call `catalog.filter(...)` WITHOUT
  `in_place=False`, i.e. they filter the caller's catalog object IN PLACE; the model therefore returns the pair
  (result or exception, content of the catalog object afterwards).
  The helpers are written against `mag_bins` being a Python list (`mag_bins == []` raises for an ndarray, `None` reads the
  non-existent `catalog.magnitudes`); only `min(mag_bins)` (`minEdge`) and the bin lookup enter the model.
-/
namespace Gridding

/-- one catalog row: (longitude, latitude, magnitude) -/
abbrev Row := Rat × Rat × Rat
abbrev Row.lon (e : Row) : Rat := e.1
abbrev Row.lat (e : Row) : Rat := e.2.1
abbrev Row.mag (e : Row) : Rat := e.2.2

/-- exceptions that escape the quadtree helpers -/
inductive QErr where
  | emptyMin     -- ValueError: min() iterable argument is empty   (regions.py:1117 / :1123 on an empty catalog)
  | emptyIndex   -- AttributeError: 'list' object has no attribute 'astype'  (get_index_of of an empty array, :1067)
  | shape        -- IndexError: shape mismatch: indexing arrays could not be broadcast together  (numpy.add.at)
  | outside      -- ValueError("at least one lon and lat pair contain values that are outside of the valid region.")
                 --   (regions.py:1175-1176, fix D32)
deriving Repr, DecidableEq

/-- Python's builtin `min(first, *rest)` as the left fold it is -/
def minL : Rat → List Rat → Rat
  | m, [] => m
  | m, x :: xs => minL (if x < m then x else m) xs

/-- Python's builtin `max` -/
def maxL : Rat → List Rat → Rat
  | m, [] => m
  | m, x :: xs => maxL (if m < x then x else m) xs

/-- `get_bbox()[2] = min(self.bounds[:, 1])` (a region has at least one cell; 0 stands for the impossible empty case) -/
def bboxS (bounds : List (Rat × Rat × Rat × Rat)) : Rat :=
  match bounds.map (·.2.1) with
  | [] => 0
  | y :: ys => minL y ys

/-- `get_bbox()[3] = max(self.bounds[:, 3])` -/
def bboxN (bounds : List (Rat × Rat × Rat × Rat)) : Rat :=
  match bounds.map (·.2.2.2) with
  | [] => 0
  | y :: ys => maxL y ys

/-- regions.py:1117-1121: `if min(catalog.get_magnitudes()) < min(mag_bins): catalog.filter('magnitude >= ' + str(min(mag_bins)))`
    (only called on a non-empty catalog) -/
def magStage (minEdge : Rat) (evs : List Row) : List Row :=
  match evs.map Row.mag with
  | [] => evs
  | m :: ms => if minL m ms < minEdge then evs.filter (fun e => decide (minEdge ≤ e.mag)) else evs

/-- regions.py:1123-1127: `if min(lat) < bbox[2] or max(lat) > bbox[3]: filter('latitude < ' + str(bbox[3]));
    filter('latitude >= ' + str(bbox[2]))` — north strict, south inclusive (fix D33), as the cells' own edges -/
def latStage (S N : Rat) (evs : List Row) : List Row :=
  match evs.map Row.lat with
  | [] => evs
  | y :: ys =>
    if minL y ys < S ∨ N < maxL y ys then
      (evs.filter (fun e => decide (e.lat < N))).filter (fun e => decide (S ≤ e.lat))
    else evs

/-- regions.py:1114-1127 (identical in both helpers): exception or not, and the catalog object's content afterwards -/
def preFilter (minEdge S N : Rat) (evs : List Row) : Except QErr Unit × List Row :=
  if evs.isEmpty then (.error .emptyMin, evs)                 -- min(catalog.get_magnitudes()) of nothing
  else
    let e1 := magStage minEdge evs
    if e1.isEmpty then (.error .emptyMin, e1)                 -- min(catalog.get_latitudes()) of nothing
    else (.ok (), latStage S N e1)

/-- `_get_spatial_counts` (regions.py:1101-1136) with the cell lookup `locate` (= `_find_location`) abstract -/
def qtSC (ncell : Nat) (locate : Rat × Rat → Option Nat) (minEdge S N : Rat) (evs : List Row) :
    Except QErr (List Nat) × List Row :=
  match preFilter minEdge S N evs with
  | (.error e, c) => (.error e, c)
  | (.ok _, kept) =>
    if kept.isEmpty then (.error .emptyIndex, kept)           -- get_index_of([], []): `[].astype`
    else (.ok (addAt (zeros ncell) (getIndexOfQuad (kept.map fun e => locate (e.lon, e.lat)))), kept)

/-- `out[(i, k)] += 1` -/
def bumpPair (out : List (List Nat)) (q : Nat × Nat) : List (List Nat) := out.modify q.1 (fun rowv => bump rowv q.2)

/-- `numpy.add.at(out, (idx_loc, idx_mag), 1)` (regions.py:1175) with two 1-D integer index arrays: they are BROADCAST
    against each other (equal lengths: pairwise; a length-1 array is repeated), one increment per resulting pair,
    IndexError otherwise.  A magnitude index -1 (`none`) addresses the last column, as any negative numpy index.
    (Since D32 the helper only reaches it with arrays of equal length.) -/
def addAtPairs (out : List (List Nat)) (nbin : Nat) (iloc : List Nat) (imag : List (Option Nat)) :
    Except QErr (List (List Nat)) :=
  let col := fun (b : Option Nat) => b.getD (nbin - 1)
  if iloc.length = imag.length then .ok ((iloc.zip (imag.map col)).foldl bumpPair out)
  else if iloc.length = 1 then .ok ((imag.map fun b => (iloc.headD 0, col b)).foldl bumpPair out)
  else if imag.length = 1 then .ok ((iloc.map fun i => (i, col (imag.headD none))).foldl bumpPair out)
  else .error .shape

/-- `_get_spatial_magnitude_counts` (regions.py:1138-1181); `binOf` = `bin1d_vec(·, mag_bins, right_continuous=True)`;
    since fix D32 a catalog with a kept event in no cell is rejected before `numpy.add.at` (length check :1175) -/
def qtSMC (ncell nbin : Nat) (locate : Rat × Rat → Option Nat) (binOf : Rat → Option Nat) (minEdge S N : Rat)
    (evs : List Row) : Except QErr (List (List Nat)) × List Row :=
  match preFilter minEdge S N evs with
  | (.error e, c) => (.error e, c)
  | (.ok _, kept) =>
    if kept.isEmpty then (.error .emptyIndex, kept)
    else
      let idxLoc := getIndexOfQuad (kept.map fun e => locate (e.lon, e.lat))
      if idxLoc.length ≠ kept.length then (.error .outside, kept)                 -- :1175
      else (addAtPairs (List.replicate ncell (zeros nbin)) nbin idxLoc (kept.map fun e => binOf e.mag), kept)

/-- the two helpers on a concrete tile list -/
def qtGetSpatialCounts (bounds : List (Rat × Rat × Rat × Rat)) (minEdge : Rat) (evs : List Row) :=
  qtSC bounds.length (qtFind bounds) minEdge (bboxS bounds) (bboxN bounds) evs

def qtGetSpatialMagnitudeCounts (bounds : List (Rat × Rat × Rat × Rat)) (edges : List Rat) (minEdge : Rat)
    (evs : List Row) :=
  qtSMC bounds.length edges.length (qtFind bounds) (magBin edges) minEdge (bboxS bounds) (bboxN bounds) evs

/-! ### the `_bin_catalog_*` helpers of the Cartesian grid (called by nothing but the test-suite) -/

/-- bounding-box (row, column) of a point that is not `bad`:
    `bad = (idx == -1) | (idy == -1) | (mask[idy, idx] == 1)` (regions.py:534 / :559 / :505) -/
def goodSpot (R : Region.Region) (p : Rat × Rat) : Option (Nat × Nat) :=
  match R.col p.1, R.row p.2 with
  | some i, some j => if R.grid.masked j i then none else some (j, i)
  | _, _ => none

/-- `hash_idx = idx_map[idy[~bad], idx[~bad]].astype(int)` -/
def hashIdx (R : Region.Region) (pts : List (Rat × Rat)) : List Nat :=
  (pts.filterMap (goodSpot R)).map fun rc => (R.grid.idxAt rc.1 rc.2).getD 0

/-- `_bin_catalog_spatial_counts` (regions.py:516-541): `numpy.add.at(zeros(n_poly), hash_idx, 1)` -/
def binCatalogSpatialCounts (R : Region.Region) (npoly : Nat) (pts : List (Rat × Rat)) : List Nat :=
  addAt (zeros npoly) (hashIdx R pts)

/-- `_bin_catalog_probability` (regions.py:543-565): `event_counts[hash_idx] = 1` -/
def binCatalogProbability (R : Region.Region) (npoly : Nat) (pts : List (Rat × Rat)) : List Nat :=
  setAt (zeros npoly) (hashIdx R pts)

/-- one pass of the loop regions.py:504-512: the (polygon, magnitude bin) slot the event is counted in, `none` = skipped -/
def slot (R : Region.Region) (edges : List Rat) (e : Row) : Option (Nat × Nat) :=
  match goodSpot R (e.lon, e.lat), magBin edges e.mag with
  | some rc, some k => some ((R.grid.idxAt rc.1 rc.2).getD 0, k)
  | _, _ => none

/-- `_bin_catalog_spatio_magnitude_counts` (regions.py:481-514): the loop has two independent accumulators, the count
    array (`+= 1` per counted event) and the list `skipped` (appended in catalog order) -/
def binCatalogSMC (R : Region.Region) (npoly : Nat) (edges : List Rat) (evs : List Row) : List (List Nat) × List Row :=
  ((evs.filterMap (slot R edges)).foldl bumpPair (List.replicate npoly (zeros edges.length)),
   evs.filter fun e => (slot R edges e).isNone)

/-! ### index methods of the catalog and the two dataframe columns -/

/-- `get_mag_idx` (catalogs.py:394): `bin1d_vec(magnitudes, region.magnitudes, right_continuous=True)`; `none` = -1 -/
def getMagIdx (edges : List Rat) (evs : List Row) : List (Option Nat) := evs.map fun e => magBin edges e.mag

/-- `get_spatial_idx` (catalogs.py:401) with a Cartesian region -/
def getSpatialIdxCart (R : Region.Region) (evs : List Row) : Except Region.Outside (List Nat) :=
  R.getIndexOf (evs.map fun e => (e.lon, e.lat))

/-- `get_spatial_idx` with a quadtree region: unlocated events are dropped; an empty catalog raises (AttributeError inside
    `get_index_of`, re-raised as CSEPCatalogException by catalogs.py:405) -/
def getSpatialIdxQuad (bounds : List (Rat × Rat × Rat × Rat)) (evs : List Row) : Except QErr (List Nat) :=
  if evs.isEmpty then .error .emptyIndex
  else .ok (getIndexOfQuad (evs.map fun e => qtFind bounds (e.lon, e.lat)))

inductive DfErr where
  | outside      -- ValueError of the Cartesian get_index_of
  | length       -- ValueError of pandas: "Length of values (k) does not match length of index (n)"
  | emptyIndex   -- AttributeError of the quadtree get_index_of on an empty catalog
deriving Repr, DecidableEq

/-- `to_dataframe` (catalogs.py:386-390), Cartesian region: columns `region_id` and (when the region carries magnitude
    bins) `mag_id` -/
def dfColumnsCart (R : Region.Region) (edges : Option (List Rat)) (evs : List Row) :
    Except DfErr (List Nat × Option (List (Option Nat))) :=
  match getSpatialIdxCart R evs with
  | .error _ => .error .outside
  | .ok rid => .ok (rid, edges.map fun ed => getMagIdx ed evs)

/-- `to_dataframe`, quadtree region: assigning a shorter index array to the column makes pandas raise -/
def dfColumnsQuad (bounds : List (Rat × Rat × Rat × Rat)) (edges : Option (List Rat)) (evs : List Row) :
    Except DfErr (List Nat × Option (List (Option Nat))) :=
  match getSpatialIdxQuad bounds evs with
  | .error _ => .error .emptyIndex
  | .ok rid => if rid.length ≠ evs.length then .error .length else .ok (rid, edges.map fun ed => getMagIdx ed evs)

/-! ### gridded data sets on the bounding box -/

/-- `GriddedDataSet.spatial_counts(cartesian=True)` (forecasts.py:96): `region.get_cartesian(self.data)` -/
def griddedCartesian {α} (R : Region.Region) (data : List α) : List (List (Option α)) := R.getCartesian data

/-- `MarkedGriddedDataSet.spatial_counts(cartesian=True)` (forecasts.py:208):
    `region.get_cartesian(numpy.sum(self.data, axis=1))` -/
def markedCartesian (R : Region.Region) (data : List (List Rat)) : List (List (Option Rat)) :=
  R.getCartesian (data.map List.sum)

end Gridding
