import PycsepVerif.Model.Gridding
/-
  Model of the parts of the gridding methods of csep/core/catalogs.py that decide WHICH magnitude bins a call uses and
  what it leaves behind on the (shared) region object, and of the accumulation in
  `CatalogForecast.get_expected_rates` (csep/core/forecasts.py:703-726) — property C03.

    magnitude_counts(mag_bins, retbins)   catalogs.py:721-744   → `resolveMc`, `gcall (.mc …)`   (with fix D41, 0529988)
        mag_bins given                       → those bins, region untouched
        `getattr(self.region, 'magnitudes', None)` is not None → the bins bound to the region
        otherwise (no region / no attribute / None) → `CSEP_MW_BINS`, written onto the region object if there is one
                                               (`self.region.magnitudes = mag_bins`, `num_mag_bins = len(mag_bins)`)
        before D41 (`resolveMcD41`): `region.magnitudes is None` → TypeError of `len(None)`, `self.region is None` → AttributeError
        retbins=True                         → `(mag_bins, out)`
    spatial_magnitude_counts(mag_bins)    catalogs.py:767-775   → `resolveSmc`
        no region → CSEPCatalogException (:768); attribute missing → AttributeError (:770, before `mag_bins` is looked at);
        `magnitudes is None and mag_bins is None` → CSEPCatalogException (:771); user supplied bins are preferred (:774)
    get_mag_idx()                         catalogs.py:397-402   → `resolveIdx`
    spatial_counts / spatial_event_probability need a region only (:677-681, :692-696)

  A catalog is the list of its events after the spatial lookup, `(cell, magnitude)`; the magnitude lookup is done by the call,
  with the bins that call resolved (`magBin`, the exact meaning of `bin1d_vec(…, right_continuous=True)`).
  Exception CLASSES are collapsed to `value` (the ValueError the property speaks of: outside / below the minimum) and
  `config` (every exception caused by missing region / bins: CSEPCatalogException, AttributeError, TypeError, IndexError).
-/
namespace Gridding

/-- what a catalog sees of magnitude bins through `self.region` -/
inductive Bound where
  | noRegion                        -- `self.region is None`
  | absent                          -- the region object has no attribute `magnitudes`
  | unset                           -- `self.region.magnitudes is None`
  | bins (edges : List Rat)         -- `self.region.magnitudes = edges`
deriving Repr, DecidableEq

inductive CallErr where
  | value       -- ValueError: an event outside the region / below the lowest edge
  | config      -- no region / no bins to grid against
deriving Repr, DecidableEq

/-- bins used by `magnitude_counts` and the state of the region afterwards (catalogs.py:721-729, with fix D41) -/
def resolveMc (dflt : List Rat) : Option (List Rat) → Bound → List Rat × Bound
  | some e, b => (e, b)
  | none, .bins e => (e, .bins e)
  | none, .absent => (dflt, .bins dflt)          -- default bins installed on the region
  | none, .unset => (dflt, .bins dflt)           -- likewise (D41)
  | none, .noRegion => (dflt, .noRegion)         -- no region to write them to (D41)

/-- the code BEFORE fix D41 -/
def resolveMcD41 (dflt : List Rat) : Option (List Rat) → Bound → Except CallErr (List Rat × Bound)
  | some e, b => .ok (e, b)
  | none, .bins e => .ok (e, .bins e)
  | none, .absent => .ok (dflt, .bins dflt)
  | none, .unset => .error .config                -- `len(None)`
  | none, .noRegion => .error .config             -- `None.magnitudes = …` inside the handler

/-- bins used by `spatial_magnitude_counts` (catalogs.py:767-775); never changes the region -/
def resolveSmc : Option (List Rat) → Bound → Except CallErr (List Rat)
  | _, .noRegion => .error .config
  | _, .absent => .error .config                  -- `self.region.magnitudes` is evaluated first (:770)
  | some e, _ => .ok e
  | none, .unset => .error .config
  | none, .bins e => .ok e

/-- bins used by `get_mag_idx` (catalogs.py:399-402; `bin1d_vec(…, None)` raises) -/
def resolveIdx : Bound → Except CallErr (List Rat)
  | .bins e => .ok e
  | _ => .error .config

/-- one gridding call on a catalog object -/
inductive GCall where
  | mc (explicit : Option (List Rat)) (retbins : Bool)
  | smc (explicit : Option (List Rat))
  | midx
  | sc
  | sep
deriving Repr, DecidableEq

inductive GOut where
  | vec (v : List Nat)
  | vecBins (bins : List Rat) (v : List Nat)       -- `retbins=True`
  | mat (M : List (List Nat))
  | idx (l : List (Option Nat))
  | err (e : CallErr)
deriving Repr, DecidableEq

/-- events of a catalog after the spatial lookup: the cell (`none` = in no cell) and the magnitude -/
abbrev Located := List (Option Nat × Rat)

def toEvs (edges : List Rat) (evs : Located) : List Ev := evs.map (fun e => ⟨e.1, magBin edges e.2⟩)

def ofExcept {α} (f : α → GOut) : Except Err α → GOut
  | .ok a => f a
  | .error _ => .err .value

/-- One call. `quad` selects the lookup semantics of the region class (Cartesian raises on an outside point, quadtree
    drops it); `dflt` = `CSEP_MW_BINS`. Returns the result and the state of the region object afterwards. -/
def gcall (quad : Bool) (ncell : Nat) (dflt : List Rat) (evs : Located) (b : Bound) : GCall → GOut × Bound
  | .mc ex rb =>
    let (edges, b') := resolveMc dflt ex b
    let v := magnitudeCounts edges.length ((toEvs edges evs).map (·.bin))
    (if rb then .vecBins edges v else .vec v, b')
  | .smc ex =>
    match resolveSmc ex b with
    | .error e => (.err e, b)
    | .ok edges =>
      (ofExcept .mat (if quad then smcQuad ncell edges.length (toEvs edges evs) else smcCart ncell edges.length (toEvs edges evs)), b)
  | .midx =>
    match resolveIdx b with
    | .error e => (.err e, b)
    | .ok edges => (.idx (evs.map (fun e => magBin edges e.2)), b)
  | .sc =>
    if b = .noRegion then (.err .config, b)
    else if quad then (.vec (spatialCountsQuad ncell (evs.map (·.1))), b)
    else (ofExcept .vec (spatialCountsCart ncell (evs.map (·.1))), b)
  | .sep =>
    if b = .noRegion then (.err .config, b)
    else if quad then (.vec (spatialEventProbabilityQuad ncell (evs.map (·.1))), b)
    else (ofExcept .vec (spatialEventProbabilityCart ncell (evs.map (·.1))), b)

/-- a sequence of calls on ONE catalog object bound to ONE region object -/
def runCalls (quad : Bool) (ncell : Nat) (dflt : List Rat) (evs : Located) : Bound → List GCall → List GOut × Bound
  | b, [] => ([], b)
  | b, c :: cs =>
    let (o, b') := gcall quad ncell dflt evs b c
    let (os, b'') := runCalls quad ncell dflt evs b' cs
    (o :: os, b'')

/-! ### accumulation over the catalogs of a forecast (forecasts.py:709-726) -/

def addRows (a b : List Nat) : List Nat := List.zipWith (· + ·) a b
/-- `data += numpy.array(gridded_counts)` -/
def addMat (A B : List (List Nat)) : List (List Nat) := List.zipWith addRows A B

/-- the loop `for i, cat in enumerate(self): gridded_counts = cat.spatial_magnitude_counts(); data (+)= …`:
    the first catalog that cannot be gridded aborts the computation with its ValueError -/
def accumulate (quad : Bool) (ncell nbin : Nat) : List (List Ev) → List (List Nat) → Except Err (List (List Nat))
  | [], acc => .ok acc
  | c :: cs, acc =>
    match (if quad then smcQuad ncell nbin c else smcCart ncell nbin c) with
    | .error e => .error e
    | .ok M => accumulate quad ncell nbin cs (addMat acc M)

/-- summed space-magnitude counts of the catalogs `c :: cs` of a forecast (`data` before `data / self.n_cat`):
    `if i == 0: data = numpy.array(gridded_counts) else: data += …` (a forecast always yields at least one catalog) -/
def expectedCounts (quad : Bool) (ncell nbin : Nat) (c : List Ev) (cs : List (List Ev)) : Except Err (List (List Nat)) :=
  match (if quad then smcQuad ncell nbin c else smcCart ncell nbin c) with
  | .error e => .error e
  | .ok M => accumulate quad ncell nbin cs M

end Gridding
