import PycsepVerif.Model.Gridding
import PycsepVerif.Model.Quadtree
/-
  Gridding a catalog ON a quadtree grid that the library itself built (properties C03 and C17 together).

  Until now C03's quadtree gridding took the tile bounds as four arbitrary rationals per cell
  (`Gridding.qtFind bounds p`), C17's grids were lists of quadkeys (`Quadtree.findLocation cells p`), and nothing
  said that the first is the second on the bounds of the second.  This file composes the two models:

    region = QuadtreeGrid2D.from_catalog(cat, thr, zoom)     regions.py:1236   → `Quadtree.fromCatalog`
    region = QuadtreeGrid2D.from_single_resolution(z)        regions.py:1281   → `Quadtree.singleRes`
    region = QuadtreeGrid2D.from_quadkeys(keys)              regions.py:1312   → a key list
    region.bounds = quadtree_grid_bounds(keys)               regions.py:851    → `unitBounds` per key
    cat2.region = region
    cat2.spatial_counts()                                    catalogs.py:670   → `spatialCountsOn`
    cat2.spatial_event_probability()                         catalogs.py:694   → `probabilityOn`
    cat2.spatial_magnitude_counts(mag_bins)                  catalogs.py:750   → `smcOn`
    cat2.get_spatial_idx()                                   catalogs.py:404   → `Quadtree.getIndexOf`

  Coordinates: C17's unit square (x eastward, y SOUTHWARD).  C03's `qtFind` tests `west ≤ lon ∧ south ≤ lat ∧ lon < east ∧
  lat < north` on numbers that grow northward; `unitBounds` / `unitPoint` use v = 1 − y for that.
-/
namespace QuadGridding
open Quadtree Gridding

/-- one row of `region.bounds` (west, south, east, north) in unit coordinates with the second axis northward (v = 1 − y) -/
def unitBounds (k : Key) : Rat × Rat × Rat × Rat := (xW k, 1 - yS k, xE k, 1 - yN k)

/-- the same change of coordinate for a point -/
def unitPoint (p : Pt) : Rat × Rat := (p.x, 1 - p.y)

/-- `catalog.spatial_counts()` with `catalog.region` a quadtree grid with these quadkeys -/
def spatialCountsOn (cells : List Key) (ps : List Pt) : List Nat :=
  spatialCountsQuad cells.length (ps.map (findLocation cells))

/-- `catalog.spatial_event_probability()` on the same grid -/
def probabilityOn (cells : List Key) (ps : List Pt) : List Nat :=
  spatialEventProbabilityQuad cells.length (ps.map (findLocation cells))

/-- events after both lookups: cell by `_find_location`, bin by the exact meaning of `bin1d_vec(…, right_continuous=True)` -/
def evsOn (cells : List Key) (edges : List Rat) (evs : List (Pt × Rat)) : List Ev :=
  evs.map (fun e => ⟨findLocation cells e.1, magBin edges e.2⟩)

/-- `catalog.spatial_magnitude_counts(mag_bins=edges)` on the grid -/
def smcOn (cells : List Key) (edges : List Rat) (evs : List (Pt × Rat)) : Except Err (List (List Nat)) :=
  smcQuad cells.length edges.length (evsOn cells edges evs)

/-- `r = QuadtreeGrid2D.from_catalog(cat, thr, zoom); cat.region = r; (r.quadkeys, num of _create_tile, cat.spatial_counts())` -/
def fromCatalogThenCount (thr zoom : Nat) (pts : List Pt) : List Key × List Nat × List Nat :=
  let leaves := fromCatalog thr zoom pts
  (leaves.map Prod.fst, leaves.map Prod.snd, spatialCountsOn (leaves.map Prod.fst) pts)

/-- the covered domain: longitude [−180, 180), y ∈ (0, 1] (Web-Mercator latitudes [−85.05…, 85.05…)) -/
def inDomain (p : Pt) : Bool := decide (InTile [] p)

end QuadGridding
