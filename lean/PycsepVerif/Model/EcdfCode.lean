import PycsepVerif.Model.EcdfNumpy

/-!
  Third layer of the model of csep/utils/stats.py `ecdf` / `greater_equal_ecdf` / `less_equal_ecdf` / `binned_ecdf`
  (:55-138): the code statement by statement ON THE ARRAYS IT BUILDS, instead of the closed forms of `Model/Ecdf.lean`.

  * `ecdf(x)` returns two arrays: `numpy.sort(x)` and `numpy.arange(1, n+1) / float(n)` (:81-83) — `ecdfArr`;
  * `eyc = ey[::-1]` is the reversed ARRAY, `eyc[i]`, `ey[i - 1]`, `ex[-1]`, `ex[0]` are Python subscripts (negative
    subscripts count from the end, a subscript outside `-n .. n-1` raises IndexError) — `pyIndex`;
  * the optional argument `cdf=` (:85, :114; `if not cdf: ex, ey = ecdf(x) else: ex, ey = cdf`): when it is given the
    sample `x` is used for the emptiness test only — `geCode x v (some cdf)`; `binned_ecdf` (:55-68) computes `ecdf(x)`
    ONCE and hands it to every `less_equal_ecdf` call — `binnedCode`;
  * `numpy.searchsorted` is numpy's binary search (numpy/_core/src/npysort/binsearch.cpp, one key):
    `min = 0; max = n; while (min < max) { mid = min + ((max - min) >> 1); if (arr[mid] < key) min = mid + 1; else max = mid; }`
    (`<=` for side='right') — `bsearch`; that it returns the insertion point on a sorted array is PROVED
    (`Properties/C09_Code.lean`), no longer taken from numpy's documentation;
  * the query is a float64 VALUE: finite, `+inf`, `-inf` or `nan` (`Q`); comparisons with `nan` are false, numpy's sort
    order (used by searchsorted) puts `nan` after every number.

  Values: a probability is the rational `k / n` (the float returned is `probF k n`, `Model/EcdfNumpy.lean`).
-/
namespace Ecdf

/-- a float64 query value -/
inductive Q where
  | negInf | fin (q : Rat) | posInf | nan
  deriving DecidableEq, Repr

/-- `val > e` for a finite array element `e` (IEEE: false with nan) -/
def Q.gtElem : Q → Rat → Bool
  | .negInf, _ => false
  | .fin q, e => decide (e < q)
  | .posInf, _ => true
  | .nan, _ => false

/-- `val < e` -/
def Q.ltElem : Q → Rat → Bool
  | .negInf, _ => true
  | .fin q, e => decide (q < e)
  | .posInf, _ => false
  | .nan, _ => false

/-- `e < key` in the order numpy's sort / searchsorted use (nan is the largest): side='left' -/
def Q.elemLt : Q → Rat → Bool
  | .negInf, _ => false
  | .fin q, e => decide (e < q)
  | .posInf, _ => true
  | .nan, _ => true

/-- `e <= key` in that order: side='right' -/
def Q.elemLe : Q → Rat → Bool
  | .negInf, _ => false
  | .fin q, e => decide (e ≤ q)
  | .posInf, _ => true
  | .nan, _ => true

/-- numpy's binary search for one key on `a[lo:hi]`; `p e` is `e < key` (left) or `e <= key` (right) -/
def bsearch (p : Rat → Bool) (a : List Rat) (lo hi : Nat) : Nat :=
  if lo < hi then
    let mid := lo + (hi - lo) / 2
    if p (a.getD mid 0) then bsearch p a (mid + 1) hi else bsearch p a lo mid
  else lo
termination_by hi - lo
decreasing_by all_goals omega

/-- Python subscript `a[i]`: `none` = IndexError -/
def pyIndex {β : Type} (a : List β) (i : Int) : Option β :=
  if 0 ≤ i then a[i.toNat]?
  else if i + (a.length : Int) < 0 then none
  else a[(i + (a.length : Int)).toNat]?

/-- `ys = numpy.arange(1, len(x) + 1) / float(len(x))` (:82) -/
def eyArr (n : Nat) : List Rat := (List.range n).map fun i => ((i + 1 : Nat) : Rat) / ((n : Nat) : Rat)

/-- `ecdf(x) = (numpy.sort(x), ys)` (:81-83) -/
def ecdfArr (x : List Rat) : List Rat × List Rat := (sort x, eyArr x.length)

/-- what a call returns -/
inductive Out where
  | none                -- Python `None`
  | val (p : Rat)       -- a probability
  | indexError
  deriving DecidableEq, Repr

/-- `greater_equal_ecdf(x, val, cdf)` (:85-111) -/
def geCode (x : List Rat) (v : Q) (cdf : Option (List Rat × List Rat)) : Out :=
  if x.length = 0 then .none                                     -- `if x.shape[0] == 0: return None`
  else
    let c := match cdf with                                      -- `if not cdf: ex, ey = ecdf(x) else: ex, ey = cdf`
      | some c => c
      | none => ecdfArr x
    let ex := c.1
    let eyc := c.2.reverse                                       -- `eyc = ey[::-1]`
    match pyIndex ex (-1) with                                   -- `ex[-1]`
    | none => .indexError
    | some last =>
      if v.gtElem last then .val 0                               -- `if val > ex[-1]: return 0.0`
      else match pyIndex ex 0 with                               -- `ex[0]`
        | none => .indexError
        | some e0 =>
          if v.ltElem e0 then .val 1                             -- `if val < ex[0]: return 1.0`
          else match pyIndex eyc (bsearch v.elemLt ex 0 ex.length) with   -- `eyc[numpy.searchsorted(ex, val)]`
            | some p => .val p
            | none => .indexError

/-- `less_equal_ecdf(x, val, cdf)` (:114-138) -/
def leCode (x : List Rat) (v : Q) (cdf : Option (List Rat × List Rat)) : Out :=
  if x.length = 0 then .none
  else
    let c := match cdf with
      | some c => c
      | none => ecdfArr x
    let ex := c.1
    let ey := c.2
    match pyIndex ex (-1) with
    | none => .indexError
    | some last =>
      if v.gtElem last then .val 1                               -- `if val > ex[-1]: return 1.0`
      else match pyIndex ex 0 with
        | none => .indexError
        | some e0 =>
          if v.ltElem e0 then .val 0                             -- `if val < ex[0]: return 0.0`
          else                                                   -- `ey[numpy.searchsorted(ex, val, side='right') - 1]`
            match pyIndex ey ((bsearch v.elemLe ex 0 ex.length : Nat) - 1 : Int) with
            | some p => .val p
            | none => .indexError

/-- `get_quantiles(sim_counts, obs_count)` (:158-164) -/
def quantilesCode (x : List Rat) (v : Q) : Out × Out := (geCode x v none, leCode x v none)

/-- `binned_ecdf(x, vals)` (:55-68): `None` for an empty sample, otherwise `ecdf(x)` is computed once and every
    `less_equal_ecdf(x, val, cdf=(ex, ey))` reads it -/
def binnedCode (x : List Rat) (vals : List Q) : Option (List Out) :=
  if x.length = 0 then none
  else
    let cdf := ecdfArr x
    some (vals.map fun v => leCode x v (some cdf))

end Ecdf
