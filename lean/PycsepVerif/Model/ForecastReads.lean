import PycsepVerif.Model.ForecastIter
/-!
  Reads of the expected-rates object of a `CatalogForecast` in ALL their argument forms (round 5 of C13, seeded change C13_10).

  `forecast.get_expected_rates()` returns (and caches) a `GriddedForecast`; `forecast.spatial_counts(cartesian=…)`,
  `forecast.magnitude_counts()` (forecasts.py:648-658), `expected_rates.data`, `.sum()` / `.event_count`,
  `.spatial_counts(cartesian=…)`, `.magnitude_counts()` (forecasts.py:78-123, :197-216) are all VIEWS of that one matrix:
  none of them writes anything.  `cartesian=True` lays the per-cell vector out on the bounding box of the region
  (`region.get_cartesian`): `layout` lists, for every position of the flattened 2-d map, the cell that sits there (`none` = no
  cell: NaN).  The model says what each read returns as a function of the cached matrix — so a read can never change what a
  later read (or an evaluation, which reads `expected_rates.spatial_counts()` itself) sees.
-/
namespace ForecastIter

inductive Read where
  | data                 -- `expected_rates.data` (cells × magnitude bins, flattened)
  | spatial              -- `spatial_counts()` / `spatial_counts(cartesian=False)`
  | spatialCartesian     -- `spatial_counts(cartesian=True)`
  | magnitude            -- `magnitude_counts()`
  | total                -- `expected_rates.sum()` / `.event_count`
  deriving Repr, DecidableEq

/-- what a read shows of the matrix `data` (numerators; every entry is divided by the same `n_cat`); `none` = NaN -/
def readView (layout : List (Option Nat)) (nMag nBins : Nat) : Read → List Nat → List (Option Nat)
  | .data, d => d.map some
  | .spatial, d => (spatialMarginal nMag nBins d).map some
  | .spatialCartesian, d => layout.map (fun p => p.bind (fun c => (spatialMarginal nMag nBins d)[c]?))
  | .magnitude, d => (magMarginal nMag d).map some
  | .total, d => [some d.sum]

inductive OpR where
  | op (o : Op)
  | read (r : Read)
  deriving Repr, DecidableEq

inductive OutR where
  | out (o : Out)
  | view (v : List (Option Nat)) (n : Nat)
  deriving Repr, DecidableEq

/-- a read: `if self.expected_rates is None: self.get_expected_rates()`, then a pure view of the cached object -/
def stepR (layout : List (Option Nat)) (st : St) : OpR → St × OutR
  | .op o => let r := step st o; (r.1, .out r.2)
  | .read r =>
    match getExpectedRates st with
    | some (st', (d, n)) => (st', .view (readView layout st.nMag st.nBins r d) n)
    | none => (st, .out .error)

def runR (layout : List (Option Nat)) : St → List OpR → List (OutR × Option Nat)
  | _, [] => []
  | st, o :: os => let r := stepR layout st o; (r.2, r.1.nCat) :: runR layout r.1 os

/-- specification: every read is the view of the totals of the once-filtered catalogs -/
def specOutR (layout : List (Option Nat)) (filtered : List Cat) (nBins nMag : Nat) : OpR → OutR
  | .op o => .out (specOut filtered nBins nMag o)
  | .read r => .view (readView layout nMag nBins r (totals nBins filtered)) filtered.length

def specR (layout : List (Option Nat)) (filtered : List Cat) (nBins nMag : Nat) (ops : List OpR) : List (OutR × Option Nat) :=
  ops.map (fun o => (specOutR layout filtered nBins nMag o, some filtered.length))

end ForecastIter
