import PycsepVerif.Soft64
/-
  Model of csep/utils/calc.py: `_get_tolerance` (:56), `bin1d_vec` (:66-124, including the upward
  correction against the real next edge added by fix 83fbe87), `cleaner_range` (:221-252, main path of fix
  3f1a0e6) and csep/core/regions.py:290 `magnitude_bins` (= cleaner_range).

  Exact layer : `binIdeal`, `binIdealClosed`, `binReg`, the documented round-off band `bandWidth`, `allowed`.
  Soft64 layer: `bin1dCore` / `bin1dF` — the float formula transcribed operation by operation, with numpy's
  (NEP 50) dtype promotion for float64 / float32 / int64 points and edges and the `tol` override;
  `arangeF`, `cleanerRangeF`.

  Every float / integer is the rational it denotes. NaN, ±inf, int64 wrap-around and |ints| ≥ 2^53 are not
  modelled (the harness never sends them to the model).
-/
namespace Bin1d
open Soft64

/-! ## exact layer -/

/-- number of edges ≤ v, minus one: for strictly increasing edges this is the largest k with
`edges[k] ≤ v`, and −1 when v is below the first edge (theorem `binIdeal_eq_iff`). This is the open-topped
ideal: every v at or above the last edge gets the last index. -/
def binIdeal (edges : List Rat) (v : Rat) : Int :=
  ((edges.countP (fun e => decide (e ≤ v)) : Nat) : Int) - 1

/-- closed mode: the last bin is `[last, top)`; at or beyond `top` → −1 -/
def binIdealClosed (edges : List Rat) (top : Rat) (v : Rat) : Int :=
  if top ≤ v then -1 else binIdeal edges v

/-- the exactly regular grid `a0 + k·h`, k = 0..n-1 (n left edges); `rc` = open-topped -/
def binReg (a0 h : Rat) (n : Nat) (rc : Bool) (v : Rat) : Int :=
  let k := ((v - a0) / h).floor
  if k < 0 then -1
  else if rc then (if k ≥ (n : Int) - 1 then (n : Int) - 1 else k)
  else (if k ≥ (n : Int) then -1 else k)

/-- the edges of an exactly regular grid -/
def regEdges (a0 h : Rat) (n : Nat) : List Rat := (List.range n).map (fun (k : Nat) => a0 + ((k : Nat) : Rat) * h)

/-! ## dtypes (numpy ≥ 2 promotion rules, NEP 50) -/

inductive DT where
  | f64 | f32 | i64
  deriving DecidableEq, Repr

/-- rounding of an exact result into the dtype (integers: exact, wrap-around not modelled) -/
def DT.rnd : DT → Rat → Rat
  | .f64 => fl64
  | .f32 => fl32
  | .i64 => id

/-- `numpy.finfo(dtype).eps`; 0 stands for "`_get_tolerance` returns the Python int 0" -/
def DT.eps : DT → Rat
  | .f64 => eps64
  | .f32 => eps32
  | .i64 => 0

/-- unit roundoff used by the documented band -/
def DT.u : DT → Rat
  | .f64 => pow2 (-53)
  | .f32 => pow2 (-24)
  | .i64 => 0

/-- numpy.result_type of `a ± b` for two numpy-typed operands:
f32,f32 → f32; i64,i64 → i64; anything else (incl. i64 with f32) → f64 -/
def DT.promote : DT → DT → DT
  | .f32, .f32 => .f32
  | .i64, .i64 => .i64
  | _, _ => .f64

/-- calc.py:56 `_get_tolerance(v)`: `abs(v) * finfo(dtype).eps` computed in v's dtype, Python `0` for ints -/
def getTol (d : DT) (v : Rat) : Rat := d.rnd (fabs v * d.eps)

structure Cfg where
  pd : DT            -- dtype of the points
  bd : DT            -- dtype of the edges
  tol : Option Rat   -- `tol=` argument (a Python float); `none`/`some 0` → `_get_tolerance(p)` (`tol or …`)
  rc : Bool          -- right_continuous
  deriving Repr

/-- calc.py:102-106: `h = 1.` for a single edge, else `bins[1] - bins[0]` in the edges' dtype -/
def hOf (bd : DT) (n : Nat) (edge : Nat → Rat) : Rat :=
  if n == 1 then 1 else bd.rnd (edge 1 - edge 0)

/-- calc.py:116 denominator `h - h_tol` (`h_tol = a0_tol`), in the edges' dtype
(for a single int edge it is the Python float 1.0) -/
def denOf (bd : DT) (n : Nat) (edge : Nat → Rat) : Rat :=
  let at_ := getTol bd (edge 0)
  if n == 1 then (if bd = .i64 then 1 else bd.rnd (1 - at_))
  else bd.rnd (hOf bd n edge - at_)

/-- calc.py:116 the quotient before `floor`, with the dtype it is computed in -/
def quotF (c : Cfg) (n : Nat) (edge : Nat → Rat) (p : Rat) : DT × Rat :=
  let a0 := edge 0
  let at_ := getTol c.bd a0                       -- a0_tol
  let d1 := c.pd.promote c.bd
  let t1 := d1.rnd (p - a0)                       -- p - a0
  let useTol : Option Rat := match c.tol with
    | some t => if t = 0 then none else some t
    | none => none
  let (d2, t2) : DT × Rat := match useTol with    -- + p_tol
    | some t =>                                   -- Python float: weak scalar, cast to the array's float dtype
        let d := if d1 = .i64 then DT.f64 else d1
        (d, d.rnd (t1 + d.rnd t))
    | none => (d1, d1.rnd (t1 + getTol c.pd p))
  let t3 := d2.rnd (t2 + at_)                     -- + a0_tol
  let den := denOf c.bd n edge
  let dq := if d2 = .i64 then DT.f64 else d2      -- true division
  (dq, dq.rnd (t3 / den))

/-- clip an integer-valued float to 0..n-1 (calc.py:123 `numpy.clip(..., 0, bins.size - 1).astype(int64)`) -/
def clipIdx (x : Rat) (n : Nat) : Nat :=
  let i := x.floor
  if i < 0 then 0 else if i ≥ (n : Int) - 1 then n - 1 else i.toNat

/-- calc.py:126 `bins[-1] + h`: the upper edge of the last bin, a float add in the edges' dtype -/
def topOf (bd : DT) (n : Nat) (edge : Nat → Rat) : Rat :=
  bd.rnd (edge (n - 1) + hOf bd n edge)

/-- the two corrections against real edges (calc.py:120-126) on the float index `idx`; `rnd` rounds `idx + 1`
into the dtype of `idx`: upward by one when `p` reaches the next edge, and to `bins.size` when `p` reaches
`top = bins[-1] + h`. -/
def corrWith (rnd : Rat → Rat) (n : Nat) (edge : Nat → Rat) (top p : Rat) (idx : Rat) : Rat :=
  let idx1 := rnd (idx + 1)
  let nextEdge := edge (clipIdx idx1 n)
  let idx' := if 0 ≤ idx ∧ idx1 < (n : Rat) ∧ nextEdge ≤ p then idx1 else idx
  if idx' = ((n : Rat) - 1) ∧ top ≤ p then (n : Rat) else idx'

/-- `idx` after `floor` and after the corrections (calc.py:116-126), still a float -/
def corrIdx (c : Cfg) (n : Nat) (edge : Nat → Rat) (p : Rat) : Rat :=
  let dq := (quotF c n edge p).1
  let idx := ffloor (quotF c n edge p).2
  if n > 1 then corrWith dq.rnd n edge (topOf c.bd n edge) p idx else idx

/-- calc.py:126-132 clamp rules; a single edge forces right_continuous (calc.py:100) -/
def clampIdx (rc : Bool) (n : Nat) (idx : Rat) : Int :=
  if rc || n == 1 then
    (if idx < 0 then -1 else if idx ≥ (((n : Int) - 1 : Int) : Rat) then (n : Int) - 1 else idx.floor)
  else
    (if idx < 0 ∨ idx ≥ (n : Rat) then -1 else idx.floor)

/-- `bin1d_vec` on one point, edges given by size and lookup -/
def bin1dCore (c : Cfg) (n : Nat) (edge : Nat → Rat) (p : Rat) : Int :=
  clampIdx c.rc n (corrIdx c n edge p)

/-- `bin1d_vec(p, bins, tol, right_continuous)[i]` for `bins` a non-empty list -/
def bin1dF (c : Cfg) (bins : List Rat) (p : Rat) : Int :=
  bin1dCore c bins.length (fun k => bins.getD k 0) p

/-- the float64 / float64 default configuration -/
def cfg64 (rc : Bool) : Cfg := { pd := .f64, bd := .f64, tol := none, rc := rc }

/-! ## the documented round-off band (notes/C02.md) -/

/-- absolute p-tolerance that enters the formula -/
def ptolOf (c : Cfg) (p : Rat) : Rat :=
  match c.tol with
  | some t => if t = 0 then getTol c.pd p else fabs t
  | none => getTol c.pd p

/-- unit roundoff of the least precise dtype involved -/
def uOf (c : Cfg) : Rat :=
  if c.pd = .f32 ∨ c.bd = .f32 then pow2 (-24) else pow2 (-53)

/-- smallest normal number of the least precise dtype (allowance for underflow of the quotient next to 0) -/
def tinyOf (c : Cfg) : Rat :=
  if c.pd = .f32 ∨ c.bd = .f32 then pow2 (-126) else pow2 (-1022)

/-- Width of the band below edge j (`ej` its value; for the top edge of closed mode `ej = fl(last + h)`, j = n):
`max 0 (ej − (a0 + j·h)) + (1+2^-20)·((j+1)·|a0|ε_b + p_tol) + 10·u·j·h + tiny·h`  with h the float step. -/
def bandWidth (c : Cfg) (a0 h : Rat) (j : Nat) (ej : Rat) (p : Rat) : Rat :=
  let irr := ej - (a0 + (j : Rat) * h)
  (if irr < 0 then 0 else irr)
    + (1 + pow2 (-20)) * (((j : Rat) + 1) * getTol c.bd a0 + ptolOf c p)
    + 10 * uOf c * (j : Rat) * h
    + tinyOf c * h

/-- The set of answers the property allows for `p` (as a list): the ideal bin, and the next one when `p`
lies within the band immediately below the next edge. In closed mode the upper edge of the last bin is the
float `top = bins[-1] + h`; at or above it only −1 is allowed, within the band below it `n-1` or −1. -/
def allowed (c : Cfg) (bins : List Rat) (p : Rat) : List Int :=
  let n := bins.length
  let edge := fun k => bins.getD k 0
  let a0 := edge 0
  let h := hOf c.bd n edge
  let rc := c.rc || n == 1
  let k := binIdeal bins p
  if k + 1 < (n : Int) then
    let j := (k + 1).toNat
    let ej := edge j
    if ej - p ≤ bandWidth c a0 h j ej p then [k, k + 1] else [k]
  else if rc then [k]
  else
    let top := topOf c.bd n edge
    if top ≤ p then [-1]
    else if top - p ≤ bandWidth c a0 h n top p then [k, -1] else [k]

/-! ## kernel-evaluated tables: the property at probe points next to an edge -/

/-- float64 values given as (m, e) pairs: m · 2^e -/
def ofRaw (l : List (Int × Int)) : List Rat := l.map (fun me => (me.1 : Rat) * pow2 me.2)

/-- The property at a probe `v` known to lie next to edge k (between edge k−1 and edge k+1):
`edge_k ≤ v` (and below the upper limit of bin k) ⇒ the model answers exactly k;
`edge_(k−1) ≤ v < edge_k` ⇒ k−1, or k if `v` is inside the documented band below edge k. -/
def probeOK (c : Cfg) (bins : List Rat) (k : Nat) (v : Rat) : Bool :=
  let n := bins.length
  let edge := fun j => bins.getD j 0
  let r := bin1dF c bins v
  let h := hOf c.bd n edge
  let rc := c.rc || n == 1
  let upOK : Bool := if k + 1 < n then decide (v < edge (k + 1)) else (rc || decide (v < topOf c.bd n edge))
  if edge k ≤ v then upOK && r == (k : Int)
  else if k = 0 then (r == -1 || (r == 0 && decide (edge 0 - v ≤ bandWidth c (edge 0) h 0 (edge 0) v)))
  else decide (edge (k - 1) ≤ v) &&
    (r == (k : Int) - 1 || (r == (k : Int) && decide (edge k - v ≤ bandWidth c (edge 0) h k (edge k) v)))

/-- `probeOK` at `(m_k + off)·2^(e_k)` for every edge k and every offset (for off ≥ 0 the off-th float64 above the
edge; for off < 0 a float64 at most |off| ulps below it) -/
def tableOK (c : Cfg) (raw : List (Int × Int)) (offs : List Int) : Bool :=
  let bins := ofRaw raw
  (List.range raw.length).all (fun k =>
    let me := raw.getD k (0, 0)
    offs.all (fun off => probeOK c bins k (((me.1 + off : Int) : Rat) * pow2 me.2)))

/-- every edge with index lo ≤ k < hi, taken as a point, lands in the bin it opens -/
def edgesOwnBin (c : Cfg) (raw : List (Int × Int)) (lo hi : Nat) : Bool :=
  let bins := ofRaw raw
  (List.range (hi - lo)).all (fun i => bin1dF c bins (bins.getD (lo + i) 0) == ((lo + i : Nat) : Int))

/-- the float64 just below the positive normal float `m·2^e` (2^52 ≤ m < 2^53) -/
def predRaw (me : Int × Int) : Rat :=
  if me.1 = 2 ^ 52 then ((2 ^ 53 - 1 : Int) : Rat) * pow2 (me.2 - 1) else ((me.1 - 1 : Int) : Rat) * pow2 me.2

def valRaw (me : Int × Int) : Rat := (me.1 : Rat) * pow2 me.2

/-- threshold table: entry k is a non-negative float `t_k ≤ edge_k` inside the documented band below edge k such that the
model answers k at `t_k` and k−1 at the float just below it -/
def thresholdsOK (c : Cfg) (raw thr : List (Int × Int)) : Bool :=
  let bins := ofRaw raw
  let edge := fun j => bins.getD j 0
  let h := hOf c.bd bins.length edge
  (List.range thr.length).all (fun k =>
    let t := thr.getD k (0, 0)
    bin1dF c bins (valRaw t) == (k : Int) && bin1dF c bins (predRaw t) == (k : Int) - 1 &&
      decide (0 ≤ predRaw t) && decide (predRaw t ≤ valRaw t) && decide (valRaw t ≤ edge k) &&
      decide (edge k - valRaw t ≤ bandWidth c (edge 0) h k (edge k) (valRaw t)))

/-! ## cleaner_range (calc.py:221-245, main path) -/

/-- `numpy.arange(start, stop, step)` on float64: length `ceil((stop-start)/step)` computed in floats,
first two elements `start`, `start+step`, then `start + i*delta` with `delta = (start+step) - start`
(numpy `DOUBLE_fill`). -/
def arangeF (start stop step : Rat) : List Rat :=
  let len := (- (-(fdiv (fsub stop start) step)).floor).toNat
  let second := fadd start step
  let delta := fsub second start
  (List.range len).map (fun (i : Nat) =>
    if i = 0 then start else if i = 1 then second else fadd start (fmul ((i : Nat) : Rat) delta))

/-- `cleaner_range(start, end, h)`, `dec` = max(num_decimals(start), num_decimals(h)) (from `repr`, supplied
by the harness). `none` = the guard `scale*max(|start|,|end|) < 2**52` fails (fallback path, not modelled). -/
def cleanerRangeF (start end_ h : Rat) (dec : Nat) : Option (List Rat) :=
  let scale : Rat := fl64 ((10 ^ dec : Nat) : Rat)          -- int → float conversion of 10**dec
  let m := if fabs start < fabs end_ then fabs end_ else fabs start
  if fmul scale m < pow2 52 then
    let s := fround (fmul scale start)
    let e := fround (fmul scale end_)
    let d := fround (fmul scale h)
    some ((arangeF s (fadd e (fdiv d 2)) d).map (fun x => fdiv x scale))
  else none

/-- the decimal grid the property asks for: nearest doubles of (S + k·D)/10^m -/
def decimalGrid (S D : Int) (m : Nat) (len : Nat) : List Rat :=
  (List.range len).map (fun (k : Nat) => fl64 (((S + ((k : Nat) : Int) * D : Int) : Rat) / ((10 ^ m : Nat) : Rat)))

/-! ## discretize (calc.py:37-55) -/

/-- the exceptions `discretize` can raise (calc.py:46, :48, :49, :53) -/
inductive DiscErr where
  | valueError      -- empty `bin_edges` (:46) or `bin_edges[1] < bin_edges[0]` (:49)
  | indexError      -- a single edge: `bin_edges[1]` (:48) is out of bounds
  | csepException   -- some value is out of range (`idx == -1`, :53)
  deriving DecidableEq, Repr

/-- `discretize(data, bin_edges, right_continuous)`: argument checks, `bin1d_vec` with the default tolerance, rejection of
any out-of-range value, then `bin_edges[idx]` (the left edge of each value's bin, in the edges' dtype). `pd` / `bd` are the
dtypes of `numpy.array(data)` / `numpy.array(bin_edges)`. -/
def discretizeF (pd bd : DT) (rc : Bool) (bins data : List Rat) : Except DiscErr (List Rat) :=
  let c : Cfg := { pd := pd, bd := bd, tol := none, rc := rc }
  if bins.length = 0 then .error .valueError
  else if bins.length = 1 then .error .indexError
  else if bins.getD 1 0 < bins.getD 0 0 then .error .valueError
  else
    let idx := data.map (bin1dF c bins)
    if idx.any (fun i => i == -1) then .error .csepException
    else .ok (idx.map (fun i => bins.getD i.toNat 0))

/-! ## Bool form of the hypotheses of the float theorems (`RegularF64Grid`, `PointOK` of Proofs/Bin1dUpper.lean) -/

/-- consecutive elements strictly increasing -/
def sortedLtB : List Rat → Bool
  | a :: b :: t => decide (a < b) && sortedLtB (b :: t)
  | _ => true

/-- `RegularF64Grid bins` as a Bool: 2 ≤ n ≤ 2^40 strictly increasing float64 edges, float step ≥ 2^-1021, every edge within
h/4 of `a0 + j·h` (soundness: `Bin1d.regularGridB_sound`) -/
def regularGridB (bins : List Rat) : Bool :=
  let n := bins.length
  let edge := fun k => bins.getD k 0
  let h := hOf .f64 n edge
  decide (1 < n) && decide (n ≤ 2 ^ 40) && sortedLtB bins && bins.all (fun e => fl64 e == e)
    && decide (pow2 (-1021) ≤ h)
    && (List.range n).all (fun j =>
      decide (edge 0 + (((j : Nat) : Rat) - 1 / 4) * h ≤ edge j) && decide (edge j ≤ edge 0 + (((j : Nat) : Rat) + 1 / 4) * h))

/-- `PointOK bins p` as a Bool -/
def pointOKB (bins : List Rat) (p : Rat) : Bool :=
  let n := bins.length
  let edge := fun k => bins.getD k 0
  (fl64 p == p) && decide ((((n : Nat) : Rat) + 1) * getTol .f64 (edge 0) + getTol .f64 p ≤ hOf .f64 n edge / 2)

end Bin1d
