import PycsepVerif.Model.DecimalText
import PycsepVerif.Model.AsciiCatalogs
import PycsepVerif.Model.Time
/-
  Text layer of C12: from the CHARACTERS of a catalog-forecast CSV file to the catalogs.

  `CSEPCatalog.load_ascii_catalogs` (csep/core/catalogs.py:921-1053) reads the file with `csv.reader(f, delimiter=',')`
  (:993) and converts the seven fields of a line in `read_catalog_line` (:966-984): `read_float` = `float()` or `None`
  (:951-957), the time string through `strptime_to_utc_epoch` with `%Y-%m-%dT%H:%M:%S.%f` and, failing that,
  `%Y-%m-%dT%H:%M:%S` (:973-978), `int(line[5])` (:980), `line[6]` (:981).  `Model/AsciiCatalogs` starts from the parsed
  rows; this file models the steps before: the csv state machine (CPython `_csv.c`, default dialect), the field
  conversions (`DecimalText.pyFloat`, `pyInt`, the two `strptime` formats with Python's one-or-two-digit fields), the
  header test, and composes them with the line loop: `decodeText`.

  Not modelled: quoted fields that contain a line break (`none`/`malformed`), non-ASCII digits, the words `inf`/`nan`
  (read as blank by the model).
-/
namespace AsciiCatalogs
open DecimalText

/-! ## csv.reader, default dialect (delimiter `,`, quotechar `"`, doublequote, not strict) -/

inductive CsvSt where
  | startField | inField | inQuoted | quoteInQuoted
deriving DecidableEq, Repr

/-- one record = one line without its terminator.  `cur` = characters of the field being read (reversed), `acc` =
    finished fields (reversed).  `none` = the line ends inside a quoted field (the record would continue on the next
    line: not modelled). -/
def csvAux : CsvSt → List Char → List Char → List String → Option (List String)
  | .inQuoted, [], _, _ => none
  | _, [], cur, acc => some ((String.ofList cur.reverse :: acc).reverse)
  | .startField, c :: cs, cur, acc =>
    if c = '"' then csvAux .inQuoted cs cur acc
    else if c = ',' then csvAux .startField cs [] (String.ofList cur.reverse :: acc)
    else csvAux .inField cs (c :: cur) acc
  | .inField, c :: cs, cur, acc =>
    if c = ',' then csvAux .startField cs [] (String.ofList cur.reverse :: acc)
    else csvAux .inField cs (c :: cur) acc            -- a quote inside an unquoted field is an ordinary character
  | .inQuoted, c :: cs, cur, acc =>
    if c = '"' then csvAux .quoteInQuoted cs cur acc else csvAux .inQuoted cs (c :: cur) acc
  | .quoteInQuoted, c :: cs, cur, acc =>
    if c = '"' then csvAux .inQuoted cs ('"' :: cur) acc                       -- doubled quote
    else if c = ',' then csvAux .startField cs [] (String.ofList cur.reverse :: acc)
    else csvAux .inField cs (c :: cur) acc                                      -- not strict: goes on unquoted

/-- the fields of one line; an empty line is the empty record `[]` -/
def csvFields (line : List Char) : Option (List String) :=
  if line.isEmpty then some [] else csvAux .startField line [] []

/-! ## the field conversions of `read_catalog_line` -/

/-- one or two digits (Python's `strptime` patterns for `%m %d %H %M %S` accept an unpadded field) -/
def take12 : List Char → Option (Nat × List Char)
  | a :: b :: rest =>
    if isDigit a then (if isDigit b then some (digitVal a * 10 + digitVal b, rest) else some (digitVal a, b :: rest))
    else none
  | [a] => if isDigit a then some (digitVal a, []) else none
  | [] => none

/-- `%d`: as `take12`, and also a blank followed by one digit 1-9 (CPython's pattern `3[0-1]|[1-2]\d|0[1-9]|[1-9]| [1-9]`) -/
def takeDay : List Char → Option (Nat × List Char)
  | ' ' :: b :: rest => if isDigit b && decide (1 ≤ digitVal b) then some (digitVal b, rest) else none
  | s => take12 s

/-- `%Y`: exactly four digits -/
def take4 : List Char → Option (Nat × List Char)
  | a :: b :: c :: d :: rest =>
    if isDigit a && isDigit b && isDigit c && isDigit d then
      some (digitVal a * 1000 + digitVal b * 100 + digitVal c * 10 + digitVal d, rest)
    else none
  | _ => none

def expect (c : Char) : List Char → Option (List Char)
  | x :: rest => if x = c then some rest else none
  | [] => none

/-- `%f`: up to `fuel` further digits, right-padded to microseconds -/
def takeFrac : Nat → Nat → Nat → List Char → Nat × List Char
  | 0, _, acc, s => (acc, s)
  | _ + 1, _, acc, [] => (acc, [])
  | fuel + 1, scale, acc, c :: rest =>
    if isDigit c then takeFrac fuel (scale / 10) (acc + digitVal c * scale) rest else (acc, c :: rest)

/-- `datetime.strptime(s, '%Y-%m-%dT%H:%M:%S[.%f]')` → microseconds after the epoch; `none` = ValueError (no match,
    unconverted data, or a field out of range: month 0/13, day 0/32 or beyond the month, hour 24, second 60, year 0) -/
def strptimeT (frac : Bool) (s : List Char) : Option Int := do
  let (y, s) ← take4 s
  let s ← expect '-' s
  let (mo, s) ← take12 s
  let s ← expect '-' s
  let (d, s) ← takeDay s
  let s ← expect 'T' s
  let (h, s) ← take12 s
  let s ← expect ':' s
  let (mi, s) ← take12 s
  let s ← expect ':' s
  let (sec, s) ← take12 s
  let (us, s) ← (if frac then do
      let s ← expect '.' s
      match s with
      | c :: _ => if isDigit c then some (takeFrac 6 100000 0 s) else none
      | [] => none
    else some (0, s))
  if s ≠ [] then none else
  let f : Time.Fields := { year := y, month := mo, day := d, hour := h, minute := mi, second := sec, micro := us }
  if Time.validFields f then some (Time.ofFields f) else none

/-- catalogs.py:973-978: first the format with `.%f`, then the one without; then `strptime_to_utc_epoch`
    (floor to milliseconds).  `none` = the second ValueError escapes. -/
def parseTime (s : List Char) : Option Int :=
  match strptimeT true s with
  | some us => some (Time.dtToMs us)
  | none => (strptimeT false s).map Time.dtToMs

/-- `read_float`: `float(val)` or `None` -/
def readFloat (s : String) : Option Rat := pyFloat s

/-- `is_header_line`: `line[0].lower() == 'lon'` (an empty record raises IndexError → malformed) -/
def isHeaderFields : List String → Except Err Bool
  | [] => .error .malformed
  | f :: _ => .ok (f.toLower == "lon")

/-- `read_catalog_line(line)`: seven fields are indexed (IndexError on fewer, more are ignored) -/
def readRow : List String → Except Err Row
  | lon :: lat :: mag :: t :: dep :: cid :: eid :: _ =>
    let time : Except Err (Option Int) :=
      if t = "" then .ok none else
      match parseTime t.toList with
      | some ms => .ok (some ms)
      | none => .error .malformed
    match time, pyInt cid with
    | .ok tm, some c => .ok ⟨⟨eid, tm, readFloat lat, readFloat lon, readFloat dep, readFloat mag⟩, c⟩
    | _, _ => .error .malformed
  | _ => .error .malformed

/-- one iteration of `for line in catalog_reader` on the FIELDS of the line (catalogs.py:999-1050): the header test is
    made only while `prev_id is None`; everything else is read as a data row and handed to `step` -/
def stepFields (s : St) (fields : List String) : Except Err (St × List Catalog) :=
  match (if s.prev.isNone then isHeaderFields fields else .ok false) with
  | .error e => .error e
  | .ok true => .ok (s, [])
  | .ok false =>
    match readRow fields with
    | .error e => .error e
    | .ok r => step s (.row r)

def loopFields (s : St) : List (List String) → Except Err (List Catalog)
  | [] => .ok [⟨s.prev, s.events⟩]
  | l :: ls =>
    match stepFields s l with
    | .error e => .error e
    | .ok (s', out) => prepend out (loopFields s' ls)

/-- the records of a text: its lines through the csv state machine -/
def csvRecords (text : String) : Option (List (List String)) := (splitLines text.toList).mapM csvFields

/-- `list(CSEPCatalog.load_ascii_catalogs(f))` from the characters of the file -/
def decodeText (text : String) : Except Err (List Catalog) :=
  match csvRecords text with
  | none => .error .malformed
  | some recs => loopFields ⟨none, []⟩ recs

/-- the `Line` a record stands for when it is read at the given state: used to connect `loopFields` with `loop` -/
def lineOfFields (prevNone : Bool) (fields : List String) : Except Err Line :=
  match (if prevNone then isHeaderFields fields else .ok false) with
  | .error e => .error e
  | .ok true => .ok .header
  | .ok false => (readRow fields).map Line.row

/-! ## file-name conventions (catalogs.py:940-947 `parse_filename`, csep/__init__.py:508-519) -/

/-- `os.path.basename(fname.rstrip('/')).split('.')[0]` -/
def stem (path : List Char) : List Char :=
  let p := (path.reverse.dropWhile (· = '/')).reverse
  let base := (p.reverse.takeWhile (· ≠ '/')).reverse
  base.takeWhile (· ≠ '.')

/-- `basename.split('_')` -/
def splitOnChar (sep : Char) : List Char → List Char → List (List Char)
  | [], cur => [cur.reverse]
  | c :: cs, cur => if c = sep then cur.reverse :: splitOnChar sep cs [] else splitOnChar sep cs (c :: cur)

/-- `strptime(s, "%Y-%m-%dT%H-%M-%S-%f")` → microseconds after the epoch -/
def strptimeDash (s : List Char) : Option Int := do
  let (y, s) ← take4 s
  let s ← expect '-' s
  let (mo, s) ← take12 s
  let s ← expect '-' s
  let (d, s) ← takeDay s
  let s ← expect 'T' s
  let (h, s) ← take12 s
  let s ← expect '-' s
  let (mi, s) ← take12 s
  let s ← expect '-' s
  let (sec, s) ← take12 s
  let s ← expect '-' s
  let (us, s) ← (match s with
      | c :: _ => if isDigit c then some (takeFrac 6 100000 0 s) else none
      | [] => none)
  if s ≠ [] then none else
  let f : Time.Fields := { year := y, month := mo, day := d, hour := h, minute := mi, second := sec, micro := us }
  if Time.validFields f then some (Time.ofFields f) else none

/-- `(name, start_time)` parsed from `<name>_<%Y-%m-%dT%H-%M-%S-%f>[_…].<ext>`; `none` = the `try` fails and nothing is
    defaulted (fewer than two `_` parts, or the second is not such a time) -/
def parseFilename (path : String) : Option (String × Int) :=
  match splitOnChar '_' (stem path.toList) [] with
  | name :: t :: _ => (strptimeDash t).map (fun us => (String.ofList name, us))
  | _ => none

/-- the `name` / `start_time` the forecast object ends up with: an explicit keyword wins (`kwargs.setdefault`) -/
def forecastMeta (path : String) (name : Option String) (start : Option Int) : Option String × Option Int :=
  match parseFilename path with
  | some (n, us) => (some (name.getD n), some (start.getD us))
  | none => (name, start)

end AsciiCatalogs
