import PycsepVerif.Model.BinaryBrier
/-
  C16, round 4 — the numpy.ma layer of `binary_joint_log_likelihood_ndarray` (binomial_evaluations.py:89-101), statement by
  statement.  Until now `BinaryBrier.binTerm` was a hand transcription of what the WHOLE expression
  `first_term.data + second_term.data` evaluates to; here every masked-array primitive the expression goes through is a
  definition of its own (what numpy.ma does to the DATA and to the MASK of every slot, masked slots included — the final
  `.data` reads the data under the mask), the function is their composition (`binaryLLMa`), and
  `Properties/C16_Masked.lean` proves the composition equal to `binaryLL`.  Each primitive is compared with numpy.ma itself
  on every run (driver op `c16_ma`), so the trusted item "numpy.ma semantics" shrinks from one opaque formula to six
  one-line primitives that are tested separately.

  numpy 2.5, numpy/ma/core.py:
    * `numpy.ma.masked_where(c, a)`                       data = a, mask = c                                  (:1954)
    * `-m`, `numpy.exp(m)`: plain ufuncs on a MaskedArray → `MaskedArray.__array_wrap__` (:3149): the ufunc is applied to
      the data of EVERY slot, the mask is the input's mask (no domain for negative / exp)
    * `1.0 - m`: `MaskedArray.__rsub__` → `ma.subtract(1.0, m)`, a `_MaskedBinaryOperation` (:1062): result = f(da, db),
      mask = ma | mb, then `np.copyto(result, da, where=mask)`: masked slots carry the FIRST operand's data (1.0)
    * `numpy.log(m)`: `__array_wrap__` with the domain `_DomainGreater(0.0)` of log: `d = filled(m <= 0.0, True)`
      (true in masked slots and where the data is not positive), data := `ufunc_fills[log]` = 1.0 where d, mask := mask | d
    * `y * m` (y an ndarray): python tries the subclass's reflected method first → `MaskedArray.__rmul__` →
      `ma.multiply(y, m)` (`_MaskedBinaryOperation`): y·data, masked slots carry the first operand's data, i.e. `y`
    * `m.data`: the data, masked slots included
-/
namespace BinaryBrier.Ma
variable {α : Type} [RealOps α]
open RealOps

/-- one slot of a masked array -/
structure MV (α : Type) where
  data : α
  mask : Bool
  deriving Repr

abbrev MArr (α : Type) := List (MV α)

/-- `numpy.ma.masked_where(forecast <= 0.0, forecast)` (binomial_evaluations.py:92) -/
def maskedWhereLe0 (xs : List α) : MArr α := xs.map (fun x => ⟨x, le x zero⟩)

/-- `-m` (`numpy.negative` through `__array_wrap__`): every slot negated, mask kept -/
def neg (m : MArr α) : MArr α := m.map (fun v => ⟨RealOps.neg v.data, v.mask⟩)

/-- `numpy.exp(m)`: every slot exponentiated, mask kept -/
def exp (m : MArr α) : MArr α := m.map (fun v => ⟨RealOps.exp v.data, v.mask⟩)

/-- `1.0 - m` (`ma.subtract(1.0, m)`): masked slots revert to the first operand, 1.0 -/
def rsubOne (m : MArr α) : MArr α := m.map (fun v => ⟨if v.mask then one else sub one v.data, v.mask⟩)

/-- `numpy.log(m)`: domain `x > 0`; masked or out-of-domain slots get data 1.0 and are masked -/
def log (m : MArr α) : MArr α :=
  m.map (fun v => let d := v.mask || le v.data zero; ⟨if d then one else RealOps.log v.data, d⟩)

/-- `y * m` for an ndarray `y` (`ma.multiply(y, m)`): masked slots revert to the first operand, `y` -/
def rmulArr (y : List α) (m : MArr α) : MArr α :=
  (y.zip m).map (fun p => ⟨if p.2.mask then p.1 else mul p.1 p.2.data, p.2.mask⟩)

/-- `.data` -/
def dataOf (m : MArr α) : List α := m.map (·.data)

/-- `y = zeros(n); y[numpy.nonzero(catalog.ravel())] = 1` (:95-97) -/
def indicator (cnt : List Nat) : List α := cnt.map (fun w => if 0 < w then one else zero)

/-- the array `first_term.data + second_term.data` (binomial_evaluations.py:92-101):
    ```
    forecast_masked = numpy.ma.masked_where(forecast.ravel() <= 0.0, forecast.ravel())
    y = numpy.zeros(...); y[target_idx[0]] = 1
    first_term  = y * (numpy.log(1.0 - numpy.exp(-forecast_masked.ravel())))
    second_term = (1-y) * (-forecast_masked.ravel().data)
    return sum(first_term.data + second_term.data)
    ``` -/
def maTerms (bins : List (α × Nat)) : List α :=
  let fm := maskedWhereLe0 (bins.map (·.1))
  let y : List α := indicator (bins.map (·.2))
  let first := rmulArr y (log (rsubOne (exp (neg fm))))
  let second := (y.zip (dataOf fm)).map (fun p => mul (sub one p.1) (RealOps.neg p.2))
  ((dataOf first).zip second).map (fun p => add p.1 p.2)

/-- `binary_joint_log_likelihood_ndarray` as the composition of the numpy.ma primitives; Python's builtin `sum` -/
def binaryLLMa (bins : List (α × Nat)) : α := RealOps.sum (maTerms bins)

/-- `MaskedArray.cumsum` works on `self.filled(0)` (numpy/ma/core.py cumsum): the data of the sampling weights of
    `_binary_likelihood_test` / `_brier_score_test` before the cumulative sum — masked slots (rate ≤ 0) count as 0 -/
def filled0 (m : MArr α) : List α := m.map (fun v => if v.mask then zero else v.data)

end BinaryBrier.Ma
