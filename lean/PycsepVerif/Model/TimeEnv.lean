import PycsepVerif.Model.TimeCalls
/-
  The process environment in the time conversions (property C15, round 6): CPython's datetime primitives WITH the local time zone
  as an explicit parameter, and the library's conversions written on top of them exactly as the code calls them.

    fromtimestamp(t, tz)      tz given  → wall clock of that zone, aware           (does not read the local zone)
    fromtimestamp(t)          no tz     → LOCAL wall clock, naive                  (reads it)
    dt.replace(tzinfo=utc)    relabels the wall clock                              (does not read it)
    dt.astimezone(utc)        aware: same instant; NAIVE: taken as LOCAL time      (reads it for naive datetimes)
    aware − aware             difference of instants                               (does not read it)

  A datetime is (wall-clock microseconds since 1970-01-01T00:00:00 of its own clock, utc offset in µs or none = naive).
  `Env.offset` = the local zone: utc offset (µs) in force at a UTC instant / for a local wall clock (one function suffices for
  the statements here: they quantify over ALL environments).
-/
namespace Time
open Soft64

structure Env where
  /-- utc offset (µs) of the local zone at the UTC instant `us` -/
  offsetAt : Int → Int
  /-- utc offset (µs) the local zone assigns to the local wall clock `wall` (fold = 0) -/
  offsetOfWall : Int → Int

/-- (wall clock µs, utc offset µs | none) -/
abbrev DT := Int × Option Int

def utcEnv : Env := { offsetAt := fun _ => 0, offsetOfWall := fun _ => 0 }
/-- Asia/Tokyo: +09:00, no daylight saving -/
def tokyoEnv : Env := { offsetAt := fun _ => 32400000000, offsetOfWall := fun _ => 32400000000 }

/-- the instant (µs since the epoch, UTC) of an aware datetime -/
def DT.instant (d : DT) : Option Int := d.2.map (fun off => d.1 - off)

/-- `datetime.fromtimestamp(t, tz)` -/
def fromtimestampTz (env : Env) (t : Rat) : Option Int → DT
  | some off => (fromTimestamp t + off, some off)
  | none => let u := fromTimestamp t; (u + env.offsetAt u, none)

def replaceTz (d : DT) (off : Option Int) : DT := (d.1, off)

/-- `dt.astimezone(timezone.utc)` -/
def astimezoneUtc (env : Env) (d : DT) : DT :=
  match d.2 with
  | some off => (d.1 - off, some 0)
  | none => (d.1 - env.offsetOfWall d.1, some 0)

/-! ### the library's conversions, as the code composes the primitives -/

/-- time_utils.py:29 `datetime.fromtimestamp(epoch_time, datetime.timezone.utc)` -/
def epochToDatetimeE (env : Env) (ms : Int) : DT := fromtimestampTz env (msToSecF ms) (some 0)

/-- time_utils.py:44-54: naive → `.replace(tzinfo=utc)`; then `dt − epoch` on aware datetimes; `none` = ValueError -/
def datetimeToEpochE (_env : Env) (d : DT) : Option Int :=
  let d' : DT := match d.2 with | none => replaceTz d (some 0) | some _ => d
  if d'.2 = some 0 then (d'.instant).map dtToMs else none

/-- time_utils.py:102 `datetime.strptime(s, fmt).replace(tzinfo=utc)` (the parsed datetime is naive or carries the parsed `%z`;
    either way it is relabelled) -/
def strptimeToDatetimeE (_env : Env) (s : List Char) : Option DT :=
  (strptimeToUtcDatetime s).map (fun us => replaceTz (us, none) (some 0))

/-- time_utils.py:171-202 `decimal_year(test_date)`: reads the calendar fields of the datetime only -/
def decimalYearE (_env : Env) (d : DT) : Rat := decimalYear d.1

/-! ### variants that DO read the zone (the mutations Mh, Mi, seeded C12_4 / C15_9 were of this kind) -/

/-- `datetime.fromtimestamp(epoch_time).replace(tzinfo=utc)` -/
def epochToDatetimeLocalVariant (env : Env) (ms : Int) : DT := replaceTz (fromtimestampTz env (msToSecF ms) none) (some 0)

/-- naive datetimes converted with `dt.astimezone(utc)` instead of relabelled -/
def datetimeToEpochLocalVariant (env : Env) (d : DT) : Option Int := ((astimezoneUtc env d).instant).map dtToMs

end Time
