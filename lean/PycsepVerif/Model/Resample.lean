import PycsepVerif.Soft64
import PycsepVerif.Model.Sampler
import PycsepVerif.Model.CatalogEvals

/-!
  Model of the RESAMPLING step of `resampled_magnitude_test` and `MLL_magnitude_test(full_calculation=False)`
  (csep/core/catalog_evaluations.py:416-448 and :565-596), which `Model/CatalogEvals.lean` takes as an input (`draws`):

      probs      = union_histogram / n_union_events                                   (:433, :581)
      mag_values = numpy.random.choice(forecast.magnitudes + mag_half_bin, p=probs, size=int(n_obs))   (:440, :590)
      mag_counts, _ = numpy.histogram(mag_values, bins=numpy.append(forecast.magnitudes, max(forecast.magnitudes) + 10))

  `numpy.random.choice(a, p=p, size=n)` of the legacy `RandomState` is the inverse-CDF sampler
  `cdf = p.cumsum(); cdf /= cdf[-1]; idx = cdf.searchsorted(random_sample(n), side='right'); a[idx]`
  — the same float computation as `sampling_weights` of C06 (`Sampler.weights`, `Sampler.searchRight`), which is reused.
  The uniform numbers `random_sample(n)` are the input.  Soft64 layer: every float is the rational it denotes.
-/
namespace CatEvals
open Soft64

/-- `probs = union_histogram / n_union_events`: one binary64 division per magnitude bin -/
def resampleProbs (unionH : List Nat) : List Rat :=
  unionH.map fun u => fdiv ((u : Nat) : Rat) ((unionH.sum : Nat) : Rat)

/-- the normalised cumulative sum `numpy.random.choice` searches in -/
def choiceCdf (unionH : List Nat) : List Rat := Sampler.weights (resampleProbs unionH)

/-- the bin indices `cdf.searchsorted(uniform_samples, side='right')` -/
def choiceIdx (unionH : List Nat) (us : List Rat) : List Nat := us.map (Sampler.searchRight (choiceCdf unionH))

/-- `mag_half_bin = numpy.diff(mags)[0] / 2. if len(mags) > 1 else 0.` (:428, :563) -/
def magHalfBin : List Rat → Rat
  | m0 :: m1 :: _ => fdiv (fsub m1 m0) 2
  | _ => 0

/-- `(forecast.magnitudes + mag_half_bin)[i]`: the value a draw of bin i gets -/
def binCentre (mags : List Rat) (i : Nat) : Rat := fadd (mags.getD i 0) (magHalfBin mags)

/-- `max(forecast.magnitudes)` -/
def maxMag (mags : List Rat) : Rat := mags.foldl (fun m b => if m < b then b else m) (mags.headD 0)

/-- `numpy.append(forecast.magnitudes, max(forecast.magnitudes) + 10)` -/
def histEdges (mags : List Rat) : List Rat := mags ++ [fadd (maxMag mags) 10]

/-- the bin `numpy.histogram(values, bins=edges)` counts a value in: `searchsorted(edges, v, 'right') - 1`, nothing below
    the first edge or above the last one, the last bin closed on the right -/
def histBin (mags : List Rat) (v : Rat) : Option Nat :=
  let c := (histEdges mags).countP (fun e => decide (e ≤ v))
  if c = 0 then none
  else if c ≤ mags.length then some (c - 1)
  else if v = fadd (maxMag mags) 10 then some (mags.length - 1) else none

/-- `numpy.bincount`-style counts of bin indices over K bins -/
def binCount (K : Nat) (idx : List Nat) : List Nat := (List.range K).map fun k => idx.count k

/-- one resampled histogram: indices from the uniforms, values at the bin centres, re-binned by `numpy.histogram` -/
def resampleHist (mags : List Rat) (unionH : List Nat) (us : List Rat) : List Nat :=
  binCount mags.length ((choiceIdx unionH us).filterMap fun i => histBin mags (binCentre mags i))

/-- decidable premise (evaluated by the driver on every case): every bin centre `mags[i] + half` is counted by
    `numpy.histogram` in bin i itself -/
def centresOK (mags : List Rat) : Bool :=
  (List.range mags.length).all fun i => histBin mags (binCentre mags i) == some i

/-- the J histograms of one test: one list of `int(n_obs)` uniforms per synthetic catalog -/
def resampleDraws (mags : List Rat) (unionH : List Nat) (uss : List (List Rat)) : List (List Nat) :=
  uss.map (resampleHist mags unionH)

/-! ## `pseudolikelihood_test`: the last branch (catalog_evaluations.py:297-305)

`Model/CatalogEvals.lean`'s `pseudolikelihoodTest` ends at the quantile computation.  The code has one more branch after
the nan filter of the distribution: `if n_obs == 0 or numpy.isnan(obs_plh): message = "not-valid"; delta_1, delta_2 = -1, -1`.
`obs_plh` is the first component of `_compute_likelihood`, a value of `ELL` (−∞ or a finite sum minus N̄; a count times
`log` of a rate is never nan because only cells with a count are summed), so in the model only `n_obs == 0` can fire. -/

variable {α : Type} [RealOps α]

/-- `pseudolikelihood_test` with that branch -/
def pseudolikelihoodTestFull (C K : Nat) (sims : List Grid) (obs : Grid) : Option (Result α) :=
  match pseudolikelihoodTest (α := α) C K sims obs with
  | none => none
  | some r =>
    if (spatialCounts C obs).sum = 0 then some { r with status := .notValid, quantile := .sentinel }   -- :301-303
    else some r

end CatEvals
