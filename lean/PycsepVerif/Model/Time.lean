import PycsepVerif.Soft64
/-
  Model of csep/utils/time_utils.py (as it is now, i.e. with the integer `datetime_to_utc_epoch`).

  A (UTC) datetime is the `Int` number of microseconds since 1970-01-01T00:00:00 of the proleptic Gregorian
  calendar. The civil decomposition (year, month, day, hour, minute, second, microsecond) that CPython stores
  is recovered with Howard Hinnant's `civil_from_days` / `days_from_civil` (no recursion, every step is
  integer arithmetic the kernel can evaluate and `omega` can reason about). The harness checks on every run
  that this decomposition is the one CPython's `datetime` exposes (`c15_fields`).

  Float steps use `Soft64` (binary64 round-to-nearest-even on `Rat`), one model operation per Python
  float operation, in the same order.

  Import-free apart from Soft64 (no Mathlib): the native driver links it.
-/
namespace Time
open Soft64

/-! ## civil calendar -/

/-- calendar.isleap -/
def isLeap (y : Int) : Bool := y % 4 == 0 && (y % 100 != 0 || y % 400 == 0)

/-- days since 1970-01-01 of the civil date y-m-d (Hinnant, `days_from_civil`); `/` on `Int` is floor
    division for the positive divisors used here. -/
def daysFromCivil (y m d : Int) : Int :=
  let y' := if m ≤ 2 then y - 1 else y
  let era := y' / 400
  let yoe := y' - era * 400
  let mp := if m > 2 then m - 3 else m + 9
  let doy := (153 * mp + 2) / 5 + d - 1
  let doe := yoe * 365 + yoe / 4 - yoe / 100 + doy
  era * 146097 + doe - 719468

/-- year-of-era, month, day of the day-of-era `doe` ∈ [0, 146096] (inner part of Hinnant's `civil_from_days`;
    the era year starts on 1 March) -/
def eraCivil (doe : Int) : Int × Int × Int :=
  let yoe := (doe - doe / 1460 + doe / 36524 - doe / 146096) / 365
  let doy := doe - (365 * yoe + yoe / 4 - yoe / 100)
  let mp := (5 * doy + 2) / 153
  let d := doy - (153 * mp + 2) / 5 + 1
  let m := if mp < 10 then mp + 3 else mp - 9
  (yoe, m, d)

/-- civil date (y, m, d) of the day number z (Hinnant, `civil_from_days`) -/
def civilFromDays (z : Int) : Int × Int × Int :=
  let z' := z + 719468
  let era := z' / 146097
  let c := eraCivil (z' - era * 146097)
  (if c.2.1 ≤ 2 then c.1 + era * 400 + 1 else c.1 + era * 400, c.2.1, c.2.2)

/-- calendar.monthrange(y, m)[1] -/
def daysInMonth (y m : Int) : Int :=
  if m = 2 then (if isLeap y then 29 else 28)
  else if m = 4 ∨ m = 6 ∨ m = 9 ∨ m = 11 then 30 else 31

/-- `sum([calendar.monthrange(year, i)[1] for i in range(1, month)])`  (time_utils.py:198) -/
def daysBeforeMonth (y m : Int) : Int :=
  ((List.range (m.toNat - 1)).map (fun (i : Nat) => daysInMonth y (Int.ofNat i + 1))).foldl (· + ·) 0

/-- a valid civil date of the proleptic Gregorian calendar -/
def validDate (y m d : Int) : Bool := decide (1 ≤ m) && decide (m ≤ 12) && decide (1 ≤ d) && decide (d ≤ daysInMonth y m)

/-! ## datetimes -/

def usPerSec : Int := 1000000
def usPerDay : Int := 86400000000

/-- what `datetime.year … .microsecond` show -/
structure Fields where
  year : Int
  month : Int
  day : Int
  hour : Int
  minute : Int
  second : Int
  micro : Int
deriving DecidableEq, Repr

/-- the fields of the datetime `us` microseconds after the epoch -/
def fields (us : Int) : Fields :=
  let days := us / usPerDay
  let r := us % usPerDay
  let c := civilFromDays days
  { year := c.1, month := c.2.1, day := c.2.2,
    hour := r / 3600000000, minute := r / 60000000 % 60, second := r / 1000000 % 60, micro := r % 1000000 }

/-- `datetime(y, m, d, H, M, S, us)` as microseconds after the epoch -/
def ofFields (f : Fields) : Int :=
  daysFromCivil f.year f.month f.day * usPerDay + f.hour * 3600000000 + f.minute * 60000000
    + f.second * 1000000 + f.micro

/-- the arguments `datetime(...)` accepts (year range of CPython: 1..9999) -/
def validFields (f : Fields) : Bool :=
  decide (1 ≤ f.year) && decide (f.year ≤ 9999) && validDate f.year f.month f.day
    && decide (0 ≤ f.hour) && decide (f.hour < 24) && decide (0 ≤ f.minute) && decide (f.minute < 60)
    && decide (0 ≤ f.second) && decide (f.second < 60) && decide (0 ≤ f.micro) && decide (f.micro < 1000000)

/-! ## epoch milliseconds → datetime  (time_utils.py:9 `epoch_time_to_utc_datetime`) -/

/-- C `modf` integer part: truncation toward zero -/
def truncR (x : Rat) : Int := if 0 ≤ x then x.floor else -((-x).floor)

/-- `epoch_time = epoch_time_milli / 1000` (time_utils.py:22): true division of an int (or int64) by an int is
    the correctly rounded quotient. -/
def msToSecF (ms : Int) : Rat := fdiv (ms : Rat) 1000

/-- `datetime.fromtimestamp(t, timezone.utc)` for a float `t` (CPython `_fromtimestamp` in Lib/_pydatetime.py,
    `pytime_double_to_denominator` in Python/pytime.c): `frac, t = modf(t); us = round(frac * 1e6)` (one float
    multiplication, then round-half-even), then the carry adjustments; returns total microseconds. -/
def fromTimestamp (t : Rat) : Int :=
  let ip := truncR t
  let fp := t - (ip : Rat)               -- exact (modf)
  let m := fmul fp 1000000               -- float product
  let r := roundHalfEven m
  if r ≥ 1000000 then (ip + 1) * usPerSec + (r - 1000000)
  else if r < 0 then (ip - 1) * usPerSec + (r + 1000000)
  else ip * usPerSec + r

/-- `epoch_time_to_utc_datetime(ms)` (non-Windows branch) as microseconds after the epoch -/
def toDatetime (ms : Int) : Int := fromTimestamp (msToSecF ms)

/-! ## datetime → epoch milliseconds  (time_utils.py:42 `datetime_to_utc_epoch`) -/

/-- the tzinfo of the argument as far as the function looks at it -/
inductive Tz where
  | naive    -- tzinfo is None: replaced by UTC
  | utc      -- str(tzinfo) == 'UTC'
  | other    -- anything else: ValueError
deriving DecidableEq, Repr

/-- `delta = dt - epoch; (delta.days*86400 + delta.seconds)*1000 + delta.microseconds//1000` with the
    normalised timedelta fields (0 ≤ seconds < 86400, 0 ≤ microseconds < 10^6) -/
def dtToMs (us : Int) : Int :=
  let days := us / usPerDay
  let r := us % usPerDay
  let secs := r / 1000000
  let micro := r % 1000000
  (days * 86400 + secs) * 1000 + micro / 1000

/-- `datetime_to_utc_epoch(dt)`; `none` = ValueError -/
def datetimeToUtcEpoch (tz : Tz) (us : Int) : Option Int :=
  match tz with
  | .other => none
  | _ => some (dtToMs us)

/-! ## time strings -/

/-- decimal digit character of `n % 10` -/
def digitChar (n : Nat) : Char :=
  match n % 10 with
  | 0 => '0' | 1 => '1' | 2 => '2' | 3 => '3' | 4 => '4'
  | 5 => '5' | 6 => '6' | 7 => '7' | 8 => '8' | _ => '9'

def digit? (c : Char) : Option Nat :=
  if c = '0' then some 0 else if c = '1' then some 1 else if c = '2' then some 2 else if c = '3' then some 3
  else if c = '4' then some 4 else if c = '5' then some 5 else if c = '6' then some 6 else if c = '7' then some 7
  else if c = '8' then some 8 else if c = '9' then some 9 else none

def d2 (n : Nat) : List Char := [digitChar (n / 10), digitChar n]
def d4 (n : Nat) : List Char := [digitChar (n / 1000), digitChar (n / 100), digitChar (n / 10), digitChar n]
def d6 (n : Nat) : List Char :=
  [digitChar (n / 100000), digitChar (n / 10000), digitChar (n / 1000), digitChar (n / 100), digitChar (n / 10),
   digitChar n]

/-- `datetime.isoformat(sep)` from the fields of a naive datetime: the fraction is written iff microsecond ≠ 0
    (always six digits) -/
def formatFields (sep : Char) (f : Fields) : List Char :=
  d4 f.year.toNat ++ ('-' :: (d2 f.month.toNat ++ ('-' :: (d2 f.day.toNat ++ (sep ::
    (d2 f.hour.toNat ++ (':' :: (d2 f.minute.toNat ++ (':' :: (d2 f.second.toNat ++
      (if f.micro = 0 then [] else '.' :: d6 f.micro.toNat)))))))))))

/-- `datetime.isoformat(sep)` of a naive datetime / `str(dt)` for sep = ' ' -/
def isoformat (sep : Char) (us : Int) : List Char := formatFields sep (fields us)

/-- `str(dt)` of a naive datetime -/
def strNaive (us : Int) : List Char := isoformat ' ' us
/-- `str(dt)` of a UTC-aware datetime -/
def strAware (us : Int) : List Char := isoformat ' ' us ++ ['+', '0', '0', ':', '0', '0']

/-- the format strings that occur: date/time separator, `.%f` present, `%z` present -/
structure Format where
  sep : Char
  frac : Bool
  zone : Bool
deriving DecidableEq, Repr

/-- `parse_string_format(time_string)` (time_utils.py:124): `'.' in s` selects `.%f`, `s[-6] == '+'` adds `%z`.
    `none` = IndexError (string shorter than six characters). -/
def parseStringFormat (s : List Char) : Option Format :=
  if s.length < 6 then none
  else some { sep := ' ', frac := s.contains '.', zone := s[s.length - 6]? == some '+' }

def take2 : List Char → Option (Nat × List Char)
  | a :: b :: rest => do
      let x ← digit? a
      let y ← digit? b
      some (x * 10 + y, rest)
  | _ => none

def take4 : List Char → Option (Nat × List Char)
  | a :: b :: c :: d :: rest => do
      let x ← digit? a
      let y ← digit? b
      let z ← digit? c
      let w ← digit? d
      some (x * 1000 + y * 100 + z * 10 + w, rest)
  | _ => none

def expect (c : Char) : List Char → Option (List Char)
  | x :: rest => if x = c then some rest else none
  | [] => none

/-- `%f`: one to six digits, value right-padded with zeros to microseconds. `fuel` = digits still allowed,
    `scale` = weight of the next digit. Returns (micro, rest); at least one digit is required by the caller. -/
def takeFrac : Nat → Nat → Nat → List Char → Nat × List Char
  | 0, _, acc, s => (acc, s)
  | _ + 1, _, acc, [] => (acc, [])
  | fuel + 1, scale, acc, c :: rest =>
    match digit? c with
    | some v => takeFrac fuel (scale / 10) (acc + v * scale) rest
    | none => (acc, c :: rest)

/-- `%z` for the shapes `+HH:MM` / `-HH:MM` (the value is discarded by `.replace(tzinfo=utc)`) -/
def takeZone : List Char → Option (List Char)
  | sg :: rest =>
    if sg = '+' ∨ sg = '-' then do
      let (_, r1) ← take2 rest
      let r2 ← expect ':' r1
      let (_, r3) ← take2 r2
      some r3
    else none
  | [] => none

/-- `datetime.strptime(s, fmt)` for `fmt = %Y-%m-%d<sep>%H:%M:%S[.%f][%z]` restricted to canonical field widths
    (4-digit year, 2-digit month/day/hour/minute/second — what `str(datetime)` writes); `none` = ValueError
    (mismatch, unconverted data, or field out of range). Returns the fields. -/
def strptimeFields (fmt : Format) (s : List Char) : Option Fields := do
  let (y, s) ← take4 s
  let s ← expect '-' s
  let (mo, s) ← take2 s
  let s ← expect '-' s
  let (d, s) ← take2 s
  let s ← expect fmt.sep s
  let (h, s) ← take2 s
  let s ← expect ':' s
  let (mi, s) ← take2 s
  let s ← expect ':' s
  let (sec, s) ← take2 s
  let (us, s) ← (if fmt.frac then do
      let s ← expect '.' s
      match s with
      | c :: _ => if (digit? c).isSome then some (takeFrac 6 100000 0 s) else none
      | [] => none
    else some (0, s))
  let s ← (if fmt.zone then takeZone s else some s)
  if s ≠ [] then none else
  let f : Fields := { year := y, month := mo, day := d, hour := h, minute := mi, second := sec, micro := us }
  if validFields f then some f else none

/-- `strptime_to_utc_datetime(s, fmt)` with an explicit format: `strptime(...).replace(tzinfo=utc)` -/
def strptimeWith (fmt : Format) (s : List Char) : Option Int := (strptimeFields fmt s).map ofFields

/-- `strptime_to_utc_datetime(time_string)` with the default format argument (time_utils.py:96) -/
def strptimeToUtcDatetime (s : List Char) : Option Int := do
  let fmt ← parseStringFormat s
  strptimeWith fmt s

/-- `strptime_to_utc_epoch(time_string)` with the default format argument (time_utils.py:71) -/
def strptimeToUtcEpoch (s : List Char) : Option Int := (strptimeToUtcDatetime s).map dtToMs

/-- `parse_datetime` of the csep_ascii reader (readers.py:428): first `%Y-%m-%dT%H:%M:%S.%f`, then
    `%Y-%m-%dT%H:%M:%S`; `none` = CSEPIOException -/
def readerParse (s : List Char) : Option Int :=
  match strptimeWith { sep := 'T', frac := true, zone := false } s with
  | some us => some (dtToMs us)
  | none => (strptimeWith { sep := 'T', frac := false, zone := false } s).map dtToMs

/-! ## decimal years -/

/-- `decimal_year(test_date)` (time_utils.py:178): ten float operations, in Python's evaluation order. -/
def decimalYear (us : Int) : Rat :=
  let f := fields us
  let ndpy : Rat := if isLeap f.year then 366 else 365
  let numDays : Int := daysBeforeMonth f.year f.month
  let a0 : Rat := ((numDays + (f.day - 1) : Int) : Rat)      -- int + int
  let a1 := fadd a0 (fdiv f.hour 24)                          -- + hour / 24.0
  let a2 := fadd a1 (fdiv f.minute 1440)                      -- + minute / 1440.0
  let s := fadd f.second (fmul f.micro (fl64 (1 / 1000000))) -- second + microsecond * 1e-6
  let a3 := fadd a2 (fdiv s 86400)                            -- + (...) / 86400.0
  let q := fdiv a3 ndpy                                       -- (...) / num_days_per_year
  fadd f.year q                                               -- year + ...

/-- the same expression in exact arithmetic -/
def decimalYearExact (us : Int) : Rat :=
  let f := fields us
  let ndpy : Rat := if isLeap f.year then 366 else 365
  let numDays : Int := daysBeforeMonth f.year f.month
  (f.year : Rat) + (((numDays + (f.day - 1) : Int) : Rat) + (f.hour : Rat) / 24 + (f.minute : Rat) / 1440
    + ((f.second : Rat) + (f.micro : Rat) / 1000000) / 86400) / ndpy

/-- `decimal_year_to_utc_datetime(decimal_date)` (time_utils.py:211) for a positive float:
    `year = d // 1; frac = d % 1` (exact), `microseconds_per_year = ndpy*24*60*60*1e6` (exact products),
    one float product, `timedelta(microseconds=float)` rounds half-even. -/
def decimalYearToDatetime (d : Rat) : Int :=
  let year : Int := d.floor
  let frac : Rat := d - (year : Rat)
  let ndpy : Rat := if isLeap year then 366 else 365
  let mpy := fmul (fmul (fmul (fmul ndpy 24) 60) 60) 1000000
  let mi := fmul mpy frac
  daysFromCivil year 1 1 * usPerDay + roundHalfEven mi

/-- `decimal_year_to_utc_epoch` -/
def decimalYearToEpoch (d : Rat) : Int := dtToMs (decimalYearToDatetime d)

end Time
