import PycsepVerif.Model.Resample

/-!
  Model of the resampling step of `MLL_magnitude_test(full_calculation=True)`
  (csep/core/catalog_evaluations.py:557-596), which `Model/CatalogEvals.lean` takes as an input (`draws`) and
  `Model/Resample.lean` covers only for `full_calculation=False`:

      Lambda_u = []                                                              (:560)
      for j, cat in enumerate(forecast):
          Lambda_u = numpy.append(Lambda_u, cat.get_magnitudes())                (:568)  raw magnitudes, iteration order
          Lambda_u_histogram += cat.magnitude_counts()                            (:569)  gridded (tolerance-aware) counts
      ...
      mag_values = numpy.random.choice(Lambda_u, size=int(n_obs))                (:587)
      Lambda_j_histogram, _ = numpy.histogram(mag_values,
                                  bins=numpy.append(forecast.magnitudes, max(forecast.magnitudes) + 10))   (:591-594)

  `numpy.random.choice(a, size=n)` without `p` of the legacy `RandomState` is `a[randint(0, len(a), size=n)]`; the
  integers are the input `idx`.  An event of the union travels as the pair (raw magnitude, gridded bin): the bin
  `catalog.magnitude_counts()` counts it in (`none` = below the first edge, counted nowhere) comes from C02's lookup
  (tolerance-aware, open top bin), whereas `numpy.histogram` compares the RAW magnitude with the RAW edges
  (`Resample.histBin`: nothing below the first edge, nothing above `max + 10`).
-/
namespace CatEvals
open Soft64

/-- an event of a synthetic catalog: raw magnitude and the magnitude bin `magnitude_counts()` puts it in -/
abbrev MagEv := Rat × Option Nat

/-- `Lambda_u`: the raw magnitudes of all synthetic catalogs, concatenated in iteration order (:568) -/
def lambdaU (cats : List (List MagEv)) : List MagEv := cats.flatten

/-- `Lambda_u_histogram = Σ_j cat_j.magnitude_counts()` (:569): gridded counts of the union -/
def unionGridded (K : Nat) (lam : List MagEv) : List Nat := binCount K (lam.filterMap fun e => e.2)

/-- `numpy.random.choice(Lambda_u, size=n)` = `Lambda_u[randint(0, len(Lambda_u), n)]` (indices outside the array cannot
    be produced by `randint`; the model drops them) -/
def choiceFull (lam : List MagEv) (idx : List Nat) : List MagEv := idx.filterMap fun i => lam[i]?

/-- one resampled histogram: the drawn raw magnitudes binned by `numpy.histogram` against the raw edges -/
def fullHist (mags : List Rat) (lam : List MagEv) (idx : List Nat) : List Nat :=
  binCount mags.length ((choiceFull lam idx).filterMap fun e => histBin mags e.1)

/-- the J histograms of one test: one list of `int(n_obs)` integers per synthetic catalog -/
def fullDraws (mags : List Rat) (lam : List MagEv) (idxs : List (List Nat)) : List (List Nat) :=
  idxs.map (fullHist mags lam)

/-- decidable premise (evaluated by the driver on every case): `numpy.histogram` counts every event of the union in the
    bin the gridded counts put it in.  False for a raw magnitude inside the round-off band below an edge (recorded
    observation of round 3), for an event below the first edge, and for one more than 10 units above the last edge. -/
def alignedOK (mags : List Rat) (lam : List MagEv) : Bool :=
  lam.all fun e => histBin mags e.1 == e.2 && e.2.isSome

end CatEvals
