/-
  Model of the JSON round trip of evaluation results and Cartesian regions:
    csep/models.py:82  EvaluationResult.to_dict      csep/models.py:102 EvaluationResult.from_dict
    csep/__init__.py:387 load_evaluation_result (factory keyed by the stored class name)
    csep/core/repositories.py:60 FileSystem.save  (json.dump(..., default=_json_default))   :107 _json_default
    :114 write_json   :48 load
    csep/core/regions.py:688 CartesianGrid2D.to_dict   :698 from_dict   :724 from_origins
  Exact layer, import-free.

  Python values are a small ADT with the kinds that matter for `json.dump(default=_json_default)`:
    * int / bool / float / str / None / list / tuple are serialised natively (tuple → array; NaN, ±Infinity as the
      bare tokens Python's json writes and reads back);
    * numpy.float64 IS a Python float subclass and is written as a number;
    * numpy.int64, numpy.bool_, numpy.float32, … are NOT JSON serialisable: `_json_default` (repositories.py:107,
      commit 98f1bb3) hands json their `.item()`, the Python int / bool / float they hold, so they are written as
      numbers / booleans (before that fix `default=str` wrote them as STRINGS);
    * any other object json cannot encode (an ndarray nested in a field, a datetime, …) is still written as `str(obj)`;
    * numpy.ndarray only occurs as `test_distribution`, where to_dict calls `.tolist()`.
  The text layer (json.dumps / json.loads on the JSON tree, repr/float round trip) is trusted and re-checked by the
  harness on every generated value.
-/
namespace ResultJson

/-- a binary64 value: NaN (payload and sign are not preserved by the text `NaN`) or any other value (finite, ±inf)
    identified by its bit pattern -/
inductive F64 where
  | nan : F64
  | num (bits : Nat) : F64
  deriving DecidableEq, Repr

mutual
  inductive PyVal where
    | pyInt (n : Int)
    | pyBool (b : Bool)
    | pyFloat (x : F64)
    | npFloat64 (x : F64)
    /-- any numpy integer scalar (int64, int32, uint8, …) -/
    | npInt64 (n : Int)
    | npBool (b : Bool)
    /-- a numpy floating scalar that is not a float64 (float32, float16); `x` is the double `.item()` returns -/
    | npFloat32 (x : F64)
    /-- any non-numpy object json cannot encode (ndarray inside a field, datetime, …); `s` is its `str()` -/
    | other (s : String)
    | str (s : String)
    | none
    | list (xs : PyList)
    | tuple (xs : PyList)
    /-- numpy.ndarray, given by its `.tolist()` (a list of Python scalars / nested lists) -/
    | ndarray (tolist : PyList)
  inductive PyList where
    | nil
    | cons (v : PyVal) (vs : PyList)
end

mutual
  inductive Json where
    | null
    | bool (b : Bool)
    | int (n : Int)
    | float (x : F64)
    | str (s : String)
    | arr (xs : JList)
  inductive JList where
    | nil
    | cons (v : Json) (vs : JList)
end

mutual
  /-- `json.dump(v, default=_json_default)`: numpy scalars through `.item()`, other unknown objects through `str` -/
  def toJson : PyVal → Json
    | .pyInt n => .int n
    | .pyBool b => .bool b
    | .pyFloat x => .float x
    | .npFloat64 x => .float x                 -- numpy.float64 is a float subclass
    | .npInt64 n => .int n                     -- _json_default: obj.item() is a Python int
    | .npBool b => .bool b                     -- _json_default: obj.item() is a Python bool
    | .npFloat32 x => .float x                 -- _json_default: obj.item() is a Python float
    | .other s => .str s                       -- _json_default: str(obj)
    | .str s => .str s
    | .none => .null
    | .list xs => .arr (toJsonL xs)
    | .tuple xs => .arr (toJsonL xs)
    | .ndarray xs => .arr (toJsonL xs)         -- only reached through to_dict's `.tolist()`
  def toJsonL : PyList → JList
    | .nil => .nil
    | .cons v vs => .cons (toJson v) (toJsonL vs)
end

mutual
  /-- `json.load` -/
  def fromJson : Json → PyVal
    | .null => .none
    | .bool b => .pyBool b
    | .int n => .pyInt n
    | .float x => .pyFloat x
    | .str s => .str s
    | .arr xs => .list (fromJsonL xs)
  def fromJsonL : JList → PyList
    | .nil => .nil
    | .cons v vs => .cons (fromJson v) (fromJsonL vs)
end

/-- write then load one field value -/
def roundTrip (v : PyVal) : PyVal := fromJson (toJson v)

mutual
  /-- what "equal" means after a round trip: tuples and arrays come back as lists and numpy scalar wrappers are
      dropped (numpy.int64(4) ↦ 4, numpy.bool_(True) ↦ True, numpy.float32/64(x) ↦ x); the numeric payload
      (incl. NaN, ±inf), ints, strings, None and the nesting are unchanged -/
  def norm : PyVal → PyVal
    | .npFloat64 x => .pyFloat x
    | .npInt64 n => .pyInt n
    | .npBool b => .pyBool b
    | .npFloat32 x => .pyFloat x
    | .list xs => .list (normL xs)
    | .tuple xs => .list (normL xs)
    | .ndarray xs => .list (normL xs)
    | v => v
  def normL : PyList → PyList
    | .nil => .nil
    | .cons v vs => .cons (norm v) (normL vs)
end

mutual
  /-- the safe kinds: int, bool, float, every numpy integer / bool / floating scalar, str, None and
      lists / tuples / arrays of safe values.  Only objects that reach `str(obj)` are unsafe. -/
  def Safe : PyVal → Prop
    | .pyInt _ => True
    | .pyBool _ => True
    | .pyFloat _ => True
    | .npFloat64 _ => True
    | .str _ => True
    | .none => True
    | .list xs => SafeL xs
    | .tuple xs => SafeL xs
    | .ndarray xs => SafeL xs
    | .npInt64 _ => True
    | .npBool _ => True
    | .npFloat32 _ => True
    | .other _ => False
  def SafeL : PyList → Prop
    | .nil => True
    | .cons v vs => Safe v ∧ SafeL vs
end

mutual
  def safeB : PyVal → Bool
    | .pyInt _ | .pyBool _ | .pyFloat _ | .npFloat64 _ | .str _ | .none => true
    | .npInt64 _ | .npBool _ | .npFloat32 _ => true
    | .list xs | .tuple xs | .ndarray xs => safeLB xs
    | .other _ => false
  def safeLB : PyList → Bool
    | .nil => true
    | .cons v vs => safeB v && safeLB vs
end

def PyList.ofList : List PyVal → PyList
  | [] => .nil
  | v :: vs => .cons v (PyList.ofList vs)

/-- `td_list` of to_dict (models.py:83-86): `.tolist()` when the value has it (ndarray; numpy scalars return the
    Python scalar), else `list(value)` (list, tuple, str → list of its characters), TypeError for None and plain
    Python scalars (`none`). -/
def tdList : PyVal → Option PyVal
  | .ndarray xs => some (.list xs)
  | .npFloat64 x => some (.pyFloat x)
  | .npInt64 n => some (.pyInt n)
  | .npBool b => some (.pyBool b)
  | .npFloat32 x => some (.pyFloat x)
  | .list xs => some (.list xs)
  | .tuple xs => some (.list xs)
  | .str s => some (.list (PyList.ofList (s.toList.map (fun c => PyVal.str (String.singleton c)))))
  | .other _ => Option.none
  | .pyInt _ => Option.none
  | .pyBool _ => Option.none
  | .pyFloat _ => Option.none
  | .none => Option.none

/-- an evaluation result: the class name (`named_type`) and the nine stored fields -/
structure Result where
  cls : String
  testDistribution : PyVal
  name : PyVal
  observedStatistic : PyVal
  quantile : PyVal
  status : PyVal
  obsCatalogRepr : PyVal
  simName : PyVal
  obsName : PyVal
  minMw : PyVal

/-- the JSON object written by write_json(result): `type` plus nine members -/
structure JResult where
  type : String
  testDistribution : Json
  name : Json
  observedStatistic : Json
  quantile : Json
  status : Json
  obsCatalogRepr : Json
  simName : Json
  obsName : Json
  minMw : Json

/-- The `EvaluationResult` class and its subclasses defined in csep/models.py (re-extracted by the harness on every
    run and compared with this table through the driver op `c18_tables`). -/
def resultClasses : List String :=
  ["EvaluationResult", "CatalogNumberTestResult", "CatalogPseudolikelihoodTestResult", "CatalogMagnitudeTestResult",
   "CatalogSpatialTestResult", "CalibrationTestResult"]

/-- `evaluation_result_factory` of csep/__init__.py:396 : key ↦ name of the class it maps to (also re-extracted) -/
def factoryTable : List (String × String) :=
  [("default", "EvaluationResult"),
   ("EvaluationResult", "EvaluationResult"),
   ("CatalogNumberTestResult", "CatalogNumberTestResult"),
   ("CatalogSpatialTestResult", "CatalogSpatialTestResult"),
   ("CatalogMagnitudeTestResult", "CatalogMagnitudeTestResult"),
   ("CatalogPseudolikelihoodTestResult", "CatalogPseudolikelihoodTestResult"),
   ("CatalogPseudoLikelihoodTestResult", "CatalogPseudolikelihoodTestResult"),
   ("CalibrationTestResult", "CalibrationTestResult")]

/-- `evaluation_result_factory[evaluation_type]`; `none` = KeyError -/
def factory (key : String) : Option String := factoryTable.lookup key

/-- write_json(result, fname): to_dict then json.dump(default=_json_default). `none` = to_dict raised TypeError. -/
def write (r : Result) : Option JResult :=
  (tdList r.testDistribution).map fun td =>
    { type := r.cls
      testDistribution := toJson td
      name := toJson r.name
      observedStatistic := toJson r.observedStatistic
      quantile := toJson r.quantile
      status := toJson r.status
      obsCatalogRepr := toJson r.obsCatalogRepr
      simName := toJson r.simName
      obsName := toJson r.obsName
      minMw := toJson r.minMw }

/-- load_evaluation_result(fname): json.load, factory lookup on `type`, `cls.from_dict`. `none` = KeyError. -/
def load (j : JResult) : Option Result :=
  (factory j.type).map fun c =>
    { cls := c
      testDistribution := fromJson j.testDistribution
      name := fromJson j.name
      observedStatistic := fromJson j.observedStatistic
      quantile := fromJson j.quantile
      status := fromJson j.status
      obsCatalogRepr := fromJson j.obsCatalogRepr
      simName := fromJson j.simName
      obsName := fromJson j.obsName
      minMw := fromJson j.minMw }

/-- the SECOND public loader: `csep.load_json(cls, fname)` = `FileSystem(url).load(cls)` (repositories.py:48, :127):
    json.load, then `cls.from_dict(adict)` (models.py:102).  The caller names the class; the stored 'type' is not
    consulted, so there is no KeyError.  The nine fields are read exactly as `load` reads them. -/
def loadAs (c : String) (j : JResult) : Result :=
  { cls := c
    testDistribution := fromJson j.testDistribution
    name := fromJson j.name
    observedStatistic := fromJson j.observedStatistic
    quantile := fromJson j.quantile
    status := fromJson j.status
    obsCatalogRepr := fromJson j.obsCatalogRepr
    simName := fromJson j.simName
    obsName := fromJson j.obsName
    minMw := fromJson j.minMw }

/-- the in-memory pair `cls.from_dict(result.to_dict())` (no file, no JSON): the class is the caller's, the fields are
    handed over as they are, `test_distribution` as `td_list` made it.  `none` = to_dict raised TypeError. -/
def fromDictToDict (r : Result) : Option Result :=
  (tdList r.testDistribution).map fun td => { r with testDistribution := td }

/-- the expected loaded result: same class, every field normalised -/
def normResult (r : Result) (td : PyVal) : Result :=
  { cls := r.cls
    testDistribution := norm td
    name := norm r.name
    observedStatistic := norm r.observedStatistic
    quantile := norm r.quantile
    status := norm r.status
    obsCatalogRepr := norm r.obsCatalogRepr
    simName := norm r.simName
    obsName := norm r.obsName
    minMw := norm r.minMw }

/-! ### Cartesian regions (exact lattice model, local to C18)

  A region is determined by the ordered origins of its cells, the cell size dh, an optional per-cell mask and a name:
  `CartesianGrid2D(polygons, dh, name, mask)` computes everything else (`xs, ys, idx_map, bbox_mask, bounds`) from
  these.  to_dict (:688) stores name, dh and the origins — NOT the mask; from_dict (:698) rebuilds through
  from_origins (:724), i.e. with mask None.  Coordinates are exact rationals (every float64 is one). -/

structure Region where
  origins : List (Rat × Rat)
  dh : Rat
  mask : Option (List Bool)     -- poly_mask: `true` = cell valid (csep1 convention), None = unmasked
  name : String
  deriving DecidableEq

structure RegionDict where
  name : String
  dh : Rat
  polygons : List (Rat × Rat)   -- [{'lon':…, 'lat':…}, …] in cell order
  deriving DecidableEq

def Region.toDict (r : Region) : RegionDict := { name := r.name, dh := r.dh, polygons := r.origins }

def Region.fromDict (d : RegionDict) : Region :=
  { origins := d.polygons, dh := d.dh, mask := Option.none, name := d.name }

/-- is cell i usable -/
def Region.valid (r : Region) (i : Nat) : Bool :=
  match r.mask with
  | Option.none => true
  | some m => m.getD i false

/-- exact-lattice point location: the first valid cell whose half-open square [lon, lon+dh) × [lat, lat+dh)
    contains the point; `none` = ValueError (outside the region) -/
def Region.indexOf (r : Region) (p : Rat × Rat) : Option Nat :=
  (List.range r.origins.length).find? fun i =>
    match r.origins[i]? with
    | some o => r.valid i && decide (o.1 ≤ p.1 ∧ p.1 < o.1 + r.dh ∧ o.2 ≤ p.2 ∧ p.2 < o.2 + r.dh)
    | Option.none => false

end ResultJson
