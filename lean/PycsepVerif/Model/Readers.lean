import PycsepVerif.Soft64
/-
  Model of the catalog readers of csep/utils/readers.py (`csep_ascii` :410, `zmap_ascii` :331, `ingv_horus` :575,
  `jma_csv` :656, `ndk` :25 with `_parse_datetime_to_zmap` :788) and of the `type → (class, reader)` table of
  `csep.load_catalog` (csep/__init__.py:111-170).

  Tokenisation is TRUSTED and not modelled: `csv.reader`, `numpy.loadtxt`, `numpy.genfromtxt`, the fixed columns of
  the NDK lines, `float()`, `int()` and the field matching of `datetime.strptime`.  The model starts from the parsed
  tokens of one record: numbers are rationals (every float64 is one), clock fields are integers, the fractional
  second of a `%f` field is an integer number of microseconds.  What is modelled: which column feeds which field,
  `int()` truncation, the validity test of `datetime.datetime(...)`, the calendar arithmetic (proleptic Gregorian
  day count), carries (HORUS), the ":60.0" rewrite (NDK), the UTC offset (JMA `%z`) and the resolution of the result.
-/
namespace Readers

/-! ## civil calendar (what `datetime.datetime` does) -/

def isLeap (y : Int) : Bool := y % 4 == 0 && (y % 100 != 0 || y % 400 == 0)

def daysInMonth (y m : Int) : Int :=
  if m == 2 then (if isLeap y then 29 else 28)
  else if m == 4 || m == 6 || m == 9 || m == 11 then 30 else 31

/-- `datetime.date(y, m, d)` accepts exactly these (MINYEAR = 1, MAXYEAR = 9999) -/
def validDate (y m d : Int) : Bool :=
  1 ≤ y && y ≤ 9999 && 1 ≤ m && m ≤ 12 && 1 ≤ d && d ≤ daysInMonth y m

/-- days from 1970-01-01 to the proleptic Gregorian date y-m-d (H. Hinnant's `days_from_civil`, in closed form;
    `/` and `%` on `Int` are floor division / non-negative remainder for positive divisors) -/
def daysFromCivil (y m d : Int) : Int :=
  let y' := if m ≤ 2 then y - 1 else y
  let mp := (m + 9) % 12
  365 * y' + y' / 4 - y' / 100 + y' / 400 + (153 * mp + 2) / 5 + d - 719469

/-- the naive clock reading handed to `datetime.datetime(y, m, d, H, M, S)` -/
structure Clock where
  y : Int
  m : Int
  d : Int
  hh : Int
  mi : Int
  ss : Int
deriving DecidableEq, Repr

/-- `datetime.datetime(...)` raises ValueError outside these ranges -/
def Clock.valid (c : Clock) : Bool :=
  validDate c.y c.m c.d && 0 ≤ c.hh && c.hh < 24 && 0 ≤ c.mi && c.mi < 60 && 0 ≤ c.ss && c.ss < 60

/-- seconds from 1970-01-01T00:00:00 of a clock reading taken as UTC -/
def Clock.epochSec (c : Clock) : Int :=
  daysFromCivil c.y c.m c.d * 86400 + c.hh * 3600 + c.mi * 60 + c.ss

/-- `datetime_to_utc_epoch(dt)` (time_utils.py:42-63) of a naive/UTC datetime with `us` microseconds:
    `(delta.days * 86400 + delta.seconds) * 1000 + delta.microseconds // 1000` -/
def epochMs (c : Clock) (us : Int) : Int := c.epochSec * 1000 + us / 1000

/-- `int(x)` on a float: truncation toward zero -/
def trunc (x : Rat) : Int := if 0 ≤ x then x.floor else -((-x).floor)

/-- what every reader returns per record (the event id is not part of property C19 and is left out):
    `(id, origin_time [ms], latitude, longitude, depth, magnitude)` -/
structure Event where
  time : Int
  lat : Rat
  lon : Rat
  depth : Rat
  mag : Rat
deriving DecidableEq, Repr

inductive Err where
  | badTime      -- ValueError from datetime()/strptime (ZMAP, CSEP, JMA, HORUS), RuntimeError (NDK)
  | badRow       -- a row that cannot be converted (header line after the first event, too few columns)
deriving DecidableEq, Repr

abbrev Result := Except Err (List Event)

/-! ## the shared loop of the two csv readers -/

/-- a csv line: a header line or a data row -/
inductive Line (α : Type) where
  | header
  | row (r : α)
deriving DecidableEq, Repr

/-- `for line in reader: if is_first_event and is_header_line(line): continue; …; is_first_event = False`
    (readers.py:448-475 and :660-671): header lines are skipped until the first event; a header line met later is
    read as data and `float('lon')` / strptime raises -/
def lineLoop {α : Type} (f : α → Except Err Event) (first : Bool) : List (Line α) → Result
  | [] => .ok []
  | .header :: ls => if first then lineLoop f first ls else .error .badRow
  | .row r :: ls =>
    match f r with
    | .error e => .error e
    | .ok ev =>
      match lineLoop f false ls with
      | .error e => .error e
      | .ok evs => .ok (ev :: evs)

/-! ## CSEP CSV (`csep_ascii`, readers.py:410-478) -/

/-- tokens of one row `lon,lat,mag,time_string,depth,catalog_id,event_id`; the time string matched against
    '%Y-%m-%dT%H:%M:%S.%f' or '%Y-%m-%dT%H:%M:%S' gives a clock reading and microseconds (0 without fraction) -/
structure CsepRec where
  lon : Rat
  lat : Rat
  mag : Rat
  clock : Clock
  us : Int
  depth : Rat
deriving DecidableEq, Repr

/-- `header`: `line[0] == 'lon'` -/
abbrev CsepLine := Line CsepRec

def csepRec (r : CsepRec) : Except Err Event :=
  -- strptime builds datetime(...): ValueError → both formats fail → CSEPIOException
  if r.clock.valid && 0 ≤ r.us && r.us < 1000000 then
    .ok ⟨epochMs r.clock r.us, r.lat, r.lon, r.depth, r.mag⟩
  else .error .badTime

def decodeCsep (ls : List CsepLine) : Result := lineLoop csepRec true ls

/-! ## ZMAP (`zmap_ascii`, readers.py:331-407) -/

/-- `ColumnIndex` (readers.py:364-383); checked against the source by the harness on every run -/
def zmapCols : List (String × Nat) :=
  [("Longitude", 0), ("Latitude", 1), ("DecimalYear", 2), ("Month", 3), ("Day", 4), ("Magnitude", 5), ("Depth", 6),
   ("Hour", 7), ("Minute", 8), ("Second", 9), ("HorizontalError", 10), ("DepthError", 11), ("MagnitudeError", 12),
   ("NetworkName", 13), ("NumColumns", 14)]

def zcol (name : String) : Nat := (zmapCols.lookup name).getD 0

/-- one row of `numpy.loadtxt(..., ndmin=2)`: all columns are float64 -/
def zmapRec (row : List Rat) : Except Err Event :=
  if row.length < 10 then .error .badRow else   -- IndexError
  let g := fun (name : String) => row.getD (zcol name) 0
  let c : Clock := ⟨trunc (g "DecimalYear"), trunc (g "Month"), trunc (g "Day"),
                    trunc (g "Hour"), trunc (g "Minute"), trunc (g "Second")⟩
  if c.valid then .ok ⟨epochMs c 0, g "Latitude", g "Longitude", g "Depth", g "Magnitude"⟩
  else .error .badTime

def decodeZmap (rows : List (List Rat)) : Result := rows.mapM zmapRec

/-! ## INGV HORUS (`ingv_horus`, readers.py:575-641) -/

/-- `ind` (readers.py:593-602): column of each field -/
def horusCols : List (String × Nat) :=
  [("year", 0), ("month", 1), ("day", 2), ("hour", 3), ("minute", 4), ("second", 5), ("lat", 6), ("lon", 7),
   ("depth", 8), ("Mw", 9)]

structure HorusRec where
  year : Int      -- '<i4' columns
  month : Int
  day : Int
  hour : Int
  minute : Int
  second : Rat    -- '<f8' columns
  lat : Rat
  lon : Rat
  depth : Rat
  mw : Rat
deriving DecidableEq, Repr

/-- carries of readers.py:612-621, each applied at most once; `second - 60.` is exact in float64 for
    60 ≤ second < 2^53 (the difference is a multiple of the operand's ulp and smaller than it) -/
def horusRec (r : HorusRec) : Except Err Event :=
  let (sec, carry) := if 60 ≤ r.second then (r.second - 60, (60 : Int)) else (r.second, 0)
  let (mi, carry) := if 60 ≤ r.minute then (r.minute - 60, carry + 3600) else (r.minute, carry)
  let (hh, carry) := if 24 ≤ r.hour then (r.hour - 24, carry + 86400) else (r.hour, carry)
  let c : Clock := ⟨r.year, r.month, r.day, hh, mi, trunc sec⟩
  if c.valid then .ok ⟨(c.epochSec + carry) * 1000, r.lat, r.lon, r.depth, r.mw⟩   -- datetime(...) + dt
  else .error .badTime

def decodeHorus (rs : List HorusRec) : Result := rs.mapM horusRec

/-! ## JMA CSV (`jma_csv`, readers.py:644-672) -/

/-- tokens of `timestamp;longitude;latitude;depth;magnitude`; the timestamp matched against
    '%Y-%m-%dT%H:%M:%S.%f%z' gives a local clock reading, microseconds and the UTC offset in seconds -/
structure JmaRec where
  clock : Clock
  us : Int
  offset : Int
  lon : Rat
  lat : Rat
  depth : Rat
  mag : Rat
deriving DecidableEq, Repr

/-- `header`: `x[0] == 'timestamp'` -/
abbrev JmaLine := Line JmaRec

/-- `round(1000. * dt.timestamp())`: the aware datetime's instant is (local − offset); `timestamp()` is that instant
    in seconds as a float, `round` is to nearest, ties to even.  The model rounds the exact rational; the float
    product differs from it by < 1 µs for |t| < 2^33 s, so the two agree except on exact ties at µs resolution. -/
def jmaRec (r : JmaRec) : Except Err Event :=
  if r.clock.valid && 0 ≤ r.us && r.us < 1000000 then
    let usTotal : Int := (r.clock.epochSec - r.offset) * 1000000 + r.us
    .ok ⟨Soft64.roundHalfEven ((usTotal : Rat) / 1000), r.lat, r.lon, r.depth, r.mag⟩
  else .error .badTime

def decodeJma (ls : List JmaLine) : Result := lineLoop jmaRec true ls

/-- the float path, operation by operation: `timestamp()` is `total_microseconds / 10**6` (Python int/int true division,
    correctly rounded), then the float64 product `1000. * ts`, then `round` (exact, ties to even).  Used by the
    correspondence so that exact µs ties are compared too; `jmaRec` (exact rounding) is what the theorems are about, the
    harness reports every input on which the two differ (only exact ties are allowed to). -/
def jmaTimeF (usTotal : Int) : Int :=
  Soft64.roundHalfEven (Soft64.fmul 1000 (Soft64.fl64 ((usTotal : Rat) / 1000000)))

def jmaRecF (r : JmaRec) : Except Err Event :=
  if r.clock.valid && 0 ≤ r.us && r.us < 1000000 then
    .ok ⟨jmaTimeF ((r.clock.epochSec - r.offset) * 1000000 + r.us), r.lat, r.lon, r.depth, r.mag⟩
  else .error .badTime

def decodeJmaF (ls : List JmaLine) : Result := lineLoop jmaRecF true ls

/-! ## NDK (`ndk`, readers.py:25-328; `_parse_datetime_to_zmap`, :788-822) -/

/-- tokens of the hypocenter line (line 1) of a five-line record: date `YYYY/MM/DD`, time `HH:MM:SS.f…`
    (`secDigits` = the seconds field as an integer, `fracFirst` = first digit after the point), latitude, longitude,
    depth; `mw` stands for `2/3 * (log10(scalar_moment) - 9.1)` computed from lines 4-5 (transcendental, NOT
    modelled: the harness supplies the value and checks the formula numerically) -/
structure NdkRec where
  y : Int
  m : Int
  d : Int
  hh : Int
  mi : Int
  secDigits : Int
  fracFirst : Int
  lat : Rat
  lon : Rat
  depth : Rat
  mw : Rat
deriving DecidableEq, Repr

/-- `if ":60.0" in time: time = time.replace(":60.0", ":0.0"); add_minute = True`, then strptime, then
    `dt += timedelta(minutes=1)`; the result keeps whole seconds (`dt.second`) -/
def ndkRec (r : NdkRec) : Except Err Event :=
  let rewrite := r.secDigits == 60 && r.fracFirst == 0
  let c : Clock := ⟨r.y, r.m, r.d, r.hh, r.mi, if rewrite then 0 else r.secDigits⟩
  if c.valid then
    .ok ⟨(c.epochSec + (if rewrite then 60 else 0)) * 1000, r.lat, r.lon, r.depth, r.mw⟩
  else .error .badTime     -- RuntimeError, not caught by `ndk` (it catches ValueError): the load fails

def decodeNdk (rs : List NdkRec) : Result := rs.mapM ndkRec

/-! ## dispatch (`load_catalog`, csep/__init__.py:111-170) -/

/-- the tuple of accepted `type` strings (csep/__init__.py:131-134) -/
def allowedTypes : List String :=
  ["ucerf3", "csep-csv", "zmap", "jma-csv", "ingv_horus", "ingv_emrcmt", "ndk"]

/-- `class_loader_mapping`: type → (class, loader) (csep/__init__.py:140-169) -/
def classLoaderMapping : List (String × String × Option String) :=
  [("ucerf3", "UCERF3Catalog", none),
   ("csep-csv", "CSEPCatalog", some "csep_ascii"),
   ("zmap", "CSEPCatalog", some "zmap_ascii"),
   ("jma-csv", "CSEPCatalog", some "jma_csv"),
   ("ndk", "CSEPCatalog", some "ndk"),
   ("ingv_horus", "CSEPCatalog", some "ingv_horus"),
   ("ingv_emrcmt", "CSEPCatalog", some "ingv_emrcmt")]

/-- the type strings named in the docstring of `load_catalog` -/
def documentedTypes : List String := ["ucerf3", "csep-csv", "zmap", "jma-csv", "ndk"]

/-- the five text formats of property C19 and the reader each must reach -/
def textFormats : List (String × String) :=
  [("csep-csv", "csep_ascii"), ("zmap", "zmap_ascii"), ("jma-csv", "jma_csv"), ("ingv_horus", "ingv_horus"),
   ("ndk", "ndk")]

/-- `load_catalog(type=t)`: ValueError for an unknown type, else the (class, loader) pair -/
def dispatch (t : String) : Option (String × Option String) :=
  if allowedTypes.contains t then classLoaderMapping.lookup t else none

/-- outcome of the reader selection of `load_catalog(filename, type=t, loader=l)` -/
inductive LoadSel where
  | valueError                                          -- unknown `type` and no loader (csep/__init__.py:131-137)
  | keyError                                            -- unknown `type` WITH a loader: `class_loader_mapping[type]` (:170)
  | use (cls : String) (reader : Option String)         -- the catalog class and the reader that is called
deriving DecidableEq, Repr

/-- csep/__init__.py:131-137 (the type check is skipped when a loader is given), :170 (class lookup), :174-175
    `if loader is None: loader = class_loader_mapping[type]['loader']`: an explicitly passed loader ALWAYS wins, the
    reader registered for `type` is only the default.  `loader` is the name of the function the caller passed. -/
def selectLoader (t : String) (loader : Option String) : LoadSel :=
  if !(allowedTypes.contains t) && loader.isNone then .valueError else
  match classLoaderMapping.lookup t with
  | none => .keyError
  | some (cls, registered) => .use cls (match loader with | some l => some l | none => registered)

/-! ## Specification: what a well-formed record of each format is, and what it must decode to -/

/-- the civil date after y-m-d -/
def nextDay (y m d : Int) : Int × Int × Int :=
  if d < daysInMonth y m then (y, m, d + 1) else if m < 12 then (y, m + 1, 1) else (y + 1, 1, 1)

/-- the clock reading one minute later (seconds kept), rolling over hour, day, month and year ends -/
def nextMinute (c : Clock) : Clock :=
  if c.mi < 59 then { c with mi := c.mi + 1 }
  else if c.hh < 23 then { c with hh := c.hh + 1, mi := 0 }
  else
    let n := nextDay c.y c.m c.d
    ⟨n.1, n.2.1, n.2.2, 0, 0, c.ss⟩

/-- an event whose origin time is the UTC clock reading `clock` plus `us` microseconds (0 ≤ us < 10^6);
    used for the millisecond formats (CSEP CSV, JMA CSV) -/
structure MsEvent where
  clock : Clock
  us : Int
  lon : Rat
  lat : Rat
  depth : Rat
  mag : Rat
deriving DecidableEq, Repr

def MsEvent.wf (e : MsEvent) : Prop := e.clock.valid = true ∧ 0 ≤ e.us ∧ e.us < 1000000

/-- microseconds since 1970-01-01T00:00:00Z of the encoded instant -/
def MsEvent.usTotal (e : MsEvent) : Int := e.clock.epochSec * 1000000 + e.us

/-- CSEP CSV row of an event: `lon,lat,mag,YYYY-MM-DDTHH:MM:SS[.ffffff],depth,…` -/
def encodeCsep (e : MsEvent) : CsepLine := .row ⟨e.lon, e.lat, e.mag, e.clock, e.us, e.depth⟩

/-- JMA row of an event written in the zone `offset` seconds east of UTC: `local` is the local clock reading -/
def encodeJma (e : MsEvent) (loc : Clock) (offset : Int) : JmaLine :=
  .row ⟨loc, e.us, offset, e.lon, e.lat, e.depth, e.mag⟩

/-- an event whose origin time is the UTC clock reading `clock` plus a fraction `0 ≤ frac < 1` of a second;
    used for the whole-second formats (ZMAP, HORUS) -/
structure SecEvent where
  clock : Clock
  frac : Rat
  lon : Rat
  lat : Rat
  depth : Rat
  mag : Rat
deriving DecidableEq, Repr

def SecEvent.wf (e : SecEvent) : Prop := e.clock.valid = true ∧ 0 ≤ e.frac ∧ e.frac < 1

/-- the instant floored to whole seconds, in milliseconds -/
def SecEvent.expected (e : SecEvent) : Event := ⟨e.clock.epochSec * 1000, e.lat, e.lon, e.depth, e.mag⟩

/-- ZMAP row: lon lat year month day mag depth hour minute second [errors…]; the year column may be a decimal year
    `y + yfrac` (0 ≤ yfrac < 1), the optional trailing columns are arbitrary -/
def encodeZmap (e : SecEvent) (yfrac : Rat) (extra : List Rat) : List Rat :=
  [e.lon, e.lat, (e.clock.y : Rat) + yfrac, (e.clock.m : Rat), (e.clock.d : Rat), e.mag, e.depth,
   (e.clock.hh : Rat), (e.clock.mi : Rat), (e.clock.ss : Rat) + e.frac] ++ extra

/-- HORUS row; `cs`, `cm`, `ch` say whether seconds, minutes, hours are written denormalised (+60, +60, +24),
    in which case `clock` is the reading they are counted from -/
def encodeHorus (e : SecEvent) (cs cm ch : Bool) : HorusRec :=
  ⟨e.clock.y, e.clock.m, e.clock.d, e.clock.hh + (if ch then 24 else 0), e.clock.mi + (if cm then 60 else 0),
   (e.clock.ss : Rat) + e.frac + (if cs then 60 else 0), e.lat, e.lon, e.depth, e.mag⟩

/-- NDK hypocenter line `YYYY/MM/DD HH:MM:SS.t` with the tenths digit `t` -/
def encodeNdk (e : SecEvent) (tenth : Int) : NdkRec :=
  ⟨e.clock.y, e.clock.m, e.clock.d, e.clock.hh, e.clock.mi, e.clock.ss, tenth, e.lat, e.lon, e.depth, e.mag⟩

end Readers
