import PycsepVerif.Soft64
/-!
  Model of the simulation step of the Poisson, binary and Brier consistency tests (property C06).

  * csep/core/poisson_evaluations.py:582  `_simulate_catalog`      → `simulate`
  * csep/core/poisson_evaluations.py:624  `sampling_weights`       → `weights`
  * csep/core/binomial_evaluations.py:105 `_simulate_catalog`      → `rejLoop` (no numbers injected) / `simulate`
  * csep/core/binomial_evaluations.py:150 masked `sampling_weights`→ `weightsMasked`
  * csep/core/brier_evaluations.py:35,99  (same as binary)         → `rejLoop` / `simulate` / `weightsMasked`
  * `qs = numpy.sum(simulated <= obs) / num_simulations`           → `quantile`
  * `if seed is not None: numpy.random.seed(seed)`                 → `seedApplied`, `streamOf`

  A float64 is the rational it denotes (Soft64).  Uniform random numbers are inputs of the model.
-/
namespace Sampler
open Soft64

/-- the last element (`a[-1]`), 0 for the empty array (numpy raises IndexError there; never generated) -/
def lastD (xs : List Rat) : Rat := xs.getLastD 0

/-- poisson_evaluations.py:624-625
    `w = numpy.cumsum(rates.ravel()); w = w / w[-1]` : sequential float sum, then one float division per element -/
def weights (rates : List Rat) : List Rat :=
  let c := cumsumF rates
  c.map (fun x => fdiv x (lastD c))

/-- `numpy.ma.masked_where(rates <= 0.0, rates)` followed by `numpy.cumsum` : MaskedArray.cumsum fills the masked
    entries with 0 (binomial_evaluations.py:139,150; brier_evaluations.py:88,99) -/
def maskRates (rates : List Rat) : List Rat := rates.map (fun x => if x ≤ 0 then 0 else x)

/-- binary / Brier sampling weights -/
def weightsMasked (rates : List Rat) : List Rat := weights (maskRates rates)

/-- `numpy.searchsorted(ws, r, side='right')` on a non-decreasing array: the number of entries ≤ r -/
def searchRight (ws : List Rat) (r : Rat) : Nat := ws.countP (fun w => decide (w ≤ r))

/-- `numpy.add.at(arr, [i], 1)`; an index outside the array is an IndexError (`none`) -/
def bump (arr : List Nat) (i : Nat) : Option (List Nat) :=
  if i < arr.length then some (arr.modify i (· + 1)) else none

/-- `sim_fore.fill(0); pnts = searchsorted(ws, draws, 'right'); numpy.add.at(sim_fore, pnts, 1)`
    (poisson_evaluations.py:592-598, the injected branches of the binary and Brier versions).
    `none` = IndexError. -/
def simulateFrom (ws : List Rat) : List Nat → List Rat → Option (List Nat)
  | arr, [] => some arr
  | arr, r :: rs => match bump arr (searchRight ws r) with
      | some arr' => simulateFrom ws arr' rs
      | none => none

def simulate (ws : List Rat) (draws : List Rat) : Option (List Nat) :=
  simulateFrom ws (List.replicate ws.length 0) draws

/-- the placements themselves (what `searchsorted` returns for the vector of draws) -/
def placements (ws : List Rat) (draws : List Rat) : List Nat := draws.map (searchRight ws)

/-- outcome of the rejection loop -/
inductive Rej where
  | done (arr : List Nat) (rest : List Rat)   -- N distinct cells are active; `rest` = unused uniforms
  | indexError                                -- `sim_fore[loc]` with loc = len
  | exhausted                                 -- fuel (the supplied stream) ran out before N cells were active
  deriving Repr, DecidableEq

/-- binomial_evaluations.py:109-117 / brier_evaluations.py:51-60:
    ```
    while num_active_cells < sim_cells:
        random_num = numpy.random.uniform(0,1)
        loc = searchsorted(ws, random_num, side='right')
        if sim_fore[loc] == 0: sim_fore[loc] = 1; num_active_cells += 1
    ```
    The stream of uniforms is the fuel: one iteration consumes one number. -/
def rejLoop (ws : List Rat) (target : Nat) : List Nat → Nat → List Rat → Rej
  | arr, active, [] => if active < target then .exhausted else .done arr []
  | arr, active, r :: rest =>
    if active < target then
      let loc := searchRight ws r
      if loc < arr.length then
        if arr.getD loc 0 = 0 then rejLoop ws target (arr.set loc 1) (active + 1) rest
        else rejLoop ws target arr active rest
      else .indexError
    else .done arr (r :: rest)

/-- binary / Brier `_simulate_catalog(sim_cells, ws, …, random_numbers=None)` fed with `stream` -/
def simulateBinary (ws : List Rat) (target : Nat) (stream : List Rat) : Rej :=
  rejLoop ws target (List.replicate ws.length 0) 0 stream

/-- `assert sim_fore.sum() == sim_cells` (all three versions) -/
def countAssert (arr : List Nat) (n : Nat) : Bool := arr.sum == n

/-- `qs = numpy.sum(simulated <= obs) / num_simulations` as the pair (k, n) -/
def quantile (sims : List Rat) (obs : Rat) : Nat × Nat :=
  (sims.countP (fun s => decide (s ≤ obs)), sims.length)

/-- `if seed is not None: numpy.random.seed(seed)` -/
def seedApplied : Option Int → Bool
  | none => false
  | some _ => true

/-- the random stream a test consumes: the stream of the freshly seeded generator when a seed is applied,
    else whatever the ambient global generator `g` yields -/
def streamOf {σ : Type} (seedState : Int → σ) (seed : Option Int) (g : σ) : σ :=
  match seed with
  | some s => if seedApplied (some s) then seedState s else g
  | none => g

/-- the simulated count arrays of a test with injected numbers: one row of numbers per simulated catalog;
    `none` = an exception (IndexError / the count assertion) -/
def simRows (ws : List Rat) (nEvents : Nat) : List (List Rat) → Option (List (List Nat))
  | [] => some []
  | row :: rows => match simulate ws row with
      | some arr => if countAssert arr nEvents then (simRows ws nEvents rows).map (arr :: ·) else none
      | none => none

/-- one conditional test with injected numbers: `stat` is the test statistic of a simulated count array
    (C05/C16 model it), `obs` the observed statistic. -/
def testInjected (stat : List Nat → Rat) (ws : List Rat) (nEvents : Nat) (rows : List (List Rat)) (obs : Rat) :
    Option ((Nat × Nat) × List (List Nat)) :=
  (simRows ws nEvents rows).map (fun arrs => (quantile (arrs.map stat) obs, arrs))

/-- one binary/Brier test driven by a stream of uniforms (no injected numbers): simulations consume the stream
    one after another. `none` = exception or non-termination within the supplied stream. -/
def testBinaryStream (ws : List Rat) (target : Nat) :
    Nat → List Rat → Option (List (List Nat))
  | 0, _ => some []
  | k + 1, stream => match simulateBinary ws target stream with
      | .done arr rest => (testBinaryStream ws target k rest).map (arr :: ·)
      | _ => none

end Sampler
