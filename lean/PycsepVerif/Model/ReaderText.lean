import PycsepVerif.Model.Readers
import PycsepVerif.Model.PersistText
/-
  TEXT-LEVEL model of the catalog readers (property C19): from the characters of a file to the tokens that
  `Model/Readers.lean` starts from, i.e. the part of csep/utils/readers.py that was "trusted tokenisation":

    line splitting                     csv.reader(newline='') / numpy.loadtxt / numpy.genfromtxt / `lines_iter` (readers.py:269-278)
    field splitting                    csv delimiter ',' (:445) / ';' (:662), `str.split()` (loadtxt/genfromtxt, delimiter=None),
                                       fixed-width slices of the NDK lines (:52-58, :199-221)
    decimal text → float64             `float(tok)` (:55-58, :456-461, :669-672), loadtxt/genfromtxt field conversion
                                       = correctly rounded value of the decimal numeral = `Soft64.fl64 (parseDec tok)`
    `int(float(tok))`                  genfromtxt's converter of the '<i4' columns of HORUS (readers.py:596-611)
    strptime field matching            '%Y-%m-%dT%H:%M:%S.%f' / '%Y-%m-%dT%H:%M:%S' (:430-437), '…%f%z' (:652),
                                       '%Y/%m/%d %H:%M:%S.%f' with the ":60.0" rewrite (`_parse_datetime_to_zmap`, :791-825)
    `ndk._read_lines`                  which checks make a five-line record unparsable (ValueError / IOError → the record
                                       is SKIPPED, :289-298), exponent and scalar moment (:199, :221)
    `ndk` main loop                    groups of five lines, an incomplete last group is dropped (:281-286)

  A text is a `List Char`.  Everything is a total function; `none` at the outermost level (`Option Result`) means
  "outside the domain of this model" (quoted csv fields, comments '#', inf/nan/underscore numerals, negative NDK
  exponents, `%z` with seconds), never an answer.

  NOT modelled (still trusted): the regular expression over the "data used" part of NDK line 2 (:85-109), the
  case-insensitivity of strptime literals, the space-padded day of `%d`, Unicode digits, overflow of `float()`.
-/
namespace ReaderText
open Readers

abbrev Str := List Char

/-! ## characters, digits, whitespace -/

def digitVal (c : Char) : Nat := c.toNat - 48

/-- value of a string of decimal digits, as `int()` / the numeral grammar read it: left fold -/
def natOfDigits (ds : Str) : Nat := ds.foldl (fun n c => 10 * n + digitVal c) 0

/-- `str.isspace()` on the ASCII range -/
def isWs (c : Char) : Bool := c == ' ' || c == '\t' || c == '\n' || c == '\r' || c == '\x0b' || c == '\x0c'

def lstrip (s : Str) : Str := s.dropWhile isWs
def rstrip (s : Str) : Str := (s.reverse.dropWhile isWs).reverse
/-- `s.strip()` -/
def strip (s : Str) : Str := rstrip (lstrip s)

/-- `s[a:b]` for `0 ≤ a ≤ b` (Python slices never fail: short strings give short results) -/
def pySlice (a b : Nat) (s : Str) : Str := (s.drop a).take (b - a)

/-- `s.split()` : maximal runs of non-whitespace -/
def splitWsAux : Str → Str → List Str
  | cur, [] => if cur.isEmpty then [] else [cur.reverse]
  | cur, c :: cs =>
    if isWs c then (if cur.isEmpty then splitWsAux [] cs else cur.reverse :: splitWsAux [] cs)
    else splitWsAux (c :: cur) cs

def splitWs (s : Str) : List Str := splitWsAux [] s

/-- `s.split(d)` / a csv row without quoting: fields between delimiters (always at least one field) -/
def splitOnAux (d : Char) : Str → Str → List Str
  | cur, [] => [cur.reverse]
  | cur, c :: cs => if c == d then cur.reverse :: splitOnAux d [] cs else splitOnAux d (c :: cur) cs

def splitOn (d : Char) (s : Str) : List Str := splitOnAux d [] s

/-- universal newlines (text mode, csv.reader with newline=''): "\r\n" and a lone "\r" end a line like "\n" -/
def normNlAux : Bool → Str → Str
  | _, [] => []
  | afterCR, c :: cs =>
    if c == '\r' then '\n' :: normNlAux true cs
    else if c == '\n' && afterCR then normNlAux false cs     -- the "\n" of a "\r\n"
    else c :: normNlAux false cs

def normNl (s : Str) : Str := normNlAux false s

/-- longest prefix of characters satisfying `p`, and the rest -/
def spanP (p : Char → Bool) : Str → Str × Str
  | [] => ([], [])
  | c :: cs => if p c then ((c :: (spanP p cs).1), (spanP p cs).2) else ([], c :: cs)

/-- `lines_iter` (readers.py:269-278): the pieces between "\n"; the piece after the last "\n" only if it is not empty -/
def linesAux : Str → Str → List Str
  | cur, [] => if cur.isEmpty then [] else [cur.reverse]
  | cur, c :: cs => if c == '\n' then cur.reverse :: linesAux [] cs else linesAux (c :: cur) cs

def lines (text : Str) : List Str := linesAux [] (normNl text)

def isBlank (s : Str) : Bool := s.all isWs

/-! ## decimal numerals → float64 -/

def pow10 (e : Int) : Rat :=
  if e ≥ 0 then ((10 ^ e.toNat : Nat) : Rat) else 1 / ((10 ^ (-e).toNat : Nat) : Rat)

/-- optional sign -/
def takeSign : Str → Bool × Str
  | '-' :: t => (true, t)
  | '+' :: t => (false, t)
  | s => (false, s)

/-- exponent part: nothing, or `e`/`E`, optional sign, one or more digits (to the end of the numeral) -/
def parseExp : Str → Option Int
  | [] => some 0
  | e :: t =>
    if e == 'e' || e == 'E' then
      let (neg, ds) := takeSign t
      if ds.isEmpty || !(ds.all Char.isDigit) then none
      else some (if neg then -(natOfDigits ds : Int) else (natOfDigits ds : Int))
    else none

/-- the exact rational denoted by a decimal numeral of the grammar `[+-] (d+ [. d*] | . d+) [(e|E) [+-] d+]`
    (what `float()`, loadtxt and genfromtxt accept, minus inf/nan/underscores/hex); `none` = ValueError -/
def parseDec (s : Str) : Option Rat :=
  let (neg, s0) := takeSign s
  let (ip, s1) := spanP Char.isDigit s0
  let (fp, s2) := match s1 with
    | '.' :: t => spanP Char.isDigit t
    | _ => ([], s1)
  if ip.isEmpty && fp.isEmpty then none else
  match parseExp s2 with
  | none => none
  | some ex =>
    let v : Rat := ((natOfDigits (ip ++ fp) : Nat) : Rat) * pow10 (ex - (fp.length : Int))
    some (if neg then -v else v)

/-- `float(tok)`: surrounding whitespace ignored, value correctly rounded to binary64 -/
def pyFloat (s : Str) : Option Rat := (parseDec (strip s)).map Soft64.fl64

/-- `int(tok)` for `[ws] [+-] d+ [ws]` -/
def pyInt (s : Str) : Option Int :=
  let (neg, ds) := takeSign (strip s)
  if ds.isEmpty || !(ds.all Char.isDigit) then none
  else some (if neg then -(natOfDigits ds : Int) else (natOfDigits ds : Int))

/-- genfromtxt's converter of an integer column: `int(float(tok))` -/
def pyIntOfFloat (s : Str) : Option Int := (pyFloat s).map trunc

/-! ## strptime field matching (the subset of directives the readers use) -/

/-- a numeric directive followed by a non-digit literal: the maximal run of digits must have `lo..hi` digits
    (Python tries the two-digit alternatives first and cannot backtrack past the literal that follows) -/
def takeNum (lo hi : Nat) (s : Str) : Option (Nat × Str) :=
  let (ds, rest) := spanP Char.isDigit s
  if lo ≤ ds.length && ds.length ≤ hi then some (natOfDigits ds, rest) else none

def expect (c : Char) : Str → Option Str
  | d :: t => if d == c then some t else none
  | [] => none

/-- `%Y<sep>%m<sep>%d` with the value ranges of the directives' regular expressions -/
def parseDate (sep : Char) (s : Str) : Option ((Int × Int × Int) × Str) := do
  let (y, s) ← takeNum 4 4 s
  let s ← expect sep s
  let (m, s) ← takeNum 1 2 s
  let s ← expect sep s
  let (d, s) ← takeNum 1 2 s
  if 1 ≤ m && m ≤ 12 && 1 ≤ d && d ≤ 31 then some (((y : Int), (m : Int), (d : Int)), s) else none

/-- `%H:%M:%S` (regular expressions allow 0..23, 0..59, 0..61; `datetime()` then rejects seconds ≥ 60) -/
def parseHMS (s : Str) : Option ((Int × Int × Int) × Str) := do
  let (h, s) ← takeNum 1 2 s
  let s ← expect ':' s
  let (mi, s) ← takeNum 1 2 s
  let s ← expect ':' s
  let (sec, s) ← takeNum 1 2 s
  if h ≤ 23 && mi ≤ 59 && sec ≤ 61 then some (((h : Int), (mi : Int), (sec : Int)), s) else none

/-- `.%f`: one to six digits, right-padded with zeros to microseconds -/
def parseFrac (s : Str) : Option (Int × Str) := do
  let s ← expect '.' s
  let (ds, rest) := spanP Char.isDigit s
  if 1 ≤ ds.length && ds.length ≤ 6 then some (((natOfDigits ds * 10 ^ (6 - ds.length) : Nat) : Int), rest) else none

/-- `%z`: `Z`, `±HHMM` or `±HH:MM` (offset in seconds east of UTC); the forms with seconds are outside the model -/
def parseZone : Str → Option (Int × Str)
  | 'Z' :: t => some (0, t)
  | sg :: h1 :: h2 :: t =>
    if (sg == '+' || sg == '-') && h1.isDigit && h2.isDigit then
      let t := match t with | ':' :: u => u | _ => t
      match t with
      | m1 :: m2 :: rest =>
        if m1.isDigit && m2.isDigit && digitVal m1 ≤ 5 then
          let v : Int := ((natOfDigits [h1, h2] * 3600 + natOfDigits [m1, m2] * 60 : Nat) : Int)
          some (if sg == '-' then -v else v, rest)
        else none
      | _ => none
    else none
  | _ => none

/-- csep_ascii `parse_datetime` (readers.py:428-442): '%Y-%m-%dT%H:%M:%S.%f', else '%Y-%m-%dT%H:%M:%S';
    the whole string must be consumed -/
def parseCsepTime (s : Str) : Option (Clock × Int) := do
  let ((y, m, d), s) ← parseDate '-' s
  let s ← expect 'T' s
  let ((h, mi, sec), s) ← parseHMS s
  match s with
  | [] => some (⟨y, m, d, h, mi, sec⟩, 0)
  | _ =>
    let (us, s) ← parseFrac s
    if s.isEmpty then some (⟨y, m, d, h, mi, sec⟩, us) else none

/-- jma_csv timestamp '%Y-%m-%dT%H:%M:%S.%f%z' (readers.py:652): clock, microseconds, offset -/
def parseJmaTime (s : Str) : Option (Clock × Int × Int) := do
  let ((y, m, d), s) ← parseDate '-' s
  let s ← expect 'T' s
  let ((h, mi, sec), s) ← parseHMS s
  let (us, s) ← parseFrac s
  let (off, s) ← parseZone s
  if s.isEmpty && -86400 < off && off < 86400 then some (⟨y, m, d, h, mi, sec⟩, us, off) else none

/-- does `pat` occur in `s` -/
def hasInfix (pat : Str) : Str → Bool
  | [] => pat.isEmpty
  | c :: cs => pat.isPrefixOf (c :: cs) || hasInfix pat cs

/-- `s.replace(pat, rep)` (non-overlapping, left to right; `pat` non-empty); the counter skips the rest of a match -/
def replaceAll (pat rep : Str) : Str → Str := go 0
where
  go : Nat → Str → Str
    | _, [] => []
    | k + 1, _ :: cs => go k cs
    | 0, c :: cs =>
      if !pat.isEmpty && pat.isPrefixOf (c :: cs) then rep ++ go (pat.length - 1) cs else c :: go 0 cs

/-- `_parse_datetime_to_zmap(date, time)` (readers.py:791-825) followed by `datetime.datetime(...)` (:313-320):
    the ":60.0" rewrite, '%Y/%m/%d %H:%M:%S.%f' on `date + " " + time`, one minute added afterwards.
    Result: the tokens of `Readers.NdkRec` that concern time — clock fields as written, seconds digits, first
    fractional digit — so that `Readers.ndkRec` applies.  `none` = RuntimeError (which `ndk` does not catch). -/
def parseNdkTime (date time : Str) : Option (Int × Int × Int × Int × Int × Int × Int) :=
  let sixty := hasInfix ":60.0".toList time
  let time' := if sixty then replaceAll ":60.0".toList ":0.0".toList time else time
  match parseDate '/' date with
  | some ((y, m, d), []) =>
    (do
      let ((h, mi, sec), s) ← parseHMS (lstrip time')   -- the blank of the format matches `\s+`
      let (us, s) ← parseFrac s
      if s.isEmpty then
        -- tokens for `ndkRec`: a rewritten record is presented as seconds 60, fraction digit 0
        some (y, m, d, h, mi, (if sixty then 60 else sec), (if sixty then 0 else us / 100000))
      else none)
  | _ => none

/-! ## CSEP CSV -/

def liftRow {α} (o : Option α) : Except Err α := match o with | some a => .ok a | none => .error .badRow

/-- one csv row → header or record tokens; `none` = a conversion raised (ValueError / IndexError / CSEPIOException) -/
def csepTokens (row : List Str) : Option CsepLine :=
  if row.head? == some "lon".toList then some .header else
  match row with
  | lon :: lat :: mag :: ts :: dep :: _cid :: _eid :: _ => do
    let lon ← pyFloat lon
    let lat ← pyFloat lat
    let mag ← pyFloat mag
    let (c, us) ← parseCsepTime ts
    let dep ← pyFloat dep
    some (.row ⟨lon, lat, mag, c, us, dep⟩)
  | _ => none

/-- `csep_ascii(fname)` from the characters of the file.  Outer `none`: a quote character (csv quoting is not modelled). -/
def csepFile (text : Str) : Option Result :=
  if text.contains '"' then none else
  some (match (lines text).mapM (fun l => csepTokens (splitOn ',' l)) with
    | none => .error .badRow
    | some ls => decodeCsep ls)

/-- `csep_ascii(fname)` from the characters of the file WITH csv quoting: the records are those of the csv reader's
    state machine (`PersistText.csvRead`: quoted cells, doubled quotes, line ends inside quotes, "\n" / "\r\n" / "\r"
    record ends; an empty line is the empty record, on which `line[0]` raises).  No input is outside this model. -/
def csepFileQ (text : Str) : Result :=
  match (PersistText.csvRead text).mapM csepTokens with
  | none => .error .badRow
  | some ls => decodeCsep ls

/-! ## ZMAP -/

/-- `numpy.loadtxt(fname, delimiter=None, ndmin=2)`: blank lines skipped, fields split on whitespace, every field a
    float64, all rows of the same width.  Outer `none`: a '#' (comments are not modelled). -/
def numericTable (ls : List Str) : Option (List (List Rat)) :=
  let rows := (ls.filter (fun l => !isBlank l)).map splitWs
  match rows with
  | [] => some []
  | r0 :: _ =>
    if rows.all (fun r => r.length == r0.length) then rows.mapM (fun r => r.mapM pyFloat) else none

def zmapFile (text : Str) : Option Result :=
  if text.contains '#' then none else
  some (match numericTable (lines text) with
    | none => .error .badRow
    | some rows => decodeZmap rows)

/-! ## INGV HORUS -/

/-- one data row of `genfromtxt(..., usecols=0..9, dtype=[i4 ×5, f8 ×5])` -/
def horusTokens (r : List Str) : Option HorusRec :=
  match r with
  | y :: m :: d :: hh :: mi :: sec :: lat :: lon :: dep :: mw :: _ => do
    some ⟨← pyIntOfFloat y, ← pyIntOfFloat m, ← pyIntOfFloat d, ← pyIntOfFloat hh, ← pyIntOfFloat mi,
          ← pyFloat sec, ← pyFloat lat, ← pyFloat lon, ← pyFloat dep, ← pyFloat mw⟩
  | _ => none

/-- `ingv_horus(fname)`: first line skipped (`skip_header=1`), blank lines skipped, whitespace-separated fields,
    all rows of the same width -/
def horusFile (text : Str) : Option Result :=
  if text.contains '#' then none else
  let rows := (((lines text).drop 1).filter (fun l => !isBlank l)).map splitWs
  some (match rows with
    | [] => .ok []
    | r0 :: _ =>
      if rows.all (fun r => r.length == r0.length) then
        match rows.mapM horusTokens with
        | none => .error .badRow
        | some rs => decodeHorus rs
      else .error .badRow)

/-! ## JMA CSV -/

def jmaTokens (row : List Str) : Option JmaLine :=
  if row.head? == some "timestamp".toList then some .header else
  match row with
  | ts :: lon :: lat :: dep :: mag :: _ => do
    let (c, us, off) ← parseJmaTime ts
    some (.row ⟨c, us, off, ← pyFloat lon, ← pyFloat lat, ← pyFloat dep, ← pyFloat mag⟩)
  | _ => none

/-- `jma_csv(fname)`; the time goes through the float path `round(1000. * timestamp())` (`Readers.jmaRecF`) -/
def jmaFile (text : Str) : Option Result :=
  if text.contains '"' then none else
  some (match (lines text).mapM (fun l => jmaTokens (splitOn ';' l)) with
    | none => .error .badRow
    | some ls => decodeJmaF ls)

/-! ## NDK -/

/-- the hypocenter line (readers.py:52-58): fixed columns; `mb, MS = map(float, line1[48:55].split())` needs exactly
    two floats.  `none` = ValueError (record skipped). -/
structure NdkLine1 where
  date : Str
  time : Str
  lat : Rat
  lon : Rat
  depth : Rat
deriving DecidableEq, Repr

def ndkLine1 (l : Str) : Option NdkLine1 := do
  let lat ← pyFloat (pySlice 27 33 l)
  let lon ← pyFloat (pySlice 34 41 l)
  let dep ← pyFloat (pySlice 42 47 l)
  match splitWs (pySlice 48 55 l) with
  | [a, b] =>
    let _ ← pyFloat a
    let _ ← pyFloat b
    some ⟨strip (pySlice 5 15 l), pySlice 16 26 l, lat, lon, dep⟩
  | _ => none

/-- line 2 (readers.py:83-133) — the checks that can raise: source type `CMT: 0|1|2` in columns 63-68, the moment-rate
    function `TRIHD:` / `BOXHD:` + a float in columns 70-.  (The "data used" regular expression is not modelled.) -/
def ndkLine2Ok (l : Str) : Bool :=
  let src := ((strip (pySlice 62 68 l)).map Char.toUpper).filter (· != ' ')
  let srcOk := src == "CMT:0".toList || src == "CMT:1".toList || src == "CMT:2".toList
  match splitOn ':' (l.drop 69) with
  | [ty, dur] =>
    let ty := (strip ty).map Char.toUpper
    srcOk && (ty == "TRIHD".toList || ty == "BOXHD".toList) && (pyFloat dur).isSome
  | _ => false

/-- line 3 (readers.py:151-185): "CENTROID:", eight floats in fixed columns, depth type FREE/FIX/BDY, time stamp
    starting Q- / S- / O- -/
def ndkLine3Ok (l : Str) : Bool :=
  let nums := [pySlice 10 18 l, pySlice 18 22 l, pySlice 22 29 l, pySlice 29 34 l, pySlice 34 42 l, pySlice 42 47 l,
               pySlice 47 53 l, pySlice 53 58 l]
  let ty := (strip (pySlice 59 63 l)).map Char.toUpper
  let ts := (strip (l.drop 64)).map Char.toUpper
  pySlice 0 9 l == "CENTROID:".toList && nums.all (fun s => (pyFloat s).isSome) &&
  (ty == "FREE".toList || ty == "FIX".toList || ty == "BDY".toList) &&
  ("Q-".toList.isPrefixOf ts || "S-".toList.isPrefixOf ts || "O-".toList.isPrefixOf ts)

/-- line 4 (readers.py:199-205): `exponent = int(line4[:2]) - 7`; twelve numerals `x` such that `float(x + "E" + exponent)`
    parses (a numeral that already has an exponent does not) -/
def ndkLine4 (l : Str) : Option Int := do
  let e ← pyInt (pySlice 0 2 l)
  let toks := splitWs (l.drop 2)
  let suffix : Str := 'E' :: (toString (e - 7)).toList
  if toks.length == 12 && toks.all (fun t => (parseDec (t ++ suffix)).isSome) then some (e - 7) else none

/-- line 5 (readers.py:220-246): `scalar_moment = float(line5[49:56]) * (10 ** exponent)` (a Python int for
    `exponent ≥ 0`, converted to float by the multiplication), `math.log10` needs it positive; plunge/azimuth floats
    of the complete triples of columns 4-48; six nodal-plane floats.  Result: the scalar moment in N·m. -/
def ndkLine5 (expo : Int) (l : Str) : Option Rat := do
  let m ← pyFloat (pySlice 49 56 l)
  let sm := Soft64.fmul m (Soft64.fl64 (pow10 expo))
  let axes := splitWs (pySlice 3 48 l)
  let triplesOk := (List.range (axes.length / 3)).all (fun k =>
    (pyFloat (axes.getD (3 * k + 1) [])).isSome && (pyFloat (axes.getD (3 * k + 2) [])).isSome)
  let planes := splitWs (strip (l.drop 57))
  if 0 < sm && triplesOk && 6 ≤ planes.length && (planes.take 6).all (fun t => (pyFloat t).isSome) then some sm else none

/-- outcome of one five-line group -/
inductive NdkGroup where
  | skipped                                   -- `_read_lines` raised ValueError / IOError: warning, `continue`
  | record (r : NdkRec) (moment : Rat)          -- tokens for `Readers.ndkRec` (its `mw` field holds the scalar moment)
  | badTime                                   -- RuntimeError out of `_parse_datetime_to_zmap` (not caught)
  | outside                                   -- negative exponent (`10 ** exponent` is then a float power): not modelled
deriving DecidableEq, Repr

def ndkGroup (l1 l2 l3 l4 l5 : Str) : NdkGroup :=
  match ndkLine1 l1 with
  | none => .skipped
  | some h =>
    if !(ndkLine2Ok l2) || !(ndkLine3Ok l3) then .skipped else
    match ndkLine4 l4 with
    | none => .skipped
    | some expo =>
      if expo < 0 then .outside else
      match ndkLine5 expo l5 with
      | none => .skipped
      | some sm =>
        match parseNdkTime h.date h.time with
        | none => .badTime
        | some (y, m, d, hh, mi, sec, f) => .record ⟨y, m, d, hh, mi, sec, f, h.lat, h.lon, h.depth, sm⟩ sm

/-- `zip_longest(*[lines_iter()] * 5)`: groups of five; an incomplete last group is dropped with a warning -/
def groups5 : List Str → List (Str × Str × Str × Str × Str)
  | a :: b :: c :: d :: e :: rest => (a, b, c, d, e) :: groups5 rest
  | _ => []

/-- `ndk(fname)` from the characters of the file: per group skip / record / failure, in file order.  The events carry
    the SCALAR MOMENT in the magnitude field (`Mw = 2/3·(log10 M0 − 9.1)` is applied outside, it is transcendental). -/
def ndkFile (text : Str) : Option Result :=
  let gs := (groups5 (lines text)).map (fun g => ndkGroup g.1 g.2.1 g.2.2.1 g.2.2.2.1 g.2.2.2.2)
  if gs.contains .outside then none else
  some (if gs.contains .badTime then .error .badTime else
    decodeNdk (gs.filterMap (fun g => match g with | .record r _ => some r | _ => none)))

end ReaderText
