import PycsepVerif.RealOps
import PycsepVerif.Model.Ecdf

/-!
  Model of the catalog-based consistency tests (csep/core/catalog_evaluations.py) and of their helpers
  `_compute_likelihood` (csep/utils/calc.py:135), `cumulative_square_diff` (csep/utils/stats.py:38),
  `log_d_multinomial` / `MLL_score` (csep/utils/stats.py:273-328), the mean gridded rates of
  `CatalogForecast.get_expected_rates` (csep/core/forecasts.py:687-717) and `calibration_test`'s skip rule.

  Inputs.  After the C01/C02 lookups an event is a (cell, bin) pair, so a catalog inside the region *is* its
  gridded count matrix `Grid` (cells × magnitude bins, natural numbers).  A forecast is the list `sims` of
  the matrices of its synthetic catalogs (in iteration order; `n_cat = sims.length`, forecasts.py:574/590),
  the observation is one matrix `obs`, the region is the pair of sizes `C` (cells) and `K` (magnitude bins).
  The resampled tests take what `numpy.random.choice` + `numpy.histogram` returned (one histogram per
  iteration) as the input `draws`.

  Real layer: one definition, generic over `[RealOps α]`; the Float instance runs in the driver, the ℝ
  instance is used by Properties/C10.lean.  `ELL α` is "−∞ or finite"; `Option (ELL α)` adds `none`,
  which stands for Python's `None` / numpy's `nan` (a statistic that is not defined).
-/
namespace CatEvals

abbrev Grid := List (List Nat)

/-! ## gridded counts of one catalog (consumes C03) -/

/-- entry (i,k) of a count matrix; 0 outside -/
def entry (g : Grid) (i k : Nat) : Nat := (g.getD i []).getD k 0

/-- `catalog.spatial_counts()` (catalogs.py:665): events per cell -/
def spatialCounts (C : Nat) (g : Grid) : List Nat := (List.range C).map (fun i => (g.getD i []).sum)

/-- `catalog.magnitude_counts()` (catalogs.py:704): events per magnitude bin -/
def magCounts (K : Nat) (g : Grid) : List Nat :=
  (List.range K).map (fun k => (g.map (fun row => row.getD k 0)).sum)

/-- `catalog.event_count` for a catalog whose events all lie in the region -/
def eventCount (g : Grid) : Nat := (g.map List.sum).sum

variable {α : Type} [RealOps α]

/-! ## mean gridded rates of the forecast (consumes C13) -/

/-- Σ_j G_j[i][k]: `data += cat.spatial_magnitude_counts()` (forecasts.py:703-707), exact in float64 -/
def sumEntry (sims : List Grid) (i k : Nat) : Nat := (sims.map (fun g => entry g i k)).sum

/-- `expected_rates.data = data / n_cat` (forecasts.py:715) -/
def meanRates (C K : Nat) (sims : List Grid) : List (List α) :=
  (List.range C).map fun i => (List.range K).map fun k =>
    RealOps.div (RealOps.ofNat (sumEntry sims i k)) (RealOps.ofNat sims.length)

/-- `expected_rates.spatial_counts()` = `numpy.sum(data, axis=1)` (forecasts.py:210) -/
def spatialRates (m : List (List α)) : List α := m.map RealOps.sum

/-- `expected_rates.magnitude_counts()` = `numpy.sum(data, axis=0)` (forecasts.py:214) -/
def magRates (K : Nat) (m : List (List α)) : List α :=
  (List.range K).map fun k => RealOps.sum (m.map fun row => row.getD k RealOps.zero)

/-- `expected_rates.sum()` = `numpy.sum(data)` (forecasts.py:83) -/
def totalRate (m : List (List α)) : α := RealOps.sum (m.map RealOps.sum)

/-! ## `_compute_likelihood` (calc.py:135-164) -/

def isZero (x : α) : Bool := RealOps.le x RealOps.zero && RealOps.le RealOps.zero x

def ellMap (f : α → α) : ELL α → ELL α
  | .negInf => .negInf
  | .fin x => .fin (f x)

/-- `numpy.sum(gridded_data[idx] * numpy.log(rate[idx]))` with `idx = gridded_data != 0`;
    `log 0 = -inf` and `w * -inf = -inf` for w > 0, so an occupied cell of rate 0 gives −∞ -/
def wlogSum (g : List Nat) (r : List α) : ELL α :=
  ELL.sum ((List.zip g r).filterMap fun p =>
    if p.1 = 0 then none else some (ellMap (RealOps.mul (RealOps.ofNat p.1)) (ELL.log p.2)))

/-- returns (likelihood, likelihood_norm); `none` in the second component is numpy.nan -/
def computeLikelihood (g : List Nat) (r : List α) (ecc : α) (nObs : Nat) : ELL α × Option (ELL α) :=
  let nEv := g.sum
  if nEv = 0 then (.fin (RealOps.neg ecc), none)                   -- calc.py:143-144
  else
    let lik := ellMap (fun s => RealOps.sub s ecc) (wlogSum g r)     -- calc.py:147
    if nObs = 0 || isZero ecc then (lik, none)                       -- calc.py:151-152
    else
      let tot := RealOps.sum r
      let nr := r.map (fun x => RealOps.div x tot)                   -- calc.py:155
      (lik, some (ellMap (fun s => RealOps.div s (RealOps.ofNat nEv)) (wlogSum g nr)))  -- calc.py:160

/-! ## results -/

inductive Status where
  | normal | undersampled | notValid
  deriving DecidableEq, Repr

/-- the `quantile` member: a pair of optional probabilities `(k, n)` = k/n (C09), `(None, None)` being
    `pair none none`, or the sentinel `(-1, -1)` of the spatial / pseudo-likelihood tests -/
inductive Quant where
  | pair (d1 d2 : Option (Nat × Nat))
  | sentinel
  deriving DecidableEq, Repr

structure Result (α : Type) where
  status : Status
  /-- `none` = `None` / `nan`; `some negInf` = `-inf` -/
  observed : Option (ELL α)
  quantile : Quant
  distribution : List (ELL α)

/-- order of the extended values: −∞ below everything -/
def ellLe : ELL α → ELL α → Bool
  | .negInf, _ => true
  | .fin _, .negInf => false
  | .fin a, .fin b => RealOps.le a b

/-- `get_quantiles(dist, v)` in the counting form that C09 proves for the sort/searchsorted code
    (`Ecdf.ge_ecdf_eq`, `Ecdf.le_ecdf_eq`): (#{x ≥ v}/n, #{x ≤ v}/n); `(None, None)` for an empty sample -/
def quantiles (dist : List (ELL α)) (v : ELL α) : Quant :=
  if dist.isEmpty then .pair none none
  else .pair (some (dist.countP (fun x => ellLe v x), dist.length))
             (some (dist.countP (fun x => ellLe x v), dist.length))

/-! ## number test (catalog_evaluations.py:27-61) -/

structure NResult where
  distribution : List Nat
  observed : Nat
  quantile : Option (Nat × Nat) × Option (Nat × Nat)

def numberTest (sims : List Grid) (obs : Grid) : NResult :=
  let counts := sims.map eventCount
  { distribution := counts, observed := eventCount obs,
    quantile := Ecdf.getQuantiles (counts.map (fun (n : Nat) => (n : Rat))) ((eventCount obs : Nat) : Rat) }

/-! ## spatial and pseudo-likelihood tests (catalog_evaluations.py:64-148, 238-334) -/

/-- boolean-mask indexing `a[mask]` -/
def maskBy {β : Type} (mask : List Bool) (a : List β) : List β :=
  (List.zip mask a).filterMap fun p => if p.1 then some p.2 else none

/-- `idx_good_sim = forecast_mean_spatial_rates != 0` -/
def goodMask (rates : List α) : List Bool := rates.map (fun r => !isZero r)

def spatialTest (C K : Nat) (sims : List Grid) (obs : Grid) : Result α :=
  let m : List (List α) := meanRates C K sims
  let ecc := totalRate m
  let rates := spatialRates m
  let gObs := spatialCounts C obs
  let nObs := gObs.sum
  -- :104-107 (second component; `none` = nan)
  let dist0 := sims.map fun g => (computeLikelihood (spatialCounts C g) rates ecc nObs).2
  let first := (computeLikelihood gObs rates ecc nObs).2       -- :115
  let om : Option (ELL α) × Status :=
    match first with
    | some .negInf =>                                            -- :118-128
      let keep := goodMask rates
      ((computeLikelihood (maskBy keep gObs) (maskBy keep rates) ecc nObs).2, .undersampled)
    | _ => (first, .normal)
  let dist := dist0.filterMap id                                 -- :131-133 nan removed
  if nObs = 0 then                                               -- :135-137
    { status := .notValid, observed := om.1, quantile := .sentinel, distribution := dist }
  else match om.1 with
    | none => { status := .notValid, observed := none, quantile := .sentinel, distribution := dist }
    | some v => { status := om.2, observed := some v, quantile := quantiles dist v, distribution := dist }

/-- `none` = the function returns `None` (no result) -/
def pseudolikelihoodTest (C K : Nat) (sims : List Grid) (obs : Grid) : Option (Result α) :=
  if eventCount obs = 0 then none                                -- :255-257
  else
    let m : List (List α) := meanRates C K sims
    let ecc := totalRate m
    let rates := spatialRates m
    let gObs := spatialCounts C obs
    let nObs := gObs.sum
    let dist := sims.map fun g => (computeLikelihood (spatialCounts C g) rates ecc nObs).1   -- :275-278
    let first := (computeLikelihood gObs rates ecc nObs).1       -- :286
    match first with
    | .negInf =>                                                 -- :289-307
      let keep := goodMask rates
      let newObs := maskBy keep gObs
      if newObs.sum = 0 then none                                -- :296-301
      else
        let v := (computeLikelihood newObs (maskBy keep rates) ecc nObs).1
        some { status := .undersampled, observed := some v, quantile := quantiles dist v, distribution := dist }
    | .fin x =>
      some { status := .normal, observed := some (.fin x), quantile := quantiles dist (.fin x),
             distribution := dist }

/-! ## magnitude tests (catalog_evaluations.py:151-235, 377-486, 489-612) -/

/-- numpy.log10 -/
def log10 (x : α) : α := RealOps.div (RealOps.log x) (RealOps.log (RealOps.ofNat 10))

/-- `cumulative_square_diff(cdf1, cdf2) = numpy.sum((cdf2 - cdf1)**2)` (stats.py:52) -/
def cumulativeSquareDiff (cdf1 cdf2 : List α) : α :=
  RealOps.sum (List.zipWith (fun a b => RealOps.mul (RealOps.sub b a) (RealOps.sub b a)) cdf1 cdf2)

/-- `numpy.log10(hist * scale + 1)` for an integer histogram -/
def logHist (h : List Nat) (scale : α) : List α :=
  h.map fun c => log10 (RealOps.add (RealOps.mul (RealOps.ofNat c) scale) RealOps.one)

/-- the result of the three magnitude tests when the observed catalog is empty (:160-173, :420-434, :541-555) -/
def emptyObsResult : Result α :=
  { status := .notValid, observed := none, quantile := .pair none none, distribution := [] }

/-- statistic of one (synthetic or resampled) histogram; `none` = skipped (`continue`) when it has no events -/
def dStat (nObs : Nat) (l10su : List α) (mc : List Nat) : Option (ELL α) :=
  let n := mc.sum
  if n = 0 then none                                             -- :193-195 / :466-468
  else some (.fin (cumulativeSquareDiff
    (logHist mc (RealOps.div (RealOps.ofNat nObs) (RealOps.ofNat n))) l10su))

def magnitudeTest (C K : Nat) (sims : List Grid) (obs : Grid) : Result α :=
  if eventCount obs = 0 then emptyObsResult
  else
    let m : List (List α) := meanRates C K sims
    let union := magRates K m                                    -- :180
    let nUnion := RealOps.sum union
    let obsH := magCounts K obs
    let nObs := obsH.sum
    if isZero nUnion then
      -- no synthetic event at all: n_obs/0 = inf, 0*inf = nan: observed nan, every catalog skipped
      { status := .normal, observed := none, quantile := .pair none none, distribution := [] }
    else
      let scaled := union.map fun u => RealOps.mul u (RealOps.div (RealOps.ofNat nObs) nUnion)   -- :184-185
      let l10su := scaled.map fun x => log10 (RealOps.add x RealOps.one)
      let dist := sims.filterMap fun g => dStat nObs l10su (magCounts K g)
      let obsD := cumulativeSquareDiff (logHist obsH RealOps.one) l10su
      { status := .normal, observed := some (.fin obsD), quantile := quantiles dist (.fin obsD),
        distribution := dist }

/-- Σ_j magnitude_counts(Λ_j): the union histogram of :441-443 and :565-570 (exact, integers) -/
def unionHist (K : Nat) (sims : List Grid) : List Nat :=
  (List.range K).map fun k => (sims.map fun g => (magCounts K g).getD k 0).sum

def resampledMagnitudeTest (K : Nat) (sims : List Grid) (obs : Grid) (draws : List (List Nat)) : Result α :=
  if eventCount obs = 0 then emptyObsResult
  else
    let unionH := unionHist K sims
    let nUnion := unionH.sum
    let obsH := magCounts K obs
    let nObs := obsH.sum
    let scale : α := RealOps.div (RealOps.ofNat nObs) (RealOps.ofNat nUnion)     -- :449
    let l10su := logHist unionH scale                                          -- :450, :474
    let dist := draws.filterMap fun mc => dStat nObs l10su mc
    let obsD := cumulativeSquareDiff (logHist obsH RealOps.one) l10su
    { status := .normal, observed := some (.fin obsD), quantile := quantiles dist (.fin obsD),
      distribution := dist }

/-- `log_d_multinomial(x, size = Σx, prob = x/Σx)` (stats.py:284); `lg z` stands for `loggamma(z + 1)` -/
def logDMultinomial (lg : α → α) (x : List α) : α :=
  let size := RealOps.sum x
  RealOps.add (lg size)
    (RealOps.sum (x.map fun xi => RealOps.sub (RealOps.mul xi (RealOps.log (RealOps.div xi size))) (lg xi)))

/-- `MLL_score(union_catalog_counts, catalog_counts)` (stats.py:288-328) -/
def mllScore (lg : α → α) (u c : List Nat) : α :=
  let ratio : α := RealOps.div (RealOps.ofNat u.sum) (RealOps.ofNat c.sum)        -- :306-308
  let uMod := u.map fun x => RealOps.add (RealOps.ofNat x) ratio                  -- :310
  let cMod : List α := c.map fun x => RealOps.add (RealOps.ofNat x) RealOps.one   -- :311
  let merged := List.zipWith RealOps.add uMod cMod                                -- :312
  RealOps.mul RealOps.two
    (RealOps.sub (RealOps.sub (logDMultinomial lg merged) (logDMultinomial lg uMod)) (logDMultinomial lg cMod))

def mllMagnitudeTest (lg : α → α) (K : Nat) (sims : List Grid) (obs : Grid) (draws : List (List Nat)) :
    Result α :=
  if eventCount obs = 0 then emptyObsResult
  else
    let unionH := unionHist K sims
    let obsD := mllScore lg unionH (magCounts K obs)                               -- :577-578
    let dist := draws.map fun mc => ELL.fin (mllScore lg unionH mc)               -- :597-600
    { status := .normal, observed := some (.fin obsD), quantile := quantiles dist (.fin obsD),
      distribution := dist }

/-! ## observed catalogs that were not cut to the magnitude range

An observed catalog may hold `nOut` events below the first magnitude edge (`magnitude_counts`, catalogs.py:704,
leaves them out of every bin; events above the last edge fall into the open top bin and ARE in the count matrix).
Such events count for `observed_catalog.event_count` — the statistic of the number test
(catalog_evaluations.py:48) and the empty-observation short-circuit of the three magnitude tests (:159, :401,
:535) — but not for the magnitude histograms, whose sum is the `n_obs` that normalises the magnitude statistics
(:182, :431, :571).  `obs` stays the count matrix of the events inside the magnitude range. -/

/-- number test for an observed catalog with `nOut` further events outside the magnitude range: all are counted -/
def numberTestOut (sims : List Grid) (obs : Grid) (nOut : Nat) : NResult :=
  let counts := sims.map eventCount
  { distribution := counts, observed := eventCount obs + nOut,
    quantile := Ecdf.getQuantiles (counts.map (fun (n : Nat) => (n : Rat))) ((eventCount obs + nOut : Nat) : Rat) }

/-- `magnitude_test` after its short-circuit (:176-224): everything is computed from the histograms -/
def magnitudeCore (C K : Nat) (sims : List Grid) (obs : Grid) : Result α :=
  let m : List (List α) := meanRates C K sims
  let union := magRates K m
  let nUnion := RealOps.sum union
  let obsH := magCounts K obs
  let nObs := obsH.sum                                             -- :182 `numpy.sum(obs_histogram)`
  if isZero nUnion then
    { status := .normal, observed := none, quantile := .pair none none, distribution := [] }
  else
    let scaled := union.map fun u => RealOps.mul u (RealOps.div (RealOps.ofNat nObs) nUnion)
    let l10su := scaled.map fun x => log10 (RealOps.add x RealOps.one)
    let dist := sims.filterMap fun g => dStat nObs l10su (magCounts K g)
    let obsD := cumulativeSquareDiff (logHist obsH RealOps.one) l10su
    { status := .normal, observed := some (.fin obsD), quantile := quantiles dist (.fin obsD),
      distribution := dist }

/-- `resampled_magnitude_test` after its short-circuit (:416-486) -/
def resampledCore (K : Nat) (sims : List Grid) (obs : Grid) (draws : List (List Nat)) : Result α :=
  let unionH := unionHist K sims
  let nUnion := unionH.sum
  let obsH := magCounts K obs
  let nObs := obsH.sum                                             -- :431
  let scale : α := RealOps.div (RealOps.ofNat nObs) (RealOps.ofNat nUnion)
  let l10su := logHist unionH scale
  let dist := draws.filterMap fun mc => dStat nObs l10su mc
  let obsD := cumulativeSquareDiff (logHist obsH RealOps.one) l10su
  { status := .normal, observed := some (.fin obsD), quantile := quantiles dist (.fin obsD),
    distribution := dist }

/-- `MLL_magnitude_test` after its short-circuit (:557-612) -/
def mllCore (lg : α → α) (K : Nat) (sims : List Grid) (obs : Grid) (draws : List (List Nat)) : Result α :=
  let unionH := unionHist K sims
  let obsD := mllScore lg unionH (magCounts K obs)
  let dist := draws.map fun mc => ELL.fin (mllScore lg unionH mc)
  { status := .normal, observed := some (.fin obsD), quantile := quantiles dist (.fin obsD),
    distribution := dist }

/-- the three magnitude tests on an observed catalog with `nOut` further events below the first magnitude edge:
    the short-circuit looks at `event_count` (all events), the statistic at the histograms (events in range) -/
def magnitudeTestOut (C K : Nat) (sims : List Grid) (obs : Grid) (nOut : Nat) : Result α :=
  if eventCount obs + nOut = 0 then emptyObsResult else magnitudeCore C K sims obs

def resampledMagnitudeTestOut (K : Nat) (sims : List Grid) (obs : Grid) (draws : List (List Nat)) (nOut : Nat) :
    Result α :=
  if eventCount obs + nOut = 0 then emptyObsResult else resampledCore K sims obs draws

def mllMagnitudeTestOut (lg : α → α) (K : Nat) (sims : List Grid) (obs : Grid) (draws : List (List Nat))
    (nOut : Nat) : Result α :=
  if eventCount obs + nOut = 0 then emptyObsResult else mllCore lg K sims obs draws

/-! ## calibration test (catalog_evaluations.py:337-374): the skip rule and the exact KS distance -/

/-- one member of a `quantile` tuple: a probability k/n, `None`, or the sentinel −1 -/
inductive QVal where
  | prob (k n : Nat) | none | minusOne
  deriving DecidableEq, Repr

/-- `result.quantile[idx]`, idx = 0 if `delta_1` else 1 (:348) -/
def qval (delta1 : Bool) : Quant → QVal
  | .pair d1 d2 => match (if delta1 then d1 else d2) with
    | some (k, n) => .prob k n
    | Option.none => .none
  | .sentinel => .minusOne

/-- `quantiles.append(result.quantile[idx])` for every result whose status is not 'not-valid' (:350-354) -/
def calibrationSample (results : List (Status × Quant)) (delta1 : Bool) : List QVal :=
  (results.filter fun r => r.1 != Status.notValid).map fun r => qval delta1 r.2

/-- Kolmogorov–Smirnov distance of a sample from the uniform law on [0,1] (what `scipy.stats.kstest(q,
    'uniform').statistic` computes): max_i max(i/n − x_(i), x_(i) − (i−1)/n) over the sorted sample -/
def ksUniform (q : List Rat) : Rat :=
  let s := Ecdf.sort q
  let n : Rat := (s.length : Nat)
  let ds := (List.zip (List.range s.length) s).map fun p =>
    let up := ((p.1 : Nat) + 1 : Rat) / n - p.2
    let dn := p.2 - ((p.1 : Nat) : Rat) / n
    if up ≤ dn then dn else up
  ds.foldl (fun a b => if a ≤ b then b else a) 0

/-- `loggamma(x + 1)` in Float for x ≥ 0: shift the argument above 20 with Γ(z+1) = zΓ(z), then Stirling's
    series (error below 1e-15 there).  Only the driver uses it; the theorems keep `lg` abstract. -/
def lgamma1Float (x : Float) : Float :=
  let z0 := x + 1.0
  let st := (List.range 24).foldl (fun (p : Float × Float) _ =>
    if p.1 < 24.0 then (p.1 + 1.0, p.2 + Float.log p.1) else p) (z0, 0.0)
  let z := st.1
  let z2 := z * z
  let series := 1.0 / (12.0 * z) - 1.0 / (360.0 * z * z2) + 1.0 / (1260.0 * z * z2 * z2)
    - 1.0 / (1680.0 * z * z2 * z2 * z2) + 1.0 / (1188.0 * z * z2 * z2 * z2 * z2)
  (z - 0.5) * Float.log z - z + 0.9189385332046727418 + series - st.2

end CatEvals
