import PycsepVerif.Model.NumberTest
import PycsepVerif.Soft64
/-
  Model of the PUBLIC number tests (C07) -- what happens between the objects the user hands in and the two numbers
  that `Model/NumberTest.lean` computes:

    csep/core/poisson_evaluations.py:125  number_test(gridded_forecast, observed_catalog)
        obs_cnt  = observed_catalog.event_count        (:149)   the number of rows of the catalog, nothing is filtered
        fore_cnt = gridded_forecast.event_count        (:152)
        epsilon  = 1e-6                                (:154)
        delta1, delta2 = _number_test_ndarray(fore_cnt, obs_cnt, epsilon=epsilon)   (:157)
    csep/core/binomial_evaluations.py:33  negative_binomial_number_test(gridded_forecast, observed_catalog, variance)
        the same three lines (:56, :59, :61) and _nbd_number_test_ndarray(fore_cnt, obs_cnt, variance, epsilon) (:64)
    csep/core/forecasts.py:47-65   GriddedDataSet.__init__: self._data = data; self._scale = 1
    csep/core/forecasts.py:68-75   data        = self._data * self._scale
    csep/core/forecasts.py:78-84   event_count = self.sum() = numpy.sum(self.data)
    csep/core/forecasts.py:144-155 scale(val): self._scale = val   (REPLACES the factor: scaling is absolute)
    csep/core/catalog_evaluations.py:26   number_test(forecast, observed_catalog):
        event_counts = [catalog.event_count for catalog in forecast]   (:40-48; :43-47 only print progress)
        obs_count    = observed_catalog.event_count                    (:49)
        get_quantiles(event_counts, obs_count)                         (:50)

  and, in the Soft64 layer, the two float64 operations in front of scipy's floor:
        obs_cnt - epsilon,  obs_cnt + epsilon          (poisson_evaluations.py:458-459, binomial_evaluations.py:27-28)
-/
namespace NumberTest
open RealOps

section Real
variable {α : Type} [RealOps α]

/-- `epsilon = 1e-6` of both public gridded N-tests; 1/10^6 correctly rounded is the double the literal denotes -/
def epsCode : α := div one (ofNat 1000000)

/-- a gridded forecast as the number tests see it: the stored rates `_data` (flattened) and the factor `_scale` -/
structure GF (α : Type) where
  base : List α
  factor : α

/-- GriddedDataSet.__init__: `_scale = 1` -/
def GF.init (base : List α) : GF α := ⟨base, one⟩
/-- GriddedDataSet.scale(val): `self._scale = val` -/
def GF.scale (f : GF α) (v : α) : GF α := ⟨f.base, v⟩
/-- a history of scale calls on one object -/
def GF.scaleAll (f : GF α) (vs : List α) : GF α := vs.foldl GF.scale f
/-- the `data` property: `self._data * self._scale` (element-wise) -/
def GF.data (f : GF α) : List α := f.base.map (fun x => mul x f.factor)
/-- `event_count` = `numpy.sum(self.data)` -/
def GF.eventCount (f : GF α) : α := RealOps.sum f.data

/-! `GriddedForecast.scale_to_test_date(test_datetime)` (forecasts.py:257-283) is the second public way to set the factor:
    outside the open interval (start_time, end_time) it returns the forecast UNCHANGED (the previous factor stays), inside
    it calls `self.scale(fore_frac)`; `frac` = the fraction the code computes from decimal years (C11 / C15's subject) -/
inductive ScaleOp (α : Type) where
  | set (v : α)
  | toDate (inside : Bool) (frac : α)

def GF.apply (f : GF α) : ScaleOp α → GF α
  | .set v => f.scale v
  | .toDate true frac => f.scale frac
  | .toDate false _ => f

/-- any history of `scale` / `scale_to_test_date` calls on one object -/
def GF.applyAll (f : GF α) (ops : List (ScaleOp α)) : GF α := ops.foldl GF.apply f

/-- the factors that took effect, in order -/
def effective : List (ScaleOp α) → List α
  | [] => []
  | .set v :: ops => v :: effective ops
  | .toDate true frac :: ops => frac :: effective ops
  | .toDate false _ :: ops => effective ops

/-- poisson_evaluations.number_test: `events` are the rows of the observed catalog, of any content -/
def numberTestPub [FloorOps α] {ε : Type} (f : GF α) (events : List ε) : α × α :=
  delta12 f.eventCount events.length epsCode

/-- binomial_evaluations.negative_binomial_number_test -/
def nbdNumberTestPub [FloorOps α] {ε : Type} (f : GF α) (events : List ε) (variance : α) : α × α :=
  nbdDelta12 f.eventCount events.length variance epsCode

/-! `scale(val)` documents "int, float, or ndarray" (forecasts.py:148): with an array the product `_data * _scale`
    broadcasts; `factors` is the factor that multiplies each stored rate after broadcasting (row-major) -/
structure GFA (α : Type) where
  base : List α
  factors : List α

def GFA.data (f : GFA α) : List α := List.zipWith mul f.base f.factors
def GFA.eventCount (f : GFA α) : α := RealOps.sum f.data

def numberTestPubA [FloorOps α] {ε : Type} (f : GFA α) (events : List ε) : α × α :=
  delta12 f.eventCount events.length epsCode

def nbdNumberTestPubA [FloorOps α] {ε : Type} (f : GFA α) (events : List ε) (variance : α) : α × α :=
  nbdDelta12 f.eventCount events.length variance epsCode

end Real

/-! ### a catalog forecast with on-the-fly filters (forecasts.py:577-633)
    `__next__` hands out `catalog.filter(filters)` / `.filter_spatial(region)` when `apply_filters` is set; the filters
    act IN PLACE on a stored catalog, a generator-backed forecast with `store=True` keeps the filtered catalogs and
    switches `apply_filters` off (:609-612), one with `store=False` re-reads and re-filters: in all three cases a full
    pass hands out the filtered catalogs and leaves a forecast whose next pass hands out the same ones. -/
structure CF (ε : Type) where
  catalogs : List (List ε)
  applyFilters : Bool

/-- one full pass over the forecast: (catalogs handed out, forecast afterwards); `keep` = all configured filters -/
def CF.pass {ε : Type} (keep : ε → Bool) (f : CF ε) : List (List ε) × CF ε :=
  let out := if f.applyFilters then f.catalogs.map (List.filter keep) else f.catalogs
  (out, { f with catalogs := out })

/-- `k` earlier full passes (get_event_counts, get_expected_rates, a for-loop, another test ...) -/
def CF.passes {ε : Type} (keep : ε → Bool) : Nat → CF ε → CF ε
  | 0, f => f
  | k + 1, f => CF.passes keep k (f.pass keep).2

/-- catalog_evaluations.number_test(forecast, observed): one pass, sizes of the catalogs handed out -/
def catalogNTestCF {ε : Type} (keep : ε → Bool) (f : CF ε) (obs : List ε) :
    (Option (Nat × Nat) × Option (Nat × Nat)) × CF ε :=
  let p := f.pass keep
  (catalogNTest (p.1.map List.length) obs.length, p.2)

/-- catalog_evaluations.number_test: sizes of the synthetic catalogs against the size of the observed one -/
def catalogNTestPub {ε : Type} (catalogs : List (List ε)) (obs : List ε) :
    Option (Nat × Nat) × Option (Nat × Nat) :=
  catalogNTest (catalogs.map List.length) obs.length

/-! ### the ANNOUNCED number of catalogs (constructor keyword `n_cat`, forecasts.py:563) is not what the N-test counts -/

/-- a catalog forecast with the number of catalogs it was told to hold -/
structure CFA (ε : Type) where
  cf : CF ε
  announced : Option Nat

/-- one full pass: the catalogs the source delivers; at the end of a pass over a generator / loader source the forecast
    corrects `n_cat` to the number it has seen (forecasts.py:614 `self.n_cat = self._idx`) -/
def CFA.pass {ε : Type} (keep : ε → Bool) (f : CFA ε) : List (List ε) × CFA ε :=
  let p := f.cf.pass keep
  (p.1, ⟨p.2, some p.1.length⟩)

/-- catalog_evaluations.number_test on such a forecast: `event_counts` holds one entry per catalog DELIVERED by the pass
    (catalog_evaluations.py:40-48 appends inside the loop; `forecast.n_cat` is not read) -/
def catalogNTestCFA {ε : Type} (keep : ε → Bool) (f : CFA ε) (obs : List ε) :
    (Option (Nat × Nat) × Option (Nat × Nat)) × CFA ε :=
  let p := f.pass keep
  (catalogNTest (p.1.map List.length) obs.length, p.2)

/-! ### the float64 arguments of the floor -/

/-- the double `1e-6` -/
def epsF : Rat := Soft64.fl64 (1 / 1000000)

/-- (⌊obs_cnt − ε⌋, ⌊obs_cnt + ε⌋) with both operations in float64: the index up to which scipy's `cdf` sums
    (−1 = below the support, cdf = 0) -/
def shiftF (n : Nat) : Int × Int :=
  ((Soft64.fsub (n : Rat) epsF).floor, (Soft64.fadd (n : Rat) epsF).floor)

/-- the same two float64 operations for an arbitrary `epsilon` argument of the array-level helpers
    (`_number_test_ndarray(fore_cnt, obs_cnt, epsilon=...)`, `_nbd_number_test_ndarray(..., epsilon=...)`) -/
def shiftFE (eps : Rat) (n : Nat) : Int × Int :=
  ((Soft64.fsub (n : Rat) eps).floor, (Soft64.fadd (n : Rat) eps).floor)

/-! ### the NBD probability parameter in float64 (binomial_evaluations.py:24) -/

/-- `upsilon = mean / var`: one float64 operation (the code since fix D47) -/
def upsilonF (mean var : Rat) : Rat := Soft64.fdiv mean var

/-- `upsilon = 1.0 - ((var - mean) / var)`: the three float64 operations of the code BEFORE fix D47, in its order.
    The same real number; the subtraction from 1.0 cancels (findings `finding_nbd_upsilon_zero`, `…_inexact`) -/
def upsilonOldF (mean var : Rat) : Rat := Soft64.fsub 1 (Soft64.fdiv (Soft64.fsub var mean) var)

end NumberTest
