import PycsepVerif.Model.ReaderText
import PycsepVerif.RealOps
/-
  NdkMagnitude — the moment magnitude of an NDK record (readers.py:221-223):

      rec["scalar_moment"] = float(line5[49:56]) * (10 ** exponent)          -- `Model/ReaderText.ndkLine5` (Soft64)
      rec["Mw"] = 2.0 / 3.0 * (math.log10(rec["scalar_moment"]) - 9.1)

  `math.log10` is transcendental: the formula lives in the real layer, generic over `[RealOps α]` (Float for the driver,
  ℝ for the theorems), with `log10 x = log x / log 10`.  `ndkFileMw` is `ndk(fname)` from the CHARACTERS of the file to
  events whose magnitude is the moment magnitude — the record loop end to end.
-/
namespace NdkMagnitude
open Readers ReaderText

variable {α : Type} [RealOps α]

/-- a non-negative rational as an element of the real layer -/
def ofRat (q : Rat) : α := RealOps.div (RealOps.ofNat q.num.toNat) (RealOps.ofNat q.den)

def log10 (x : α) : α := RealOps.div (RealOps.log x) (RealOps.log (RealOps.ofNat 10))

/-- `2.0 / 3.0 * (math.log10(m0) - 9.1)` -/
def mwOf (m0 : α) : α :=
  RealOps.mul (RealOps.div (RealOps.ofNat 2) (RealOps.ofNat 3))
    (RealOps.sub (log10 m0) (RealOps.div (RealOps.ofNat 91) (RealOps.ofNat 10)))

/-- an event of the NDK reader with its magnitude in the real layer -/
structure MwEvent (α : Type) where
  time : Int
  lat : Rat
  lon : Rat
  depth : Rat
  mw : α

/-- the events of the text model carry the scalar moment in the magnitude field; the formula is applied here -/
def withMw (e : Readers.Event) : MwEvent α := ⟨e.time, e.lat, e.lon, e.depth, mwOf (ofRat e.mag)⟩

/-- `ndk(fname)` from characters to events with moment magnitudes -/
def ndkFileMw (text : Str) : Option (Except Err (List (MwEvent α))) :=
  (ndkFile text).map (fun r => match r with
    | .ok evs => .ok (evs.map withMw)
    | .error e => .error e)

end NdkMagnitude
