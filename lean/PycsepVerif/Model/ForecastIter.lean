/-!
  Model of `csep.core.forecasts.CatalogForecast` as an iterable with state (property C13).

  * forecasts.py:473  `__init__`            → `initList`, `initStream`
  * forecasts.py:572  `__next__`            → `next` (branch by branch)
  * forecasts.py:648  `spatial_counts`      → `Op.spatialCounts`
  * forecasts.py:654  `magnitude_counts`    → `Op.magnitudeCounts`
  * forecasts.py:660  `get_event_counts`    → `getEventCounts`
  * forecasts.py:681  `get_expected_rates`  → `getExpectedRates`
  * `for cat in forecast`                   → `fullPass`
  * catalog_evaluations.py number_test / spatial_test / magnitude_test → `Op.numberTest` … (their use of the forecast)
  * catalog_evaluations.py pseudolikelihood_test (:250-262: ensure expected rates, one pass), resampled_magnitude_test
    (:417-441) and MLL_magnitude_test (:551-581): ensure expected rates, then TWO passes → `Op.pseudolikelihoodTest`,
    `Op.resampledMagnitudeTest`, `Op.mllMagnitudeTest` (round 4)
  * forecasts.py:563-568 `n_cat=` given by the user for a streamed forecast (any number)  → `initStreamN` (round 4)
  * forecasts.py:619-625 the three configured filters applied one after the other (`filter(self.filters)`,
    `apply_mct(...)`, `filter_spatial(self.region)`) → `Cfg`, `REv`, `RCat`, `filtSeq`; `absCat` maps a raw catalog to
    the abstract one (`keep` = conjunction of the configured predicates) (round 4)

  An event is abstracted to what the forecast does with it: whether it survives the configured filters
  (`filters`, `filter_spatial`; `Catalog.filter` works in place and is idempotent) and the flat index of its
  space-magnitude bin.  A generator is the list of the items it has not produced yet; the loader always produces
  the content of the file (`file`).

  Attributes a catalog may bring along and that `CatalogForecast` never reads (round 2): `catalog_id` (`id`, may be
  `None`, need not be distinct: the cache `_catalogs` is a list, nothing is keyed by id), the filter statements the
  catalog was constructed with (`carries`: `catalog.filters == forecast.filters` although nothing was filtered,
  the constructor only stores them) and the region the catalog is already bound to (`grid`).  The last one is read
  by `spatial_magnitude_counts` (catalogs.py:743: `self.region`), which is why `get_expected_rates` assigns the
  forecast's region first (forecasts.py:708 `cat.region = self.region` → `rebind`).  `payload_irrelevant`
  (Properties/C13.lean) says that none of the three changes any observable.
-/
namespace ForecastIter

structure Ev where
  keep : Bool      -- survives `catalog.filter(filters)` and `filter_spatial(region)`
  cell : Nat       -- flat index (space * nMag + magnitude) of its bin on the FORECAST's space-magnitude grid
  own : Nat := cell   -- flat index of its bin on the grid of the region the catalog itself is bound to
  deriving Repr, DecidableEq

structure Cat where
  id : Option Nat            -- `catalog.catalog_id` (constructor default `None`; nothing requires distinct ids)
  events : List Ev
  grid : Nat := 0            -- 0: `catalog.region` is (or will be taken as) the forecast's region; k > 0: another region
  carries : Bool := false    -- `catalog.filters == forecast.filters` by construction, nothing filtered yet
  deriving Repr, DecidableEq

/-- `catalog.filter(self.filters)` / `catalog.filter_spatial(self.region)` (in place, returns the catalog) -/
def filt (c : Cat) : Cat := { c with events := c.events.filter (·.keep) }

structure St where
  file : List Cat              -- what `self.loader(...)` yields (fixed)
  catalogs : List Cat          -- `self.catalogs`: the list, or the items the generator has not produced yet
  isGen : Bool                 -- `len(self.catalogs)` raises TypeError
  cache : List Cat             -- `self._catalogs`
  store : Bool
  applyFilters : Bool
  nCat : Option Nat
  idx : Nat                    -- `self._idx`
  eventCounts : List Nat       -- `self._event_counts`
  expectedRates : Option (List Nat × Nat)   -- cached forecast: per-bin totals and the divisor `n_cat`
  nBins : Nat                  -- number of space-magnitude bins of the region
  nMag : Nat                   -- number of magnitude bins
  deriving Repr, DecidableEq

/-- `CatalogForecast(catalogs=[...], n_cat=…)` : `n_cat = len(catalogs)` when it is not given (forecasts.py:559-563) -/
def initList (cats : List Cat) (nCat : Option Nat) (applyFilters : Bool) (nBins nMag : Nat) : St :=
  { file := cats, catalogs := cats, isGen := false, cache := [], store := true, applyFilters := applyFilters,
    nCat := (match nCat with | some n => some n | none => some cats.length), idx := 0, eventCounts := [],
    expectedRates := none, nBins := nBins, nMag := nMag }

/-- `load_catalog_forecast(fname, store=…, apply_filters=…)` : `_load_catalogs()` creates the generator -/
def initStream (file : List Cat) (store : Bool) (applyFilters : Bool) (nBins nMag : Nat) : St :=
  { file := file, catalogs := file, isGen := true, cache := [], store := store, applyFilters := applyFilters,
    nCat := none, idx := 0, eventCounts := [], expectedRates := none, nBins := nBins, nMag := nMag }

/-- a streamed forecast constructed with `n_cat=` (forecasts.py:563: `self.n_cat = n_cat`; a generator has no `len`,
    so the value is kept as given — right or wrong — until the end of the first pass overwrites it, :614) -/
def initStreamN (file : List Cat) (store : Bool) (applyFilters : Bool) (nCat : Option Nat) (nBins nMag : Nat) : St :=
  { initStream file store applyFilters nBins nMag with nCat := nCat }

inductive Step where
  | yield (c : Cat)
  | stop                 -- StopIteration
  | assertFail           -- `assert self.n_cat == n_items`
  deriving Repr, DecidableEq

/-- the tail of `__next__` after a catalog was obtained (forecasts.py:606-621) -/
def emit (st : St) (c : Cat) (wasGen : Bool) (pos : Nat) : St × Step :=
  -- `if self.apply_filters:` filter in place (the object in the list is the one filtered)
  let c' := if st.applyFilters then filt c else c
  let cats := if wasGen then st.catalogs else st.catalogs.set pos c'
  -- `self._event_counts.append(catalog.event_count)`
  let st := { st with catalogs := cats, eventCounts := st.eventCounts ++ [c'.events.length] }
  -- `if is_generator and self.store: self._catalogs.append(catalog)`
  let st := if wasGen && st.store then { st with cache := st.cache ++ [c'] } else st
  (st, .yield c')

/-- `CatalogForecast.__next__` (forecasts.py:572-621) -/
def next (st0 : St) : St × Step :=
  -- `if self._idx == 0: self._event_counts = []`
  let st := if st0.idx = 0 then { st0 with eventCounts := [] } else st0
  if st.isGen = false then
    -- list branch: `n_items = len(self.catalogs); assert self.n_cat == n_items`
    if st.nCat ≠ some st.catalogs.length then (st, .assertFail)
    -- `if self._idx >= self.n_cat: self._idx = 0; raise StopIteration()`
    else if st.idx ≥ st.catalogs.length then ({ st with idx := 0 }, .stop)
    else match st.catalogs[st.idx]? with
      | some c => emit { st with idx := st.idx + 1 } c false st.idx
      | none => (st, .stop)   -- unreachable (idx < length)
  else
    -- generator branch: `catalog = next(self.catalogs); self._idx += 1`
    match st.catalogs with
    | c :: rest => emit { st with catalogs := rest, idx := st.idx + 1 } c true st.idx
    | [] =>
      -- StopIteration of the generator
      let st := if st.store = false then
          -- `self.catalogs = self.loader(...)` : a fresh generator
          { st with catalogs := st.file }
        else
          -- `self.catalogs = self._catalogs; del self._catalogs; self.apply_filters = False`
          { st with catalogs := st.cache, cache := [], isGen := false, applyFilters := false }
      -- `self.n_cat = self._idx; self._idx = 0; raise StopIteration()`
      ({ st with nCat := some st.idx, idx := 0 }, .stop)

/-- `for cat in forecast: acc.append(cat)`; `none` = AssertionError (or the fuel ran out, which never happens:
    the fuel is larger than the number of catalogs) -/
def passLoop : Nat → St → List Cat → Option (St × List Cat)
  | 0, _, _ => none
  | fuel + 1, st, acc => match next st with
    | (st', .yield c) => passLoop fuel st' (acc ++ [c])
    | (st', .stop) => some (st', acc)
    | (_, .assertFail) => none

def fullPass (st : St) : Option (St × List Cat) :=
  passLoop (st.catalogs.length + st.file.length + 2) st []

/-- `k` calls of `__next__`: a pass that an exception raised in the loop body (or a `break`) aborted after `k`
    catalogs; the forecast object stays as the last call left it -/
def nextN : Nat → St → St
  | 0, st => st
  | k + 1, st => nextN k (next st).1

/-- `catalog.spatial_magnitude_counts()` as a flat count vector (every surviving event is assumed to lie inside the
    region: index < nBins; otherwise the library raises ValueError inside the pass of get_expected_rates, see
    `nextN` and the finding in Properties/C13.lean) -/
def binOf (c : Cat) (e : Ev) : Nat := if c.grid = 0 then e.cell else e.own

def binCounts (nBins : Nat) (c : Cat) : List Nat :=
  (List.range nBins).map (fun j => (c.events.filter (fun e => binOf c e = j)).length)

/-- `cat.region = self.region` (forecasts.py:708): the catalog is counted on the forecast's grid whatever region it
    was bound to before -/
def rebind (c : Cat) : Cat := { c with grid := 0 }

def addVec : List Nat → List Nat → List Nat
  | a :: as, b :: bs => (a + b) :: addVec as bs
  | _, _ => []

/-- the accumulation loop of get_expected_rates: `data = counts(first); data += counts(next) …` -/
def accumulate (nBins : Nat) : List Cat → Option (List Nat)
  | [] => none                                        -- `numpy.empty([])`: no catalogs
  | c :: cs => some (cs.foldl (fun d c' => addVec d (binCounts nBins c')) (binCounts nBins c))

/-- `get_event_counts` (forecasts.py:660-679) -/
def getEventCounts (st : St) : Option (St × List Nat) :=
  if st.eventCounts.length = 0 then
    match fullPass st with
    | some (st', _) => some (st', st'.eventCounts)
    | none => none
  else some (st, st.eventCounts)

/-- `get_expected_rates` (forecasts.py:681-716): one pass, totals divided by `self.n_cat` AFTER the pass;
    afterwards the cached forecast is returned -/
def getExpectedRates (st : St) : Option (St × (List Nat × Nat)) :=
  match st.expectedRates with
  | some r => some (st, r)
  | none =>
    match fullPass st with
    | some (st', cats) =>
      -- `cat.region = self.region; gridded_counts = cat.spatial_magnitude_counts()` for every catalog of the pass
      match accumulate st.nBins (cats.map rebind), st'.nCat with
      | some data, some n =>
        let r := (data, n)
        some ({ st' with expectedRates := some r }, r)
      | _, _ => none
    | none => none

/-- sums of consecutive groups of `nMag` entries: the spatial marginal of the (space × magnitude) matrix -/
def chunkSums (nMag : Nat) : Nat → List Nat → List Nat
  | 0, _ => []
  | k + 1, data => (data.take nMag).sum :: chunkSums nMag k (data.drop nMag)

def spatialMarginal (nMag nBins : Nat) (data : List Nat) : List Nat := chunkSums nMag (nBins / nMag) data

def magMarginal (nMag : Nat) (data : List Nat) : List Nat :=
  (List.range nMag).map (fun m => ((List.range data.length).filter (fun j => j % nMag = m)).foldl
    (fun s j => s + data.getD j 0) 0)

inductive Op where
  | fullPass | getEventCounts | getExpectedRates | spatialCounts | magnitudeCounts
  | numberTest | spatialTest | magnitudeTest
  | pseudolikelihoodTest | resampledMagnitudeTest | mllMagnitudeTest
  deriving Repr, DecidableEq

/-- canonical observable of one operation -/
inductive Out where
  | cats (l : List Cat)                    -- ids and (filtered) events, in order
  | counts (l : List Nat)                  -- per-catalog event counts
  | rates (data : List Nat) (n : Nat)      -- entry j of the forecast = data[j] / n
  | cats2 (l₁ l₂ : List Cat)               -- an evaluation that iterates twice: the catalogs of both passes
  | error
  deriving Repr, DecidableEq

/-- every operation also shows `forecast.n_cat` afterwards -/
abbrev Obs := Out × Option Nat

def withRates (st : St) (f : List Nat → List Nat) : St × Out :=
  match getExpectedRates st with
  | some (st', (data, n)) => (st', .rates (f data) n)
  | none => (st, .error)

def step (st : St) : Op → St × Out
  | .fullPass | .numberTest => match fullPass st with
      | some (st', cats) => (st', .cats cats)
      | none => (st, .error)
  | .getEventCounts => match getEventCounts st with
      | some (st', l) => (st', .counts l)
      | none => (st, .error)
  | .getExpectedRates => withRates st id
  | .spatialCounts => withRates st (spatialMarginal st.nMag st.nBins)
  | .magnitudeCounts => withRates st (magMarginal st.nMag)
  -- catalog spatial / magnitude test: `if forecast.expected_rates is None: get_expected_rates()`, then one pass
  | .spatialTest | .magnitudeTest | .pseudolikelihoodTest =>
      match getExpectedRates st with
      | some (st', _) => (match fullPass st' with
          | some (st'', cats) => (st'', .cats cats)
          | none => (st', .error))
      | none => (st, .error)
  -- resampled / MLL magnitude test: expected rates if absent, one pass for the union histogram
  -- (`for j, cat in enumerate(forecast)`), a second pass for the test distribution (`for i, catalog in enumerate(forecast)`)
  | .resampledMagnitudeTest | .mllMagnitudeTest =>
      match getExpectedRates st with
      | some (st', _) => (match fullPass st' with
          | some (st'', cats₁) => (match fullPass st'' with
              | some (st''', cats₂) => (st''', .cats2 cats₁ cats₂)
              | none => (st'', .error))
          | none => (st', .error))
      | none => (st, .error)

def run : St → List Op → List Obs
  | _, [] => []
  | st, op :: ops => let (st', out) := step st op; (out, st'.nCat) :: run st' ops

/-- phase 2: two in-memory forecasts constructed over the SAME Python catalog objects (`CatalogForecast(catalogs=cats)`
    twice).  `Catalog.filter` works in place, so whatever one forecast's pass does to the objects the other forecast
    sees: after an operation of one, the other's `catalogs` are the acting forecast's.  `false` = the first forecast. -/
def runShared : St → St → List (Bool × Op) → List Obs
  | _, _, [] => []
  | a, b, (false, op) :: rest =>
      let (a', o) := step a op
      (o, a'.nCat) :: runShared a' { b with catalogs := a'.catalogs } rest
  | a, b, (true, op) :: rest =>
      let (b', o) := step b op
      (o, b'.nCat) :: runShared { a with catalogs := b'.catalogs } b' rest

/-! ### specification: everything is a function of the fixed list of once-filtered catalogs -/

def applyOnce (applyFilters : Bool) (c : Cat) : Cat := if applyFilters then filt c else c

def totals (nBins : Nat) (cats : List Cat) : List Nat :=
  (List.range nBins).map (fun j => (cats.map (fun c => (c.events.filter (fun e => e.cell = j)).length)).sum)

def specOut (filtered : List Cat) (nBins nMag : Nat) : Op → Out
  | .fullPass | .numberTest | .spatialTest | .magnitudeTest | .pseudolikelihoodTest => .cats filtered
  | .resampledMagnitudeTest | .mllMagnitudeTest => .cats2 filtered filtered
  | .getEventCounts => .counts (filtered.map (·.events.length))
  | .getExpectedRates => .rates (totals nBins filtered) filtered.length
  | .spatialCounts => .rates (spatialMarginal nMag nBins (totals nBins filtered)) filtered.length
  | .magnitudeCounts => .rates (magMarginal nMag (totals nBins filtered)) filtered.length

def spec (filtered : List Cat) (nBins nMag : Nat) (ops : List Op) : List Obs :=
  ops.map (fun op => (specOut filtered nBins nMag op, some filtered.length))

/-! ### round 4: the configured filters, one after the other (forecasts.py:619-625)

`keep` of an abstract event is not a primitive of the code: `__next__` applies up to three filters in sequence, each
in place, each returning the catalog.  A raw event records what each of them would decide about it. -/

/-- the forecast's filter configuration (`self.filters` non-empty, `self.apply_mct`, `self.filter_spatial`) -/
structure Cfg where
  hasFilters : Bool
  applyMct : Bool
  filterSpatial : Bool
  deriving Repr, DecidableEq

structure REv where
  pf : Bool        -- satisfies every statement of `forecast.filters` (`Catalog.filter`, C04)
  pm : Bool        -- survives `apply_mct(event.magnitude, event epoch)`: before the mainshock, after the critical time,
                   -- or magnitude ≥ the time-dependent completeness (catalogs.py:630-640; catalogs sorted in time)
  ps : Bool        -- lies inside the forecast's region (`filter_spatial`, C01/C04)
  cell : Nat
  own : Nat := cell
  deriving Repr, DecidableEq

structure RCat where
  id : Option Nat
  events : List REv
  grid : Nat := 0
  carries : Bool := false
  deriving Repr, DecidableEq

/-- the body of `if self.apply_filters:` (forecasts.py:619-625), statement by statement -/
def filtSeq (cfg : Cfg) (c : RCat) : RCat :=
  -- `if self.filters: catalog = catalog.filter(self.filters)`
  let c := if cfg.hasFilters then { c with events := c.events.filter (·.pf) } else c
  -- `if self.apply_mct: catalog = catalog.apply_mct(self.event.magnitude, datetime_to_utc_epoch(self.event.time))`
  let c := if cfg.applyMct then { c with events := c.events.filter (·.pm) } else c
  -- `if self.filter_spatial: catalog = catalog.filter_spatial(self.region)`
  let c := if cfg.filterSpatial then { c with events := c.events.filter (·.ps) } else c
  c

/-- the single predicate "survives the configured filters" -/
def keepOf (cfg : Cfg) (e : REv) : Bool :=
  (!cfg.hasFilters || e.pf) && (!cfg.applyMct || e.pm) && (!cfg.filterSpatial || e.ps)

def absEv (cfg : Cfg) (e : REv) : Ev := { keep := keepOf cfg e, cell := e.cell, own := e.own }

def absCat (cfg : Cfg) (c : RCat) : Cat :=
  { id := c.id, events := c.events.map (absEv cfg), grid := c.grid, carries := c.carries }

end ForecastIter
