import PycsepVerif.Soft64
import PycsepVerif.Model.Bin1d
import PycsepVerif.Model.Region
/-
  Model of the FLOAT CONSTRUCTION PATH of csep/core/regions.py `CartesianGrid2D` — property C01, Soft64 layer.

    compute_vertex / compute_vertices     regions.py:445, :465     → `upperF`, `computeVertex`
    Polygon.__init__ (origin), centroid   models.py:304, :327      → `polyOrigin`, `centroidF`
    CartesianGrid2D.from_origins          regions.py:724           → `fromOrigins` (dh given) / `inferDh` (dh=None, decimal difference of the reprs)
    _build_bitmask_vec                    regions.py:757           → `buildF` (bbox, `cleaner_range`, `bin1d_vec`, loop)
    cleaner_range incl. the fallback path calc.py:223-252          → `cleanerRangeAll` (main path = `Bin1d.cleanerRangeF`; fallback after fix D49 = `fallbackRange`)
    get_bbox, midpoints, origins, bounds  regions.py:676-686, :591 → `getBbox`, `BuiltF.mids`, `BuiltF.origins`, `boundsOf`
    get_location_of                       regions.py:620           → `getLocationOf`
    to_dict / from_dict                   regions.py:688, :698     → `toDict`, `fromDict`
    get_cell_area, geographical_area_from_bounds  :811, :824       → `areaFromBounds`, `cellAreas` (generic in the number type)

  Every float64 is the rational it denotes; each float operation of the code is one Soft64 operation here, in the
  order Python evaluates it. NaN/inf, empty polygon lists and dh = 0 are not modelled. The number of decimals of
  `repr(float(x))` that `cleaner_range` reads is an input (supplied by the harness with the code's own rule), as in C02.
-/
namespace Region
open Soft64

/-! ## polygons -/

/-- `origin + dh - tol` (regions.py:460-462): two float operations, left to right -/
def upperF (o dh tol : Rat) : Rat := fsub (fadd o dh) tol

/-- regions.py:459-462 `compute_vertex`: the four vertices in the order of the tuple -/
def computeVertex (o : Rat × Rat) (dh tol : Rat) : List (Rat × Rat) :=
  [(o.1, o.2), (o.1, upperF o.2 dh tol), (upperF o.1 dh tol, upperF o.2 dh tol), (upperF o.1 dh tol, o.2)]

/-- models.py:307 `self.origin = self.points[0]` -/
def polyOrigin (pts : List (Rat × Rat)) : Rat × Rat := pts.headD (0, 0)

/-- models.py:327-334 `Polygon.centroid`: `c = 0; for p in points: c = c + p[.]; c / k` — a sequential float sum starting
from the integer 0 (the first addition is exact) and one float division by the number of vertices -/
def centroidF (pts : List (Rat × Rat)) : Rat × Rat :=
  let s := pts.foldl (fun (acc : Rat × Rat) p => (fadd acc.1 p.1, fadd acc.2 p.2)) (0, 0)
  let k : Rat := ((pts.length : Nat) : Rat)
  (fdiv s.1 k, fdiv s.2 k)

/-- the float midpoint of the cell with origin `o` along x: vertices o, o, u, u -/
def midX (o dh tol : Rat) : Rat := (centroidF (computeVertex (o, 0) dh tol)).1
/-- … and along y: vertices o, u, u, o (a different order of the same four additions) -/
def midY (o dh tol : Rat) : Rat := (centroidF (computeVertex (0, o) dh tol)).2

/-! ## cleaner_range with its fallback -/

/-- the fallback branch of `cleaner_range` AFTER fix D49 (calc.py:249-252): for a step that is not a short decimal no common integer
grid exists; `n = int(numpy.floor((end - start) / h + 0.5))`, then `start + numpy.arange(n + 1) * h`: edge k is ONE float product
`k*h` and ONE float sum `start + (k*h)` — no accumulation, and edge 0 is `start` itself. An empty range (`n + 1 ≤ 0`) gives no edge. -/
def fallbackRange (start end_ h : Rat) : List Rat :=
  let q := fadd (fdiv (fsub end_ start) h) (1 / 2)
  (List.range (q.floor + 1).toNat).map (fun (k : Nat) => fadd start (fmul ((k : Nat) : Rat) h))

/-- HISTORICAL (before fix D49): the fallback scaled by `max(10**num_decimals(start), 1/h)` (Python `max`: the second wins only when
strictly greater; the int is converted to float64 when it meets a float), rounded `start`, `end` on that grid, `d = scale*h` NOT rounded.
With `scale = 1/h` the START was rounded to a multiple of the step (defect D49) — kept for the kernel-checked findings
`finding_cleaner_fallback_displaced_*` of Properties/C02_Repr.lean only. -/
def fallbackRangeOld (start end_ h : Rat) (decS : Nat) : List Rat :=
  let p10 : Rat := ((10 ^ decS : Nat) : Rat)
  let inv := fdiv 1 h
  let scale := if p10 < inv then inv else fl64 p10
  let s := fround (fmul scale start)
  let e := fround (fmul scale end_)
  let d := fmul scale h
  (Bin1d.arangeF s (fadd e (fdiv d 2)) d).map (fun x => fdiv x scale)

/-- `cleaner_range(start, end, h)` (calc.py:223-252, after fix D49). `decS`, `decH` = `num_decimals(start)`, `num_decimals(h)`.
Main path (calc.py:242-247) = `Bin1d.cleanerRangeF` with `max decS decH`; when its guard fails, the fallback `fallbackRange`. -/
def cleanerRangeAll (start end_ h : Rat) (decS decH : Nat) : List Rat :=
  match Bin1d.cleanerRangeF start end_ h (max decS decH) with
  | some l => l
  | none => fallbackRange start end_ h

/-- HISTORICAL: `cleaner_range` before fix D49 (old fallback) -/
def cleanerRangeAllOld (start end_ h : Rat) (decS decH : Nat) : List Rat :=
  match Bin1d.cleanerRangeF start end_ h (max decS decH) with
  | some l => l
  | none => fallbackRangeOld start end_ h decS

/-! ## _build_bitmask_vec -/

def minL (l : List Rat) : Rat := l.foldl (fun a b => if b < a then b else a) (l.headD 0)
def maxL (l : List Rat) : Rat := l.foldl (fun a b => if a < b then b else a) (l.headD 0)

/-- Python / numpy index into an axis of length n: negative indices count from the end (`a[-1]` is the last entry) -/
def wrapIdx (n : Nat) (k : Int) : Nat := if k < 0 then ((n : Int) + k).toNat else k.toNat

/-- one polygon of the loop regions.py:783-793: the index is written at `a[idy, idx, 1]` ALWAYS (a −1 wraps around to the
last row / column), the mask is cleared only when both are ≥ 0 and the flag allows -/
def cellOfHash (nx ny : Nat) (idx idy : Int) (flag : Bool) : Cell :=
  ⟨wrapIdx nx idx, wrapIdx ny idy, flag && decide (0 ≤ idx) && decide (0 ≤ idy)⟩

/-- the loop over the polygons; `none` = no `poly_mask`, else the flag list (`poly_mask[k] == 1`) consumed in step -/
def hashCells (nx ny : Nat) : List (Int × Int) → Option (List Bool) → List Cell
  | [], _ => []
  | h :: hs, none => cellOfHash nx ny h.1 h.2 true :: hashCells nx ny hs none
  | h :: hs, some [] => cellOfHash nx ny h.1 h.2 false :: hashCells nx ny hs (some [])
  | h :: hs, some (f :: fs) => cellOfHash nx ny h.1 h.2 f :: hashCells nx ny hs (some fs)

/-- what the constructor computes -/
structure BuiltF where
  xs : List Rat
  ys : List Rat
  origins : List (Rat × Rat)       -- `poly.origin`
  mids : List (Rat × Rat)          -- `poly.centroid()`
  hash : List (Int × Int)          -- `(idx[k], idy[k])` = `bin1d_vec(midpoints[:, 0], xs)`, `bin1d_vec(midpoints[:, 1], ys)`
  cells : List Cell

/-- `bin1d_vec(p, bins)` with the defaults (closed mode, float64) -/
def binF (bins : Array Rat) (p : Rat) : Int :=
  Bin1d.bin1dCore (Bin1d.cfg64 false) bins.size (fun k => bins.getD k 0) p

/-- regions.py:757-795 on polygons given by their vertex lists; `flags = none` ⇔ `poly_mask is None`, else per polygon
`poly_mask[k] == 1`; `dec = (num_decimals(min x), num_decimals(min y), num_decimals(dh))` -/
def buildF (polys : List (List (Rat × Rat))) (dh : Rat) (flags : Option (List Bool)) (dec : Nat × Nat × Nat) : BuiltF :=
  let origins := polys.map polyOrigin                                          -- :762
  let ox := origins.map (·.1)
  let oy := origins.map (·.2)
  let mids := polys.map centroidF                                              -- :767
  let xs := cleanerRangeAll (minL ox) (maxL ox) dh dec.1 dec.2.2               -- :770
  let ys := cleanerRangeAll (minL oy) (maxL oy) dh dec.2.1 dec.2.2             -- :771
  let xa := xs.toArray
  let ya := ys.toArray
  let hash := mids.map (fun m => (binF xa m.1, binF ya m.2))                   -- :780-781
  let cells := hashCells xs.length ys.length hash flags
  { xs := xs, ys := ys, origins := origins, mids := mids, hash := hash, cells := cells }

/-- HISTORICAL: the constructor with `cleaner_range` as it was before fix D49 (only the edge arrays differ) — for the kernel-checked
findings (`finding_cleaner_fallback_displaced_region`, the D30 witness) -/
def buildFOld (polys : List (List (Rat × Rat))) (dh : Rat) (flags : Option (List Bool)) (dec : Nat × Nat × Nat) : BuiltF :=
  let origins := polys.map polyOrigin
  let ox := origins.map (·.1)
  let oy := origins.map (·.2)
  let mids := polys.map centroidF
  let xs := cleanerRangeAllOld (minL ox) (maxL ox) dh dec.1 dec.2.2
  let ys := cleanerRangeAllOld (minL oy) (maxL oy) dh dec.2.1 dec.2.2
  let xa := xs.toArray
  let ya := ys.toArray
  let hash := mids.map (fun m => (binF xa m.1, binF ya m.2))
  let cells := hashCells xs.length ys.length hash flags
  { xs := xs, ys := ys, origins := origins, mids := mids, hash := hash, cells := cells }

def fromOriginsOld (origins : List (Rat × Rat)) (dh : Rat) (flags : Option (List Bool)) (dec : Nat × Nat × Nat) : BuiltF :=
  buildFOld (origins.map (fun o => computeVertex o dh eps64)) dh flags dec

/-- regions.py:750: `from_origins(origins, dh)` → polygons by `compute_vertices` with the default tolerance `finfo(float).eps` -/
def fromOrigins (origins : List (Rat × Rat)) (dh : Rat) (flags : Option (List Bool)) (dec : Nat × Nat × Nat) : BuiltF :=
  buildF (origins.map (fun o => computeVertex o dh eps64)) dh flags dec

/-- regions.py:745-753 `dh=None` (after fix d4a1abe, D30): `decimal_diff(a, b) = abs(float(Decimal(repr(float(a))) - Decimal(repr(float(b)))))`
for the longitudes and the latitudes of the first two origins, then `numpy.max([dh1, dh2])`. `r0`, `r1` are the exact values
of the shortest decimal strings `repr` shows for the first two origins (inputs, supplied by the harness as in C02 / C11); the
decimal subtraction is exact and `float()` of a Decimal rounds to nearest. -/
def inferDh (r0 r1 : Rat × Rat) : Rat :=
  let dh2 := fabs (fl64 (r1.1 - r0.1))
  let dh1 := fabs (fl64 (r1.2 - r0.2))
  if dh1 < dh2 then dh2 else dh1

/-- HISTORICAL (before fix d4a1abe): the spacing was the FLOAT difference of the first two origins,
`max(|lats[1]-lats[0]|, |lons[1]-lons[0]|)` — kept only for the labelled witness of D30 in Properties/C01.lean -/
def inferDhFloat (origins : List (Rat × Rat)) : Rat :=
  let a := origins.getD 0 (0, 0)
  let b := origins.getD 1 (0, 0)
  let dh2 := fabs (fsub b.1 a.1)
  let dh1 := fabs (fsub b.2 a.2)
  if dh1 < dh2 then dh2 else dh1

/-- `bins[-1] + (bins[1] - bins[0])` in float64 (calc.py:125), the upper side `bin1d_vec` compares against -/
def topF (edges : List Rat) : Rat :=
  match edges with
  | e0 :: e1 :: _ => fadd (edges.getLast?.getD e1) (fsub e1 e0)
  | [e0] => e0 + 1
  | [] => 0

/-- the region object of the exact layer that the float construction yields -/
def BuiltF.region (b : BuiltF) : Region := Region.new b.xs b.ys (topF b.xs) (topF b.ys) b.cells

/-- kernel-evaluated test: every edge of the array (given as `(m, e)` pairs, `m·2^e`), taken as the origin of a cell
with spacing `dh`, has its float midpoint — x order of the vertex sum, or y order — hashed to its own index -/
def midsOwnBin (raw : List (Int × Int)) (dh : Rat) (yOrder : Bool) : Bool :=
  let bins := Bin1d.ofRaw raw
  let arr := bins.toArray
  (List.range bins.length).all (fun k =>
    let o := arr.getD k 0
    binF arr (if yOrder then midY o dh eps64 else midX o dh eps64) == ((k : Nat) : Int))

/-- the float 0.1 (spacing of the shipped CSEP regions) -/
def dh01 : Rat := 3602879701896397 / 36028797018963968

/-- executable form of the hypothesis `NearLattice a dh xs` of `midpoint_hash_correct` (Proofs/RegionHash.lean): 2 ≤ n ≤ 2^16
edges, `dh ≥ 2^-20`, lattice coordinates within [−2^10, 2^10], every edge within 2^-41 of `a + k·dh` -/
def nearLatticeB (a dh : Rat) (xs : List Rat) : Bool :=
  decide (2 ≤ xs.length) && decide (xs.length ≤ 65536) && decide ((1 : Rat) / 1048576 ≤ dh) && decide (-1024 ≤ a) &&
  decide (a + ((xs.length : Nat) : Rat) * dh ≤ 1024) &&
  (List.range xs.length).all (fun k =>
    let d := xs.getD k 0 - (a + ((k : Nat) : Rat) * dh)
    decide (d ≤ (1 : Rat) / 2199023255552) && decide (-((1 : Rat) / 2199023255552) ≤ d))

/-! ## the remaining public lookups -/

/-- regions.py:676-678 `get_bbox`: `(xs.min(), xs.max()+dh, ys.min(), ys.max()+dh)` -/
def getBbox (xs ys : List Rat) (dh : Rat) : Rat × Rat × Rat × Rat :=
  (minL xs, fadd (maxL xs) dh, minL ys, fadd (maxL ys) dh)

/-- regions.py:590-591 `bounds = column_stack((origins, origins + dh))` -/
def boundsOf (origins : List (Rat × Rat)) (dh : Rat) : List (Rat × Rat × Rat × Rat) :=
  origins.map (fun o => (o.1, o.2, fadd o.1 dh, fadd o.2 dh))

inductive LocErr where
  | indexError
deriving Repr, DecidableEq

/-- regions.py:620-633 `get_location_of(indices)`: `[self.polygons[idx] for idx in indices]` — Python list indexing:
−n ≤ idx < n, negative from the end, else IndexError. The result is the list of polygon numbers. -/
def getLocationOf (n : Nat) (indices : List Int) : Except LocErr (List Nat) :=
  indices.mapM (fun k => if -(n : Int) ≤ k ∧ k < (n : Int) then .ok (wrapIdx n k) else .error .indexError)

/-- regions.py:688-695 `to_dict`: name, dh, the origins as (lat, lon) records, the class id — and NOT the magnitudes -/
structure RegionDict where
  name : String
  dh : Rat
  polygons : List (Rat × Rat)        -- (lon, lat) of `poly.origin`
  classId : String
  magnitudes : Option (List Rat)     -- `adict.get('magnitudes')` as read by `from_dict`; `to_dict` never writes it
deriving Repr, DecidableEq

def toDict (name : String) (dh : Rat) (b : BuiltF) : RegionDict :=
  { name := name, dh := dh, polygons := b.origins, classId := "CartesianGrid2D", magnitudes := none }

/-- regions.py:698-721 `from_dict` → `from_origins(origins, dh, magnitudes, name)`: the region and its magnitudes -/
def fromDict (d : RegionDict) (dec : Nat × Nat × Nat) : BuiltF × Option (List Rat) :=
  (fromOrigins d.polygons d.dh none dec, d.magnitudes)

/-! ## cell areas (generic number type: `Float` in the driver, an ordered field in the theorems) -/

/-- regions.py:824-844 `geographical_area_from_bounds`, operation by operation; `pi` and `cosF` (cosine of radians) are
parameters, `isEq` the `==` of the number type -/
def areaFromBounds {α : Type} [Sub α] [Mul α] [Div α] [NatCast α]
    (pi : α) (cosF : α → α) (isEq : α → α → Bool) (lon1 lat1 lon2 lat2 : α) : α :=
  if isEq lon1 lon2 || isEq lat1 lat2 then ((0 : Nat) : α)
  else
    let r2 : α := ((6371 * 6371 : Nat) : α)                              -- earth_radius_km ** 2
    let radPerDeg : α := pi / ((180 : Nat) : α)
    let two : α := ((2 : Nat) : α)
    let one : α := ((1 : Nat) : α)
    let c90 : α := ((90 : Nat) : α)
    let strip := two * pi * (one - cosF ((c90 - lat1) * radPerDeg)) - two * pi * (one - cosF ((c90 - lat2) * radPerDeg))
    strip * r2 / (((360 : Nat) : α) / (lon2 - lon1))

/-- regions.py:811-821 `get_cell_area`: `top_right = origin + dh` -/
def cellAreas {α : Type} [Add α] [Sub α] [Mul α] [Div α] [NatCast α]
    (pi : α) (cosF : α → α) (isEq : α → α → Bool) (origins : List (α × α)) (dh : α) : List α :=
  origins.map (fun o => areaFromBounds pi cosF isEq o.1 o.2 (o.1 + dh) (o.2 + dh))

end Region
