import PycsepVerif.Model.FilterNan
import PycsepVerif.Model.CatalogText
/-
  The TEXT layer of `AbstractBaseCatalog.filter` (csep/core/catalogs.py:519-547): what the code does with the characters of a
  statement before any row is compared.  Until round 4 this was trusted ("the harness writes thresholds with repr").

      name = statements.split(' ')[0]                                   :520 / :538
      if name == 'datetime':
          _, oper, date, time = statements.split(' ')                   :522 / :541   (exactly four tokens, else ValueError)
          value = strptime_to_utc_epoch(' '.join([date, time]))         :527 / :544
      else:
          name, oper, value = statements.split(' ')                     :530 / :547   (exactly three tokens, else ValueError)
      mask = operators[oper](self.catalog[name], float(value))          KeyError / ValueError (no such field) / ValueError

  `str.split(' ')` splits at EVERY single space and keeps empty tokens (`'a  b'.split(' ') == ['a', '', 'b']`), so a doubled or
  a leading / trailing space changes the token count.  `float(value)` is `DecimalText.parseDecimal` (blanks other than the space
  stripped, digit-group underscores, correctly rounded) extended by the words `nan`, `inf`, `infinity` (any case, optional sign)
  and by overflow to an infinity (`float('1e400') == inf`).

  `strptime_to_utc_epoch` (csep/utils/time_utils.py:72-77, :101-125): the format is chosen from the text —
  `%Y-%m-%d %H:%M:%S`, `.%f` appended when the text contains a '.', `%z` appended when `time_string[-6] == '+'` — then
  `datetime.strptime(...).replace(tzinfo=utc)`: a UTC offset in the text is PARSED AND DISCARDED (`+05:30` selects the same
  instant as `+00:00`; modelled as is, see `tz_offset_ignored` and W-C04-4 in notes/C04.md), then the integer
  `datetime_to_utc_epoch` (floor to the millisecond).  The field grammar of CPython's `_strptime` (unpadded one-digit fields,
  1-6 fraction digits, `\s+` for the blank of the format) is the one of `AsciiCatalogs.strptimeT` (C12), reused here.

  ASCII only: Unicode digits / blanks that `float()` and `re` also accept are outside the model (never generated).
-/
namespace CatFilter
open DecimalText AsciiCatalogs

/-! ### `str.split(' ')` -/

/-- Python `s.split(' ')`: never empty, empty tokens kept -/
def splitSpace : List Char → List (List Char)
  | [] => [[]]
  | c :: cs =>
    match splitSpace cs with
    | [] => [[]]                                     -- unreachable: the result is never empty
    | t :: ts => if c = ' ' then [] :: t :: ts else (c :: t) :: ts

/-- `' '.join(tokens)` -/
def joinSpace : List (List Char) → List Char
  | [] => []
  | [t] => t
  | t :: ts => t ++ ' ' :: joinSpace ts

/-! ### names and operator symbols -/

def Attr.name : Attr → List Char
  | .originTime => "origin_time".toList
  | .latitude => "latitude".toList
  | .longitude => "longitude".toList
  | .depth => "depth".toList
  | .magnitude => "magnitude".toList

/-- the operator table catalogs.py:508-512, keys as characters -/
def Op.sym : Op → List Char
  | .gt => ">".toList
  | .lt => "<".toList
  | .ge => ">=".toList
  | .le => "<=".toList
  | .eq => "==".toList

def allAttrs : List Attr := [.originTime, .latitude, .longitude, .depth, .magnitude]
def allOps : List Op := [.gt, .lt, .ge, .le, .eq]

/-- `self.catalog[name]`: one of the five numeric columns (`none`: numpy raises ValueError "no field of name",
    or the name is the bytes column `id`, which cannot be compared with a float) -/
def attrOfName (s : List Char) : Option Attr := allAttrs.find? (fun a => a.name = s)

/-- `operators[oper]` (`none` = KeyError) -/
def opOfSym (s : List Char) : Option Op := allOps.find? (fun o => o.sym = s)

/-! ### `float(value)` including the non-finite words and overflow -/

def lowerAscii (c : Char) : Char := if 65 ≤ c.toNat ∧ c.toNat ≤ 90 then Char.ofNat (c.toNat + 32) else c

/-- `float(tok)`; `none` = ValueError -/
def pyFloatF (tok : List Char) : Option FVal :=
  let s := strip tok
  let sr := takeSign s
  let w := sr.2.map lowerAscii
  if w = "nan".toList then some .nan
  else if w = "inf".toList ∨ w = "infinity".toList then some (if sr.1 then .negInf else .posInf)
  else
    match dropUnderscores false s with
    | none => none
    | some cs =>
      match parseBody cs with
      | none => none
      | some q =>
        let y := Soft64.fl64 q
        if Soft64.fabs y < f64Limit then some (.fin y)
        else some (if q < 0 then .negInf else .posInf)          -- strtod overflow: ±inf, no exception

/-! ### `strptime_to_utc_epoch(date + ' ' + time)` -/

/-- `time_string[-6]` (`none` = IndexError on a text shorter than six characters) -/
def sixthFromEnd (s : List Char) : Option Char := s.reverse[5]?

/-- the `%z` directive when the offset occupies the last six characters: `+HH:MM`; the offset must be < 24 h
    (`datetime.timezone` raises otherwise).  Returns the offset in minutes. -/
def parseTz : List Char → Option Nat
  | ['+', a, b, ':', c, d] =>
    if isDigit a && isDigit b && isDigit c && isDigit d && decide (digitVal c ≤ 5)
        && decide (digitVal a * 10 + digitVal b ≤ 23)
    then some ((digitVal a * 10 + digitVal b) * 60 + digitVal c * 10 + digitVal d) else none
  | _ => none

/-- the blank of the format is the regular expression `\s+` -/
def blanks1 : List Char → Option (List Char)
  | c :: cs => if isBlank c then some (dropBlanks cs) else none
  | [] => none

/-- `strptime_to_utc_epoch(s)` with the default format argument; `none` = ValueError / IndexError.
    Result: epoch milliseconds.  The UTC offset, if present, is parsed and then replaced by UTC. -/
def strptimeStmt (s : List Char) : Option Int := do
  let frac := s.contains '.'                                  -- parse_string_format: `'.' in time_string`
  let c6 ← sixthFromEnd s                                     -- `time_string[-6]`
  let tz := decide (c6 = '+')
  let (y, r) ← take4 s
  let r ← expect '-' r
  let (mo, r) ← take12 r
  let r ← expect '-' r
  let (d, r) ← takeDay r
  let r ← blanks1 r
  let (h, r) ← take12 r
  let r ← expect ':' r
  let (mi, r) ← take12 r
  let r ← expect ':' r
  let (sec, r) ← take12 r
  let (us, r) ← (if frac then do
      let r ← expect '.' r
      match r with
      | c :: _ => if isDigit c then some (takeFrac 6 100000 0 r) else none
      | [] => none
    else some (0, r))
  let _ ← (if tz then parseTz r else (if r = [] then some 0 else none))
  let f : Time.Fields := { year := y, month := mo, day := d, hour := h, minute := mi, second := sec, micro := us }
  if Time.validFields f then some (Time.dtToMs (Time.ofFields f)) else none

/-! ### one statement, a list of statements -/

inductive TextErr where
  | unpack        -- ValueError: not enough / too many values to unpack (token count)
  | badDate       -- ValueError / IndexError out of strptime_to_utc_epoch
  | keyError      -- unknown operator symbol
  | noField       -- unknown column name
  | badFloat      -- ValueError out of float(value)
  | notText       -- statements is neither str nor list / tuple (`ValueError`, catalogs.py:549)
  deriving DecidableEq, Repr

instance : DecidableEq (Except TextErr StmtF)
  | .ok a, .ok b => if h : a = b then isTrue (by rw [h]) else isFalse (fun e => h (by cases e; rfl))
  | .error a, .error b => if h : a = b then isTrue (by rw [h]) else isFalse (fun e => h (by cases e; rfl))
  | .ok _, .error _ => isFalse (fun e => by cases e)
  | .error _, .ok _ => isFalse (fun e => by cases e)

instance : DecidableEq (Except TextErr (List EventF))
  | .ok a, .ok b => if h : a = b then isTrue (by rw [h]) else isFalse (fun e => h (by cases e; rfl))
  | .error a, .error b => if h : a = b then isTrue (by rw [h]) else isFalse (fun e => h (by cases e; rfl))
  | .ok _, .error _ => isFalse (fun e => by cases e)
  | .error _, .ok _ => isFalse (fun e => by cases e)

/-- `_, oper, date, time = …`; `value = strptime_to_utc_epoch(' '.join([date, time]))`; `operators[oper](…, float(value))` -/
def parseDtToks (oper date time : List Char) : Except TextErr StmtF :=
  match strptimeStmt (joinSpace [date, time]) with
  | none => .error .badDate
  | some ms =>
    match opOfSym oper with
    | none => .error .keyError
    | some o => .ok ⟨.originTime, o, .fin (ms : Rat)⟩

/-- `name, oper, value = …`; `operators[oper](self.catalog[name], float(value))`, evaluated in this order -/
def parseNumToks (name oper value : List Char) : Except TextErr StmtF :=
  match opOfSym oper with
  | none => .error .keyError
  | some o =>
    match attrOfName name with
    | none => .error .noField
    | some a =>
      match pyFloatF value with
      | none => .error .badFloat
      | some v => .ok ⟨a, o, v⟩

/-- `_, oper, date, time = statements.split(' ')`: exactly four tokens, else ValueError -/
def parseDtRest : List (List Char) → Except TextErr StmtF
  | [oper, date, time] => parseDtToks oper date time
  | _ => .error .unpack

/-- `name, oper, value = statements.split(' ')`: exactly three tokens, else ValueError -/
def parseNumRest (name : List Char) : List (List Char) → Except TextErr StmtF
  | [oper, value] => parseNumToks name oper value
  | _ => .error .unpack

/-- `name = statements.split(' ')[0]`, then the branch on `name == 'datetime'` -/
def parseToks : List (List Char) → Except TextErr StmtF
  | [] => .error .unpack
  | name :: rest => if name = "datetime".toList then parseDtRest rest else parseNumRest name rest

/-- the meaning of one statement string (catalogs.py:520-531 / :538-547), in the order in which the code evaluates -/
def parseStmtText (s : List Char) : Except TextErr StmtF := parseToks (splitSpace s)

/-- the loop over a list / tuple of statement strings on a copy; the first statement that cannot be read raises and
    `self.catalog` was not assigned yet (catalogs.py:551-553 come after the loop): the catalog keeps its rows -/
def filterTexts : List (List Char) → List EventF → Except TextErr (List EventF)
  | [], es => .ok es
  | t :: ts, es =>
    match parseStmtText t with
    | .error e => .error e
    | .ok s => filterTexts ts (filterOneF s es)

/-- all statements read first (the order of reading and filtering does not matter for the outcome: `filterTexts_eq`) -/
def parseAll : List (List Char) → Except TextErr (List StmtF)
  | [] => .ok []
  | t :: ts =>
    match parseStmtText t with
    | .error e => .error e
    | .ok s => match parseAll ts with
      | .error e => .error e
      | .ok ss => .ok (s :: ss)

/-! ### the int64 origin-time column inside a float comparison (numpy promotion)

`operators[oper](self.catalog['origin_time'], float(value))`: numpy compares an int64 array with a Python float by converting the
column to float64 (NEP 50: the Python scalar is weak, the result type of int64 with a float is float64).  The conversion rounds
to the nearest double (ties to even).  `Properties/C04_Int64.lean`: for |t| < 2^53 — in particular for every instant
`datetime` can represent, years 1 … 9999, which is the range in which a catalog can compute its statistics at all — the
conversion is exact and this is the exact model `Stmt.holds`. -/

/-- the row's attribute as the comparison sees it: the origin time converted to float64 -/
def Event.getCode (e : Event) : Attr → Rat
  | .originTime => Soft64.fl64 (e.originTime : Rat)
  | a => e.get a

def Stmt.holdsCode (s : Stmt) (e : Event) : Bool := s.op.eval (e.getCode s.attr) s.value

def filterListCode (ss : List Stmt) (es : List Event) : List Event :=
  ss.foldl (fun acc s => acc.filter s.holdsCode) es

/-- the instants `datetime` can represent: 0001-01-01T00:00:00 … 9999-12-31T23:59:59.999 in epoch milliseconds -/
def minDatetimeMs : Int := -62135596800000
def maxDatetimeMs : Int := 253402300799999

/-! ### rendering used by the theorems: the text a caller writes for a statement -/

def renderNum (a : Attr) (o : Op) (valueText : List Char) : List Char := joinSpace [a.name, o.sym, valueText]

def renderDatetime (o : Op) (date time : List Char) : List Char := joinSpace ["datetime".toList, o.sym, date, time]

end CatFilter
