import PycsepVerif.Model.PoissonLL
import PycsepVerif.Model.Sampler
import PycsepVerif.Model.Gridding
/-!
  The whole Poisson consistency test as ONE function (properties C05 and C06 together, with the gridding of C03):

    catalog events ──(Gridding: spatial_magnitude_counts / spatial_counts / magnitude_counts)──▶ observed count array
    forecast array ──(Sampler: cumsum, / w[-1], searchsorted right, add.at, count assert)──────▶ simulated count arrays
    (forecast array, count array) ──(this file: lines 634-656, 671-681, 691-694; stats.py:191-195)──▶ statistics, quantile

  csep/core/poisson_evaluations.py
    604-698  `_poisson_likelihood_test`              → `prepare`, `statOf`, `simLoop`, `run`
    171-222  `conditional_likelihood_test`           → `publicTest .CL`   (use_observed_counts=True,  normalize_likelihood=False)
    293-338  `magnitude_test`                        → `publicTest .M`    (True, True; magnitude_counts of both)
    342-389  `spatial_test`                          → `publicTest .S`    (True, True; spatial_counts of both)
    391-441  `likelihood_test`                       → `publicTest .L`    (False, False)
  csep/core/forecasts.py:330-358 `get_rates`, :286-328 `target_event_rates(scale=False)` → `targetEventRates`
  csep/utils/stats.py:165-175 `poisson_log_likelihood` → `poissonLogLikelihood`

  Unlike `PoissonLL.stat` (a function of ONE (rate, count) array pair, with `N_obs` recomputed from that pair), the
  definitions here keep the shape of the code: `log_bin_expectations` and `expected_forecast_count` are computed ONCE from the
  forecast and the OBSERVED counts (`prepare`) and re-used for every simulated catalog (`statOf`). That the two agree is
  a theorem (Properties/C05_Chain.lean) whose hypothesis — a simulated catalog has exactly `N_obs` events — is C06's count
  conservation.

  Floats: the statistic part is generic over `RealOps α`; the placement part works on the exact rational value of each
  rate (`toQ : α → Rat`, the identity embedding of binary64 into ℚ at `Float`, arbitrary in the theorems).
-/
namespace PoissonTest
variable {α : Type} [RealOps α]
open RealOps PoissonLL

/-- `log_bin_expectations` and `expected_forecast_count` (poisson_evaluations.py:634-646) -/
structure Prepared (α : Type) where
  logRates : List (ELL α)
  expected : α

/-- lines 634-646:
    ```
    n_obs = numpy.sum(observed_data); n_fore = numpy.sum(forecast_data)
    expected_forecast_count = numpy.sum(forecast_data)
    log_bin_expectations = numpy.log(forecast_data.ravel())
    if use_observed_counts and normalize_likelihood:
        scale = n_obs / n_fore
        expected_forecast_count = int(n_obs)
        log_bin_expectations = numpy.log(forecast_data.ravel() * scale)
    ``` -/
def prepare (useObs normLik : Bool) (rates : List α) (obs : List Nat) : Prepared α :=
  if useObs && normLik then
    let scale : α := div (ofNat obs.sum) (RealOps.sum rates)
    ⟨rates.map (fun r => ELL.log (mul r scale)), ofNat obs.sum⟩
  else
    ⟨rates.map ELL.log, RealOps.sum rates⟩

/-- the statistic of ONE count array given the prepared log-rates (lines 651-656 for the observed array, 671-679 for a
    simulated one) followed by `poisson_joint_log_likelihood_ndarray` (stats.py:191-195):
    ```
    idx = numpy.nonzero(counts.ravel()); w = counts.ravel()[idx]
    sum(log_bin_expectations[idx] * w) - sum(loggamma(w + 1)) - expected_forecast_count
    ``` -/
def statOf (p : Prepared α) (counts : List Nat) : ELL α :=
  let t := (p.logRates.zip counts).filter (fun q => decide (0 < q.2))
  let sumLog := ELL.sum (t.map (fun q => mulNat q.1 q.2))
  let penalty := RealOps.sum (t.map (fun q => logFact q.2))
  subFin (subFin sumLog penalty) p.expected

/-- the simulation loop (lines 659-669) with injected numbers: row `idx` of `random_numbers` is placed by
    `_simulate_catalog` (Sampler.simulate: fill(0), searchsorted right, add.at); `none` = IndexError or the count
    assertion `sim_fore.sum() == num_events_to_simulate` failed. `ns` = the number of events of each simulation. -/
def simLoop (ws : List Rat) : List Nat → List (List Rat) → Option (List (List Nat))
  | _, [] => some []
  | [], _ :: _ => none
  | n :: ns, row :: rows => match Sampler.simulate ws row with
      | some arr => if Sampler.countAssert arr n then (simLoop ws ns rows).map (arr :: ·) else none
      | none => none

/-- `simulated_ll <= obs_ll` on extended values (−∞ ≤ everything) -/
def ellLe : ELL α → ELL α → Bool
  | .negInf, _ => true
  | .fin _, .negInf => false
  | .fin a, .fin b => le a b

structure Result (α : Type) where
  /-- `qs` as the pair (#{sim ≤ obs}, num_simulations) -/
  quantile : Nat × Nat
  obsLL : ELL α
  simLL : List (ELL α)
  /-- the simulated count arrays (not returned by the code; observable through `_simulate_catalog`) -/
  sims : List (List Nat)

/-- `_poisson_likelihood_test(forecast_data, observed_data, num_simulations = rows.length, random_numbers = rows,
    use_observed_counts, normalize_likelihood)`.
    `draws` = the values of `int(numpy.random.poisson(expected_forecast_count))`, one per simulation, used only when
    `use_observed_counts` is False (the L-test); with observed counts every simulation has `int(n_obs)` events. -/
def run (toQ : α → Rat) (useObs normLik : Bool) (rates : List α) (obs : List Nat) (draws : List Nat)
    (rows : List (List Rat)) : Option (Result α) :=
  let ws := Sampler.weights (rates.map toQ)                               -- :624-625
  let p := prepare useObs normLik rates obs                               -- :634-646
  let ns := if useObs then List.replicate rows.length obs.sum else draws  -- :660-664
  match simLoop ws ns rows with
  | none => none
  | some sims =>
    let simLL := sims.map (statOf p)                                      -- :671-681
    let obsLL := statOf p obs                                             -- :651-656, 691-694
    some ⟨((simLL.filter (fun s => ellLe s obsLL)).length, rows.length), obsLL, simLL, sims⟩   -- :697

/-! ### the four public tests: which arrays, which flags -/

/-- the forecast array handed to `_poisson_likelihood_test`: `gridded_forecast.data` (L :423, CL :204),
    `gridded_forecast.spatial_counts()` (S :366), `gridded_forecast.magnitude_counts()` (M :317) -/
def forecastArray (m : Mode) (data : List (List α)) : List α :=
  match m with
  | .L => data.flatten
  | .CL => data.flatten
  | .S => spatialMarginal data
  | .M => magMarginal data

/-- the observed array: `observed_catalog.spatial_magnitude_counts()` (L :420, CL :201; raises for an event outside the
    region or below the first magnitude edge), `observed_catalog.spatial_counts()` (S :362; magnitudes are not looked
    at), `observed_catalog.magnitude_counts(mag_bins=forecast.magnitudes)` (M :312; locations are not looked at, an event
    below the first edge is dropped) -/
def observedArray (m : Mode) (ncell nbin : Nat) (evs : List Gridding.Ev) : Except Gridding.Err (List Nat) :=
  match m with
  | .L => (Gridding.smcCart ncell nbin evs).map List.flatten
  | .CL => (Gridding.smcCart ncell nbin evs).map List.flatten
  | .S => Gridding.spatialCountsCart ncell (evs.map (·.cell))
  | .M => .ok (Gridding.magnitudeCounts nbin (evs.map (·.bin)))

/-- (use_observed_counts, normalize_likelihood) of each public test -/
def flags : Mode → Bool × Bool
  | .L => (false, false)
  | .CL => (true, false)
  | .S => (true, true)
  | .M => (true, true)

/-- a public test on a catalog given as the list of its events' (cell, magnitude-bin) lookups -/
def publicTest (toQ : α → Rat) (m : Mode) (data : List (List α)) (nbin : Nat) (evs : List Gridding.Ev)
    (draws : List Nat) (rows : List (List Rat)) : Except Gridding.Err (Option (Result α)) :=
  match observedArray m data.length nbin evs with
  | .error e => .error e
  | .ok obs => .ok (run toQ (flags m).1 (flags m).2 (forecastArray m data) obs draws rows)

/-! ### per-event view: `target_event_rates` / `get_rates` (forecasts.py:286-358) -/

/-- `rates = data[idx, idm]` for the events' (cell, magnitude-bin) indices (forecasts.py:349-353); an index outside the
    array is an IndexError (`none`) -/
def targetEventRates (data : List (List α)) (evs : List (Nat × Nat)) : Option (List α) :=
  evs.mapM (fun e => (data[e.1]?).bind (·[e.2]?))

/-! ### `poisson_log_likelihood` (stats.py:165-175): `numpy.log(scipy.stats.poisson.pmf(observation, forecast))` -/

/-- `x ** n` by repeated multiplication -/
def powNat (x : α) : Nat → α
  | 0 => one
  | n + 1 => mul (powNat x n) x

/-- `w!` (core Lean has no factorial; `factN_eq` in Proofs/PoissonTest.lean identifies it with `Nat.factorial`) -/
def factN : Nat → Nat
  | 0 => 1
  | n + 1 => (n + 1) * factN n

/-- Poisson pmf `exp(-λ) λ^w / w!` -/
def pmf (lam : α) (w : Nat) : α := div (mul (exp (neg lam)) (powNat lam w)) (ofNat (factN w))

/-- one entry of `poisson_log_likelihood(observation, forecast)` -/
def poissonLogLikelihood (lam : α) (w : Nat) : ELL α := ELL.log (pmf lam w)

end PoissonTest
