/-
  CatalogJson — the characters of a JSON string token, as `json.dump` writes an event id / a catalog name
  (csep/core/catalogs.py:234 `write_json`: `json.dump(self.to_dict(), …)`, default `ensure_ascii=True`) and as
  `json.load` reads it back (`load_json`, :219; CPython `json.encoder.py_encode_basestring_ascii`, `json.decoder.py_scanstring`
  with `strict=True`).

  Encoder: `"` + per character: `\"`, `\\`, `\n`, `\r`, `\t`, `\b`, `\f`; every other character outside ' '..'~' as `\uXXXX`
  (4 lowercase hex digits; characters beyond the BMP as a surrogate pair) + `"`.
  Decoder: up to the closing quote; `\` followed by one of `" \ / b f n r t` or `uXXXX`; a raw control character
  (< 0x20) is an error.  Surrogate pairs in the INPUT of the decoder are outside this model (`none`).
  Import-free, structural recursion only.
-/
namespace CatalogJson

abbrev Str := List Char

def hexDigit (n : Nat) : Char := if n < 10 then Char.ofNat (48 + n) else Char.ofNat (87 + n)

/-- `'{0:04x}'.format(n)` -/
def hex4 (n : Nat) : Str := [hexDigit (n / 4096 % 16), hexDigit (n / 256 % 16), hexDigit (n / 16 % 16), hexDigit (n % 16)]

def escChar (c : Char) : Str :=
  if c = '"' then ['\\', '"'] else if c = '\\' then ['\\', '\\']
  else if c = '\n' then ['\\', 'n'] else if c = '\r' then ['\\', 'r'] else if c = '\t' then ['\\', 't']
  else if c = '\x08' then ['\\', 'b'] else if c = '\x0c' then ['\\', 'f']
  else if 32 ≤ c.toNat ∧ c.toNat ≤ 126 then [c]
  else if c.toNat < 65536 then '\\' :: 'u' :: hex4 c.toNat
  else
    let v := c.toNat - 65536
    '\\' :: 'u' :: hex4 (55296 + v / 1024) ++ '\\' :: 'u' :: hex4 (56320 + v % 1024)

/-- `json.dumps(s)` -/
def encodeString (s : Str) : Str := '"' :: (s.flatMap escChar ++ ['"'])

def hexVal (c : Char) : Option Nat :=
  if '0' ≤ c ∧ c ≤ '9' then some (c.toNat - 48)
  else if 'a' ≤ c ∧ c ≤ 'f' then some (c.toNat - 87)
  else if 'A' ≤ c ∧ c ≤ 'F' then some (c.toNat - 55) else none

def hex4Val (a b c d : Char) : Option Nat :=
  match hexVal a, hexVal b, hexVal c, hexVal d with
  | some w, some x, some y, some z => some (w * 4096 + x * 256 + y * 16 + z)
  | _, _, _, _ => none

def simpleEsc (e : Char) : Option Char :=
  if e = '"' then some '"' else if e = '\\' then some '\\' else if e = '/' then some '/'
  else if e = 'b' then some '\x08' else if e = 'f' then some '\x0c' else if e = 'n' then some '\n'
  else if e = 'r' then some '\r' else if e = 't' then some '\t' else none

/-- the characters after the opening quote → the string; the closing quote must end the token -/
def decodeBody : Str → Option Str
  | [] => none
  | ['\\'] => none
  | '\\' :: 'u' :: a :: b :: c :: d :: rest =>
    match hex4Val a b c d with
    | some n => if 55296 ≤ n ∧ n < 57344 then none else (decodeBody rest).map (Char.ofNat n :: ·)
    | none => none
  | '\\' :: e :: rest =>
    match simpleEsc e with
    | some c => (decodeBody rest).map (c :: ·)
    | none => none
  | c :: rest =>
    if c = '"' then (if rest.isEmpty then some [] else none)
    else if c.toNat < 32 then none
    else (decodeBody rest).map (c :: ·)

/-- `json.loads(token)` for a string token -/
def decodeString : Str → Option Str
  | '"' :: rest => decodeBody rest
  | _ => none

end CatalogJson
