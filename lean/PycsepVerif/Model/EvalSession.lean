import PycsepVerif.Model.CatalogEvals

/-!
  Model of a SESSION of catalog-based evaluations on ONE `CatalogForecast` object
  (csep/core/catalog_evaluations.py + csep/core/forecasts.py:687-717).

  What the forecast carries from one evaluation to the next is its list of synthetic catalogs and the cached mean
  gridded rates: every test except the number test starts with
  `if forecast.expected_rates is None: forecast.get_expected_rates()` (:92-93, :176-177, :265-266, :413-414, :557-558)
  and then READS `forecast.expected_rates` (`.sum()`, `.spatial_counts()`, `.magnitude_counts()`).
  `Model/CatalogEvals.lean` recomputes `meanRates C K sims` inside each test; here the tests take the rates from the
  state, as the code does, and the state is threaded through a sequence of evaluations.
-/
namespace CatEvals

variable {α : Type} [RealOps α]

/-- the forecast object between two evaluations -/
structure FcState (α : Type) where
  sims : List Grid
  /-- `forecast.expected_rates.data` (`none` = `expected_rates is None`) -/
  cache : Option (List (List α))

/-- `if forecast.expected_rates is None: forecast.get_expected_rates()`; returns the rates that are then read -/
def ensureRates (C K : Nat) (st : FcState α) : FcState α × List (List α) :=
  match st.cache with
  | some m => (st, m)
  | none => let m := meanRates C K st.sims; ({ st with cache := some m }, m)

/-- `spatial_test` (:64-148) reading the rates `m` from the forecast object -/
def spatialTestWith (m : List (List α)) (C : Nat) (sims : List Grid) (obs : Grid) : Result α :=
  let ecc := totalRate m
  let rates := spatialRates m
  let gObs := spatialCounts C obs
  let nObs := gObs.sum
  let dist0 := sims.map fun g => (computeLikelihood (spatialCounts C g) rates ecc nObs).2
  let first := (computeLikelihood gObs rates ecc nObs).2
  let om : Option (ELL α) × Status :=
    match first with
    | some .negInf =>
      let keep := goodMask rates
      ((computeLikelihood (maskBy keep gObs) (maskBy keep rates) ecc nObs).2, .undersampled)
    | _ => (first, .normal)
  let dist := dist0.filterMap id
  if nObs = 0 then
    { status := .notValid, observed := om.1, quantile := .sentinel, distribution := dist }
  else match om.1 with
    | none => { status := .notValid, observed := none, quantile := .sentinel, distribution := dist }
    | some v => { status := om.2, observed := some v, quantile := quantiles dist v, distribution := dist }

/-- `pseudolikelihood_test` (:238-334) reading the rates `m` from the forecast object -/
def pseudolikelihoodTestWith (m : List (List α)) (C : Nat) (sims : List Grid) (obs : Grid) : Option (Result α) :=
  let ecc := totalRate m
  let rates := spatialRates m
  let gObs := spatialCounts C obs
  let nObs := gObs.sum
  let dist := sims.map fun g => (computeLikelihood (spatialCounts C g) rates ecc nObs).1
  let first := (computeLikelihood gObs rates ecc nObs).1
  match first with
  | .negInf =>
    let keep := goodMask rates
    let newObs := maskBy keep gObs
    if newObs.sum = 0 then none
    else
      let v := (computeLikelihood newObs (maskBy keep rates) ecc nObs).1
      some { status := .undersampled, observed := some v, quantile := quantiles dist v, distribution := dist }
  | .fin x =>
    some { status := .normal, observed := some (.fin x), quantile := quantiles dist (.fin x), distribution := dist }

/-- `magnitude_test` (:151-235) after its short-circuit, reading the rates `m` from the forecast object -/
def magnitudeTestWith (m : List (List α)) (K : Nat) (sims : List Grid) (obs : Grid) : Result α :=
  let union := magRates K m
  let nUnion := RealOps.sum union
  let obsH := magCounts K obs
  let nObs := obsH.sum
  if isZero nUnion then
    { status := .normal, observed := none, quantile := .pair none none, distribution := [] }
  else
    let scaled := union.map fun u => RealOps.mul u (RealOps.div (RealOps.ofNat nObs) nUnion)
    let l10su := scaled.map fun x => log10 (RealOps.add x RealOps.one)
    let dist := sims.filterMap fun g => dStat nObs l10su (magCounts K g)
    let obsD := cumulativeSquareDiff (logHist obsH RealOps.one) l10su
    { status := .normal, observed := some (.fin obsD), quantile := quantiles dist (.fin obsD), distribution := dist }

/-- which evaluation is called -/
inductive EvalKind where
  | number | spatial | pseudolikelihood | magnitude
  /-- `resampled_magnitude_test` / `MLL_magnitude_test` with the resampled histograms this call draws (an input here;
      `Model/Resample.lean` / `Model/ResampleFull.lean` build them from the uniforms / integers) -/
  | resampled (draws : List (List Nat))
  | mll (draws : List (List Nat))
  deriving DecidableEq, Repr

/-- what one evaluation returns -/
inductive Outcome (α : Type) where
  | number (r : NResult)
  | result (r : Result α)
  | noResult

/-- one evaluation on the forecast object: the state after it and what it returns.  The short-circuits that come BEFORE
    the rates are touched (:255-257 PL, :159-173 M on an empty observation) leave the cache as it is. -/
def evalStep (lg : α → α) (C K : Nat) (st : FcState α) (kind : EvalKind) (obs : Grid) : FcState α × Outcome α :=
  match kind with
  | .number => (st, .number (numberTest st.sims obs))
  | .spatial =>
    let (st', m) := ensureRates C K st
    (st', .result (spatialTestWith m C st'.sims obs))
  | .pseudolikelihood =>
    if eventCount obs = 0 then (st, .noResult)
    else
      let (st', m) := ensureRates C K st
      (st', match pseudolikelihoodTestWith m C st'.sims obs with
            | none => .noResult
            | some r => .result r)
  | .magnitude =>
    if eventCount obs = 0 then (st, .result emptyObsResult)
    else
      let (st', m) := ensureRates C K st
      (st', .result (magnitudeTestWith m K st'.sims obs))
  -- the two resampled tests FILL the cache (:413-414, :557-558) but compute the union histogram from the catalogs
  -- themselves (:417-419, :566-569), never from the cached rates
  | .resampled draws =>
    if eventCount obs = 0 then (st, .result emptyObsResult)
    else
      let (st', _) := ensureRates C K st
      (st', .result (resampledMagnitudeTest K st'.sims obs draws))
  | .mll draws =>
    if eventCount obs = 0 then (st, .result emptyObsResult)
    else
      let (st', _) := ensureRates C K st
      (st', .result (mllMagnitudeTest lg K st'.sims obs draws))

/-- a session: evaluations in sequence on the same object (each with the observed catalog as it is at that moment) -/
def runSession (lg : α → α) (C K : Nat) : FcState α → List (EvalKind × Grid) → List (Outcome α)
  | _, [] => []
  | st, (k, obs) :: rest =>
    let (st', o) := evalStep lg C K st k obs
    o :: runSession lg C K st' rest

/-- the same evaluation on a FRESH forecast object holding the same catalogs -/
def evalFresh (lg : α → α) (C K : Nat) (sims : List Grid) (kind : EvalKind) (obs : Grid) : Outcome α :=
  match kind with
  | .number => .number (numberTest sims obs)
  | .spatial => .result (spatialTest C K sims obs)
  | .pseudolikelihood => match pseudolikelihoodTest C K sims obs with
      | none => .noResult
      | some r => .result r
  | .magnitude => .result (magnitudeTest C K sims obs)
  | .resampled draws => .result (resampledMagnitudeTest K sims obs draws)
  | .mll draws => .result (mllMagnitudeTest lg K sims obs draws)

end CatEvals
