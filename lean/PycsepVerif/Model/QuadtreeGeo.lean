import PycsepVerif.Model.Quadtree
/-
  Geometry layer of the quadtree model (round 3), import-free.

    csep/core/regions.py:824  geographical_area_from_bounds   → `geoAreaFromBounds` (CODE-SHAPED: same branches, same
                                                                 order of operations; generic over the arithmetic)
    csep/core/regions.py:1041 QuadtreeGrid2D.get_cell_area     → `cellAreaGeo` (one bounds row through the function)
    csep/core/regions.py:1177 get_bbox                         → `getBbox`
    csep/core/regions.py:1169 origins() / :1165 midpoints() / :1171 to_dict  → `originOf`
    csep/core/regions.py:1087 get_location_of                  → `getLocationOf`
    csep/core/regions.py:1198 save_quadtree + numpy.genfromtxt(dtype=str) + from_quadkeys (:1282), as used by
      california_quadtree_region (:1398)                        → `showKey / parseKey? / saveLines / loadLines`
    mercantile.bounds: `lat = degrees(atan(sinh(pi * (1 - 2 * ytile / Z2))))`  → `mercLat` (generic), `latArg`

  The arithmetic is a record of operations (`GeoOps`) so that ONE definition is instantiated at `Float` (driver,
  compared with numpy on every run) and at `ℝ` (Proofs/QuadMercator.lean, where the theorems live).
-/
namespace Quadtree

/-- the operations `geographical_area_from_bounds` and `mercantile.bounds` use -/
structure GeoOps (α : Type) where
  sub : α → α → α
  mul : α → α → α
  div : α → α → α
  /-- numeric literals of the source (`2`, `1.0e0`, `90.0e0`, `180.0e0`, `360.0`, `6371.`) -/
  lit : Nat → α
  cos : α → α
  sinh : α → α
  atan : α → α
  pi : α
  /-- `==` on two coordinates -/
  beq : α → α → Bool

/-- regions.py:824-844, line by line:
      if lon1 == lon2 or lat1 == lat2: return 0
      R2 = 6371. ** 2 ; rad_per_deg = pi / 180
      strip = 2*pi*(1 - cos((90 - lat1)*rad_per_deg)) - 2*pi*(1 - cos((90 - lat2)*rad_per_deg))
      area  = strip * R2 / (360.0 / (lon2 - lon1))                                                          -/
def geoAreaFromBounds {α : Type} (o : GeoOps α) (lon1 lat1 lon2 lat2 : α) : α :=
  if o.beq lon1 lon2 || o.beq lat1 lat2 then o.lit 0
  else
    let r2 := o.mul (o.lit 6371) (o.lit 6371)
    let radPerDeg := o.div o.pi (o.lit 180)
    let cap := fun lat =>
      o.mul (o.mul (o.lit 2) o.pi) (o.sub (o.lit 1) (o.cos (o.mul (o.sub (o.lit 90) lat) radPerDeg)))
    let strip := o.sub (cap lat1) (cap lat2)
    o.div (o.mul strip r2) (o.div (o.lit 360) (o.sub lon2 lon1))

/-- mercantile.bounds / ul: `lat_deg = degrees(atan(sinh(pi * (1 - 2 * ytile / Z2))))`, as a function of the unit
    coordinate `y = ytile / Z2` handed over as an element of α; `math.degrees(x) = x * (180 / pi)` -/
def mercLat {α : Type} (o : GeoOps α) (y : α) : α :=
  o.mul (o.atan (o.sinh (o.mul o.pi (o.sub (o.lit 1) (o.mul (o.lit 2) y))))) (o.div (o.lit 180) o.pi)

/-- mercantile's longitude `xtile / Z2 * 360.0 - 180.0` as a function of the unit coordinate -/
def mercLon {α : Type} (o : GeoOps α) (x : α) : α := o.sub (o.mul x (o.lit 360)) (o.lit 180)

/-- one row of `quadtree_grid_bounds` (:846): (west, south, east, north) of a quadkey, `cast` embeds the exact dyadic
    unit coordinates into α -/
def boundsRow {α : Type} (o : GeoOps α) (cast : Rat → α) (k : Key) : α × α × α × α :=
  (mercLon o (cast (xW k)), mercLat o (cast (yS k)), mercLon o (cast (xE k)), mercLat o (cast (yN k)))

/-- `get_cell_area` (:1041): `geographical_area_from_bounds(bb[0], bb[1], bb[2], bb[3])` on the cell's bounds row -/
def cellAreaGeo {α : Type} (o : GeoOps α) (cast : Rat → α) (k : Key) : α :=
  let b := boundsRow o cast k
  geoAreaFromBounds o b.1 b.2.1 b.2.2.1 b.2.2.2

/-! ### bounding box, origins, get_location_of -/

/-- get_bbox (:1180) `(min west, max east, min south, max north)` in unit-square terms:
    (min xW, max xE, max yS, min yN)  — latitude decreases with y, so the minimal south latitude is the maximal yS. -/
def getBbox (cells : List Key) : Option (Rat × Rat × Rat × Rat) :=
  match cells with
  | [] => none      -- min() of an empty sequence raises ValueError
  | c :: cs => some (cs.foldl (fun m k => if xW k < m then xW k else m) (xW c),
                     cs.foldl (fun m k => if m < xE k then xE k else m) (xE c),
                     cs.foldl (fun m k => if m < yS k then yS k else m) (yS c),
                     cs.foldl (fun m k => if yN k < m then yN k else m) (yN c))

/-- `poly.origin` = first vertex of compute_vertex_bounds (:877) = (west, south): the unit-square south-west corner -/
def originOf (k : Key) : Pt := ⟨xW k, yS k⟩

/-- get_location_of (:1087): `[self.polygons[idx] for idx in indices]`; polygons are identified with their keys;
    `none` = IndexError.  (Negative Python indices are not modelled.) -/
def getLocationOf (cells : List Key) (idx : List Nat) : Option (List Key) := idx.mapM (fun i => cells[i]?)

/-- get_masked (regions.py:1106, commit cf7bcb4): `mask[i] = numpy.size(self._find_location(lon, lat)) == 0` —
    True exactly where `_find_location` returns the empty array, i.e. where no cell contains the point -/
def getMasked (cells : List Key) (ps : List Pt) : List Bool := ps.map (fun p => (findLocation cells p).isNone)

/-- AbstractBaseCatalog.filter_spatial (catalogs.py:562) on a quadtree region: `self.catalog[~mask]`, the events whose
    mask entry is False, in catalog order -/
def filterSpatial (cells : List Key) (ps : List Pt) : List Pt :=
  (ps.zip (getMasked cells ps)).filterMap (fun pm => if pm.2 then none else some pm.1)

/-! ### save_quadtree / genfromtxt / from_quadkeys : quadkeys as text lines -/

def digitChar (d : Digit) : Char := Char.ofNat (48 + d.val)

def charDigit? (c : Char) : Option Digit :=
  if c = '0' then some 0 else if c = '1' then some 1 else if c = '2' then some 2 else if c = '3' then some 3 else none

/-- one line of `numpy.savetxt(filename, quadkeys, fmt='%s')` -/
def showKeyChars (k : Key) : List Char := k.map digitChar

/-- mercantile.quadkey_to_tile accepts exactly the digits 0..3 (QuadKeyError otherwise = `none`) -/
def parseKeyChars? (s : List Char) : Option Key := s.mapM charDigit?

def saveLines (cells : List Key) : List (List Char) := cells.map showKeyChars
def loadLines? (ls : List (List Char)) : Option (List Key) := ls.mapM parseKeyChars?

end Quadtree
