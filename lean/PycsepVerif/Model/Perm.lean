import PycsepVerif.RealOps
import PycsepVerif.Proto

/-!
  C20 — evaluation outcomes do not depend on storage order.  Self-contained abstract model (namespace `PermInv`).

  An observed / synthetic event is reduced to the pair `(cell, bin)` that the region lookup
  (`CartesianGrid2D.get_index_of`, `bin1d_vec`) assigns to it; a catalog is a `List Event` in STORAGE ORDER.
  Everything an evaluation consumes is built from that list by the accumulation loops transcribed below
  (`numpy.add.at`, `event_counts[(i, j)] += 1`, `event_flag[idx] = 1`, `data[idx, idm]`, `data += gridded_counts`),
  exactly as the code does it: one step per stored event, in storage order.  That the result does not depend on
  the order is what `Properties/C20.lean` proves.

  Exact layer: `Nat`, `Rat`, `List`.  Real layer: generic over `[RealOps α]` (Float in the driver, ℝ in theorems),
  minus infinity explicit (`ELL α`).
-/
namespace PermInv
open RealOps

/-- (spatial cell index, magnitude bin index) of one event -/
abbrev Event := Nat × Nat

/-! ## gridding: csep/core/catalogs.py:664-784 -/

def zeros (n : Nat) : List Nat := List.replicate n 0

/-- one step of `numpy.add.at(a, idx, 1)`: `a[i] += 1` (an index outside the array is not in any model's domain) -/
def bump (acc : List Nat) (i : Nat) : List Nat := acc.modify i (· + 1)

/-- `numpy.add.at(acc, idx, 1)`: unbuffered accumulation, one step per index in storage order -/
def addAt (acc : List Nat) (idx : List Nat) : List Nat := idx.foldl bump acc

/-- catalogs.py:664 `spatial_counts`: `event_counts = zeros(n_poly); numpy.add.at(event_counts, idx, 1)` -/
def spatialCounts (nCells : Nat) (ev : List Event) : List Nat := addAt (zeros nCells) (ev.map Prod.fst)

/-- catalogs.py:701 `magnitude_counts`: `out = zeros(len(mag_bins)); numpy.add.at(out, idx[idx >= 0], 1)` -/
def magnitudeCounts (nBins : Nat) (ev : List Event) : List Nat := addAt (zeros nBins) (ev.map Prod.snd)

/-- catalogs.py:779 loop body `event_counts[(spatial_idx[idx], mag_idx[idx])] += 1` -/
def bump2 (acc : List (List Nat)) (e : Event) : List (List Nat) := acc.modify e.1 (fun row => bump row e.2)

/-- catalogs.py:745 `spatial_magnitude_counts`: zeros((n_poly, n_mag)) then the loop over events in storage order -/
def spaceMagCounts (nCells nBins : Nat) (ev : List Event) : List (List Nat) :=
  ev.foldl bump2 (List.replicate nCells (zeros nBins))

/-- one step of `event_flag[idx] = 1` (assignment, not accumulation) -/
def flag (acc : List Nat) (i : Nat) : List Nat := acc.set i 1

/-- catalogs.py:688 `spatial_event_probability`: `event_flag = zeros(n_poly); event_flag[idx] = 1` -/
def occupancy (nCells : Nat) (ev : List Event) : List Nat := (ev.map Prod.fst).foldl flag (zeros nCells)

/-- the four gridded arrays of a catalog -/
structure Gridded where
  spatial : List Nat
  magnitude : List Nat
  spaceMag : List (List Nat)
  occupancy : List Nat
  deriving DecidableEq, Repr

def counts (nCells nBins : Nat) (ev : List Event) : Gridded :=
  ⟨spatialCounts nCells ev, magnitudeCounts nBins ev, spaceMagCounts nCells nBins ev, occupancy nCells ev⟩

/-- `a.ravel()` of a 2-d array -/
def ravel {β} (m : List (List β)) : List β := m.flatten

/-! ## per-event rates: csep/core/forecasts.py:286-359 `target_event_rates` / `get_rates` (`data[idx, idm]`) -/

variable {α : Type} [RealOps α]

/-- `data[i, j]` (an index outside the array is not in any model's domain: zero) -/
def rateAt (data : List (List α)) (e : Event) : α := ((data[e.1]?).bind (·[e.2]?)).getD RealOps.zero

/-- forecasts.py:327 `rates = self.get_rates(lons, lats, mags, data=data)`: one rate per event, in storage order -/
def targetRates (data : List (List α)) (ev : List Event) : List α := ev.map (rateAt data)

/-- the pairs (rate under forecast 1, rate under forecast 2) per event, as consumed by the T- and W-test -/
def targetRatePairs (d1 d2 : List (List α)) (ev : List Event) : List (α × α) :=
  ev.map (fun e => (rateAt d1 e, rateAt d2 e))

/-! ## Poisson joint log-likelihood: poisson_evaluations.py:604-699, utils/stats.py:178-195 -/

/-- `a - b` with `-inf - b = -inf` -/
def ellSub : ELL α → α → ELL α
  | .negInf, _ => .negInf
  | .fin a, b => .fin (RealOps.sub a b)

/-- `log_rate * w` for a count `w > 0` (`-inf * w = -inf`) -/
def ellScale (w : Nat) : ELL α → ELL α
  | .negInf => .negInf
  | .fin l => .fin (RealOps.mul l (RealOps.ofNat w))

/-- `a <= b` on extended values (`simulated_ll <= obs_ll`) -/
def ellLe : ELL α → ELL α → Bool
  | .negInf, _ => true
  | .fin _, .negInf => false
  | .fin a, .fin b => RealOps.le a b

/-- what `_poisson_likelihood_test` prepares before the loop (poisson_evaluations.py:636-645):
    the map rate ↦ `log_bin_expectations` and `expected_forecast_count`.
    `normalize` stands for `use_observed_counts and normalize_likelihood`. -/
def prepare (normalize : Bool) (rates : List α) (nObs : Nat) : (α → ELL α) × α :=
  let nFore := RealOps.sum rates
  if normalize then
    (fun r => ELL.log (RealOps.mul r (RealOps.div (RealOps.ofNat nObs) nFore)), RealOps.ofNat nObs)
  else (fun r => ELL.log r, nFore)

/-- bins that contain target events: `target_idx = numpy.nonzero(observed_data.ravel())` -/
def targets (bins : List (Nat × α)) : List (Nat × α) := bins.filter (fun p => p.1 != 0)

/-- `poisson_joint_log_likelihood_ndarray(log_bin_expectations[idx] * w[idx], w[idx], expected)`:
    Σ w·log λ − Σ log(w!) − expected, over the bins with w ≠ 0; a bin is the pair (count, rate). -/
def llOf (p : (α → ELL α) × α) (bins : List (Nat × α)) : ELL α :=
  let t := targets bins
  let s := ELL.sum (t.map (fun q => ellScale q.1 (p.1 q.2)))
  let pen := RealOps.sum (t.map (fun q => RealOps.logFact q.1))
  ellSub (ellSub s pen) p.2

/-- number of observed events in the gridded data: `n_obs = numpy.sum(observed_data)` -/
def nObsOf (bins : List (Nat × α)) : Nat := (bins.map Prod.fst).sum

/-- observed statistic of the Poisson L/CL (`normalize = false`) and S/M (`normalize = true`) tests,
    as a function of the list of bins (count, rate) in storage order of the cells -/
def obsLL (normalize : Bool) (bins : List (Nat × α)) : ELL α :=
  llOf (prepare normalize (bins.map Prod.snd) (nObsOf bins)) bins

/-! ## inverse-CDF simulation: poisson_evaluations.py:582-601 `_simulate_catalog` -/

/-- `numpy.searchsorted(w, u, side='right')` on a sorted array: number of leading weights ≤ u -/
def searchRight (w : List Rat) (u : Rat) : Nat := (w.takeWhile (fun a => decide (a ≤ u))).length

/-- `_simulate_catalog(num_events, sampling_weights, sim_fore, random_numbers)`:
    `sim_fore.fill(0); pnts = searchsorted(weights, random_numbers[:num_events]); numpy.add.at(sim_fore, pnts, 1)` -/
def simulate (weights : List Rat) (n : Nat) (uniforms : List Rat) : List Nat :=
  addAt (zeros weights.length) ((uniforms.take n).map (searchRight weights))

/-- the whole of `_poisson_likelihood_test` with the random stream made explicit: per simulation the stream holds
    (the Poisson draw of the event number — used only when `useObserved = false`, the uniform numbers).
    Result: (observed statistic, simulated statistics, number of simulated ≤ observed = qs · num_simulations). -/
def poissonTest (normalize useObserved : Bool) (rates : List α) (weights : List Rat) (obs : List Nat)
    (stream : List (Nat × List Rat)) : ELL α × List (ELL α) × Nat :=
  let nObs := obs.sum
  let p := prepare (useObserved && normalize) rates nObs
  let sims := stream.map (fun s => simulate weights (if useObserved then nObs else s.1) s.2)
  let simLL := sims.map (fun c => llOf p (c.zip rates))
  let o := llOf p (obs.zip rates)
  (o, simLL, simLL.countP (fun x => ellLe x o))

/-! ## paired T-test: poisson_evaluations.py:462-514 `_t_test_ndarray` -/

/-- `X1 - X2` per target event -/
def logDiffs (r : List (α × α)) : List α := r.map (fun p => RealOps.sub (RealOps.log p.1) (RealOps.log p.2))

structure TOut (α : Type) where
  informationGain : α
  variance : α
  tStatistic : α

/-- `_t_test_ndarray(rates1, rates2, n_obs, n_f1, n_f2)` up to the t statistic (the critical value is a function of N) -/
def tTest (r : List (α × α)) (n1 n2 : α) : TOut α :=
  let d := logDiffs r
  let n : α := RealOps.ofNat r.length
  let s := RealOps.sum d
  let q := RealOps.sum (d.map (fun x => RealOps.mul x x))
  let ig := RealOps.div (RealOps.sub s (RealOps.sub n1 n2)) n
  let var := RealOps.sub (RealOps.div q (RealOps.sub n RealOps.one))
               (RealOps.div (RealOps.mul s s) (RealOps.sub (RealOps.mul n n) n))
  ⟨ig, var, RealOps.div ig (RealOps.div (RealOps.sqrt var) (RealOps.sqrt n))⟩

/-! ## W-test: poisson_evaluations.py:517-579 `_w_test_ndarray` -/

def absR (x : α) : α := if RealOps.lt x RealOps.zero then RealOps.neg x else x
def eqR (a b : α) : Bool := RealOps.le a b && RealOps.le b a

/-- `scipy.stats.rankdata(a)[i]` (method 'average') by its specification: #{b < a_i} + (#{b = a_i} + 1)/2 -/
def avgRank (as : List α) (a : α) : α :=
  RealOps.add (RealOps.ofNat (as.countP (fun b => RealOps.lt b a)))
    (RealOps.div (RealOps.add (RealOps.ofNat (as.countP (fun b => eqR b a))) RealOps.one) RealOps.two)

/-- Σ over tie groups of t³ − t, written per element: an element in a group of size t contributes t² − 1 -/
def tieTerm (as : List α) (a : α) : α :=
  let t : α := RealOps.ofNat (as.countP (fun b => eqR b a))
  RealOps.sub (RealOps.mul t t) RealOps.one

/-- `numpy.sum((d > 0) * r)` (`pos = true`) / `numpy.sum((d < 0) * r)` (`pos = false`) with r = rankdata(|d|) -/
def signedRankSum (d : List α) (pos : Bool) : α :=
  let a := d.map absR
  RealOps.sum ((d.filter (fun v => if pos then RealOps.lt RealOps.zero v else RealOps.lt v RealOps.zero)).map
    (fun v => avgRank a (absR v)))

/-- `(repnum * (repnum * repnum - 1)).sum()` over the groups of tied ranks -/
def tieCorrection (d : List α) : α :=
  let a := d.map absR
  RealOps.sum (a.map (tieTerm a))

/-- `_w_test_ndarray` after the zero differences have been removed: z = (min(r+, r−) − mn) / se -/
def wCore (d : List α) : α :=
  let c : α := RealOps.ofNat d.length
  let c1 := RealOps.add c RealOps.one
  let rPlus := signedRankSum d true
  let rMinus := signedRankSum d false
  let t := if RealOps.le rPlus rMinus then rPlus else rMinus
  let mn := RealOps.div (RealOps.mul c c1) (RealOps.ofNat 4)
  let se0 := RealOps.mul (RealOps.mul c c1) (RealOps.add (RealOps.mul RealOps.two c) RealOps.one)
  let se := RealOps.sqrt (RealOps.div (RealOps.sub se0 (RealOps.div (tieCorrection d) RealOps.two)) (RealOps.ofNat 24))
  RealOps.div (RealOps.sub t mn) se

/-- `d = x - m; d = compress(d != 0, d)` -/
def nonzeroDiffs (x : List α) (m : α) : List α :=
  (x.map (fun v => RealOps.sub v m)).filter (fun v => !(eqR v RealOps.zero))

/-- z statistic of `_w_test_ndarray(x, m)` -/
def wTest (x : List α) (m : α) : α := wCore (nonzeroDiffs x m)

/-- `w_test`: x = log rates1 − log rates2 per event, m = (N1 − N2)/N -/
def wTestOfRates (r : List (α × α)) (n1 n2 : α) : α :=
  wTest (logDiffs r) (RealOps.div (RealOps.sub n1 n2) (RealOps.ofNat r.length))

/-! ## catalog forecasts: forecasts.py:679-715 `get_expected_rates` -/

def addVec (a b : List Nat) : List Nat := List.zipWith (· + ·) a b
def addMat (a b : List (List Nat)) : List (List Nat) := List.zipWith addVec a b

/-- `data += gridded_counts` over the synthetic catalogs in storage order (integers: exact in float64 below 2^53) -/
def sumCounts (nCells nBins : Nat) (cats : List (List Event)) : List (List Nat) :=
  cats.foldl (fun acc c => addMat acc (spaceMagCounts nCells nBins c)) (List.replicate nCells (zeros nBins))

/-- `data / self.n_cat` as exact rationals -/
def meanRatesRat (nCells nBins : Nat) (cats : List (List Event)) : List (List Rat) :=
  (sumCounts nCells nBins cats).map (fun row => row.map (fun (k : Nat) => (k : Rat) / (cats.length : Rat)))

/-- `data / self.n_cat` in the real layer -/
def meanRates (nCells nBins : Nat) (cats : List (List Event)) : List (List α) :=
  (sumCounts nCells nBins cats).map (fun row => row.map (fun k => RealOps.div (RealOps.ofNat k) (RealOps.ofNat cats.length)))

/-- a simulation-free test distribution: one statistic per synthetic catalog, in storage order
    (`test_distribution.append(stat(catalog))`); `none` = the catalog is skipped (`continue` for empty catalogs, NaN removed) -/
def distribution {β} (stat : List Event → Option β) (cats : List (List Event)) : List β := cats.filterMap stat

/-- catalog N-test distribution: `event_counts.append(catalog.event_count)` -/
def numberDistribution (cats : List (List Event)) : List Nat := cats.map List.length

/-- `get_quantiles(dist, obs)` by its specification (property C09): (#{x ≥ obs}, #{x ≤ obs}, n) -/
def quantileCounts (dist : List Rat) (obs : Rat) : Nat × Nat × Nat :=
  (dist.countP (fun x => decide (obs ≤ x)), dist.countP (fun x => decide (x ≤ obs)), dist.length)

/-- utils/calc.py:136 `_compute_likelihood(gridded_data, rate, expected_cond_count, n_obs)`, first component:
    Σ_{g≠0} g·log rate − expected -/
def pseudoLL (bins : List (Nat × α)) (expected : α) : ELL α :=
  ellSub (ELL.sum ((targets bins).map (fun q => ellScale q.1 (ELL.log q.2)))) expected

/-- `a / b` on extended values -/
def ellDiv : ELL α → α → ELL α
  | .negInf, _ => .negInf
  | .fin a, b => .fin (RealOps.div a b)

/-- utils/calc.py:136 `_compute_likelihood`, second component (statistic of the catalog S-test):
    Σ_{g≠0} g·log(rate / Σ rate) / n_events; `none` stands for NaN (a catalog without events) -/
def normLL (bins : List (Nat × α)) : Option (ELL α) :=
  let n := nObsOf bins
  if n = 0 then none else
  let tot := RealOps.sum (bins.map Prod.snd)
  some (ellDiv (ELL.sum ((targets bins).map (fun q => ellScale q.1 (ELL.log (RealOps.div q.2 tot))))) (RealOps.ofNat n))

/-! ## binary likelihood and Brier score (positive rates): binomial_evaluations.py:80-102, brier_evaluations.py:9-32 -/

/-- one bin of `binary_joint_log_likelihood_ndarray`: y·log(1 − exp(−λ)) + (1 − y)·(−λ), y = [count ≠ 0] -/
def binaryTerm (q : Nat × α) : α :=
  if q.1 != 0 then RealOps.log (RealOps.sub RealOps.one (RealOps.exp (RealOps.neg q.2))) else RealOps.neg q.2

/-- `sum(first_term + second_term)` over the bins in storage order -/
def binaryLL (bins : List (Nat × α)) : α := RealOps.sum (bins.map binaryTerm)

/-- one bin of `_brier_score_ndarray`: (1 − poisson.cdf(0, λ) − [count > 0])², poisson.cdf(0, λ) = exp(−λ) -/
def brierTerm (q : Nat × α) : α :=
  let d := RealOps.sub (RealOps.sub RealOps.one (RealOps.exp (RealOps.neg q.2))) (if q.1 != 0 then RealOps.one else RealOps.zero)
  RealOps.mul d d

/-- `-2 * brier_cell.sum()` divided by every dimension of the array, i.e. by the number of bins -/
def brierScore (bins : List (Nat × α)) : α :=
  RealOps.div (RealOps.mul (RealOps.neg RealOps.two) (RealOps.sum (bins.map brierTerm))) (RealOps.ofNat bins.length)

/-- binomial_evaluations.py:105 `_simulate_catalog` without injected numbers: draw until `n` distinct bins are active.
    The (finite prefix of the) uniform stream is an input; a draw that hits an active bin is rejected. -/
def simulateBinaryGo (w : List Rat) (n : Nat) : List Rat → List Nat → Nat → List Nat
  | [], sim, _ => sim
  | u :: us, sim, active =>
    if active ≥ n then sim else
    let loc := searchRight w u
    if sim[loc]?.getD 0 = 0 then simulateBinaryGo w n us (sim.set loc 1) (active + 1)
    else simulateBinaryGo w n us sim active

def simulateBinary (w : List Rat) (n : Nat) (us : List Rat) : List Nat := simulateBinaryGo w n us (zeros w.length) 0

/-- `_binary_likelihood_test` with the stream explicit (one list of uniforms per simulation):
    (observed statistic, simulated statistics, #simulated ≤ observed) -/
def binaryTest (rates : List α) (weights : List Rat) (obs : List Nat) (stream : List (List Rat)) :
    α × List α × Nat :=
  let nActive := obs.countP (fun w => w != 0)
  let sims := stream.map (fun us => simulateBinary weights nActive us)
  let simLL := sims.map (fun c => binaryLL (c.zip rates))
  let o := binaryLL (obs.zip rates)
  (o, simLL, simLL.countP (fun x => RealOps.le x o))

/-! ## consistent re-indexing of cells -/

/-- `a[σ]` (fancy indexing with an index list) -/
def reindex {β} [Inhabited β] (σ : List Nat) (xs : List β) : List β := σ.map (fun i => xs[i]?.getD default)

/-! ## per-event region lookup without memory: csep/core/regions.py:1043-1086 (quadtree regions)

`QuadtreeGrid2D.get_index_of` loops over the points in storage order and appends what `_find_location` returns for
each of them; `_find_location` tests the point against the half-open box `west ≤ lon < east ∧ south ≤ lat < north` of
every cell and returns the first hit (an empty array, which `numpy.append` drops, when there is none). Nothing is
remembered between two points. A point exactly on a tile edge therefore belongs to the tile east / north of the edge
whatever was located before it. -/

/-- `[west, south, east, north]` of one cell (a row of `region.bounds`) -/
structure Box where
  west : Rat
  south : Rat
  east : Rat
  north : Rat
  deriving DecidableEq, Repr

/-- regions.py:1081-1082: `lon >= west and lat >= south and lon < east and lat < north` -/
def inBox (b : Box) (lon lat : Rat) : Bool :=
  decide (b.west ≤ lon) && decide (b.south ≤ lat) && decide (lon < b.east) && decide (lat < b.north)

/-- regions.py:1075 `_find_location`: index of the first cell whose half-open box holds the point (`none` = the empty
array returned when no cell does) -/
def findLocation : List Box → Rat → Rat → Option Nat
  | [], _, _ => none
  | b :: bs, lon, lat => if inBox b lon lat then some 0 else (findLocation bs lon lat).map (· + 1)

/-- regions.py:1054-1060 `get_index_of` for arrays: `idx = numpy.append(idx, self._find_location(lons[i], lats[i]))`
for every point in storage order -/
def getIndexOf (bounds : List Box) (pts : List (Rat × Rat)) : List Nat :=
  pts.filterMap (fun p => findLocation bounds p.1 p.2)

/-- a stored event before the lookup: ((longitude, latitude), magnitude bin) -/
abbrev RawEvent := (Rat × Rat) × Nat

/-- the (cell, bin) pairs the gridding loops consume, one lookup per stored event in storage order -/
def locateEvents (bounds : List Box) (raw : List RawEvent) : List Event :=
  raw.filterMap (fun r => (findLocation bounds r.1.1 r.1.2).map (fun c => (c, r.2)))

/-! ## re-ordering the stored rows of ONE catalog object between evaluations

`catalog.catalog[:] = catalog.catalog[σ]`, `catalog.catalog.sort(order=...)`, `numpy.random.shuffle(catalog.catalog)`
and `catalog.catalog = catalog.catalog[σ]` all leave the object holding `rows[σ]`; every evaluation reads the rows the
object holds at the time of the call (catalogs.py:664-784 read `self.get_longitudes()` … afresh). -/

/-- the rows after one in-place re-ordering with the index list σ -/
def reorderInPlace {β} [Inhabited β] (rows : List β) (σ : List Nat) : List β := reindex σ rows

/-- the rows after a sequence of in-place re-orderings -/
def reorderSeq {β} [Inhabited β] (rows : List β) (steps : List (List Nat)) : List β := steps.foldl reorderInPlace rows

/-- what the k-th evaluation of a session sees: the rows after the first k re-orderings -/
def sessionViews {β} [Inhabited β] (rows : List β) (steps : List (List Nat)) : List (List β) :=
  (List.range (steps.length + 1)).map (fun k => reorderSeq rows (steps.take k))

end PermInv
