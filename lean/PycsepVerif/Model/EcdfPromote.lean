import PycsepVerif.Model.EcdfNumpy

/-!
  numpy's type promotion as a TABLE inside the model (until round 4 it lived in harness/c09.py `_domains`):
  which comparison domain the two short-circuits of `greater_equal_ecdf` / `less_equal_ecdf` use (`scDom`) and which one
  `numpy.searchsorted` uses (`seDom`), as a function of the sample's dtype and of the way the query is handed over.

  * `resultType` = `numpy.result_type` on the eleven integer / float dtypes (numpy 2, NEP 50) — compared with
    `numpy.result_type` on all 121 pairs by the harness on every run (driver op `c09_result_type`);
  * a Python `int` / `float` query is "weak" in the scalar comparisons (`val > ex[-1]`): it takes the element's dtype
    (int against a float element → that float dtype; float against an integer element → float64); two numpy integers are
    compared exactly (mixed-sign integer loops); everything else in `result_type`;
  * `numpy.searchsorted(ex, val)` converts both to `result_type(ex.dtype, numpy.asarray(val).dtype)`;
    `numpy.asarray(python_int)` is int64 inside the int64 range, uint64 up to 2^64 − 1, an exact object beyond.
-/
namespace Ecdf

inductive DT where
  | u8 | u16 | u32 | u64 | i8 | i16 | i32 | i64 | f16 | f32 | f64
  deriving DecidableEq, Repr

def DT.all : List DT := [.u8, .u16, .u32, .u64, .i8, .i16, .i32, .i64, .f16, .f32, .f64]

def DT.isFloat : DT → Bool
  | .f16 | .f32 | .f64 => true
  | _ => false

def DT.isInt (d : DT) : Bool := !d.isFloat

def DT.isUnsigned : DT → Bool
  | .u8 | .u16 | .u32 | .u64 => true
  | _ => false

def DT.bits : DT → Nat
  | .u8 | .i8 => 8
  | .u16 | .i16 | .f16 => 16
  | .u32 | .i32 | .f32 => 32
  | .u64 | .i64 | .f64 => 64

def sintOf : Nat → DT
  | 8 => .i8 | 16 => .i16 | 32 => .i32 | _ => .i64
def uintOf : Nat → DT
  | 8 => .u8 | 16 => .u16 | 32 => .u32 | _ => .u64
def floatOf : Nat → DT
  | 16 => .f16 | 32 => .f32 | _ => .f64

/-- the smallest float type that holds every value of an integer type of `b` bits (numpy's rule): 8 → f16, 16 → f32,
    32 and 64 → f64 -/
def floatForInt : Nat → Nat
  | 8 => 16 | 16 => 32 | _ => 64

/-- `numpy.result_type(a, b)` -/
def resultType (a b : DT) : DT :=
  if a.isFloat && b.isFloat then floatOf (max a.bits b.bits)
  else if a.isFloat then floatOf (max a.bits (floatForInt b.bits))
  else if b.isFloat then floatOf (max b.bits (floatForInt a.bits))
  else if a.isUnsigned == b.isUnsigned then (if a.isUnsigned then uintOf else sintOf) (max a.bits b.bits)
  else
    -- one signed, one unsigned: a signed type strictly wider than the unsigned one, float64 when there is none
    let u := if a.isUnsigned then a.bits else b.bits
    let s := if a.isUnsigned then b.bits else a.bits
    if u < s then sintOf s else if u < 64 then sintOf (2 * u) else .f64

/-- how the query value is handed over -/
inductive QK where
  | pyInt | pyFloat
  | np (d : DT)          -- numpy scalar or 0-d array of that dtype
  deriving DecidableEq, Repr

def domOf : DT → Dom
  | .f16 => .f16 | .f32 => .f32 | .f64 => .f64 | _ => .exact

/-- comparison domain of `val > ex[-1]`, `val < ex[0]` for a sample of dtype `E` -/
def scDom (E : DT) : QK → Dom
  | .pyInt => if E.isInt then .exact else domOf E
  | .pyFloat => if E.isInt then .f64 else domOf E
  | .np Q => if E.isInt && Q.isInt then .exact else domOf (resultType E Q)

/-- dtype of `numpy.asarray(val)`; `none` = an object array (exact Python integers) -/
def qArrType (v : Rat) : QK → Option DT
  | .pyInt => if -9223372036854775808 ≤ v ∧ v ≤ 9223372036854775807 then some .i64
              else if 0 ≤ v ∧ v ≤ 18446744073709551615 then some .u64 else none
  | .pyFloat => some .f64
  | .np d => some d

/-- comparison domain of `numpy.searchsorted(ex, val)` -/
def seDom (E : DT) (q : QK) (v : Rat) : Dom :=
  match qArrType v q with
  | some Q => domOf (resultType E Q)
  | none => .exact

/-- `greater_equal_ecdf` / `less_equal_ecdf` for a sample held in dtype `E` and a query handed over as `q` -/
def geEcdfDT (E : DT) (q : QK) (x : List Rat) (v : Rat) : Option NpOut :=
  geEcdfNp (scDom E q).cast (seDom E q v).cast x v
def leEcdfDT (E : DT) (q : QK) (x : List Rat) (v : Rat) : Option NpOut :=
  leEcdfNp (scDom E q).cast (seDom E q v).cast x v

/-! ## a sample handed over as a LIST of Python ints (`numpy.asarray(x)`, stats.py:99 / :128) -/

/-- dtype numpy gives ONE Python int: int64 inside its range, uint64 up to 2^64 − 1, an object beyond -/
inductive ElemT where
  | i64 | u64 | obj
  deriving DecidableEq, Repr

def elemT (z : Int) : ElemT :=
  if -9223372036854775808 ≤ z ∧ z ≤ 9223372036854775807 then .i64
  else if 0 ≤ z ∧ z ≤ 18446744073709551615 then .u64 else .obj

/-- the conversion `numpy.asarray` applies to a list of Python ints: an int64 / uint64 / object array holds them exactly;
    a list that MIXES int64-typed and uint64-typed entries (some below 2^63, some from 2^63 on) becomes float64 -/
def listDom (xs : List Int) : Dom :=
  if xs.any (fun z => elemT z == .obj) then .exact
  else if xs.any (fun z => elemT z == .i64) && xs.any (fun z => elemT z == .u64) then .f64
  else .exact

/-- the array the library works with -/
def listSample (xs : List Int) : List Rat := xs.map fun (z : Int) => (listDom xs).cast ((z : Int) : Rat)

end Ecdf
