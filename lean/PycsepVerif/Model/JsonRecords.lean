import PycsepVerif.Model.JsonTree
/-
  The objects that pyCSEP writes with `write_json` / reads with `load_json`, on top of the value-tree model
  (`Model/JsonTree.lean`): each `to_dict` builds a Python dict (`PyObj.dict`), each `from_dict` reads one.

    csep/models.py:82   EvaluationResult.to_dict          → `TResult.toDict`     (fields may hold dicts)
    csep/models.py:102  EvaluationResult.from_dict,
    csep/__init__.py:387 load_evaluation_result            → `loadT`
    csep/models.py:247  EvaluationConfiguration.to_dict    → `EvalConfig.toDict`
    csep/models.py:262  EvaluationConfiguration.from_dict  → `EvalConfig.fromDict`;  :226 `evaluations or []` → `EvalConfig.new`
    csep/models.py:275-293 get_evaluation_version / get_fnames / update_version → `getVersion` `getFnames` `updateVersion`
    csep/models.py:34   Event.from_dict, :42 Event.to_dict → `Event.fromDict`, `Event.toDict`
    csep/core/repositories.py:98 FileSystem.to_dict, :103 from_dict (`cls(**adict)`), :22 Repository.__eq__ → `Repo.*`
    csep/core/regions.py:689 CartesianGrid2D.to_dict       → `Grid.toDict`
    csep/core/regions.py:699 CartesianGrid2D.from_dict     → `Grid.fromDict`   (error branches in the code's order)
    csep/core/regions.py:1201 QuadtreeGrid2D.to_dict       → `quadToDict`      (name + origins only, no 'dh')
  Exact layer, import-free.
-/
namespace JsonTree
open ResultJson (F64)

/-- the exception classes the readers can raise; `unmodelled` = input outside what this model describes (the code goes
    on into numpy / from_origins with ill-typed data); the harness never generates such inputs -/
inductive RecErr where
  | keyError | typeError | attributeError | indexError | unmodelled
  deriving DecidableEq, Repr

/-- `adict[s]` for a str `s` -/
def PyObj.item (d : PyObj) (s : String) : Except RecErr PyObj :=
  match d with
  | .dict kvs => match kvs.get s with
    | some v => .ok v
    | Option.none => .error .keyError
  | .list _ | .tuple _ | .str _ | .none | .pyInt _ | .pyBool _ | .pyFloat _ => .error .typeError
  | _ => .error .unmodelled

/-- `adict.get(s, None)`: `none` also when the stored value is None/null -/
def PyKVs.getOrNone (kvs : PyKVs) (s : String) : PyObj :=
  match kvs.get s with
  | some v => v
  | Option.none => .none

def PyObj.isNone : PyObj → Bool
  | .none => true
  | _ => false

def PyList.isNil : PyList → Bool
  | .nil => true
  | .cons _ _ => false

/-- Python truth value (`x or []`) of the modelled kinds -/
def truthy : PyObj → Bool
  | .pyInt n | .npInt64 n => n != 0
  | .pyBool b | .npBool b => b
  | .pyFloat x | .npFloat64 x | .npFloat32 x =>
    match x with
    | .nan => true
    | .num bits => bits != 0 && bits != 9223372036854775808      -- +0.0 and -0.0 are false
  | .other _ => true
  | .str s => s != ""
  | .none => false
  | .list xs | .tuple xs | .ndarray xs => !xs.isNil     -- (ndarray of size ≥ 2 raises ValueError: not generated)
  | .dict kvs => !kvs.isNil

/-! ### evaluation results whose fields are value trees -/

structure TResult where
  cls : String
  testDistribution : PyObj
  name : PyObj
  observedStatistic : PyObj
  quantile : PyObj
  status : PyObj
  obsCatalogRepr : PyObj
  simName : PyObj
  obsName : PyObj
  minMw : PyObj

def Key.toObj : Key → PyObj
  | .kstr s => .str s
  | .kint n => .pyInt n
  | .kbool b => .pyBool b
  | .knone => .none
  | .kbad s => .other s

def PyKVs.keyList : PyKVs → PyList
  | .nil => .nil
  | .cons k _ rest => .cons k.toObj rest.keyList

def strChars (s : String) : PyList := PyList.ofList (s.toList.map (fun c => PyObj.str (String.singleton c)))

/-- `td_list` of to_dict (models.py:83-86) as `ResultJson.tdList`; a dict has no `.tolist`, `list(d)` = its keys -/
def tdListT : PyObj → Option PyObj
  | .ndarray xs => some (.list xs)
  | .npFloat64 x => some (.pyFloat x)
  | .npInt64 n => some (.pyInt n)
  | .npBool b => some (.pyBool b)
  | .npFloat32 x => some (.pyFloat x)
  | .list xs => some (.list xs)
  | .tuple xs => some (.list xs)
  | .str s => some (.list (strChars s))
  | .dict kvs => some (.list kvs.keyList)
  | .other _ | .pyInt _ | .pyBool _ | .pyFloat _ | .none => Option.none

/-- models.py:87-98: the dictionary handed to json (member order as in the source) -/
def TResult.toDict (r : TResult) : Option PyObj :=
  (tdListT r.testDistribution).map fun td =>
    .dict (PyKVs.ofList [("name", r.name), ("sim_name", r.simName), ("obs_name", r.obsName),
      ("obs_catalog_repr", r.obsCatalogRepr), ("quantile", r.quantile), ("observed_statistic", r.observedStatistic),
      ("test_distribution", td), ("status", r.status), ("min_mw", r.minMw), ("type", .str r.cls)])

/-- write_json(result, fname): the whole file as ONE JSON object; `none` = TypeError (to_dict or json.dump) -/
def writeT (r : TResult) : Option JVal := r.toDict.bind encode

/-- `__init__.py`:406-412 then models.py:102: type lookup (missing → 'default'), factory, nine subscripts -/
def loadDict (d : PyObj) : Except RecErr TResult := do
  let key ← match d.item "type" with
    | .ok (.str s) => pure s
    | .ok _ => throw RecErr.keyError           -- a non-string type is not a key of the factory
    | .error _ => pure "default"               -- `except: evaluation_type = 'default'`
  let c ← match ResultJson.factory key with
    | some c => pure c
    | Option.none => throw RecErr.keyError
  let td ← d.item "test_distribution"
  let name ← d.item "name"
  let os ← d.item "observed_statistic"
  let q ← d.item "quantile"
  let sn ← d.item "sim_name"
  let on ← d.item "obs_name"
  let ocr ← d.item "obs_catalog_repr"
  let st ← d.item "status"
  let mw ← d.item "min_mw"
  pure { cls := c, testDistribution := td, name := name, observedStatistic := os, quantile := q, status := st,
         obsCatalogRepr := ocr, simName := sn, obsName := on, minMw := mw }

/-- load_evaluation_result(fname) on the file's tree -/
def loadT (j : JVal) : Except RecErr TResult := loadDict (decode j)

def normTResult (r : TResult) (td : PyObj) : TResult :=
  { cls := r.cls, testDistribution := norm td, name := norm r.name, observedStatistic := norm r.observedStatistic,
    quantile := norm r.quantile, status := norm r.status, obsCatalogRepr := norm r.obsCatalogRepr,
    simName := norm r.simName, obsName := norm r.obsName, minMw := norm r.minMw }

/-! ### EvaluationConfiguration -/

structure EvalConfig where
  computeTime : PyObj
  catalogFile : PyObj
  forecastFile : PyObj
  forecastName : PyObj
  nCat : PyObj
  evalStartEpoch : PyObj
  evalEndEpoch : PyObj
  gitHash : PyObj
  evaluations : PyObj

/-- the constructor (models.py:206-226): `self.evaluations = evaluations or []` -/
def EvalConfig.new (computeTime catalogFile forecastFile nCat evalStartEpoch evalEndEpoch gitHash evaluations
    forecastName : PyObj) : EvalConfig :=
  { computeTime, catalogFile, forecastFile, forecastName, nCat, evalStartEpoch, evalEndEpoch, gitHash,
    evaluations := if truthy evaluations then evaluations else .list .nil }

def EvalConfig.toDict (c : EvalConfig) : PyObj :=
  .dict (PyKVs.ofList [("compute_time", c.computeTime), ("forecast_file", c.forecastFile),
    ("catalog_file", c.catalogFile), ("n_cat", c.nCat), ("forecast_name", c.forecastName),
    ("eval_start_epoch", c.evalStartEpoch), ("eval_end_epoch", c.evalEndEpoch), ("git_hash", c.gitHash),
    ("evaluations", c.evaluations)])

def EvalConfig.fromDict (d : PyObj) : Except RecErr EvalConfig := do
  let ct ← d.item "compute_time"
  let cf ← d.item "catalog_file"
  let ff ← d.item "forecast_file"
  let fn ← d.item "forecast_name"
  let nc ← d.item "n_cat"
  let es ← d.item "eval_start_epoch"
  let ee ← d.item "eval_end_epoch"
  let gh ← d.item "git_hash"
  let ev ← d.item "evaluations"
  pure (EvalConfig.new ct cf ff nc es ee gh ev fn)

def EvalConfig.norm (c : EvalConfig) : EvalConfig :=
  { computeTime := JsonTree.norm c.computeTime, catalogFile := JsonTree.norm c.catalogFile,
    forecastFile := JsonTree.norm c.forecastFile, forecastName := JsonTree.norm c.forecastName,
    nCat := JsonTree.norm c.nCat, evalStartEpoch := JsonTree.norm c.evalStartEpoch,
    evalEndEpoch := JsonTree.norm c.evalEndEpoch, gitHash := JsonTree.norm c.gitHash,
    evaluations := JsonTree.norm c.evaluations }

/-- one entry of `evaluations` as update_version writes it -/
def evalEntry (name : String) (version fnames : PyObj) : PyObj :=
  .dict (PyKVs.ofList [("name", .str name), ("version", version), ("fnames", fnames)])

/-- models.py:275 / :281: `for e in self.evaluations: if e['name'] == name: return e[field]`, else None.
    Modelled for entries that are dicts whose 'name' is a str (anything else: `unmodelled`). -/
def lookupEval (field : String) (name : String) : PyList → Except RecErr PyObj
  | .nil => .ok .none
  | .cons e rest =>
    match e.item "name" with
    | .ok (.str s) => if s = name then e.item field else lookupEval field name rest
    | .ok _ => .error .unmodelled
    | .error err => .error err

def evalList : PyObj → Option PyList
  | .list xs => some xs
  | .tuple xs => some xs
  | _ => Option.none

def EvalConfig.getVersion (c : EvalConfig) (name : String) : Except RecErr PyObj :=
  match evalList c.evaluations with
  | some xs => lookupEval "version" name xs
  | Option.none => .error .unmodelled

def EvalConfig.getFnames (c : EvalConfig) (name : String) : Except RecErr PyObj :=
  match evalList c.evaluations with
  | some xs => lookupEval "fnames" name xs
  | Option.none => .error .unmodelled

/-- `e['version'] = version; e['fnames'] = fnames` on a dict entry: existing keys are overwritten in place, new keys
    are appended -/
def PyKVs.set (s : String) (v : PyObj) : PyKVs → PyKVs
  | .nil => .cons (.kstr s) v .nil
  | .cons k w rest => if k = .kstr s then .cons k v rest else .cons k w (PyKVs.set s v rest)

/-- models.py:287-293 on a list of dict entries with str names: every entry of that name is updated; returns the new
    list and whether one was found -/
def updateAll (name : String) (version fnames : PyObj) : PyList → Option (PyList × Bool)
  | .nil => some (.nil, false)
  | .cons e rest =>
    match e, updateAll name version fnames rest with
    | .dict kvs, some (rest', found) =>
      match kvs.get "name" with
      | some (.str s) =>
        if s = name then some (.cons (.dict ((kvs.set "version" version).set "fnames" fnames)) rest', true)
        else some (.cons e rest', found)
      | _ => Option.none
    | _, _ => Option.none

def PyList.append : PyList → PyList → PyList
  | .nil, ys => ys
  | .cons x xs, ys => .cons x (PyList.append xs ys)

/-- update_version; `none` = outside the model (evaluations not a list of dicts with str names) -/
def EvalConfig.updateVersion (c : EvalConfig) (name : String) (version fnames : PyObj) : Option EvalConfig :=
  match c.evaluations with
  | .list xs =>
    match updateAll name version fnames xs with
    | some (xs', true) => some { c with evaluations := .list xs' }
    | some (xs', false) => some { c with evaluations := .list (xs'.append (.cons (evalEntry name version fnames) .nil)) }
    | Option.none => Option.none
  | _ => Option.none

/-! ### Event -/

/-- models.py:25: `time` is a datetime, here microseconds since the epoch (None = `none`) -/
structure Event where
  id : PyObj
  magnitude : PyObj
  latitude : PyObj
  longitude : PyObj
  timeMicros : Option Int

/-- time_utils.py:42 datetime_to_utc_epoch: whole milliseconds, rounded towards −∞ (`delta.microseconds // 1000` with a
    normalised timedelta) -/
def microsToEpochMs (us : Int) : Int := us / 1000     -- Int `/` is floor division for a positive divisor

def Event.toDict (e : Event) : PyObj :=
  .dict (PyKVs.ofList [("id", e.id), ("magnitude", e.magnitude), ("latitude", e.latitude), ("longitude", e.longitude),
    ("time", match e.timeMicros with | some us => .pyInt (microsToEpochMs us) | Option.none => .none)])

/-- models.py:34; time_utils.py:9 epoch_time_to_utc_datetime on an int of milliseconds is taken to be exact (C15's
    subject; re-checked by the harness on every generated event) -/
def Event.fromDict (d : PyObj) : Except RecErr Event := do
  let i ← d.item "id"
  let m ← d.item "magnitude"
  let la ← d.item "latitude"
  let lo ← d.item "longitude"
  let t ← d.item "time"
  let tm ← match t with
    | .pyInt ms => pure (some (1000 * ms))
    | .none => pure Option.none
    | _ => throw RecErr.unmodelled
  pure { id := i, magnitude := m, latitude := la, longitude := lo, timeMicros := tm }

/-! ### FileSystem repository -/

structure Repo where
  name : PyObj
  url : String

def Repo.toDict (r : Repo) : PyObj := .dict (PyKVs.ofList [("name", r.name), ("url", .str r.url)])

/-- `cls(**adict)` with `__init__(self, url="", name='filesystem', **kwargs)` → `LoggingMixin.__init__(context=None)`:
    'url' and 'name' are optional, 'context' is accepted, any other key is a TypeError.  `url` must be a str
    (os.path.expanduser); expansion of `~` / `$VAR` is not modelled (urls without these characters). -/
def repoKeysOk : PyKVs → Bool
  | .nil => true
  | .cons k _ rest => (decide (k = .kstr "url") || decide (k = .kstr "name") || decide (k = .kstr "context")) && repoKeysOk rest

def Repo.fromDict (d : PyObj) : Except RecErr Repo :=
  match d with
  | .dict kvs =>
    if repoKeysOk kvs then
      match kvs.get "url" with
      | some (.str u) => .ok { name := (kvs.get "name").getD (.str "filesystem"), url := u }
      | Option.none => .ok { name := (kvs.get "name").getD (.str "filesystem"), url := "" }
      | some _ => .error .typeError
    else .error .typeError
  | _ => .error .typeError         -- `**adict` needs a mapping

/-! ### Cartesian region dictionaries -/

/-- a CartesianGrid2D as far as its dictionary form and point location are concerned.  Coordinates are float64 bit
    patterns (what json stores); `toRegion` interprets them as rationals for `ResultJson.Region.indexOf`. -/
structure Grid where
  origins : List (F64 × F64)          -- (lon, lat) per cell, cell order
  dh : F64
  mask : Option (List Bool)
  name : Option String                -- from_origins' default is None
  magnitudes : Option (List F64)

/-- `str(self.name)` -/
def nameStr : Option String → String
  | some s => s
  | Option.none => "None"

def polyDict (o : F64 × F64) : PyObj := .dict (PyKVs.ofList [("lat", .pyFloat o.2), ("lon", .pyFloat o.1)])

def polysOf : List (F64 × F64) → PyList
  | [] => .nil
  | o :: os => .cons (polyDict o) (polysOf os)

/-- regions.py:689-696 — name, dh, the origins, the class name; NEITHER the mask NOR the magnitudes -/
def Grid.toDict (g : Grid) : PyObj :=
  .dict (PyKVs.ofList [("name", .str (nameStr g.name)), ("dh", .pyFloat g.dh), ("polygons", .list (polysOf g.origins)),
    ("class_id", .str "CartesianGrid2D")])

/-- regions.py:1201-1206 QuadtreeGrid2D.to_dict -/
def quadToDict (name : Option String) (origins : List (F64 × F64)) : PyObj :=
  .dict (PyKVs.ofList [("name", .str (nameStr name)), ("polygons", .list (polysOf origins))])

/-- the list comprehension `[[adict['lon'], adict['lat']] for adict in origins]` (regions.py:712): `none` = some entry
    cannot be subscripted that way (→ TypeError through the bare `except`) -/
def readPolys : PyList → Option (List (PyObj × PyObj))
  | .nil => some []
  | .cons e rest =>
    match e with
    | .dict kvs =>
      match kvs.get "lon", kvs.get "lat", readPolys rest with
      | some lo, some la, some os => some ((lo, la) :: os)
      | _, _, _ => Option.none
    | _ => Option.none

def floatPairs : List (PyObj × PyObj) → Option (List (F64 × F64))
  | [] => some []
  | (.pyFloat lo, .pyFloat la) :: rest => (floatPairs rest).map (fun os => (lo, la) :: os)
  | _ => Option.none

def floatList : PyList → Option (List F64)
  | .nil => some []
  | .cons (.pyFloat x) rest => (floatList rest).map (fun xs => x :: xs)
  | .cons _ _ => Option.none

/-- regions.py:699-722 CartesianGrid2D.from_dict followed by from_origins (:724), in the code's order -/
def Grid.fromDict (d : PyObj) : Except RecErr Grid :=
  match d with
  | .dict kvs =>
    let origins := kvs.getOrNone "polygons"
    let dh := kvs.getOrNone "dh"
    let magnitudes := kvs.getOrNone "magnitudes"
    if origins.isNone then .error .attributeError            -- :706 "cannot create region object without origins"
    else if dh.isNone then .error .attributeError            -- :708 "cannot create region without dh"
    else
      let polys : Except RecErr (List (PyObj × PyObj)) :=
        match origins with
        | .list ps => match readPolys ps with
          | some os => .ok os
          | Option.none => .error .typeError                -- :714 bare except → TypeError
        | .pyInt _ | .pyFloat _ | .pyBool _ => .error .typeError    -- not iterable
        | _ => .error .unmodelled
      match polys with
      | .error e => .error e
      | .ok ps =>
        match floatPairs ps with
        | Option.none => .error .unmodelled                  -- non-float coordinates: numpy decides
        | some os =>
          let mags : Except RecErr (Option (List F64)) :=
            match magnitudes with
            | .none => .ok Option.none
            | .list ms => match floatList ms with
              | some xs => .ok (some xs)
              | Option.none => .error .unmodelled
            | _ => .error .unmodelled
          match mags with
          | .error e => .error e
          | .ok mg =>
            if os.isEmpty then .error .indexError            -- from_origins :741 `origins[:,0]` on a 1-d empty array
            else
              let name : Except RecErr (Option String) :=
                match kvs.get "name" with
                | Option.none => .ok (some "CartesianGrid2D")   -- :703 default
                | some (.str s) => .ok (some s)
                | some .none => .ok Option.none
                | some _ => .error .unmodelled
              match dh, name with
              | .pyFloat x, .ok nm => .ok { origins := os, dh := x, mask := Option.none, name := nm, magnitudes := mg }
              | _, _ => .error .unmodelled
  | _ => .error .attributeError                              -- `adict.get`: list/None/str/number have no `.get`

/-- the rational lattice of `Model/ResultJson.lean` under an interpretation of the bit patterns -/
def Grid.toRegion (val : F64 → Rat) (g : Grid) : ResultJson.Region :=
  { origins := g.origins.map (fun o => (val o.1, val o.2)), dh := val g.dh, mask := g.mask, name := nameStr g.name }

/-- the dictionary with a 'magnitudes' member added (a hand-extended file; to_dict never writes one) -/
def Grid.toDictWithMags (g : Grid) (ms : List F64) : PyObj :=
  .dict (PyKVs.ofList [("name", .str (nameStr g.name)), ("dh", .pyFloat g.dh), ("polygons", .list (polysOf g.origins)),
    ("class_id", .str "CartesianGrid2D"), ("magnitudes", .list (PyList.ofList (ms.map PyObj.pyFloat)))])

end JsonTree
