import PycsepVerif.Model.Persist
import PycsepVerif.Model.FloatText
/-
  TEXT level of the CSEP-ASCII persistence path (property C14): from the catalog to the CHARACTERS of the file and back.

  `Model/Persist.lean` treats the file as a list of records of cells and CSV quoting as the identity (a trusted
  codec).  Here the two `csv` objects the code uses are modelled at character level:

    csv.DictWriter(outfile, fieldnames=header, delimiter=',')      catalogs.py:329  (default dialect: quotechar '"',
        doublequote, QUOTE_MINIMAL, lineterminator '\r\n'; `open(..., newline='')` writes it untranslated)
    csv.reader(input_file, delimiter=',') over `open(fname, 'r', newline='')`        readers.py:444-445

  Writer (CPython Modules/_csv.c `join_append_data`, QUOTE_MINIMAL): a field is quoted iff it contains the delimiter,
  the quote character or a character of the line terminator ('\r', '\n'); inside quotes a quote character is doubled;
  a record that consists of one empty field is written `""`.
  Reader (`parse_process_char`, not strict): the state machine START_RECORD / START_FIELD / IN_FIELD / IN_QUOTED_FIELD /
  QUOTE_IN_QUOTED_FIELD / EAT_CRNL over the characters of the file (the file object hands out lines that keep their
  terminators; an EOL signal follows each line, which the machine below folds into the line terminators and into
  `finish`).  Lines that are empty give the empty record `[]`; `csep_ascii` then fails with IndexError on `line[0]`.

  On top: the cell-by-cell conversion of `csep_ascii` in source order (`float(line[0])` … `line[6]`, IndexError where a
  cell is missing), with the float text codec instantiated at `F = List Char`.
-/
namespace PersistText
open Persist Time

abbrev Str := List Char

/-! ## csv writer -/

/-- QUOTE_MINIMAL: does the field need quotes -/
def needsQuote (f : Str) : Bool := f.any (fun c => c == ',' || c == '"' || c == '\r' || c == '\n')

/-- inside quotes every quote character is doubled -/
def quoteBody : Str → Str
  | [] => []
  | c :: cs => if c == '"' then '"' :: '"' :: quoteBody cs else c :: quoteBody cs

def writeField (f : Str) : Str := if needsQuote f then '"' :: (quoteBody f ++ ['"']) else f

def joinFields : List Str → Str
  | [] => []
  | [f] => writeField f
  | f :: fs => writeField f ++ ',' :: joinFields fs

/-- `writer.writerow(fields)`: a single empty field is written as `""` (otherwise the line would be empty) -/
def writeRecord (fs : List Str) : Str := (if fs = [[]] then ['"', '"'] else joinFields fs) ++ ['\r', '\n']

def writeRecords (rs : List (List Str)) : Str := rs.flatMap writeRecord

/-! ## csv reader -/

inductive St where
  | startRecord | startField | inField | inQuoted | quoteInQuoted | eatCR
deriving DecidableEq, Repr

/-- `cur` = characters of the field being read (reversed), `fields` = finished fields of the record (reversed),
    `recs` = finished records (reversed) -/
structure CsvState where
  st : St
  cur : Str
  fields : List Str
  recs : List (List Str)
deriving DecidableEq, Repr

def CsvState.init : CsvState := ⟨.startRecord, [], [], []⟩

/-- the record made of the finished fields and the current one -/
def closeRecord (cur : Str) (fields : List Str) : List Str := (cur.reverse :: fields).reverse

/-- state after a line terminator: "\r" may be followed by the "\n" of the same line -/
def afterNl (c : Char) : St := if c == '\r' then .eatCR else .startRecord

/-- what START_FIELD does with a character (also reached from START_RECORD for a character that is not a line end) -/
def stepStartField (s : CsvState) (c : Char) : CsvState :=
  if c == '\n' || c == '\r' then ⟨afterNl c, [], [], closeRecord s.cur s.fields :: s.recs⟩
  else if c == '"' then { s with st := .inQuoted }
  else if c == ',' then ⟨.startField, [], s.cur.reverse :: s.fields, s.recs⟩
  else ⟨.inField, c :: s.cur, s.fields, s.recs⟩

def stepStartRecord (s : CsvState) (c : Char) : CsvState :=
  if c == '\n' || c == '\r' then ⟨afterNl c, [], [], [] :: s.recs⟩          -- an empty line: the record `[]`
  else stepStartField s c

def step (s : CsvState) (c : Char) : CsvState :=
  match s.st with
  | .startRecord => stepStartRecord s c
  | .eatCR => if c == '\n' then { s with st := .startRecord } else stepStartRecord s c
  | .startField => stepStartField s c
  | .inField =>
    if c == '\n' || c == '\r' then ⟨afterNl c, [], [], closeRecord s.cur s.fields :: s.recs⟩
    else if c == ',' then ⟨.startField, [], s.cur.reverse :: s.fields, s.recs⟩
    else { s with cur := c :: s.cur }                      -- a quote inside an unquoted field is an ordinary character
  | .inQuoted =>
    if c == '"' then { s with st := .quoteInQuoted } else { s with cur := c :: s.cur }    -- line ends included
  | .quoteInQuoted =>
    if c == '"' then ⟨.inQuoted, '"' :: s.cur, s.fields, s.recs⟩                           -- doubled quote
    else if c == ',' then ⟨.startField, [], s.cur.reverse :: s.fields, s.recs⟩
    else if c == '\n' || c == '\r' then ⟨afterNl c, [], [], closeRecord s.cur s.fields :: s.recs⟩
    else ⟨.inField, c :: s.cur, s.fields, s.recs⟩                                          -- not strict: goes on unquoted

/-- end of the input: a record that is still open (no final line terminator, or an unterminated quoted field) is
    returned as it stands -/
def finish (s : CsvState) : List (List Str) :=
  match s.st with
  | .startRecord | .eatCR => s.recs.reverse
  | _ => (closeRecord s.cur s.fields :: s.recs).reverse

/-- `list(csv.reader(open(fname, newline='')))` -/
def csvRead (text : Str) : List (List Str) := finish (text.foldl step CsvState.init)

/-! ## `write_ascii` as text -/

def headerRecord : List Str :=
  ["lon".toList, "lat".toList, "mag".toList, "time_string".toList, "depth".toList, "catalog_id".toList, "event_id".toList]

/-- the cells of a file record (catalogs.py:321 header order) -/
def recordOf : Line Str → List Str
  | .header => headerRecord
  | .row r => [r.lon, r.lat, r.mag, r.time, r.depth, r.catId, r.evId]

/-- the characters `write_ascii` puts into the file for the records `ls` (`old` = text already there when appending) -/
def renderLines (ls : List (Line Str)) : Str := writeRecords (ls.map recordOf)

/-! ## `csep_ascii` from the records of the csv reader -/

inductive TextErr where
  | valueError      -- float('…') failed
  | timeFormat      -- CSEPIOException
  | indexError      -- `line[k]` on a record with fewer cells (an empty line: `line[0]`)
deriving DecidableEq, Repr

def cell (r : List Str) (k : Nat) : Except TextErr Str :=
  match r[k]? with
  | some s => .ok s
  | none => .error .indexError

def floatCell (c : FloatCodec Str) (r : List Str) (k : Nat) : Except TextErr Rat :=
  match cell r k with
  | .error e => .error e
  | .ok s => match c.dec s with
    | some x => .ok x
    | none => .error .valueError

/-- one data record, cell by cell in source order (readers.py:456-474) -/
def parseRecord (c : FloatCodec Str) (i : Nat) (r : List Str) : Except TextErr (Event × Int) := do
  let lon ← floatCell c r 0
  let lat ← floatCell c r 1
  let mag ← floatCell c r 2
  let ts ← cell r 3
  let ms ← (match readerParse ts with | some ms => Except.ok ms | none => Except.error TextErr.timeFormat)
  let depth ← floatCell c r 4
  let cidText ← cell r 5
  let cid : Int := (parseInt? cidText).getD (-1)
  let ev ← cell r 6
  let eid := if ev.isEmpty then natDigits (i + 1) i else ev
  pure ({ id := storeId eid, ms := ms, lat := lat, lon := lon, depth := depth, mag := mag }, cid)

/-- `is_header_line(line)`: `line[0] == 'lon'` (IndexError on the empty record) -/
def isHeader (r : List Str) : Except TextErr Bool :=
  match r with
  | [] => .error .indexError
  | f :: _ => .ok (f == "lon".toList)

/-- the loop of `csep_ascii(fname, return_catalog_id=True)` over the records of the csv reader -/
def readRecords (c : FloatCodec Str) : Bool → Nat → List (List Str) → Except TextErr (List Event × Option Int)
  | _, _, [] => .ok ([], none)
  | first, i, r :: rest =>
    match (if first then isHeader r else .ok false) with
    | .error e => .error e
    | .ok true => readRecords c first (i + 1) rest
    | .ok false =>
      match parseRecord c i r with
      | .error e => .error e
      | .ok (ev, cid) =>
        match readRecords c false (i + 1) rest with
        | .error e => .error e
        | .ok (evs, later) => .ok (ev :: evs, match later with | some l => some l | none => some cid)

/-- `csep.load_catalog(fname)` from the characters of the file -/
def loadText (c : FloatCodec Str) (text : Str) : Except TextErr (List Event × Option Int) :=
  readRecords c true 0 (csvRead text)

/-- `write_ascii(...)` to characters: the records of `Persist.writeAsciiG` rendered by the csv writer; when appending
    the new characters follow the old ones (`open(filename, 'a', newline='')`) -/
def writeText {R} (c : FloatCodec Str) (cat : Catalog R) (writeHeader writeEmpty append : Bool) (old : Str)
    (hasIdCol : Bool) : Str :=
  (if append then old else []) ++ renderLines (writeAsciiG c cat writeHeader writeEmpty false [] hasIdCol)

/-- the error classes of the record model seen from the text model -/
def liftErr : ReadErr → TextErr
  | .valueError => .valueError
  | .timeFormat => .timeFormat

/-- the float text codec of the real file: `str(numpy.float64(x))` / `float(text)` (`Model/FloatText.lean`) -/
def textCodec : FloatCodec Str := { enc := FloatText.floatStr, dec := FloatText.floatOfStr }

end PersistText
