import PycsepVerif.Model.Quadtree
/-
  Model of `QuadtreeGrid2D._get_idx_map_xs_ys` (regions.py:1304) and `QuadtreeGrid2D.get_cartesian` (regions.py:1319),
  reached through `GriddedDataSet.spatial_counts(cartesian=True)` (forecasts.py:96 / :208) — property C17 (Cartesian view).

    xs = numpy.unique(origins[:, 0])      the distinct WEST edges of the cells, ascending
    ys = numpy.unique(origins[:, 1])      the distinct SOUTH-edge latitudes, ascending in latitude
    a[j, i] = get_index_of(xs[i], ys[j])  `_find_location` of the lattice point; a point in no cell gives an empty
                                          array and the assignment raises ValueError
    results[j, i] = data[int(a[j, i])]

  Unit-square coordinates as in Model/Quadtree.lean: latitude is a strictly decreasing function of y, so "ascending in
  latitude" is "descending in y", and distinct south-edge latitudes are distinct `yS` (mercantile's edge latitude is a
  function of Y/2^z only — trusted base of C17, re-checked by the harness on every edge table).
  Exact layer, import-free.
-/
namespace Quadtree

/-- insertion into a strictly increasing list, an element already present is dropped -/
def insertUniq (x : Rat) : List Rat → List Rat
  | [] => [x]
  | y :: ys => if x < y then x :: y :: ys else if x = y then y :: ys else y :: insertUniq x ys

/-- `numpy.unique`: the distinct values, ascending -/
def unique (l : List Rat) : List Rat := l.foldr insertUniq []

inductive CartErr where
  | noCell   -- ValueError: setting an array element with a sequence (a[j, i] = empty array, regions.py:1316)
  | length   -- AssertionError (regions.py:1333)
deriving Repr, DecidableEq

/-- `xs`: distinct west edges, ascending -/
def cartXs (cells : List Key) : List Rat := unique (cells.map xW)

/-- `ys`: distinct south edges, ascending in latitude = descending in the unit coordinate y -/
def cartYs (cells : List Key) : List Rat := (unique (cells.map yS)).reverse

/-- one entry of the index map -/
def idxEntry (cells : List Key) (x y : Rat) : Except CartErr Nat :=
  match findLocation cells ⟨x, y⟩ with
  | some k => .ok k
  | none => .error .noCell

/-- all results, or the first exception -/
def allOk {ε α : Type} : List (Except ε α) → Except ε (List α)
  | [] => .ok []
  | .error e :: _ => .error e
  | .ok a :: rest =>
    match allOk rest with
    | .error e => .error e
    | .ok l => .ok (a :: l)

/-- `_get_idx_map_xs_ys`: the index map `a` (row j = ys[j], column i = xs[i]) -/
def idxMap (cells : List Key) : Except CartErr (List (List Nat)) :=
  allOk ((cartYs cells).map fun y => allOk ((cartXs cells).map fun x => idxEntry cells x y))

/-- `get_cartesian(data)`; an entry is `data[k]?` (always `some` once the length assertion has passed) -/
def getCartesian {α} (cells : List Key) (data : List α) : Except CartErr (List (List (Option α))) :=
  match idxMap cells with
  | .error e => .error e
  | .ok m => if data.length ≠ cells.length then .error .length else .ok (m.map fun r => r.map fun k => data[k]?)

end Quadtree
