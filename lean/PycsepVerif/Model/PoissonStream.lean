import PycsepVerif.Model.PoissonTest
/-!
  C05, round 4 (deepening) — the two ways `_poisson_likelihood_test` gets its uniform numbers, as part of the model.

  csep/core/poisson_evaluations.py
    659-669  `for idx in range(num_simulations): … random_numbers[idx, :]`
             `num_simulations` is an argument of its own: the FIRST `num_simulations` rows of `random_numbers` are used (a
             longer array is legal, the surplus rows are never read); fewer rows → IndexError              → `takeRows`, `runN`
    582-587  `_simulate_catalog(num_events, …, random_numbers=None)`: `random_numbers = numpy.random.rand(num_events)` — the
             default path of every test: each simulation takes the NEXT `num_events` numbers of the global generator's
             uniform stream (after `numpy.random.seed(seed)` when a seed is given)                         → `chunk`, `runStream`
  For the conditional tests (CL, S, M: `num_events = int(n_obs)` for every simulation) the stream is cut into consecutive
  blocks of `N_obs` numbers.  The L-test interleaves a Poisson draw (`numpy.random.poisson`, an input of the model) before
  every block; its blocks have the drawn lengths                                                            → `chunks`.
-/
namespace PoissonTest
variable {α : Type} [RealOps α]
open RealOps PoissonLL

/-- rows `0 … num_simulations-1` of `random_numbers`; `none` = IndexError (fewer rows than simulations) -/
def takeRows (nsim : Nat) (rows : List (List Rat)) : Option (List (List Rat)) :=
  if nsim ≤ rows.length then some (rows.take nsim) else none

/-- `_poisson_likelihood_test(…, num_simulations = nsim, random_numbers = rows)` -/
def runN (toQ : α → Rat) (useObs normLik : Bool) (rates : List α) (obs : List Nat) (draws : List Nat) (nsim : Nat)
    (rows : List (List Rat)) : Option (Result α) :=
  match takeRows nsim rows with
  | none => none
  | some rs => run toQ useObs normLik rates obs draws rs

/-- consecutive blocks of the given lengths from the uniform stream (`numpy.random.rand(n)` called once per simulation);
    `none` = the supplied stream is too short -/
def chunks : List Nat → List Rat → Option (List (List Rat))
  | [], _ => some []
  | n :: ns, s => if s.length < n then none else (chunks ns (s.drop n)).map (s.take n :: ·)

/-- `num_simulations` blocks of `n` numbers -/
def chunk (n nsim : Nat) (s : List Rat) : Option (List (List Rat)) := chunks (List.replicate nsim n) s

/-- the DEFAULT random path (`random_numbers=None`): conditional tests cut the stream into blocks of `N_obs`, the L-test
    into blocks of the Poisson draws -/
def runStream (toQ : α → Rat) (useObs normLik : Bool) (rates : List α) (obs : List Nat) (draws : List Nat) (nsim : Nat)
    (stream : List Rat) : Option (Result α) :=
  let ns := if useObs then List.replicate nsim obs.sum else draws.take nsim
  if ns.length ≠ nsim then none else
  match chunks ns stream with
  | none => none
  | some rows => run toQ useObs normLik rates obs ns rows

/-- a public test with `num_simulations` given separately from the injected rows -/
def publicTestN (toQ : α → Rat) (m : Mode) (data : List (List α)) (nbin : Nat) (evs : List Gridding.Ev)
    (draws : List Nat) (nsim : Nat) (rows : List (List Rat)) : Except Gridding.Err (Option (Result α)) :=
  match observedArray m data.length nbin evs with
  | .error e => .error e
  | .ok obs => .ok (runN toQ (flags m).1 (flags m).2 (forecastArray m data) obs draws nsim rows)

/-- a public test on the default random path -/
def publicTestStream (toQ : α → Rat) (m : Mode) (data : List (List α)) (nbin : Nat) (evs : List Gridding.Ev)
    (draws : List Nat) (nsim : Nat) (stream : List Rat) : Except Gridding.Err (Option (Result α)) :=
  match observedArray m data.length nbin evs with
  | .error e => .error e
  | .ok obs => .ok (runStream toQ (flags m).1 (flags m).2 (forecastArray m data) obs draws nsim stream)

end PoissonTest
