import PycsepVerif.Soft64
import PycsepVerif.Model.Region
import PycsepVerif.Model.RegionBuild
/-
  Model of the operations that DERIVE a region from a region, or change a catalog through a region — property C01.

    masked_region                          regions.py:376-392   → `compress`, `maskedRegionF` (Soft64), `Lattice`-level `shiftCells`
    CartesianGrid2D.__eq__                 regions.py:595       → `regionEq` (= equality of `to_dict`)
    increase_grid_resolution               regions.py:343-374   → `subOrigins`, `incResLevel`, `incRes` (Soft64; the `set` is a list here,
                                                                   compared as a set by the harness)
    grid_spacing                           regions.py:418-443   → `gridSpacing`
    CSEPCatalog.filter_spatial (state)     catalogs.py:561-596  → `Cat`, `Cat.filterSpatialOp` (region re-binding, in_place, update_stats,
                                                                   the catalog setter that recomputes the statistics, catalogs.py:250-263)
    CSEPCatalog.update_catalog_stats       catalogs.py:654-664  → `statsOf` (spatial part: min / max longitude and latitude)

  Exact layer unless marked Soft64. NaN / inf are not modelled.
-/
namespace Region
open Soft64

/-! ## masked_region -/

/-- `itertools.compress(data, selectors)` (regions.py:390): stops with the shorter argument -/
def compress {α : Type} : List α → List Bool → List α
  | a :: as, b :: bs => if b then a :: compress as bs else compress as bs
  | _, _ => []

/-- the polygon numbers `compress` keeps, counted from `s` -/
def keptFrom : Nat → List Bool → List Nat
  | _, [] => []
  | s, b :: bs => if b then s :: keptFrom (s + 1) bs else keptFrom (s + 1) bs

/-- new polygon number k' ↦ old polygon number -/
def keptIdx (keep : List Bool) : List Nat := keptFrom 0 keep

/-- regions.py:376-392 `masked_region(region, polygon)`: `contains = polygon.contains(region.midpoints())` (matplotlib's
point-in-path test is an INPUT here), `new_polygons = compress(region.polygons, contains)`, and
`CartesianGrid2D(new_polygons, region.dh)` — the new region has NO mask (flags of the old one are not carried) and its own,
tighter bounding box. `polys` are the old region's vertex lists. -/
def maskedRegionF (polys : List (List (Rat × Rat))) (dh : Rat) (contains : List Bool) (dec : Nat × Nat × Nat) : BuiltF :=
  buildF (compress polys contains) dh none dec

/-- exact layer: the kept cells re-expressed in the bounding box that starts at column `i0`, row `j0` of the old one;
every kept cell is valid in the new region (no mask is handed on) -/
def shiftCells (i0 j0 : Nat) (cells : List Cell) : List Cell := cells.map (fun c => ⟨c.i - i0, c.j - j0, true⟩)

/-! ## __eq__ -/

/-- regions.py:595 `__eq__`: `self.to_dict() == other.to_dict()` — name, dh, the origins in polygon order, class id -/
def regionEq (nameA : String) (dhA : Rat) (a : BuiltF) (nameB : String) (dhB : Rat) (b : BuiltF) : Bool :=
  decide (toDict nameA dhA a = toDict nameB dhB b)

/-! ## increase_grid_resolution (Soft64) -/

/-- regions.py:366-369: the four vertices of `compute_vertex(point, new_dh)` (default tol = eps) become origins of the finer
grid: `(x, y), (x, y + h − eps), (x + h − eps, y + h − eps), (x + h − eps, y)` -/
def subOrigins (o : Rat × Rat) (h : Rat) : List (Rat × Rat) := computeVertex o h eps64

/-- one level of the recursion: `new_dh = dh / 2` (float division), all vertices of all points -/
def incResLevel (pts : List (Rat × Rat)) (dh : Rat) : List (Rat × Rat) × Rat :=
  let h := fdiv dh 2
  (pts.flatMap (fun o => subOrigins o h), h)

/-- regions.py:343-374 `increase_grid_resolution(points, dh, factor)`: `factor == 1` returns the points; otherwise `factor`
must be even, one level is applied and the function recurses with `factor / 2` (a float: 6 → 3.0 → `3.0 % 2 != 0` →
AssertionError at the second level). `none` = AssertionError. `fuel` bounds the recursion depth. -/
def incRes : Nat → List (Rat × Rat) → Rat → Rat → Option (List (Rat × Rat) × Rat)
  | 0, _, _, _ => none
  | fuel + 1, pts, dh, factor =>
    if factor = 1 then some (pts, dh)
    else if factor.den = 1 ∧ factor.num % 2 = 0 ∧ 1 ≤ factor then
      let r := incResLevel pts dh
      incRes fuel r.1 r.2 (factor / 2)
    else none

/-- exact layer: the four children of lattice cell (i, j) in the lattice of half the spacing -/
def children (i j : Nat) : List (Nat × Nat) := [(2 * i, 2 * j), (2 * i, 2 * j + 1), (2 * i + 1, 2 * j + 1), (2 * i + 1, 2 * j)]

/-! ## grid_spacing -/

inductive SpacingErr where
  | valueError
deriving Repr, DecidableEq

/-- regions.py:418-443 `grid_spacing(vertices)`: `d1 = |b.x − a.x|`, `d2 = |b.y − a.y|` of the first two vertices;
`numpy.allclose(d1, d2)` (`|d1 − d2| ≤ 1e-8 + 1e-5·|d2|`, in exact arithmetic here) else ValueError; `dh = max`; 0 → ValueError -/
def gridSpacing (a b : Rat × Rat) : Except SpacingErr Rat :=
  let d1 := fabs (fsub b.1 a.1)
  let d2 := fabs (fsub b.2 a.2)
  if ¬ (fabs (d1 - d2) ≤ 1 / 100000000 + 1 / 100000 * fabs d2) then .error .valueError
  else
    let dh := if d1 < d2 then d2 else d1
    if dh = 0 then .error .valueError else .ok dh

/-! ## CSEPCatalog.filter_spatial as a state machine -/

/-- spatial part of `update_catalog_stats` (catalogs.py:654-664): `min_or_none` / `max_or_none` of the longitudes and latitudes -/
structure Stats where
  minLon : Option Rat
  maxLon : Option Rat
  minLat : Option Rat
  maxLat : Option Rat
deriving Repr, DecidableEq

def minO : List Rat → Option Rat
  | [] => none
  | a :: l => some (l.foldl (fun m x => if x < m then x else m) a)
def maxO : List Rat → Option Rat
  | [] => none
  | a :: l => some (l.foldl (fun m x => if m < x then x else m) a)

def statsOf (ev : List (Rat × Rat)) : Stats :=
  ⟨minO (ev.map (·.1)), maxO (ev.map (·.1)), minO (ev.map (·.2)), maxO (ev.map (·.2))⟩

/-- what `filter_spatial` reads and writes of a catalog: the events (lon, lat; other columns ride along), the bound region,
the `compute_stats` flag of the instance and the statistics last computed -/
structure Cat where
  events : List (Rat × Rat)
  region : Option Region
  computeStats : Bool
  stats : Option Stats

inductive CatErr where
  | noRegion          -- CSEPCatalogException: no region given and none bound
deriving Repr, DecidableEq

/-- the `catalog` setter (catalogs.py:250-263): assigning the array recomputes the statistics when `compute_stats` is set -/
def Cat.setEvents (c : Cat) (ev : List (Rat × Rat)) : Cat :=
  { c with events := ev, stats := if c.computeStats then some (statsOf ev) else c.stats }

/-- `CSEPCatalog(data=…, region=…, compute_stats=…)` (catalogs.py:39-75) -/
def Cat.mk' (ev : List (Rat × Rat)) (region : Option Region) (computeStats : Bool) : Cat :=
  { events := ev, region := region, computeStats := computeStats, stats := if computeStats then some (statsOf ev) else none }

/-- catalogs.py:572-576: the region argument wins and is bound; else the region already bound -/
def Cat.effRegion (c : Cat) (region : Option Region) : Option Region :=
  match region with | some r => some r | none => c.region

/-- `filter_spatial(region, update_stats, in_place)` (catalogs.py:561-596): returns (the catalog object afterwards, the
returned object). The region argument is bound to `self` in BOTH modes (:575-576) before anything else. -/
def Cat.filterSpatialOp (c : Cat) (region : Option Region) (updateStats inPlace : Bool) : Except CatErr (Cat × Cat) :=
  match c.effRegion region with
  | none => .error .noRegion                                                             -- :572-573
  | some R =>
    let c1 : Cat := { c with region := some R }                                          -- :576
    let filtered := R.filterSpatial c1.events                                            -- :578-581
    if inPlace then
      let c2 := c1.setEvents filtered                                                    -- :583
      let c3 : Cat := if updateStats then { c2 with stats := some (statsOf filtered) } else c2   -- :584-585
      .ok (c3, c3)
    else
      .ok (c1, Cat.mk' filtered (some R) updateStats)                                    -- :588-591

end Region
