import PycsepVerif.Model.BinaryTests
import PycsepVerif.Model.Gridding
/-
  C16, round 4 — the three public tests on a CATALOG (not on a ready-made count array): the gridding call each test makes
  (C03's model of `CSEPCatalog.spatial_counts` / `spatial_magnitude_counts`, rejections included) composed with the test
  pipeline of `Model/BinaryTests.lean`.

    csep/core/binomial_evaluations.py:196-243  binary_spatial_test
        gridded_catalog_data = observed_catalog.spatial_counts()               -- magnitudes never looked at
        _binary_likelihood_test(gridded_forecast.spatial_counts(), gridded_catalog_data, …)
    csep/core/binomial_evaluations.py:246-293  binary_conditional_likelihood_test
        (region fallback D40) gridded_catalog_data = observed_catalog.spatial_magnitude_counts()
        _binary_likelihood_test(gridded_forecast.data, gridded_catalog_data, …)
    csep/core/brier_evaluations.py:139-180     brier_score_test
        (region fallback D40) gridded_catalog_data = observed_catalog.spatial_magnitude_counts()
        _brier_score_test(gridded_forecast.data, gridded_catalog_data, …)      -- observed array 2-D: (cells, magnitude bins)

  An event is the pair of its lookups `(cell, bin)` (`Gridding.Ev`; `none` = outside the region / below the first
  magnitude edge).  The rate vector is the 1-D array the test works on (`spatial_counts()` for S, `data.ravel()` for CL and
  Brier), given as binary64 rationals `rq` (weights) and as `ra : List α` (scores), as in `Model/BinaryTests.lean`.
-/
namespace BinaryBrier
variable {α : Type} [RealOps α]
open RealOps

inductive PMode where
  | S | CL | B
  deriving Repr, DecidableEq

/-- the observed array of each public test -/
def observedArrayB (m : PMode) (ncell nbin : Nat) (evs : List Gridding.Ev) : Except Gridding.Err (List Nat) :=
  match m with
  | .S => Gridding.spatialCountsCart ncell (evs.map (·.cell))
  | .CL => (Gridding.smcCart ncell nbin evs).map List.flatten
  | .B => (Gridding.smcCart ncell nbin evs).map List.flatten

/-- a public test on a catalog given as the list of its events' (cell, magnitude-bin) lookups; `.error` = the gridding
    call raised (event outside the region / below the first magnitude edge), `.ok none` = exception inside the test -/
def publicBinaryTest (m : PMode) (rq : List Rat) (ra : List α) (ncell nbin : Nat) (evs : List Gridding.Ev)
    (rows : List (List Rat)) : Except Gridding.Err (Option (TestOut α)) :=
  match observedArrayB m ncell nbin evs with
  | .error e => .error e
  | .ok cnt => .ok (match m with
      | .S => binaryLikelihoodTest rq ra cnt rows
      | .CL => binaryLikelihoodTest rq ra cnt rows
      | .B => brierScoreTest rq ra [ncell, nbin] cnt rows)

/-- `num_simulations` is an argument of its own (`for idx in range(num_simulations): … random_numbers[idx, :]`,
    binomial_evaluations.py:169-175, brier_evaluations.py:107-114): the first `nsim` rows are read, surplus rows never;
    with fewer rows the loop raises IndexError — after the gridding call, whose own errors come first -/
def publicBinaryTestN (m : PMode) (rq : List Rat) (ra : List α) (ncell nbin : Nat) (evs : List Gridding.Ev) (nsim : Nat)
    (rows : List (List Rat)) : Except Gridding.Err (Option (TestOut α)) :=
  if nsim ≤ rows.length then publicBinaryTest m rq ra ncell nbin evs (rows.take nsim)
  else (observedArrayB m ncell nbin evs).map (fun _ => none)

/-- what kind of region the observed catalog is bound to (D40): the CL and Brier tests bind the forecast's
    space-magnitude region to a catalog that has none (or one without magnitudes); the S test leaves the catalog alone -/
inductive CatRegion where
  /-- no region -/
  | none
  /-- a magnitude-less region with the forecast's cells in the forecast's order -/
  | spatialOnly
  /-- a magnitude-less region with other cells or another cell order (round 5) -/
  | spatialOther
  /-- the forecast's space-magnitude region (the same object, or one that bins identically) -/
  | full
  /-- a space-magnitude region of the catalog's own that does NOT bin like the forecast's (other edges / cells; round 5) -/
  | fullOther
  deriving Repr, DecidableEq

/-- binomial_evaluations.py:271-273, brier_evaluations.py:153-155: `if region is None or region.magnitudes is None:
    observed_catalog.region = gridded_forecast.region` — every magnitude-less region is REPLACED by the forecast's (not
    completed with magnitudes); a region that has magnitudes is left as it is, whatever it is -/
def regionAfter (m : PMode) (r : CatRegion) : CatRegion :=
  match m, r with
  | .S, r => r
  | _, .fullOther => .fullOther
  | _, _ => .full

/-- which catalogs a test can grid at all: the S test needs a spatial region, CL / Brier take any (they bind one) -/
def canGrid (m : PMode) (r : CatRegion) : Bool :=
  match m, r with
  | .S, .none => false
  | _, _ => true

/-- whether the observed array a test grids is the one of the FORECAST's region (cells in the forecast's order, the
    forecast's magnitude edges) — the arrays `observedArrayB` describes. `false` = the catalog's own differing region is
    used by the present code (genuine-defect candidates of round 5, notes/C16.md) -/
def gridsOnForecastRegion (m : PMode) (r : CatRegion) : Bool :=
  match m, r with
  | .S, .spatialOnly => true
  | .S, .full => true
  | .S, .fullOther => true      -- the harness's `sm-othermags` state: same cells, other magnitude edges
  | .S, _ => false
  | _, .fullOther => false
  | _, _ => true

end BinaryBrier
