import PycsepVerif.Model.JsonTree
/-
  JSON TEXT layer of C18 (exact layer, no Mathlib): the characters `FileSystem.save` writes for a JSON tree and what
  `FileSystem.load` reads back from characters.

    csep/core/repositories.py:93   json.dump(data, f, indent=4, separators=(',', ': '), sort_keys=True, default=_json_default)
    csep/core/repositories.py:57   json.load(f)

  `Model/JsonTree.lean` stops at the tree (`encode : PyObj → Option JVal`, `decode : JVal → PyObj`).  This file adds
      renderRaw : JVal → List Char           the text of a tree, members in the order given
      sortTree  : JVal → JVal                `sorted(dct.items())` at every object (json/encoder.py:354)
      render    = renderRaw ∘ sortTree       the text `json.dump(tree, indent=4, separators=(',', ': '), sort_keys=True)` writes
      parse     : List Char → Option JVal    `json.load` on the text; `none` = JSONDecodeError (a ValueError)
  Transcribed from CPython 3.12.1 (/root/.pyenv/versions/3.12.1/lib/python3.12/json):
    * `indent=4` selects the pure-Python encoder `_make_iterencode` (encoder.py:247-258: the C encoder is used only when
      `indent is None`): `_iterencode_list` :278-332, `_iterencode_dict` :334-412, `_iterencode` :414-442, `floatstr` :224-244,
      strings through `encode_basestring_ascii` (ensure_ascii=True; the C and the Python version :49-68 write the same text).
    * `json.load` = `loads(fp.read())` (__init__.py:293) = `JSONDecoder.decode` (decoder.py:332-341) with the C scanner
      `_json.make_scanner` / `_json.scanstring`.  The Python twins (`py_make_scanner` scanner.py:15-71, `JSONObject`
      decoder.py:136-215, `JSONArray` :217-251, `py_scanstring` :69-126) are followed line by line; where the C code in use is
      STRICTER than its Python twin the model follows the C code (each re-checked by the correspondence script):
        - digits of a number are ASCII `0-9` only (`NUMBER_RE`'s `\d` would also take e.g. Arabic-Indic digits);
        - the four characters after `\u` must be hexadecimal digits (`int(esc, 16)` of py_scanstring would also take `+1ff`, `1_ff`).
  Positions in the Python code become the remaining characters here; every `_w(s, end).end()` is `skipWs`.

  Floats: the numeral of a finite float is behind `FloatText` (`reprF` = float.__repr__, `readF` = float(text)); the structure
  of the text around it (tokens `NaN`, `Infinity`, `-Infinity`, which lexeme is cut out by NUMBER_RE, int or float) is modelled
  here.  `Model/JsonFloat.lean` instantiates it with Python's shortest-digits repr.

  Not modelled (see notes): `int.__repr__` / `int()` raise ValueError beyond 4300 digits (sys.int_max_str_digits); a `\uXXXX`
  escape of a LONE surrogate in a file (Python builds a str holding the surrogate; a Lean `Char` cannot: `parse` answers `none`);
  the decoding of the bytes of the file (`open(url, 'r')`: locale encoding, universal newlines — the written text is pure ASCII,
  and `\r\n`/`\r` → `\n` neither changes whitespace-ness outside strings nor the rejection of raw control characters inside
  them); recursion limits (RecursionError on ≈ 1000 nested levels).
-/
namespace JsonText
open JsonTree
open ResultJson (F64)

/-- bit patterns of +inf / −inf (`F64.num` carries every non-NaN value) -/
def posInfBits : Nat := 0x7FF0000000000000
def negInfBits : Nat := 0xFFF0000000000000

/-- `float.__repr__` of a finite double (given by its bit pattern) and `float(text)` on a NUMBER_RE lexeme -/
structure FloatText where
  reprF : Nat → List Char
  readF : List Char → Option F64

/-! ## characters -/

def digitChar (d : Nat) : Char := Char.ofNat (48 + d)
/-- ASCII decimal digit (the C scanner `_match_number_unicode` tests `c >= '0' && c <= '9'`) -/
def isDigit (c : Char) : Bool := decide (48 ≤ c.toNat) && decide (c.toNat ≤ 57)
def digitVal (c : Char) : Nat := c.toNat - 48

/-- decoder.py:132 `WHITESPACE = [ \t\n\r]*` -/
def isWs (c : Char) : Bool := c = ' ' || c = '\t' || c = '\n' || c = '\r'

def skipWs : List Char → List Char
  | [] => []
  | c :: cs => if isWs c then skipWs cs else c :: cs

def stripPrefix : List Char → List Char → Option (List Char)
  | [], cs => some cs
  | _ :: _, [] => none
  | p :: ps, c :: cs => if p = c then stripPrefix ps cs else none

/-! ## integers: `int.__repr__` (encoder.py:272 `_intstr`) and `int(text)` (scanner.py:54) -/

def natDigitsAux : Nat → Nat → List Char → List Char
  | 0, _, acc => acc
  | fuel + 1, n, acc =>
    if n < 10 then digitChar n :: acc else natDigitsAux fuel (n / 10) (digitChar (n % 10) :: acc)

/-- decimal digits of `n`, most significant first, no leading zero (`0` ↦ "0") -/
def natDigits (n : Nat) : List Char := natDigitsAux (n + 1) n []

def renderInt : Int → List Char
  | .ofNat n => natDigits n
  | .negSucc n => '-' :: natDigits (n + 1)

def readNat (cs : List Char) : Nat := cs.foldl (fun a c => 10 * a + digitVal c) 0

/-- `int(lexeme)` for a lexeme `-?digits`; `int('-0')` is `0` -/
def readInt : List Char → Int
  | '-' :: cs => -((readNat cs : Nat) : Int)
  | cs => ((readNat cs : Nat) : Int)

/-! ## strings: `py_encode_basestring_ascii` (encoder.py:49-68, ESCAPE_ASCII :19, ESCAPE_DCT :21-31) -/

def hexDigit (n : Nat) : Char := if n < 10 then Char.ofNat (48 + n) else Char.ofNat (87 + n)

/-- `'{0:04x}'.format(v)` for `v < 0x10000` -/
def hex4 (v : Nat) : List Char :=
  [hexDigit (v / 4096 % 16), hexDigit (v / 256 % 16), hexDigit (v / 16 % 16), hexDigit (v % 16)]

def escUnit (v : Nat) : List Char := '\\' :: 'u' :: hex4 v

/-- what is written for one character of a string: the short escapes of ESCAPE_DCT, the printable ASCII characters
    `' '..'~'` themselves, `\uXXXX` (lower-case hex) for every other character below 0x10000 — control characters, DEL and
    all non-ASCII ones — and a UTF-16 surrogate pair for the astral ones (encoder.py:64-67: `n -= 0x10000`,
    `s1 = 0xd800 | ((n >> 10) & 0x3ff)`, `s2 = 0xdc00 | (n & 0x3ff)`; with n < 0x100000 these are the `+`, `/`, `%` below) -/
def escChar (c : Char) : List Char :=
  if c = '"' then ['\\', '"']
  else if c = '\\' then ['\\', '\\']
  else if c = '\n' then ['\\', 'n']
  else if c = '\r' then ['\\', 'r']
  else if c = '\t' then ['\\', 't']
  else if c.toNat = 8 then ['\\', 'b']
  else if c.toNat = 12 then ['\\', 'f']
  else if 32 ≤ c.toNat ∧ c.toNat ≤ 126 then [c]
  else if c.toNat < 0x10000 then escUnit c.toNat
  else escUnit (0xd800 + (c.toNat - 0x10000) / 1024) ++ escUnit (0xdc00 + (c.toNat - 0x10000) % 1024)

def escChars : List Char → List Char
  | [] => []
  | c :: cs => escChar c ++ escChars cs

def renderString (s : List Char) : List Char := '"' :: (escChars s ++ ['"'])

/-! ## strings: `scanstring` (decoder.py:69-126; the C version `scanstring_unicode` is in use) -/

/-- one hexadecimal digit, either case -/
def hexVal? (c : Char) : Option Nat :=
  if 48 ≤ c.toNat ∧ c.toNat ≤ 57 then some (c.toNat - 48)
  else if 97 ≤ c.toNat ∧ c.toNat ≤ 102 then some (c.toNat - 87)
  else if 65 ≤ c.toNat ∧ c.toNat ≤ 70 then some (c.toNat - 55)
  else none

/-- decoder.py:59 `_decode_uXXXX`: exactly four hex digits -/
def readHex4 : List Char → Option (Nat × List Char)
  | a :: b :: c :: d :: rest =>
    match hexVal? a, hexVal? b, hexVal? c, hexVal? d with
    | some x, some y, some z, some w => some (((x * 16 + y) * 16 + z) * 16 + w, rest)
    | _, _, _, _ => none
  | _ => none

/-- decoder.py:117-124, positioned after `\u`.  A high surrogate directly followed by `\u` + a low surrogate is joined
    (`0x10000 + (((uni - 0xd800) << 10) | (uni2 - 0xdc00))`); a high surrogate followed by `\u` + four characters that are not
    hex digits is an error; every other surrogate would become a lone surrogate in the Python str: not representable,
    `none` (deviation, see the header). -/
def scanUnicodeEscape (cs : List Char) : Option (Char × List Char) :=
  match readHex4 cs with
  | none => none
  | some (u, rest) =>
    if 0xd800 ≤ u ∧ u ≤ 0xdbff then
      match rest with
      | '\\' :: 'u' :: rest2 =>
        match readHex4 rest2 with
        | none => none
        | some (u2, rest3) =>
          if 0xdc00 ≤ u2 ∧ u2 ≤ 0xdfff then some (Char.ofNat (0x10000 + ((u - 0xd800) * 1024 + (u2 - 0xdc00))), rest3)
          else none
      | _ => none
    else if 0xdc00 ≤ u ∧ u ≤ 0xdfff then none
    else some (Char.ofNat u, rest)

inductive StrStep where
  /-- the closing quote -/
  | done (rest : List Char)
  | chr (c : Char) (rest : List Char)
  /-- unterminated string, raw control character (strict mode), invalid escape -/
  | bad

/-- one round of the `while 1` loop of py_scanstring (one character of the result) -/
def strStep : List Char → StrStep
  | [] => .bad                                                    -- :85 "Unterminated string"
  | c :: cs =>
    if c = '"' then .done cs                                      -- :93
    else if c = '\\' then
      match cs with
      | [] => .bad                                                -- :106 "Unterminated string"
      | e :: r =>
        if e = 'u' then
          match scanUnicodeEscape r with
          | some (ch, r') => .chr ch r'
          | none => .bad
        else if e = '"' then .chr '"' r                           -- BACKSLASH :54-57
        else if e = '\\' then .chr '\\' r
        else if e = '/' then .chr '/' r
        else if e = 'b' then .chr (Char.ofNat 8) r
        else if e = 'f' then .chr (Char.ofNat 12) r
        else if e = 'n' then .chr '\n' r
        else if e = 'r' then .chr '\r' r
        else if e = 't' then .chr '\t' r
        else .bad                                                 -- :113 "Invalid \escape"
    else if c.toNat < 32 then .bad                                -- :96-99 strict: "Invalid control character"
    else .chr c cs

/-- the body of a string after its opening quote: (content, rest after the closing quote).  Every round consumes at
    least one character, so `fuel = length of the input` is always enough. -/
def parseStrBody : Nat → List Char → Option (List Char × List Char)
  | 0, _ => none
  | fuel + 1, cs =>
    match strStep cs with
    | .done rest => some ([], rest)
    | .chr c rest => (parseStrBody fuel rest).map (fun p => (c :: p.1, p.2))
    | .bad => none

/-- a string positioned AFTER the opening quote -/
def parseStr (cs : List Char) : Option (List Char × List Char) := parseStrBody cs.length cs

/-- a complete string token -/
def parseString : List Char → Option (List Char × List Char)
  | '"' :: cs => parseStr cs
  | _ => none

/-! ## numbers: NUMBER_RE `(-?(?:0|[1-9]\d*))(\.\d+)?([eE][-+]?\d+)?` (scanner.py:11-13; C: `_match_number_unicode`) -/

def spanDigits : List Char → List Char × List Char
  | [] => ([], [])
  | c :: cs => if isDigit c then let p := spanDigits cs; (c :: p.1, p.2) else ([], c :: cs)

/-- `0|[1-9]\d*` -/
def scanNat : List Char → Option (List Char × List Char)
  | [] => none
  | c :: cs =>
    if c = '0' then some (['0'], cs)
    else if isDigit c then let p := spanDigits cs; some (c :: p.1, p.2)
    else none

/-- group 1 -/
def scanIntPart : List Char → Option (List Char × List Char)
  | [] => none
  | c :: cs => if c = '-' then (scanNat cs).map (fun p => ('-' :: p.1, p.2)) else scanNat (c :: cs)

/-- group 2 `(\.\d+)?`: empty when the point is not followed by a digit -/
def scanFrac : List Char → List Char × List Char
  | [] => ([], [])
  | c :: cs =>
    if c = '.' then
      let p := spanDigits cs
      if p.1.isEmpty then ([], c :: cs) else ('.' :: p.1, p.2)
    else ([], c :: cs)

def scanSign : List Char → List Char × List Char
  | [] => ([], [])
  | c :: cs => if c = '+' ∨ c = '-' then ([c], cs) else ([], c :: cs)

/-- group 3 `([eE][-+]?\d+)?`: empty (backtrack) when no digit follows -/
def scanExp : List Char → List Char × List Char
  | [] => ([], [])
  | c :: cs =>
    if c = 'e' ∨ c = 'E' then
      let s := scanSign cs
      let p := spanDigits s.2
      if p.1.isEmpty then ([], c :: cs) else (c :: (s.1 ++ p.1), p.2)
    else ([], c :: cs)

/-- `match_number`: (lexeme, is it a float — `frac or exp` —, rest) -/
def scanNumber (cs : List Char) : Option (List Char × Bool × List Char) :=
  match scanIntPart cs with
  | none => none
  | some (ip, r1) =>
    let f := scanFrac r1
    let e := scanExp f.2
    some (ip ++ f.1 ++ e.1, !(f.1.isEmpty && e.1.isEmpty), e.2)

/-! ## atoms: `_scan_once` without the three structured cases (scanner.py:41-63) -/

def tNull : List Char := ['n', 'u', 'l', 'l']
def tTrue : List Char := ['t', 'r', 'u', 'e']
def tFalse : List Char := ['f', 'a', 'l', 's', 'e']
def tNaN : List Char := ['N', 'a', 'N']
def tInf : List Char := ['I', 'n', 'f', 'i', 'n', 'i', 't', 'y']
def tNegInf : List Char := '-' :: tInf

def parseAtom (ft : FloatText) (cs : List Char) : Option (JVal × List Char) :=
  match stripPrefix tNull cs with
  | some r => some (.null, r)
  | none =>
  match stripPrefix tTrue cs with
  | some r => some (.bool true, r)
  | none =>
  match stripPrefix tFalse cs with
  | some r => some (.bool false, r)
  | none =>
  match scanNumber cs with
  | some (lx, isFloat, r) =>
    if isFloat then (ft.readF lx).map (fun x => (.float x, r))    -- :52 parse_float(integer + frac + exp)
    else some (.int (readInt lx), r)                              -- :54 parse_int(integer)
  | none =>
  match stripPrefix tNaN cs with
  | some r => some (.float .nan, r)                               -- decoder.py:46-50 _CONSTANTS
  | none =>
  match stripPrefix tInf cs with
  | some r => some (.float (.num posInfBits), r)
  | none =>
  match stripPrefix tNegInf cs with
  | some r => some (.float (.num negInfBits), r)
  | none => none                                                  -- :63 StopIteration → "Expecting value"

/-- the two computable facts about the numeral of the finite double `b` that the round trip needs: NUMBER_RE matches the whole
    numeral and sees a fraction or an exponent (so it is handed to `float()`, not to `int()`), and `float()` returns `b` -/
def floatOkB (ft : FloatText) (b : Nat) : Bool :=
  decide (scanNumber (ft.reprF b) = some (ft.reprF b, true, [])) && decide (ft.readF (ft.reprF b) = some (.num b))

/-! ## the parser -/

mutual
  /-- `_scan_once(string, idx)`: one value starting exactly at the first character (no whitespace is skipped here) -/
  def parseVal (ft : FloatText) : Nat → List Char → Option (JVal × List Char)
    | 0, _ => none
    | _ + 1, [] => none                                           -- scanner.py:32 StopIteration
    | fuel + 1, c :: cs =>
      if c = '"' then (parseStr cs).map (fun p => (.str (String.ofList p.1), p.2))
      else if c = '{' then
        -- JSONObject decoder.py:147-165
        match skipWs cs with
        | [] => none
        | d :: r =>
          if d = '}' then some (.obj .nil, r)
          else if d = '"' then (parseMembers ft fuel r).map (fun p => (.obj p.1, p.2))
          else none                                               -- :163 "Expecting property name enclosed in double quotes"
      else if c = '[' then
        -- JSONArray decoder.py:220-226
        match skipWs cs with
        | [] => none
        | d :: r =>
          if d = ']' then some (.arr .nil, r)
          else (parseElems ft fuel (d :: r)).map (fun p => (.arr p.1, p.2))
      else parseAtom ft (c :: cs)
  /-- the `while True` loop of JSONArray (decoder.py:228-249), positioned at the first character of a value -/
  def parseElems (ft : FloatText) : Nat → List Char → Option (JList × List Char)
    | 0, _ => none
    | fuel + 1, cs =>
      match parseVal ft fuel cs with
      | none => none
      | some (v, r) =>
        match skipWs r with
        | [] => none
        | d :: r' =>
          if d = ']' then some (.cons v .nil, r')
          else if d = ',' then (parseElems ft fuel (skipWs r')).map (fun p => (.cons v p.1, p.2))
          else none                                               -- :242 "Expecting ',' delimiter"
  /-- the `while True` loop of JSONObject (decoder.py:166-208), positioned AFTER the opening quote of a member name.
      Members are kept in file order (`pairs`); `dict(pairs)` (:212, a later duplicate wins) is `JsonTree.decode`. -/
  def parseMembers (ft : FloatText) : Nat → List Char → Option (JKVs × List Char)
    | 0, _ => none
    | fuel + 1, cs =>
      match parseStr cs with
      | none => none
      | some (k, r) =>
        match skipWs r with
        | [] => none
        | d :: r1 =>
          if d = ':' then
            match parseVal ft fuel (skipWs r1) with
            | none => none
            | some (v, r2) =>
              match skipWs r2 with
              | [] => none
              | e :: r3 =>
                if e = '}' then some (.cons (String.ofList k) v .nil, r3)
                else if e = ',' then
                  match skipWs r3 with
                  | [] => none
                  | q :: r4 =>
                    if q = '"' then (parseMembers ft fuel r4).map (fun p => (.cons (String.ofList k) v p.1, p.2))
                    else none                                     -- :207 "Expecting property name enclosed in double quotes"
                else none                                         -- :202 "Expecting ',' delimiter"
          else none                                               -- :174 "Expecting ':' delimiter"
end

/-- `JSONDecoder.decode` (decoder.py:332-341): leading whitespace, one value, trailing whitespace, end of text
    (otherwise "Extra data").  Every call of `parseVal`/`parseElems`/`parseMembers` with fuel `k + 1` consumes a character
    before it calls one with fuel `k`, so `length + 1` never runs out. -/
def parse (ft : FloatText) (cs : List Char) : Option JVal :=
  match parseVal ft (cs.length + 1) (skipWs cs) with
  | none => none
  | some (v, r) => if (skipWs r).isEmpty then some v else none

/-! ## the writer -/

/-- the whitespace the writer puts between tokens: `nl k` before an item at nesting level `k`, `sp` after the colon -/
structure Layout where
  nl : Nat → List Char
  sp : List Char

/-- `indent=4, separators=(',', ': ')`: encoder.py:290 `newline_indent = '\n' + _indent * _current_indent_level` -/
def pyLayout : Layout := { nl := fun k => '\n' :: List.replicate (4 * k) ' ', sp := [' '] }
/-- no whitespace at all (`json.dumps(tree, separators=(',', ':'))`) -/
def compactLayout : Layout := { nl := fun _ => [], sp := [] }

def isNilL : JList → Bool
  | .nil => true
  | .cons _ _ => false
def isNilM : JKVs → Bool
  | .nil => true
  | .cons _ _ _ => false

/-- `floatstr` (encoder.py:224-244), allow_nan=True -/
def renderFloat (ft : FloatText) : F64 → List Char
  | .nan => tNaN
  | .num b => if b = posInfBits then tInf else if b = negInfBits then tNegInf else ft.reprF b

mutual
  /-- `_iterencode(o, lvl)` on a tree, members in the given order -/
  def renderAt (ft : FloatText) (lay : Layout) (lvl : Nat) : JVal → List Char
    | .null => tNull
    | .bool true => tTrue
    | .bool false => tFalse
    | .int n => renderInt n
    | .float x => renderFloat ft x
    | .str s => renderString s.toList
    | .arr xs =>
      if isNilL xs then ['[', ']']                                                           -- encoder.py:279-281
      else '[' :: (lay.nl (lvl + 1) ++ (renderElems ft lay (lvl + 1) xs ++ (lay.nl lvl ++ [']'])))
    | .obj ms =>
      if isNilM ms then ['{', '}']                                                           -- encoder.py:335-337
      else '{' :: (lay.nl (lvl + 1) ++ (renderMembers ft lay (lvl + 1) ms ++ (lay.nl lvl ++ ['}'])))
  /-- the items of a non-empty list, separated by `,` + newline-indent (encoder.py:291 `separator`) -/
  def renderElems (ft : FloatText) (lay : Layout) (lvl : Nat) : JList → List Char
    | .nil => []
    | .cons v vs =>
      renderAt ft lay lvl v ++ (if isNilL vs then [] else ',' :: (lay.nl lvl ++ renderElems ft lay lvl vs))
  /-- the members of a non-empty dict: name, `:` + space, value (encoder.py:379-406) -/
  def renderMembers (ft : FloatText) (lay : Layout) (lvl : Nat) : JKVs → List Char
    | .nil => []
    | .cons k v ms =>
      renderString k.toList ++ (':' :: (lay.sp ++ (renderAt ft lay lvl v ++
        (if isNilM ms then [] else ',' :: (lay.nl lvl ++ renderMembers ft lay lvl ms)))))
end

/-- the text of a tree whose members are written in the order given -/
def renderRaw (ft : FloatText) (j : JVal) : List Char := renderAt ft pyLayout 0 j

/-! ## sort_keys=True -/

/-- Python's `<` on two str: lexicographic on code points, a proper prefix is smaller -/
def ltChars : List Char → List Char → Bool
  | _, [] => false
  | [], _ :: _ => true
  | a :: as, b :: bs => if a.toNat < b.toNat then true else if b.toNat < a.toNat then false else ltChars as bs

/-- insert a member in front of the first member whose name is not smaller -/
def insertMember (k : String) (v : JVal) : JKVs → JKVs
  | .nil => .cons k v .nil
  | .cons k' v' rest =>
    if ltChars k'.toList k.toList then .cons k' v' (insertMember k v rest) else .cons k v (.cons k' v' rest)

/-- `sorted(dct.items())` (encoder.py:354) as a stable insertion sort on the member names.  Python's sort is stable too and
    compares the (key, value) tuples, but the keys of a dict are pairwise distinct, so neither stability nor the values are
    ever consulted: any correct sort gives this list. -/
def sortMembers : JKVs → JKVs
  | .nil => .nil
  | .cons k v rest => insertMember k v (sortMembers rest)

mutual
  /-- the members of every object sorted by name -/
  def sortTree : JVal → JVal
    | .null => .null
    | .bool b => .bool b
    | .int n => .int n
    | .float x => .float x
    | .str s => .str s
    | .arr xs => .arr (sortTreeL xs)
    | .obj ms => .obj (sortMembers (sortTreeKVs ms))
  def sortTreeL : JList → JList
    | .nil => .nil
    | .cons v vs => .cons (sortTree v) (sortTreeL vs)
  /-- the values of the members, order kept -/
  def sortTreeKVs : JKVs → JKVs
    | .nil => .nil
    | .cons k v rest => .cons k (sortTree v) (sortTreeKVs rest)
end

/-- the characters `json.dump(tree, f, indent=4, separators=(',', ': '), sort_keys=True)` writes -/
def render (ft : FloatText) (j : JVal) : List Char := renderRaw ft (sortTree j)

/-- the same tree without any whitespace -/
def renderCompact (ft : FloatText) (j : JVal) : List Char := renderAt ft compactLayout 0 (sortTree j)

/-! ## from the Python value: keys are sorted BEFORE they are coerced to member names

  `sorted(dct.items())` compares the original keys: int / bool keys numerically (`True` = 1), so `{10: …, 9: …}` is written
  `"9"` first although `"10" < "9"` as strings.  For str keys (the only safe ones) this is the order of `sortMembers`. -/

def keyNum : Key → Int
  | .kint n => n
  | .kbool true => 1
  | .kbool false => 0
  | _ => 0

/-- `k1 < k2` for two keys of one comparison class -/
def keyLt : Key → Key → Bool
  | .kstr a, .kstr b => ltChars a.toList b.toList
  | .kstr _, _ => false
  | _, .kstr _ => false
  | a, b => decide (keyNum a < keyNum b)

def insertEntry (k : Key) (v : PyObj) : PyKVs → PyKVs
  | .nil => .cons k v .nil
  | .cons k' v' rest => if keyLt k' k then .cons k' v' (insertEntry k v rest) else .cons k v (.cons k' v' rest)

def sortEntries : PyKVs → PyKVs
  | .nil => .nil
  | .cons k v rest => insertEntry k v (sortEntries rest)

mutual
  /-- the entries of every dict in the order `sorted(dct.items())` gives -/
  def sortPy : PyObj → PyObj
    | .list xs => .list (sortPyL xs)
    | .tuple xs => .tuple (sortPyL xs)
    | .ndarray xs => .ndarray (sortPyL xs)
    | .dict kvs => .dict (sortEntries (sortPyKVs kvs))
    | .pyInt n => .pyInt n
    | .pyBool b => .pyBool b
    | .pyFloat x => .pyFloat x
    | .npFloat64 x => .npFloat64 x
    | .npInt64 n => .npInt64 n
    | .npBool b => .npBool b
    | .npFloat32 x => .npFloat32 x
    | .other s => .other s
    | .str s => .str s
    | .none => .none
  def sortPyL : PyList → PyList
    | .nil => .nil
    | .cons v vs => .cons (sortPy v) (sortPyL vs)
  def sortPyKVs : PyKVs → PyKVs
    | .nil => .nil
    | .cons k v rest => .cons k (sortPy v) (sortPyKVs rest)
end

/-- the characters `FileSystem.save(v)` leaves in the file; `none` = TypeError (then the real file holds a truncated text) -/
def saveText (ft : FloatText) (v : PyObj) : Option (List Char) := (encode (sortPy v)).map (renderRaw ft)

/-- `FileSystem.load` up to `from_dict`: the text of the file as the Python value `json.load` returns -/
def loadText (ft : FloatText) (cs : List Char) : Option PyObj := (parse ft cs).map decode

end JsonText
