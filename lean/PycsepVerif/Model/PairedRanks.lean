import PycsepVerif.Model.PairedTests
/-
  The tie correction of `_w_test_ndarray` as the SOURCE states it (poisson_evaluations.py:556-561):

      r = scipy.stats.rankdata(abs(d))
      _, repnum = numpy.unique(r, return_counts=True)      # groups of equal RANKS
      repnum = repnum[repnum > 1]
      se -= 0.5 * (repnum * (repnum * repnum - 1)).sum()

  `Model/PairedTests.lean: tieTerm` groups by equal VALUES of |d| ("equal ranks are exactly equal values of |d|" was a
  comment there). `tieTermRanks` below groups the ranks themselves; `Properties/C08_Deep.lean: tie_groups_by_rank` proves
  the two equal for every list.
-/
namespace PairedTests

/-- Σ over the groups of equal (doubled) ranks with more than one member of t(t² − 1) -/
def tieTermRanks (l : List Rat) : Nat :=
  let r := l.map (rank2 l)
  (((r.eraseDups.map (fun v => r.count v)).filter (fun t => decide (t > 1))).map (fun t => t * (t * t - 1))).sum

/-- scipy.stats.rankdata(x, 'average') as SciPy 1.18 computes it (`_stats_py._rankdata`), doubled:
    `j = argsort(x, stable)`, `y = x[j]` (sorted), `i` marks the first element of every run of equal values,
    `ordinal_ranks[i]` = 1-based position of that first element, `counts` = length of the run,
    `ranks = ordinal_ranks[i] + (counts - 1)/2` repeated over the run and scattered back to the input order
    (`put_along_axis(…, j, ranks)`): every element gets (position of the first equal element in y) + (run length − 1)/2 -/
def rankdata2 (l : List Rat) : List Nat :=
  let y := l.mergeSort (fun a b => decide (a ≤ b))
  l.map (fun a => 2 * (y.idxOf a + 1) + (y.count a - 1))

end PairedTests
