import PycsepVerif.Model.GriddingExt
import PycsepVerif.Model.DecimalText
/-
  The filter statements of the quadtree helpers AS TEXT — property C03, round 4.

  `_get_spatial_counts` / `_get_spatial_magnitude_counts` (regions.py:1141-1151, :1179-1189) do not compare with the numbers
  `min(mag_bins)`, `get_bbox()[2]`, `get_bbox()[3]`: they paste `str(·)` of them into a statement such as
  `'latitude < 85.0511287798066'`, and `catalog.filter` (catalogs.py:531) reads the number back with `float(value)`.
  `Model/GriddingExt.lean` compared with the numbers themselves and listed `float(str(x)) == x` as TRUSTED.  Here the statement
  goes through the text layer of C11 (`DecimalText.reprValue` = the decimal `str` / `repr` prints, `fl64` = what `float()` reads):

    str(x) then float(...)        → `viaText x`
    regions.py:1141-1145          → `magStageT`   (the `if` compares the numbers, the filter compares with the re-read text)
    regions.py:1147-1151          → `latStageT`
    regions.py:1138-1151          → `preFilterT`
-/
namespace Gridding

/-- `float(str(x))` for a binary64 `x` -/
def viaText (x : Rat) : Rat := Soft64.fl64 (DecimalText.reprValue x)

def magStageT (minEdge : Rat) (evs : List Row) : List Row :=
  match evs.map Row.mag with
  | [] => evs
  | m :: ms => if minL m ms < minEdge then evs.filter (fun e => decide (viaText minEdge ≤ e.mag)) else evs

def latStageT (S N : Rat) (evs : List Row) : List Row :=
  match evs.map Row.lat with
  | [] => evs
  | y :: ys =>
    if minL y ys < S ∨ N < maxL y ys then
      (evs.filter (fun e => decide (e.lat < viaText N))).filter (fun e => decide (viaText S ≤ e.lat))
    else evs

def preFilterT (minEdge S N : Rat) (evs : List Row) : Except QErr Unit × List Row :=
  if evs.isEmpty then (.error .emptyMin, evs)
  else
    let e1 := magStageT minEdge evs
    if e1.isEmpty then (.error .emptyMin, e1)
    else (.ok (), latStageT S N e1)

end Gridding
