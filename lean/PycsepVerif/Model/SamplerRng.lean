import PycsepVerif.Model.Sampler
import PycsepVerif.Model.SamplerExt
/-!
  The random stream of the seeded tests (property C06, round 4 deepening): what `numpy.random.seed(seed)`,
  `numpy.random.rand(n)`, `numpy.random.uniform(0, 1)` and (for a forecast mean below 10) `numpy.random.poisson(mean)` do,
  so that a seeded test is ONE Lean function of (rate array, observed array, seed) with no stream handed in.

  csep/core/poisson_evaluations.py:620  `if seed is not None: numpy.random.seed(seed)`      → `seed`
  csep/core/poisson_evaluations.py:586  `random_numbers = numpy.random.rand(num_events)`     → `rand`
  csep/core/poisson_evaluations.py:663  `int(numpy.random.poisson(expected_forecast_count))` → `poissonMult` (mean < 10)
  csep/core/binomial_evaluations.py:115, brier_evaluations.py:55 `numpy.random.uniform(0,1)` → `uniform01`

  numpy (legacy global `RandomState`, numpy/random/mtrand.pyx `_legacy_seeding`, src/mt19937/mt19937.c):
  * an integer seed 0 ≤ s < 2^32 → `mt19937_seed` (Knuth's `init_genrand` recurrence, 624 words, `pos = 624`);
  * `mt19937_gen` regenerates the 624 words IN PLACE (`twist`), `mt19937_next` tempers one word;
  * `random_sample` / `rand` / `uniform`: `a = next >> 5; b = next >> 6; (a * 67108864.0 + b) / 9007199254740992.0`
    — an exact dyadic rational with 53 bits, hence a float64; `uniform(0, 1)` is `0.0 + 1.0 * that`;
  * `poisson(lam)` for `lam < 10` (`random_poisson_mult`): `enlam = exp(-lam); X = 0; prod = 1.0;
    loop { prod *= next_double; if prod > enlam then X += 1 else return X }`; `exp(-lam)` (libm) is an INPUT of the model.
    For `lam ≥ 10` numpy uses the PTRS algorithm (log, sqrt, loggam): not modelled, the draw stays an input.
  `uint32_t` values are natural numbers reduced mod 2^32 where the C arithmetic can overflow.
-/
namespace SamplerRng
open Soft64

def N : Nat := 624
def M : Nat := 397
def two32 : Nat := 4294967296

/-- generator state: the 624 key words and the read position -/
structure MT where
  key : Array Nat
  pos : Nat

/-- `mt19937_seed(state, seed)`: key[0] = seed; key[i] = 1812433253 * (key[i-1] ^ (key[i-1] >> 30)) + i (mod 2^32) -/
def seedKeys : Nat → Nat → Nat → List Nat
  | 0, _, _ => []
  | k + 1, pos, s => s :: seedKeys k (pos + 1) ((1812433253 * (s ^^^ (s >>> 30)) + pos + 1) % two32)

def seed (s : Nat) : MT := ⟨(seedKeys N 0 (s % two32)).toArray, N⟩

/-- one step of the in-place regeneration loop of `mt19937_gen` (the three C loops are this one formula with indices mod 624):
    `y = (key[i] & UPPER) | (key[i+1] & LOWER); key[i] = key[i+M] ^ (y >> 1) ^ (-(y & 1) & MATRIX_A)` -/
def twistStep (a : Array Nat) (i : Nat) : Array Nat :=
  let y := (a.getD i 0 &&& 0x80000000) ||| (a.getD ((i + 1) % N) 0 &&& 0x7fffffff)
  let v := a.getD ((i + M) % N) 0 ^^^ (y >>> 1) ^^^ (if y % 2 = 1 then 0x9908b0df else 0)
  a.setIfInBounds i v

def twist (a : Array Nat) : Array Nat := (List.range N).foldl twistStep a

/-- tempering of one word (`mt19937_next`); the result is a `uint32_t` -/
def temper (y : Nat) : Nat :=
  let y := y ^^^ (y >>> 11)
  let y := y ^^^ ((y <<< 7) &&& 0x9d2c5680)
  let y := y ^^^ ((y <<< 15) &&& 0xefc60000)
  let y := y ^^^ (y >>> 18)
  y % two32

/-- `mt19937_next`: regenerate when all 624 words are used, temper the next one -/
def next32 (st : MT) : Nat × MT :=
  let st := if st.pos ≥ N then ⟨twist st.key, 0⟩ else st
  (temper (st.key.getD st.pos 0), ⟨st.key, st.pos + 1⟩)

/-- `mt19937_next_double` = `random_sample()` = `rand()` = `uniform(0, 1)`: 27 + 26 random bits over 2^53 -/
def nextDouble (st : MT) : Rat × MT :=
  let (x, st) := next32 st
  let (y, st) := next32 st
  ((((x >>> 5) * 67108864 + (y >>> 6) : Nat) : Rat) / 9007199254740992, st)

/-- `numpy.random.rand(n)`: n consecutive doubles -/
def rand : Nat → MT → List Rat × MT
  | 0, st => ([], st)
  | n + 1, st =>
    let (u, st) := nextDouble st
    let (us, st) := rand n st
    (u :: us, st)

/-- the first `n` numbers a freshly seeded generator yields -/
def stream (s n : Nat) : List Rat := (rand n (seed s)).1

/-- `random_poisson_mult(lam)` with `enlam = exp(-lam)` supplied: the product of uniforms is a FLOAT product.
    `fuel` bounds the loop (the product reaches `enlam` after about `lam + 1` steps); `none` = fuel used up. -/
def poissonMult (enlam : Rat) : Nat → Rat → Nat → MT → Option (Nat × MT)
  | 0, _, _, _ => none
  | fuel + 1, prod, x, st =>
    let (u, st) := nextDouble st
    let prod := fmul prod u
    if prod > enlam then poissonMult enlam fuel prod (x + 1) st else some (x, st)

/-! ### seeded tests: functions of (rates, observed counts, number of simulations, seed) -/

/-- the rows `numpy.random.rand(n)` yields in `nsim` consecutive simulations -/
def rowsFrom : Nat → Nat → MT → List (List Rat) × MT
  | 0, _, st => ([], st)
  | k + 1, n, st =>
    let (row, st) := rand n st
    let (rows, st) := rowsFrom k n st
    (row :: rows, st)

/-- conditional Poisson tests (CL, S, M) with `seed=s`, no injected numbers:
    `numpy.random.seed(s)`, then per simulation `rand(int(n_obs))` placed by `_simulate_catalog` -/
def poissonTestSeeded (rates : List Rat) (obs : List Nat) (nsim s : Nat) : Option (List (List Nat)) :=
  Sampler.poissonTestInjected rates obs (rowsFrom nsim obs.sum (seed s)).1

/-- the simulation loop of the L-test for ANY sampler of the number of events (`draw`: the state in, the number and the
    state out; `none` = the sampler did not return): per simulation first the number, then `rand(number)` placed by
    `_simulate_catalog`. Returns the simulated arrays (each with ITS number of events); `none` = exception / no number. -/
def lTestLoopWith (ws : List Rat) (draw : MT → Option (Nat × MT)) : Nat → MT → Option (List (Nat × List Nat))
  | 0, _ => some []
  | k + 1, st =>
    match draw st with
    | none => none
    | some (n, st) =>
      let (row, st) := rand n st
      match Sampler.simulate ws row with
      | none => none
      | some arr => if Sampler.countAssert arr n then (lTestLoopWith ws draw k st).map ((n, arr) :: ·) else none

/-- the L-test with `seed=s` for a forecast mean below 10 (multiplication method, `exp(-mean)` supplied) -/
def lTestLoop (ws : List Rat) (enlam : Rat) : Nat → MT → Option (List (Nat × List Nat)) :=
  lTestLoopWith ws (poissonMult enlam 4096 1 0)

def lTestSeeded (rates : List Rat) (enlam : Rat) (nsim s : Nat) : Option (List (Nat × List Nat)) :=
  lTestLoop (Sampler.weights rates) enlam nsim (seed s)

/-! ### `random_poisson_ptrs(lam)` for `lam ≥ 10` (numpy/random/src/distributions/distributions.c; Hörmann's transformed
rejection with squeeze). Transcendental float operations (`sqrt`, `log`) are Lean's `Float` = the C library's, like numpy's:
this part of the model is EXECUTABLE ONLY (no theorem looks inside it) and is validated against numpy on every run. -/

/-- the uniform double as a `Float` (exact: 53 significant bits) -/
def toFloat (r : Rat) : Float := Float.ofInt r.num / Float.ofNat r.den

/-- `random_loggam(x)`: numpy's own log-gamma (asymptotic series after shifting x up to ≥ 7) -/
def loggam (x : Float) : Float :=
  if x == 1.0 || x == 2.0 then 0.0 else
    let n : Nat := if x < 7.0 then (7.0 - x).floor.toUInt64.toNat else 0
    let x0 := x + Float.ofNat n
    let x2 := (1.0 / x0) * (1.0 / x0)
    let a : List Float := [8.333333333333333e-02, -2.777777777777778e-03, 7.936507936507937e-04, -5.952380952380952e-04,
      8.417508417508418e-04, -1.917526917526918e-03, 6.410256410256410e-03, -2.955065359477124e-02, 1.796443723688307e-01,
      -1.39243221690590e+00]
    let gl0 := (a.take 9).reverse.foldl (fun g ak => g * x2 + ak) (a.getD 9 0.0)
    let gl := gl0 / x0 + 0.5 * 1.8378770664093453e+00 + (x0 - 0.5) * Float.log x0 - x0
    if x < 7.0 then
      ((List.range n).foldl (fun (p : Float × Float) _ => (p.1 - Float.log (p.2 - 1.0), p.2 - 1.0)) (gl, x0)).1
    else gl

def ptrsLoop (lam slam loglam a b invalpha vr : Float) : Nat → MT → Option (Nat × MT)
  | 0, _ => none
  | fuel + 1, st =>
    let (u0, st) := nextDouble st
    let (v0, st) := nextDouble st
    let U := toFloat u0 - 0.5
    let V := toFloat v0
    let us := 0.5 - U.abs
    let kf := ((2.0 * a / us + b) * U + lam + 0.43).floor
    if us >= 0.07 && V <= vr then some (kf.toUInt64.toNat, st)
    else if kf < 0.0 || (us < 0.013 && V > us) then ptrsLoop lam slam loglam a b invalpha vr fuel st
    else if Float.log V + Float.log invalpha - Float.log (a / (us * us) + b) <= -lam + kf * loglam - loggam (kf + 1.0)
      then some (kf.toUInt64.toNat, st)
    else ptrsLoop lam slam loglam a b invalpha vr fuel st

/-- `numpy.random.poisson(lam)` of the legacy generator: multiplication method below 10 (`exp(-lam)` in Float), PTRS from 10 on -/
def poissonFloat (lam : Float) (st : MT) : Option (Nat × MT) :=
  if lam >= 10.0 then
    let slam := Float.sqrt lam
    let b := 0.931 + 2.53 * slam
    let a := -0.059 + 0.02483 * b
    ptrsLoop lam slam (Float.log lam) a b (1.1239 + 1.1328 / (b - 3.4)) (0.9277 - 3.6224 / (b - 2.0)) 4096 st
  else if lam == 0.0 then some (0, st)
  else
    let enlam := Float.exp (-lam)
    let rec go : Nat → Float → Nat → MT → Option (Nat × MT)
      | 0, _, _, _ => none
      | fuel + 1, prod, x, st =>
        let (u0, st) := nextDouble st
        let prod := prod * toFloat u0
        if prod > enlam then go fuel prod (x + 1) st else some (x, st)
    go 4096 1.0 0 st

/-- the seeded L-test for ANY forecast mean (Float sampler of the number of events; placement exact as before) -/
def lTestSeededF (rates : List Rat) (lam : Float) (nsim s : Nat) : Option (List (Nat × List Nat)) :=
  lTestLoopWith (Sampler.weights rates) (poissonFloat lam) nsim (seed s)

/-- binary / Brier tests with `seed=s`: the rejection loops consume `uniform(0,1)` one number per iteration;
    `fuel` numbers are made available (the loop has no bound in the code: D10) -/
def binaryTestSeeded (rates : List Rat) (obs : List Nat) (nsim s fuel : Nat) : Option (List (List Nat)) :=
  Sampler.binaryTestStream rates obs nsim (stream s fuel)

/-! ### the GLOBAL generator: what a sequence of test calls in one process sees -/

/-- `if seed is not None: numpy.random.seed(seed)` on the global generator whose state is `g` -/
def applySeed (sd : Option Nat) (g : MT) : MT :=
  match sd with
  | some s => seed s
  | none => g

/-- one call of a conditional Poisson test in a process whose global generator is in state `g`:
    the result and the state the call leaves behind -/
structure Call where
  rates : List Rat
  obs : List Nat
  nsim : Nat
  seed : Option Nat

def runCall (c : Call) (g : MT) : Option (List (List Nat)) × MT :=
  let r := rowsFrom c.nsim c.obs.sum (applySeed c.seed g)
  (Sampler.poissonTestInjected c.rates c.obs r.1, r.2)

/-- a sequence of calls on the same global generator -/
def session : List Call → MT → List (Option (List (List Nat)))
  | [], _ => []
  | c :: cs, g => (runCall c g).1 :: session cs (runCall c g).2

end SamplerRng
