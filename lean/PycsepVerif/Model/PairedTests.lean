import PycsepVerif.RealOps
import PycsepVerif.Soft64
/-
  Model of the paired T- and W-tests (C08):
    csep/core/poisson_evaluations.py:462   _t_test_ndarray(rates1, rates2, n_obs, n_f1, n_f2, alpha)
    csep/core/poisson_evaluations.py:517   _w_test_ndarray(x, m)
    csep/core/poisson_evaluations.py:14/58 paired_t_test / w_test (inputs: target_event_rates of both forecasts,
                                           N = catalogue event count, N1/N2 forecast totals)
    csep/core/binomial_evaluations.py:300  matrix_binary_t_test, :358 binary_paired_t_test

  T-test: real layer, generic over `[RealOps α]`; the Student-t quantile `t.ppf(1 - alpha/2, N - 1)` is a parameter
  `tcrit` (the harness supplies scipy's value). W-test: exact on `Rat` (every float64 is a rational): the one float
  operation before ranking, `d = x - m`, is Soft64's `fsub`; ranks, rank sums, mean and tie-corrected variance term
  are exact; only `z = (T - mn)/sqrt(se/24)` and `p = 2 sf(|z|)` are in the real layer with `sf` a parameter.
-/
namespace PairedTests
open RealOps

section T
variable {α : Type} [RealOps α]

def sq (x : α) : α := mul x x

/-- X1 - X2 with X = numpy.log(target_event_rates) -/
def logDiffs (rA rB : List α) : List α := List.zipWith (fun a b => sub (log a) (log b)) rA rB

/-- information_gain = (sum(X1 - X2) - (N1 - N2)) / N          (Rhoades et al. 2011, Eq. 17) -/
def infoGain (rA rB : List α) (N NA NB : α) : α :=
  div (sub (RealOps.sum (logDiffs rA rB)) (sub NA NB)) N

/-- forecast_variance = sum((X1-X2)^2)/(N-1) - sum(X1-X2)^2/(N^2-N)   (Eq. 18) -/
def variance (rA rB : List α) (N : α) : α :=
  let X := logDiffs rA rB
  let S := RealOps.sum X
  sub (div (RealOps.sum (X.map sq)) (sub N one)) (div (mul S S) (sub (mul N N) N))

/-- t_statistic = information_gain / (forecast_std / sqrt(N)) -/
def tStat (rA rB : List α) (N NA NB : α) : α :=
  div (infoGain rA rB N NA NB) (div (sqrt (variance rA rB N)) (sqrt N))

/-- ig_lower = information_gain - (t_critical * forecast_std / sqrt(N)) -/
def igLower (rA rB : List α) (N NA NB tcrit : α) : α :=
  sub (infoGain rA rB N NA NB) (div (mul tcrit (sqrt (variance rA rB N))) (sqrt N))

/-- ig_upper = information_gain + (t_critical * forecast_std / sqrt(N)) -/
def igUpper (rA rB : List α) (N NA NB tcrit : α) : α :=
  add (infoGain rA rB N NA NB) (div (mul tcrit (sqrt (variance rA rB N))) (sqrt N))

/-- the five numbers `_t_test_ndarray` returns (t_critical is the parameter itself) -/
structure TOut (α : Type) where
  ig : α
  t : α
  lower : α
  upper : α
  var : α

def tTest (rA rB : List α) (N : Nat) (NA NB tcrit : α) : TOut α :=
  let n : α := ofNat N
  { ig := infoGain rA rB n NA NB, t := tStat rA rB n NA NB, lower := igLower rA rB n NA NB tcrit,
    upper := igUpper rA rB n NA NB tcrit, var := variance rA rB n }

/-! binary (per-active-bin) variant -/

/-- numpy.unique(numpy.nonzero(catalog.spatial_magnitude_counts().ravel())): the flat bin indices with a non-zero
    observed count, ascending. `ev` = flat bin index (space·n_mag + magnitude) of every event, `nb` = number of bins -/
def activeBins (nb : Nat) (ev : List Nat) : List Nat := (List.range nb).filter (fun i => ev.count i != 0)

/-- binary_paired_t_test: the T formulas on `data.ravel()[active]` of both forecasts with N = number of active bins
    (n_obs is passed but only kept as `N_p`, unused) -/
def binaryT (dataA dataB : Nat → α) (nb : Nat) (ev : List Nat) (NA NB tcrit : α) : TOut α :=
  let act := activeBins nb ev
  tTest (act.map dataA) (act.map dataB) act.length NA NB tcrit

/-- z = (T - mn) / sqrt(se / 24) -/
def wZ (T mn se24 : α) : α := div (sub T mn) (sqrt (div se24 (ofNat 24)))

def absR (z : α) : α := if lt z zero then neg z else z

/-- prob = 2 * norm.sf(|z|) with the normal survival function a parameter -/
def wP (sf : α → α) (z : α) : α := mul (ofNat 2) (sf (absR z))

end T

/-! ### W-test, exact layer -/

def absQ (a : Rat) : Rat := if a < 0 then -a else a

/-- numpy.compress(numpy.not_equal(d, 0), d) -/
def removeZeros (d : List Rat) : List Rat := d.filter (fun a => a != 0)

/-- twice the 'average' rank (scipy.stats.rankdata) of the value `a` in the list `l`:
    rank = #{b < a} + (#{b = a} + 1)/2 -/
def rank2 (l : List Rat) (a : Rat) : Nat :=
  2 * l.countP (fun b => decide (b < a)) + l.countP (fun b => decide (b = a)) + 1

/-- twice r_plus = sum((d > 0) * r) -/
def rPlus2 (d : List Rat) : Nat :=
  let l := d.map absQ
  (d.map (fun a => if 0 < a then rank2 l (absQ a) else 0)).sum

/-- twice r_minus = sum((d < 0) * r) -/
def rMinus2 (d : List Rat) : Nat :=
  let l := d.map absQ
  (d.map (fun a => if a < 0 then rank2 l (absQ a) else 0)).sum

/-- sum over the groups of tied ranks (numpy.unique(r, return_counts), repnum > 1) of t(t²-1); equal ranks are
    exactly equal values of |d| -/
def tieTerm (l : List Rat) : Nat :=
  (((l.eraseDups.map (fun v => l.count v)).filter (fun t => decide (t > 1))).map (fun t => t * (t * t - 1))).sum

structure WStats where
  count : Nat
  /-- 2·T, T = min(r_plus, r_minus) -/
  t2 : Nat
  /-- 4·mn, mn = count(count+1)/4 -/
  mn4 : Nat
  /-- se before the division by 24 and the square root: c(c+1)(2c+1) − ½ Σ t(t²−1) -/
  se24 : Rat
  deriving DecidableEq, Repr

/-- `_w_test_ndarray` after `d = x - m`, up to the final square root -/
def wStatsD (d0 : List Rat) : WStats :=
  let d := removeZeros d0
  let c := d.length
  { count := c, t2 := min (rPlus2 d) (rMinus2 d), mn4 := c * (c + 1),
    se24 := ((c * (c + 1) * (2 * c + 1) : Nat) : Rat) - ((tieTerm (d.map absQ) : Nat) : Rat) / 2 }

/-- `_w_test_ndarray(x, m)`: d = x - m in float64 -/
def wStats (x : List Rat) (m : Rat) : WStats := wStatsD (x.map (fun a => Soft64.fsub a m))

end PairedTests
