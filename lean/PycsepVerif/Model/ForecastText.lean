import PycsepVerif.Model.DecimalText
import PycsepVerif.Model.ForecastFile
/-
  Text layer of C11: from the CHARACTERS of a CSEP1 `.dat` forecast file to the loaded forecast.

  `GriddedForecast.load_ascii` (csep/core/forecasts.py:386-436) starts with `data = numpy.loadtxt(ascii_fname, ndmin=2)`
  (:400) and infers the cell size from `Decimal(repr(·))` of two entries of the first row (:418).  Both steps were inputs
  of `Model/ForecastFile` (`File` = rows of rationals, `dLo dHi`); here they are modelled:

    * `DecimalText.loadtxt` — lines, `#` comments, blank lines, blank-separated tokens, every token → nearest double;
    * `DecimalText.reprValue` — the decimal `repr` writes for a double.

  Also the option handling of `csep.load_gridded_forecast` (csep/__init__.py:455-475) and the default name of
  `load_ascii` (forecasts.py:431).
-/
namespace ForecastFile
open DecimalText

/-- a row of `data` (ten columns) as a `Row`; any other width makes `data[:, -4]`… address other columns: the model
    refuses widths other than ten (`none`) -/
def rowOfList : List Rat → Option Row
  | [a, b, c, d, e, f, g, h, i, j] => some ⟨a, b, c, d, e, f, g, h, i, j⟩
  | _ => none

/-- `numpy.loadtxt(fname, ndmin=2)` as the list of `Row`s; `none` = loadtxt raises or a line has not ten columns -/
def parseDat (text : String) : Option File :=
  match loadtxt text with
  | none => none
  | some rs => rs.mapM rowOfList

/-- `dh` of forecasts.py:418 from the first row alone -/
def dhOfRow (r : Row) : Rat := Soft64.fl64 (reprValue r.c3 - reprValue r.c2)

/-- `load_ascii` from the characters of the file -/
def loadText (swap : Bool) (text : String) : Option Forecast :=
  match parseDat text with
  | none => none
  | some [] => none
  | some (r :: rs) => load swap (reprValue r.c2) (reprValue r.c3) (r :: rs)

/-! ## `csep.load_gridded_forecast(fname, loader=None, **kwargs)` (csep/__init__.py:455-475): which way a call goes -/

inductive LoadOutcome where
  | fileNotFound          -- `os.path.exists(fname)` is false (:456)
  | attributeError        -- loader given but not callable (:460) / unknown extension without loader (:464)
  | notImplemented        -- extension xml / h5 / bin (:468), EVEN when a loader is given
  | useLoader             -- the caller's loader is called with (fname, **kwargs)
  | useAscii              -- extension dat, no loader: `GriddedForecast.load_ascii`
  deriving DecidableEq, Repr

/-- the decision sequence of `load_gridded_forecast`, in the order of the code.
    `loader`: `none` = not given, `some callable?`. -/
def loadDispatch (existsFile : Bool) (ext : String) (loader : Option Bool) : LoadOutcome :=
  if !existsFile then .fileNotFound
  else if loader = some false then .attributeError
  else if !(["dat", "xml", "h5", "bin"].contains ext) && loader.isNone then .attributeError
  else if ["xml", "h5", "bin"].contains ext then .notImplemented
  else if loader.isNone then .useAscii else .useLoader

/-- `os.path.splitext(fname)[-1][1:]`: the characters after the last `.` of the last path component, `""` when there is
    none or the component starts with its only dot(s) -/
def extOfAux : List Char → List Char → Bool → List Char
  -- scanning the reversed basename: acc = characters after the last '.'; found only if a non-dot char precedes the dot
  | [], _, _ => []
  | c :: cs, acc, _ =>
    if c = '.' then (if cs.any (fun d => d ≠ '.') then acc else []) else extOfAux cs (c :: acc) false

def baseName (p : List Char) : List Char := (p.reverse.takeWhile (· ≠ '/')).reverse

def extOf (path : String) : String := String.ofList (extOfAux (baseName path.toList).reverse [] false)

/-- default forecast name of `load_ascii`: `os.path.basename(ascii_fname[:-4])` (forecasts.py:431) -/
def defaultName (path : String) : String :=
  String.ofList (baseName (path.toList.take (path.toList.length - 4)))

end ForecastFile
