import PycsepVerif.Model.CatalogText
/-
  Round 4 of C12: three parts of the loading path that were trusted / not modelled until now.

  1. **The generator protocol.**  `CSEPCatalog.load_ascii_catalogs` (csep/core/catalogs.py:921-1053) is a generator:
     `csep.load_stochastic_event_sets` (csep/__init__.py:65-110) and `CatalogForecast` (csep/core/forecasts.py, `__next__`)
     pull one catalog at a time, so a consumer of a file that is rejected at line k has already received every catalog
     yielded before line k.  `Model/AsciiCatalogs.decode` returns "error" for the whole file; `yields` / `stream` return what
     a lazy consumer sees: the catalogs yielded line by line, then either the final flush or the exception.

  2. **Records that span lines.**  The file is opened with `newline=''` (:992) and `csv.reader` keeps a quoted field open
     across physical lines (CPython `_csv.c`: in state IN_QUOTED_FIELD every character, line terminators included, is added
     to the field; at the end of the input an open quoted field is closed — the reader is not strict).  `csvScan` is the
     state machine of `csvAux` returning its state at the end of a physical line; `csvML` carries an open quoted field over
     to the next line.  `decodeTextML` is the loader on the characters of ANY text.

  3. **Option handling of the two public loaders** (csep/__init__.py:65-110, :478-521): which calls are refused before a
     line is read.
-/
namespace AsciiCatalogs
open DecimalText

/-! ## 1. the generator, consumed lazily -/

/-- the catalogs yielded while reading `lines` from state `s`, and the state reached (or the exception raised) -/
def yields (s : St) : List Line → List Catalog × Except Err St
  | [] => ([], .ok s)
  | l :: ls =>
    match step s l with
    | .error e => ([], .error e)
    | .ok (s', out) => (out ++ (yields s' ls).1, (yields s' ls).2)

/-- everything a consumer receives from `load_ascii_catalogs(f)` before the generator ends (`none`) or raises (`some e`) -/
def stream (lines : List Line) : List Catalog × Option Err :=
  match yields ⟨none, []⟩ lines with
  | (out, .ok s) => (out ++ [⟨s.prev, s.events⟩], none)
  | (out, .error e) => (out, some e)

/-- the same on the records of a text -/
def yieldsFields (s : St) : List (List String) → List Catalog × Except Err St
  | [] => ([], .ok s)
  | l :: ls =>
    match stepFields s l with
    | .error e => ([], .error e)
    | .ok (s', out) => (out ++ (yieldsFields s' ls).1, (yieldsFields s' ls).2)

def streamFields (recs : List (List String)) : List Catalog × Option Err :=
  match yieldsFields ⟨none, []⟩ recs with
  | (out, .ok s) => (out ++ [⟨s.prev, s.events⟩], none)
  | (out, .error e) => (out, some e)

/-! ## 2. csv records that span physical lines -/

/-- `csvAux` without the end-of-line decision: reader state, current field (reversed), finished fields (reversed) after the
    characters of one physical line -/
def csvScan : CsvSt → List Char → List Char → List String → CsvSt × List Char × List String
  | st, [], cur, acc => (st, cur, acc)
  | .startField, c :: cs, cur, acc =>
    if c = '"' then csvScan .inQuoted cs cur acc
    else if c = ',' then csvScan .startField cs [] (String.ofList cur.reverse :: acc)
    else csvScan .inField cs (c :: cur) acc
  | .inField, c :: cs, cur, acc =>
    if c = ',' then csvScan .startField cs [] (String.ofList cur.reverse :: acc)
    else csvScan .inField cs (c :: cur) acc
  | .inQuoted, c :: cs, cur, acc =>
    if c = '"' then csvScan .quoteInQuoted cs cur acc else csvScan .inQuoted cs (c :: cur) acc
  | .quoteInQuoted, c :: cs, cur, acc =>
    if c = '"' then csvScan .inQuoted cs ('"' :: cur) acc
    else if c = ',' then csvScan .startField cs [] (String.ofList cur.reverse :: acc)
    else csvScan .inField cs (c :: cur) acc

/-- the record a finished scan stands for -/
def finishRecord (cur : List Char) (acc : List String) : List String := (String.ofList cur.reverse :: acc).reverse

/-- physical lines WITH their terminators (`\n`, `\r\n`, `\r`; the last line may have none) -/
def splitLinesTAux : List Char → List Char → List (List Char × List Char) → List (List Char × List Char)
  | [], cur, acc => (if cur.isEmpty then acc else (cur.reverse, []) :: acc).reverse
  | '\r' :: '\n' :: cs, cur, acc => splitLinesTAux cs [] ((cur.reverse, ['\r', '\n']) :: acc)
  | c :: cs, cur, acc =>
    if c = '\n' ∨ c = '\r' then splitLinesTAux cs [] ((cur.reverse, [c]) :: acc) else splitLinesTAux cs (c :: cur) acc

def splitLinesT (s : List Char) : List (List Char × List Char) := splitLinesTAux s [] []

/-- `csv.reader` over the physical lines of a file opened with `newline=''`.  `carry = some (cur, acc)`: a quoted field is
    open (state IN_QUOTED_FIELD) with `cur` read so far; `none`: at the start of a record.  A physical line that ends inside
    a quoted field adds its terminator to the field and the record goes on; at the end of the input an open field is closed. -/
def csvML : Option (List Char × List String) → List (List Char × List Char) → List (List String)
  | none, [] => []
  | some (cur, acc), [] => [finishRecord cur acc]
  | none, ([], _) :: rest => [] :: csvML none rest                 -- an empty line is the empty record
  | carry, (l, term) :: rest =>
    let r := match carry with
      | none => csvScan .startField l [] []
      | some (cur, acc) => csvScan .inQuoted l cur acc
    if r.1 = .inQuoted then csvML (some (term.reverse ++ r.2.1, r.2.2)) rest
    else finishRecord r.2.1 r.2.2 :: csvML none rest

/-- the records of ANY text -/
def csvRecordsML (text : String) : List (List String) := csvML none (splitLinesT text.toList)

/-- `list(CSEPCatalog.load_ascii_catalogs(f))` from the characters of the file, quoted fields may contain line breaks -/
def decodeTextML (text : String) : Except Err (List Catalog) := loopFields ⟨none, []⟩ (csvRecordsML text)

/-- … and consumed lazily -/
def streamTextML (text : String) : List Catalog × Option Err := streamFields (csvRecordsML text)

/-! ## 3. option handling of `load_stochastic_event_sets` and `load_catalog_forecast` -/

inductive SesOutcome where
  | valueErrorType        -- `type not in ('ucerf3', 'csv')` (csep/__init__.py:84): raised when the generator is first advanced
  | ucerf3                -- UCERF3 binary reader (not modelled)
  | csvNative             -- catalogs of `load_ascii_catalogs`, as they are
  | csvCsep               -- … each converted with `get_csep_format()` (the identity on a CSEPCatalog)
  | valueErrorFormat      -- any other `format`: ValueError when the first catalog is pulled (:108)
  deriving DecidableEq, Repr

/-- `csep.load_stochastic_event_sets(filename, type, format)`: the decision sequence in code order (the function is a
    generator: nothing happens before the first `next`) -/
def sesDispatch (type format : String) : SesOutcome :=
  if !(["ucerf3", "csv"].contains type) then .valueErrorType
  else if type = "ucerf3" then .ucerf3
  else if format = "native" then .csvNative
  else if format = "csep" then .csvCsep
  else .valueErrorFormat

inductive CfOutcome where
  | fileNotFound          -- :496
  | attributeError        -- loader given but not callable (:500)
  | keyError              -- no loader and `type` not in the mapping (:507)
  | forecast (ownLoader : Bool) (nameFromFile : Bool)   -- a CatalogForecast is built; defaults parsed from the file name?
  deriving DecidableEq, Repr

/-- `csep.load_catalog_forecast(fname, catalog_loader, format, type)`: `loader` = `none` (not given) / `some callable?` -/
def cfDispatch (existsFile : Bool) (loader : Option Bool) (format type : String) : CfOutcome :=
  if !existsFile then .fileNotFound
  else if loader = some false then .attributeError
  else if loader.isNone && !(["ascii", "ucerf3"].contains type) then .keyError
  else .forecast loader.isSome (format = "native" && type = "ascii")

/-! ## 4. keyword plumbing of `load_catalog_forecast(fname, catalog_loader, format, type, **kwargs)`

  The extra keywords go to `CatalogForecast.__init__` (csep/core/forecasts.py:476-575) and act in `__next__` (:580-640): the
  filter stage runs only when `apply_filters` is set, and then each of `filters`, `apply_mct`, `filter_spatial` only when it
  is configured; `store` decides whether a second pass replays the stored catalogs or calls the loader again; `region`, `name`,
  `n_cat`, `start_time`, `end_time` are stored.  What the stage does to a catalog is C04 / C13's subject: a parameter here. -/

structure CfKw where
  applyFilters : Bool      -- `apply_filters`
  hasFilters : Bool        -- `filters` non-empty
  applyMct : Bool          -- `apply_mct`
  filterSpatial : Bool     -- `filter_spatial`
  hasRegion : Bool         -- `region` given
  store : Bool             -- `store`
  deriving DecidableEq, Repr

/-- does `__next__` touch the decoded catalogs at all? -/
def CfKw.stageActive (k : CfKw) : Bool := k.applyFilters && (k.hasFilters || k.applyMct || k.filterSpatial)

/-- the catalogs one pass over the forecast delivers, given what the loader decodes -/
def delivered (k : CfKw) (stage : Catalog → Catalog) (decoded : List Catalog) : List Catalog :=
  if k.stageActive then decoded.map stage else decoded

/-- a second pass: the stored (already filtered) catalogs with the stage switched off (`store=True`: forecasts.py:607-611), or
    the loader called again and the stage applied again (`store=False`) -/
def secondPass (k : CfKw) (stage : Catalog → Catalog) (decoded : List Catalog) : List Catalog :=
  if k.store then delivered k stage decoded else delivered k stage decoded

/-- `csep.load_catalog_forecast(text, **kw)` iterated once: `none` = the loader raises -/
def forecastPass (k : CfKw) (stage : Catalog → Catalog) (text : String) : Option (List Catalog) :=
  match decodeTextML text with
  | .ok cs => some (delivered k stage cs)
  | .error _ => none

end AsciiCatalogs
