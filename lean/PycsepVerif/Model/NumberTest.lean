import PycsepVerif.RealOps
import PycsepVerif.Model.Ecdf
/-
  Model of the three number tests (C07):
    csep/core/poisson_evaluations.py:446   _number_test_ndarray(fore_cnt, obs_cnt, epsilon=1e-6)
        delta1 = 1.0 - scipy.stats.poisson.cdf(obs_cnt - epsilon, fore_cnt)
        delta2 = scipy.stats.poisson.cdf(obs_cnt + epsilon, fore_cnt)
    csep/core/binomial_evaluations.py:9    _nbd_number_test_ndarray(fore_cnt, obs_cnt, variance, epsilon=1e-6)
        upsilon = mean / var;  tau = mean**2 / (var - mean)        (fix D47; before: 1.0 - ((var - mean) / var))
        delta1 = 1.0 - nbinom.cdf(obs_cnt - epsilon, tau, upsilon);  delta2 = nbinom.cdf(obs_cnt + epsilon, tau, upsilon)
    csep/core/catalog_evaluations.py:26    number_test: get_quantiles(event_counts, obs_count)   (C09's model)

  Real layer: every definition is generic over `[RealOps α] [FloorOps α]`; instantiated at Float by the driver
  and at ℝ (Proofs/NumberTest.lean) by the theorems. scipy's `poisson.cdf(x, μ)` / `nbinom.cdf(x, r, p)` are the
  finite sums of the probability mass function up to ⌊x⌋ (0 for x < 0) -- that they compute these sums is the
  trusted fact which the Float instance is compared with on every run.
-/

/-- floor of a real number as a natural number; `none` for a negative argument (scipy: cdf(x) = 0 for x < 0) -/
class FloorOps (α : Type) where
  floorNat : α → Option Nat

instance : FloorOps Float where
  floorNat := fun x => if x < 0.0 then none else some (Float.floor x).toUInt64.toNat

namespace NumberTest
open RealOps
variable {α : Type} [RealOps α]

/-- Σ_{j<k} f j -/
def sumTo (f : Nat → α) : Nat → α
  | 0 => zero
  | k + 1 => add (sumTo f k) (f k)

/-- Poisson probability mass e^{-μ} μ^j / j!, by the recurrence pmf(j+1) = pmf(j)·μ/(j+1) -/
def poisPmf (μ : α) : Nat → α
  | 0 => exp (neg μ)
  | j + 1 => div (mul (poisPmf μ j) μ) (ofNat (j + 1))

/-- negative-binomial probability mass C(k+r-1, k) p^r (1-p)^k with the generalised binomial coefficient
    Π_{i<k}(r+i)/(i+1); p^r = exp(r log p).  pmf(k+1) = pmf(k)·(r+k)(1-p)/(k+1) -/
def nbPmf (r p : α) : Nat → α
  | 0 => exp (mul r (log p))
  | k + 1 => div (mul (mul (nbPmf r p k) (add r (ofNat k))) (sub one p)) (ofNat (k + 1))

/-- the discrete cdf P(N ≤ ⌊x⌋) of a mass function on ℕ, 0 for x < 0 -/
def cdfOf [FloorOps α] (pmf : Nat → α) (x : α) : α :=
  match FloorOps.floorNat x with
  | none => zero
  | some k => sumTo pmf (k + 1)

/-- scipy.stats.poisson.cdf(x, μ) -/
def poisCdf [FloorOps α] (μ x : α) : α := cdfOf (poisPmf μ) x
/-- scipy.stats.nbinom.cdf(x, r, p) -/
def nbCdf [FloorOps α] (r p x : α) : α := cdfOf (nbPmf r p) x

/-- (delta1, delta2) = (1 − cdf(n − ε), cdf(n + ε)) for an arbitrary cdf -/
def delta12With (cdf : α → α) (n : Nat) (ε : α) : α × α :=
  (sub one (cdf (sub (ofNat n) ε)), cdf (add (ofNat n) ε))

/-- poisson_evaluations._number_test_ndarray(fore_cnt = μ, obs_cnt = n, epsilon = ε) -/
def delta12 [FloorOps α] (μ : α) (n : Nat) (ε : α) : α × α := delta12With (poisCdf μ) n ε

/-- NBD parameters exactly as the code forms them: (tau, upsilon) = (mean²/(var−mean), mean/var)
    (binomial_evaluations.py:24-25; until fix D47 the code formed upsilon as 1 − (var−mean)/var, see `nbdParamsOld`) -/
def nbdParams (mean var : α) : α × α :=
  (div (mul mean mean) (sub var mean), div mean var)

/-- the parameters as the code formed them BEFORE fix D47: upsilon = 1.0 − ((var − mean)/var) — the same real number,
    three roundings instead of one; kept for the findings about the old code -/
def nbdParamsOld (mean var : α) : α × α :=
  (div (mul mean mean) (sub var mean), sub one (div (sub var mean) var))

/-- binomial_evaluations._nbd_number_test_ndarray(fore_cnt = mean, obs_cnt = n, variance = var, epsilon = ε) -/
def nbdDelta12 [FloorOps α] (mean : α) (n : Nat) (var ε : α) : α × α :=
  let tp := nbdParams mean var
  delta12With (nbCdf tp.1 tp.2) n ε

/-! ### numerically stable evaluation of the same sums (what the Float instance runs)

`exp(-μ)` underflows for μ > 745, so for the Float comparison the sum Σ_{j≤n} pmf(j) is evaluated from an
anchor index `a ≤ n` whose term `tA = pmf a` is computed in log space, going down by `t/ρ(j-1)` and up by
`t·ρ(j)`, where `ρ j = pmf(j+1)/pmf(j)`. `Proofs/NumberTest.lean` proves (over ℝ) that this is the same number. -/

/-- Σ_{j ≤ a} pmf j, given t = pmf a and pmf(j) = pmf(j+1)/ρ(j) -/
def downSum (ρ : Nat → α) : Nat → α → α
  | 0, t => t
  | j + 1, t => add t (downSum ρ j (div t (ρ j)))

/-- Σ_{a < j ≤ a+m} pmf j, given t = pmf a and pmf(j+1) = pmf(j)·ρ(j) -/
def upSum (ρ : Nat → α) (a : Nat) : Nat → α → α
  | 0, _ => zero
  | m + 1, t => let t' := mul t (ρ a); add t' (upSum ρ (a + 1) m t')

/-- Σ_{j ≤ n} pmf j from the anchor a ≤ n -/
def cdfAnch (ρ : Nat → α) (tA : α) (a n : Nat) : α :=
  add (downSum ρ a tA) (upSum ρ a (n - a) tA)

def poisRatio (μ : α) (j : Nat) : α := div μ (ofNat (j + 1))
/-- log-space Poisson term exp(j log μ − μ − log j!) -/
def poisPmfLog (μ : α) (j : Nat) : α := exp (sub (sub (mul (ofNat j) (log μ)) μ) (logFact j))

def nbRatio (r p : α) (k : Nat) : α := div (mul (add r (ofNat k)) (sub one p)) (ofNat (k + 1))
/-- Σ_{i<k} log((r+i)/(i+1)) = log of the generalised binomial coefficient -/
def logChoose (r : α) (k : Nat) : α := sumTo (fun i => log (div (add r (ofNat i)) (ofNat (i + 1)))) k
/-- log-space NBD term exp(log C + r log p + k log(1-p)) -/
def nbPmfLog (r p : α) (k : Nat) : α :=
  exp (add (add (logChoose r k) (mul r (log p))) (mul (ofNat k) (log (sub one p))))

/-- anchored cdf at a real argument -/
def cdfAnchOf [FloorOps α] (ρ : Nat → α) (tAt : Nat → α) (anchor : Nat) (x : α) : α :=
  match FloorOps.floorNat x with
  | none => zero
  | some k => let a := min anchor k; cdfAnch ρ (tAt a) a k

def delta12S [FloorOps α] (μ : α) (anchor n : Nat) (ε : α) : α × α :=
  delta12With (cdfAnchOf (poisRatio μ) (poisPmfLog μ) anchor) n ε

def nbdDelta12S [FloorOps α] (mean : α) (anchor n : Nat) (var ε : α) : α × α :=
  let tp := nbdParams mean var
  delta12With (cdfAnchOf (nbRatio tp.1 tp.2) (nbPmfLog tp.1 tp.2) anchor) n ε

/-- catalog N-test: get_quantiles(event_counts, obs_count) on the integer catalogue sizes -/
def catalogNTest (sizes : List Nat) (nobs : Nat) : Option (Nat × Nat) × Option (Nat × Nat) :=
  Ecdf.getQuantiles (sizes.map (fun (k : Nat) => (k : Rat))) (nobs : Rat)

end NumberTest
