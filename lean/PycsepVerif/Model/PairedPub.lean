import PycsepVerif.Model.PairedTests
/-
  Model of the PUBLIC paired tests (C08) -- what the wrappers do before they call the array-level helpers of
  `Model/PairedTests.lean`:

    csep/core/forecasts.py:47-75    GriddedDataSet: `_data`, `_scale = 1`; data = self._data * self._scale
    csep/core/forecasts.py:78-84    event_count = numpy.sum(self.data)
    csep/core/forecasts.py:286-327  target_event_rates(catalog, scale):
        data = self.data / (end_time - start_time).days  if scale  else self.data        (:306-316)
        rates = self.get_rates(lons, lats, mags, data=data) = data[idx, idm]              (:319-324, :330-358)
        return rates, numpy.sum(data)                                                     (:326)
    csep/core/poisson_evaluations.py:14   paired_t_test: _t_test_ndarray(rates1, rates2, catalog.event_count, n1, n2, alpha)
    csep/core/poisson_evaluations.py:58   w_test: x = log(rates1) - log(rates2) (rates possibly scaled),
                                          m = (forecast1.event_count - forecast2.event_count) / catalog.event_count
                                          (the totals are NOT divided by the days, also when scale=True)
    csep/core/binomial_evaluations.py:360 binary_paired_t_test: data.ravel()[active] of the UNSCALED-by-days data,
                                          totals from target_event_rates (scaled by days when scale=True)

  An event enters as the flat index `idx * n_mag + idm` of its space-magnitude bin (the lookup itself is C01/C02's
  subject; the harness generates events with known bins and also checks the code's own lookup against them).
-/
namespace PairedTests
open RealOps

section Real
variable {α : Type} [RealOps α]

/-- a gridded forecast as the paired tests see it: stored rates (row-major), `_scale`, horizon in whole days -/
structure Fc (α : Type) where
  base : List α
  factor : α
  days : Nat

/-- the `data` property -/
def Fc.data (f : Fc α) : List α := f.base.map (fun x => mul x f.factor)
/-- `event_count` -/
def Fc.eventCount (f : Fc α) : α := RealOps.sum f.data
/-- the array `target_event_rates` works on -/
def Fc.dataFor (f : Fc α) (scale : Bool) : List α :=
  if scale then f.data.map (fun x => div x (ofNat f.days)) else f.data
/-- `target_event_rates(catalog, scale)`: (rate of every event's bin, total of the array used) -/
def Fc.targetRates (f : Fc α) (ev : List Nat) (scale : Bool) : List α × α :=
  (ev.map (fun i => (f.dataFor scale).getD i zero), RealOps.sum (f.dataFor scale))

/-- poisson_evaluations.paired_t_test -/
def pairedTPub (fa fb : Fc α) (ev : List Nat) (scale : Bool) (tcrit : α) : TOut α :=
  tTest (fa.targetRates ev scale).1 (fb.targetRates ev scale).1 ev.length
    (fa.targetRates ev scale).2 (fb.targetRates ev scale).2 tcrit

/-- binomial_evaluations.binary_paired_t_test (`nb` = number of space-magnitude bins) -/
def binaryTPub (fa fb : Fc α) (nb : Nat) (ev : List Nat) (scale : Bool) (tcrit : α) : TOut α :=
  binaryT (fun i => fa.data.getD i zero) (fun i => fb.data.getD i zero) nb ev
    (fa.targetRates ev scale).2 (fb.targetRates ev scale).2 tcrit

end Real

/-! ### W-test inputs in float64 (exact layer): `LA`, `LB` are the doubles numpy.log returned for the target rates -/

/-- x = X1 − X2 (element-wise float64 subtraction) -/
def wX (LA LB : List Rat) : List Rat := List.zipWith Soft64.fsub LA LB
/-- median_value = (N1 − N2) / N in float64 -/
def wM (n1 n2 n : Rat) : Rat := Soft64.fdiv (Soft64.fsub n1 n2) n
/-- poisson_evaluations.w_test up to the square root -/
def wStatsPub (LA LB : List Rat) (n1 n2 n : Rat) : WStats := wStats (wX LA LB) (wM n1 n2 n)

end PairedTests
