import PycsepVerif.Model.ForecastIter
/-!
  Model of `CatalogForecast.get_expected_rates` (csep/core/forecasts.py:695-726) INCLUDING the exception its loop body can
  raise (round 4 of property C13).

  Until now "every surviving event lies inside the region" was a hypothesis of the C13 model (`binCounts` silently ignored an
  event whose bin index is not below `nBins`).  The code does not ignore it:

      for i, cat in enumerate(self):
          cat.region = self.region
          gridded_counts = cat.spatial_magnitude_counts()     # ValueError: a point outside the region / below the first
          if i == 0: data = numpy.array(gridded_counts)       #   magnitude edge (catalogs.py:771-779, C03)
          else:      data += numpy.array(gridded_counts)
      data = data / self.n_cat

  The exception leaves the for-loop with the forecast's cursor (and its generator) in the middle of the pass: `ratesLoop`
  returns the state exactly as the last `__next__` left it.  Events are abstract as in `Model/ForecastIter.lean`; an event
  that lies in no space-magnitude bin of the forecast's grid has `cell ≥ nBins`.
-/
namespace ForecastIter

/-- `cat.spatial_magnitude_counts()` (after `cat.region = self.region`) does not raise: every event of the catalog lies in a bin -/
def countable (nBins : Nat) (c : Cat) : Bool := c.events.all (fun e => decide (e.cell < nBins))

/-- `if i == 0: data = counts  else: data += counts` -/
def accStep (nBins : Nat) (i : Nat) (d : Option (List Nat)) (c : Cat) : Option (List Nat) :=
  if i = 0 then some (binCounts nBins (rebind c)) else d.map (fun v => addVec v (binCounts nBins (rebind c)))

inductive LoopX where
  | done (st : St) (d : Option (List Nat))     -- the for-loop ended by StopIteration
  | raised (st : St) (pos : Nat)               -- ValueError in the loop body at catalog number `pos` of this pass
  | failed                                     -- AssertionError of `__next__` (or the fuel ran out, which never happens)
  deriving Repr, DecidableEq

/-- the for-loop of `get_expected_rates` with its body -/
def ratesLoop (nBins : Nat) : Nat → St → Nat → Option (List Nat) → LoopX
  | 0, _, _, _ => .failed
  | fuel + 1, st, i, d =>
    match next st with
    | (st', .yield c) =>
      if countable nBins c then ratesLoop nBins fuel st' (i + 1) (accStep nBins i d c) else .raised st' i
    | (st', .stop) => .done st' d
    | (_, .assertFail) => .failed

inductive RatesX where
  | ok (st : St) (r : List Nat × Nat)
  | raised (st : St) (pos : Nat)
  | failed
  deriving Repr, DecidableEq

/-- `get_expected_rates` as the code is: cached forecast returned; otherwise one pass whose body may raise; the divisor
    `self.n_cat` is read after the pass -/
def getExpectedRatesX (st : St) : RatesX :=
  match st.expectedRates with
  | some r => .ok st r
  | none =>
    match ratesLoop st.nBins (st.catalogs.length + st.file.length + 2) st 0 none with
    | .done st' (some data) =>
      (match st'.nCat with
       | some n => .ok { st' with expectedRates := some (data, n) } (data, n)
       | none => .failed)
    | .done _ none => .failed                    -- no catalogs: `numpy.empty([]) / n_cat`
    | .raised st' i => .raised st' i
    | .failed => .failed

/-- index of the first catalog `spatial_magnitude_counts` rejects -/
def firstBad (nBins : Nat) : List Cat → Option Nat
  | [] => none
  | c :: cs => if countable nBins c then (firstBad nBins cs).map (· + 1) else some 0

/-- the accumulation over a list of catalogs, starting at loop index `i` -/
def accFold (nBins : Nat) : Nat → Option (List Nat) → List Cat → Option (List Nat)
  | _, d, [] => d
  | i, d, c :: cs => accFold nBins (i + 1) (accStep nBins i d c) cs

/-- histories in which `get_expected_rates` (directly or through spatial_counts / magnitude_counts) may raise.
    Observable of such an operation: the rates, or "raised at catalog pos" -/
inductive OutX where
  | out (o : Out)
  | raised (pos : Nat)
  deriving Repr, DecidableEq

/-- what the three rate operations show of the forecast's matrix (forecasts.py:648-658) -/
def ratesView (st : St) : Op → List Nat → List Nat
  | .spatialCounts => spatialMarginal st.nMag st.nBins
  | .magnitudeCounts => magMarginal st.nMag
  | _ => id

def ratesOp (st : St) (op : Op) : St × OutX :=
  match getExpectedRatesX st with
  | .ok st' (data, n) => (st', .out (.rates (ratesView st op data) n))
  | .raised st' i => (st', .raised i)
  | .failed => (st, .out .error)

def stepX (st : St) : Op → St × OutX
  | .getExpectedRates => ratesOp st .getExpectedRates
  | .spatialCounts => ratesOp st .spatialCounts
  | .magnitudeCounts => ratesOp st .magnitudeCounts
  | op => let r := step st op; (r.1, .out r.2)

def runX : St → List Op → List (OutX × Option Nat)
  | _, [] => []
  | st, op :: ops => let r := stepX st op; (r.2, r.1.nCat) :: runX r.1 ops

end ForecastIter
