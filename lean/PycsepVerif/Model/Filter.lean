/-
  Model of csep/core/catalogs.py `AbstractBaseCatalog.filter` (:490-559), `filter_spatial` (:561-594) and of
  `csep.load_catalog(..., apply_filters=True)` (csep/__init__.py:187-191).

  Exact layer. A catalog row is (id, origin_time [int64 ms], latitude, longitude, depth, magnitude [float64]);
  every float64 is an exact rational, so every comparison the code makes
  (`operators[oper](catalog[name], float(value))`, numpy boolean-mask indexing) is modelled exactly.
  The int64 origin_time column is converted to float64 by numpy for the comparison; for |t| < 2^53 that is exact
  (assumption of the model, respected by the generators).
-/
namespace CatFilter

/-- the five numeric columns of `CSEPCatalog.dtype` (catalogs.py:901-906) a statement can name -/
inductive Attr where
  | originTime | latitude | longitude | depth | magnitude
  deriving DecidableEq, Repr

/-- the operator table of `filter` (catalogs.py:508-512) -/
inductive Op where
  | gt | lt | ge | le | eq
  deriving DecidableEq, Repr

/-- one catalog row -/
structure Event where
  id : Nat
  originTime : Int
  latitude : Rat
  longitude : Rat
  depth : Rat
  magnitude : Rat
  deriving DecidableEq, Repr

/-- `self.catalog[name]` for one row -/
def Event.get (e : Event) : Attr → Rat
  | .originTime => (e.originTime : Rat)
  | .latitude => e.latitude
  | .longitude => e.longitude
  | .depth => e.depth
  | .magnitude => e.magnitude

/-- `operators[oper](column, value)` for one row: operator.gt / lt / ge / le / eq -/
def Op.eval : Op → Rat → Rat → Bool
  | .gt, a, v => decide (v < a)
  | .lt, a, v => decide (a < v)
  | .ge, a, v => decide (v ≤ a)
  | .le, a, v => decide (a ≤ v)
  | .eq, a, v => decide (a = v)

/-- a parsed statement `'name oper value'` with `value = float(text)` -/
structure Stmt where
  attr : Attr
  op : Op
  value : Rat
  deriving DecidableEq, Repr

/-- the boolean mask entry of one row -/
def Stmt.holds (s : Stmt) (e : Event) : Bool := s.op.eval (e.get s.attr) s.value

/-- `filtered = filtered[mask]` : numpy boolean-mask indexing keeps the rows with a true mask, in order -/
def filterOne (s : Stmt) (es : List Event) : List Event := es.filter s.holds

/-- the loop `for filt in filters: filtered = filtered[...]` (catalogs.py:533-545) -/
def filterList (ss : List Stmt) (es : List Event) : List Event :=
  ss.foldl (fun acc s => filterOne s acc) es

/-! ### datetime statements (catalogs.py:519-526, :537-541; time_utils.py:40-66, :72-77) -/

/-- a parsed `datetime.datetime` (proleptic Gregorian, UTC) -/
structure DateTime where
  year : Int
  month : Nat
  day : Nat
  hour : Nat
  minute : Nat
  second : Nat
  microsecond : Nat
  deriving DecidableEq, Repr

/-- days from 1970-01-01 to the civil date y-m-d (what `(dt - epoch).days` is); integer arithmetic only -/
def daysFromCivil (y : Int) (m d : Nat) : Int :=
  let y' : Int := if m ≤ 2 then y - 1 else y
  let era : Int := y' / 400                       -- Int `/` is floor division for a positive divisor
  let yoe : Int := y' - era * 400
  let mp : Int := ((m : Int) + 9) % 12
  let doy : Int := (153 * mp + 2) / 5 + (d : Int) - 1
  let doe : Int := yoe * 365 + yoe / 4 - yoe / 100 + doy
  era * 146097 + doe - 719468

/-- `datetime_to_utc_epoch` (time_utils.py:62-66):
    `(delta.days * 86400 + delta.seconds) * 1000 + delta.microseconds // 1000` -/
def epochMs (dt : DateTime) : Int :=
  (daysFromCivil dt.year dt.month dt.day * 86400 + ((dt.hour * 3600 + dt.minute * 60 + dt.second : Nat) : Int)) * 1000
    + ((dt.microsecond / 1000 : Nat) : Int)

/-- a statement as written by the caller: numeric, or `'datetime oper YYYY-MM-DD HH:MM:SS[.ffffff]'` -/
inductive RawStmt where
  | num (s : Stmt)
  | datetime (op : Op) (dt : DateTime)
  deriving DecidableEq, Repr

/-- the branch `if name == 'datetime': name = 'origin_time'; value = strptime_to_utc_epoch(...)` -/
def RawStmt.parse : RawStmt → Stmt
  | .num s => s
  | .datetime op dt => ⟨.originTime, op, (epochMs dt : Rat)⟩

/-! ### spatial filter (catalogs.py:561-594) with the exact half-open region -/

/-- a Cartesian region: lower-left corners of the active cells and the spacing -/
structure Region where
  dh : Rat
  cells : List (Rat × Rat)
  deriving DecidableEq, Repr

/-- the half-open box of one cell, lower and left sides included -/
def inCell (dh : Rat) (c : Rat × Rat) (lon lat : Rat) : Bool :=
  decide (c.1 ≤ lon) && decide (lon < c.1 + dh) && decide (c.2 ≤ lat) && decide (lat < c.2 + dh)

/-- `region.get_masked(lon, lat)`: True = not in any active cell -/
def Region.masked (r : Region) (lon lat : Rat) : Bool := !(r.cells.any (fun c => inCell r.dh c lon lat))

/-- `filtered = self.catalog[~mask]` for an arbitrary mask function -/
def filterSpatialBy (masked : Event → Bool) (es : List Event) : List Event := es.filter (fun e => !masked e)

def filterSpatial (r : Region) (es : List Event) : List Event :=
  filterSpatialBy (fun e => r.masked e.longitude e.latitude) es

/-! ### the catalog object: in place vs new instance -/

/-- the two members of a catalog object the filter functions read and write -/
structure Cat where
  events : List Event
  filters : List RawStmt      -- `self.filters` (a string is a one-element list)
  region : Option Region      -- `self.region`
  deriving DecidableEq, Repr

/-- one call on a catalog object -/
inductive FilterOp where
  /-- `cat.filter(statements, in_place)`; `none` = `statements=None` (use `self.filters`) -/
  | filter (stmts : Option (List RawStmt)) (inPlace : Bool)
  /-- `cat.filter_spatial(region, in_place=in_place)`; `none` = use `self.region` -/
  | spatial (region : Option Region) (inPlace : Bool)

/-- `if not self.filters and statements is None: raise`; `if statements is None: statements = self.filters`
    (catalogs.py:505, :515) -/
def resolveStmts (c : Cat) : Option (List RawStmt) → Option (List RawStmt)
  | some ss => some ss
  | none => if c.filters.isEmpty then none else some c.filters

/-- the body of `filter` once the statements are known. `self.filters = statements` happens in both modes
    (catalogs.py:549); in place the returned object is `self`, otherwise a new instance built from the
    filtered rows (catalogs.py:550-558) -/
def stepFilter (c : Cat) (ss : List RawStmt) (inPlace : Bool) : Cat × Cat :=
  let filtered := filterList (ss.map RawStmt.parse) c.events
  if inPlace then
    ({ c with events := filtered, filters := ss }, { c with events := filtered, filters := ss })
  else
    ({ c with filters := ss }, { events := filtered, filters := ss, region := c.region })

/-- `if region is None and self.region is None: raise` (catalogs.py:576) -/
def resolveRegion (c : Cat) : Option Region → Option Region
  | some r => some r
  | none => c.region

/-- the body of `filter_spatial`. `self.region = region` happens in both modes (catalogs.py:580);
    the new instance is built without `filters=` (catalogs.py:592), so its filters are [] -/
def stepSpatial (c : Cat) (r : Region) (inPlace : Bool) : Cat × Cat :=
  let filtered := filterSpatial r c.events
  if inPlace then
    ({ c with events := filtered, region := some r }, { c with events := filtered, region := some r })
  else
    ({ c with region := some r }, { events := filtered, filters := [], region := some r })

/-- One call. `none` = `CSEPCatalogException` (nothing to filter by). Otherwise the pair
    (the object the call was made on, as it is after the call; the returned object). -/
def step (c : Cat) : FilterOp → Option (Cat × Cat)
  | .filter stmts inPlace => (resolveStmts c stmts).map (fun ss => stepFilter c ss inPlace)
  | .spatial reg inPlace => (resolveRegion c reg).map (fun r => stepSpatial c r inPlace)

/-- a heap of catalog objects; a call names the object it is made on. In place: that slot is updated and
    the result is the same object. Otherwise the slot keeps its events and a new object is appended. -/
abbrev Heap := List Cat

def setAt (h : Heap) (i : Nat) (c : Cat) : Heap := h.set i c

def FilterOp.inPlace : FilterOp → Bool
  | .filter _ b => b
  | .spatial _ b => b

/-- one call on object `i` of the heap; an exception leaves the heap as it is -/
def call (h : Heap) (i : Nat) (op : FilterOp) : Heap × Bool :=
  match h[i]? with
  | none => (h, false)
  | some c =>
    match step c op with
    | none => (h, false)
    | some (c', r) => if op.inPlace then (setAt h i c', true) else (setAt h i c' ++ [r], true)

/-- a history of calls; the Bool list records which calls raised -/
def runHistory : Heap → List (Nat × FilterOp) → Heap × List Bool
  | h, [] => (h, [])
  | h, (i, op) :: rest =>
    let (h', ok) := call h i op
    let (h'', oks) := runHistory h' rest
    (h'', ok :: oks)

/-- `csep.load_catalog(..., filters=fs, region=r, apply_filters=True)` (csep/__init__.py:187-191):
    `try: filter().filter_spatial()  except CSEPCatalogException: filter()` -/
def loadApply (events : List Event) (fs : List RawStmt) (r : Option Region) : Option Cat :=
  let c : Cat := { events := events, filters := fs, region := r }
  match step c (.filter none true) with
  | none => none          -- the retry in the handler raises again
  | some (_, c1) =>
    match step c1 (.spatial none true) with
    | some (_, c2) => some c2
    | none =>
      -- handler: `return_val.filter()` once more on the already filtered object
      (step c1 (.filter none true)).map Prod.snd

end CatFilter
