import PycsepVerif.Model.Sampler
import PycsepVerif.Model.BinaryBrier
/-
  C16, wave 4 — the whole test pipeline of the binary and Brier consistency tests inside the model: the simulated
  catalogs are no longer inputs, they are produced by the model of the sampler (C06's `Model/Sampler.lean`) from the
  rates and the injected uniform numbers, and then scored by `Model/BinaryBrier.lean`.

    csep/core/binomial_evaluations.py:130-193  _binary_likelihood_test          → `binaryLikelihoodTest`
    csep/core/binomial_evaluations.py:105-127  _simulate_catalog (injected)     → `Sampler.simulate` + `Sampler.countAssert`
    csep/core/binomial_evaluations.py:196,246  binary_spatial_test / binary_conditional_likelihood_test
    csep/core/brier_evaluations.py:76-136      _brier_score_test                → `brierScoreTest`
    csep/core/brier_evaluations.py:139         brier_score_test

  The sampling weights are binary64 values (Soft64, `Rat`), the scores live in `α` (ℝ for the theorems, Float for the
  driver): a rate array is therefore given in both views, `rq : List Rat` and `ra : List α` (the theorems take
  `ra = rq.map Rat.cast`; the driver receives the same doubles as `n/d` and as IEEE bit patterns).
-/
namespace BinaryBrier
variable {α : Type} [RealOps α]
open RealOps

/-- `n_active_cells = len(numpy.unique(numpy.nonzero(observed_data.ravel())))` (binomial_evaluations.py:157,
    brier_evaluations.py:104): the number of bins that hold at least one event -/
def nActive (cnt : List Nat) : Nat := cnt.countP (fun w => decide (0 < w))

/-- `qs = numpy.sum(simulated <= obs) / num_simulations` as the pair (k, n) (binomial_evaluations.py:189) -/
def quantileA (sims : List α) (obs : α) : Nat × Nat := (sims.countP (fun s => le s obs), sims.length)

/-- what a test returns: `(qs, obs, simulated)` plus, for the harness, the simulated count arrays themselves -/
structure TestOut (α : Type) where
  obs : α
  sims : List α
  q : Nat × Nat
  arrays : List (List Nat)

/-- `_binary_likelihood_test(forecast_data, observed_data, num_simulations=len(rows), random_numbers=rows)`:
    ```
    forecast_data = numpy.ma.masked_where(forecast_data <= 0.0, forecast_data)
    sampling_weights = getdata(cumsum(forecast_data.ravel())); sampling_weights /= sampling_weights[-1]   -- weightsMasked
    n_active_cells = len(unique(nonzero(observed_data.ravel())))
    for idx in range(num_simulations):
        sim_fore = _simulate_catalog(n_active_cells, sampling_weights, sim_fore, random_numbers=random_numbers[idx,:])
                   -- fill(0); searchsorted(side='right'); add.at; assert sim_fore.sum() == n_active_cells
        simulated_ll.append(binary_joint_log_likelihood_ndarray(forecast_data.data, sim_fore))
    obs_ll = binary_joint_log_likelihood_ndarray(forecast_data.data, observed_data)
    qs = numpy.sum(simulated_ll <= obs_ll) / num_simulations
    ```
    `none` = an exception (AssertionError of the count check; IndexError of `add.at`). No rate scaling anywhere. -/
def binaryLikelihoodTest (rq : List Rat) (ra : List α) (cnt : List Nat) (rows : List (List Rat)) :
    Option (TestOut α) :=
  match Sampler.simRows (Sampler.weightsMasked rq) (nActive cnt) rows with
  | none => none
  | some arrs =>
    let sims := arrs.map (fun a => binaryLL (ra.zip a))
    let obs := binaryLL (ra.zip cnt)
    some { obs := obs, sims := sims, q := quantileA sims obs, arrays := arrs }

/-- `_brier_score_test(forecast_data, observed_data, random_numbers=rows)`: the same loop; a simulated array has the
    1-D shape of `sampling_weights` (one division by the number of bins), the observed array its own shape `dims`. -/
def brierScoreTest (rq : List Rat) (ra : List α) (dims : List Nat) (cnt : List Nat) (rows : List (List Rat)) :
    Option (TestOut α) :=
  match Sampler.simRows (Sampler.weightsMasked rq) (nActive cnt) rows with
  | none => none
  | some arrs =>
    let sims := arrs.map (fun a => brier [(Sampler.weightsMasked rq).length] (ra.zip a))
    let obs := brier dims (ra.zip cnt)
    some { obs := obs, sims := sims, q := quantileA sims obs, arrays := arrs }

/-- the DEFAULT random path (`random_numbers=None`, with or without `seed`): every simulation runs the rejection loop of
    `_simulate_catalog` (binomial_evaluations.py:109-117) on the stream of the global generator, one simulation after the
    other (`Sampler.testBinaryStream`); each simulated catalog is scored on its own. `stream` is the sequence
    `numpy.random.uniform(0,1)` yields after `numpy.random.seed(seed)` (or from the ambient state); `none` = exception or
    the supplied stream ran out. -/
def binaryLikelihoodTestStream (rq : List Rat) (ra : List α) (cnt : List Nat) (nsim : Nat) (stream : List Rat) :
    Option (TestOut α) :=
  match Sampler.testBinaryStream (Sampler.weightsMasked rq) (nActive cnt) nsim stream with
  | none => none
  | some arrs =>
    let sims := arrs.map (fun a => binaryLL (ra.zip a))
    let obs := binaryLL (ra.zip cnt)
    some { obs := obs, sims := sims, q := quantileA sims obs, arrays := arrs }

/-- the same for `_brier_score_test` (brier_evaluations.py:51-60) -/
def brierScoreTestStream (rq : List Rat) (ra : List α) (dims : List Nat) (cnt : List Nat) (nsim : Nat)
    (stream : List Rat) : Option (TestOut α) :=
  match Sampler.testBinaryStream (Sampler.weightsMasked rq) (nActive cnt) nsim stream with
  | none => none
  | some arrs =>
    let sims := arrs.map (fun a => brier [(Sampler.weightsMasked rq).length] (ra.zip a))
    let obs := brier dims (ra.zip cnt)
    some { obs := obs, sims := sims, q := quantileA sims obs, arrays := arrs }

/-- `binary_spatial_test`: `_binary_likelihood_test(forecast.spatial_counts(), catalog.spatial_counts())`.
    `mq`/`ma` are the spatial rates as `spatial_counts()` returns them (a float sum over the magnitude axis whose
    association order depends on the memory layout: taken as given, the theorems hold for any); the observed counts
    are the exact integer row sums. -/
def binarySpatialTest (mq : List Rat) (ma : List α) (cnt : List (List Nat)) (rows : List (List Rat)) :
    Option (TestOut α) :=
  binaryLikelihoodTest mq ma (spatialMarginalN cnt) rows

/-- `binary_conditional_likelihood_test`: the full arrays, flattened in C order -/
def binaryCLTest (dq : List (List Rat)) (da : List (List α)) (cnt : List (List Nat)) (rows : List (List Rat)) :
    Option (TestOut α) :=
  binaryLikelihoodTest dq.flatten da.flatten cnt.flatten rows

/-- `brier_score_test`: the full arrays; the observed array is 2-D (space × magnitude) -/
def brierTest (dq : List (List Rat)) (da : List (List α)) (cnt : List (List Nat)) (rows : List (List Rat)) :
    Option (TestOut α) :=
  brierScoreTest dq.flatten da.flatten [cnt.length, (cnt.headD []).length] cnt.flatten rows

end BinaryBrier
