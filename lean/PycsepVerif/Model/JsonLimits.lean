import PycsepVerif.Model.JsonText
/-
  Limits of the JSON text layer stated as explicit preconditions, with the loader's behaviour beyond them (C18, round 6).

  * NESTING.  `json.load` runs the C scanner, which guards every array / object level with `Py_EnterRecursiveCall`: beyond the
    interpreter's C recursion limit it raises RecursionError (CPython 3.12.1: 1497 levels are accepted at any Python stack depth;
    the harness MEASURES the limit on every run and hands it to the model).  `loadLimited L` = the loader with that limit.
    The WRITER (pure-Python `_iterencode`, `indent=4`) recurses on the Python stack: its limit (≈ 995 levels from the top level)
    depends on how deep the caller already is — not modelled; `depth j` below the measured writer limit is a precondition.
  * LONE SURROGATES.  A Lean `Char` is a Unicode scalar value, so no tree of the model holds a lone surrogate: the precondition
    "no str field holds a lone surrogate" is met by typing, and `render` never writes a lone `\udXXX` escape.  A hand-written
    file with such an escape is loaded by Python into a str the model cannot represent: the model answers `none`
    (`parse`), Python answers a value — recorded divergence, never generated, checked by hand-made texts in `text_corr`.
-/
namespace JsonText
open JsonTree

mutual
  /-- nesting depth: atoms 0, a container one more than its deepest element (an empty container 1) -/
  def depth : JVal → Nat
    | .arr xs => depthL xs + 1
    | .obj ms => depthM ms + 1
    | _ => 0
  def depthL : JList → Nat
    | .nil => 0
    | .cons v vs => max (depth v) (depthL vs)
  def depthM : JKVs → Nat
    | .nil => 0
    | .cons _ v ms => max (depth v) (depthM ms)
end

inductive LoadOut where
  | ok (j : JVal)
  | invalid            -- JSONDecodeError
  | recursionError     -- RecursionError: maximum recursion depth exceeded

/-- 0 = a value, 1 = JSONDecodeError, 2 = RecursionError (for the driver and for kernel-checked examples) -/
def LoadOut.tag : LoadOut → Nat
  | .ok _ => 0
  | .invalid => 1
  | .recursionError => 2

/-- `json.load` with the C recursion limit `L` (number of nested containers accepted), on texts that are valid JSON; a text that is
    both too deep and malformed raises whichever the scanner meets first (not modelled: reported as `invalid`) -/
def loadLimited (L : Nat) (ft : FloatText) (cs : List Char) : LoadOut :=
  match parse ft cs with
  | some j => if depth j > L then .recursionError else .ok j
  | none => .invalid

end JsonText
