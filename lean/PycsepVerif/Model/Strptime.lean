import PycsepVerif.Model.TimeCalls
/-
  `datetime.strptime` at CHARACTER level for arbitrary format strings over the directives the library uses (property C15,
  round 6) — not only the canonical field widths of `strptimeFields`.

  CPython `_strptime.py`: the format is compiled to a regular expression (`TimeRE.pattern`, IGNORECASE):
      %Y (?P<Y>\d\d\d\d)            %m (?P<m>1[0-2]|0[1-9]|[1-9])      %d (?P<d>3[01]|[12]\d|0[1-9]|[1-9]| [1-9])
      %H (?P<H>2[0-3]|[0-1]\d|\d)   %M (?P<M>[0-5]\d|\d)               %S (?P<S>6[0-1]|[0-5]\d|\d)
      %f (?P<f>[0-9]{1,6})          %z (?P<z>[+-]\d\d:?[0-5]\d(:?[0-5]\d(\.\d{1,6})?)?|(?-i:Z))       %% %
      every run of whitespace in the format → \s+ ; every other character literally (escaped)
  `format_regex.match(data_string)` — anchored at the start, ordered alternation with BACKTRACKING, greedy counted
  repetitions — then `if len(data_string) != found.end(): raise ValueError("unconverted data remains")`, then the groups are
  converted (`%f` right-padded with zeros to six digits) and handed to `datetime(...)` (range errors → ValueError; a directive
  that is absent keeps its default: year 1900, month 1, day 1, 0:00:00.0).  A directive used twice makes `re` raise
  (redefinition of a group name) → modelled as `none`; an unknown directive is a ValueError → `none`.

  The matcher below is a continuation-passing backtracking matcher: `alt`ernatives are tried in the regex's order, each followed
  by THE REST OF THE PATTERN (so a later failure makes an earlier choice be revised exactly as in `re`).  Structural recursion
  on the directive list; fuel for the two repetitions.
-/
namespace Time

inductive Dir where
  | Y | m | d | H | M | S | f | z | ws | pct
  | lit (c : Char)
deriving DecidableEq, Repr

def isWs (c : Char) : Bool := c = ' ' || c = '\t' || c = '\n' || c = '\r' || c = '\x0b' || c = '\x0c'

/-- format string → directives; `none` = bad directive (ValueError) or stray `%` at the end -/
def compileFormat : List Char → Option (List Dir)
  | [] => some []
  | '%' :: c :: rest =>
    (match c with
     | 'Y' => some Dir.Y | 'm' => some .m | 'd' => some .d | 'H' => some .H | 'M' => some .M | 'S' => some .S
     | 'f' => some .f | 'z' => some .z | '%' => some .pct | _ => none).bind (fun d => (compileFormat rest).map (d :: ·))
  | ['%'] => none
  | c :: rest =>
    if isWs c then
      -- a run of whitespace is ONE `\s+`
      (compileFormat rest).map (fun ds => match ds with | Dir.ws :: _ => ds | _ => Dir.ws :: ds)
    else (compileFormat rest).map (Dir.lit c :: ·)

/-- what the groups hold -/
structure Groups where
  y : Option Nat := none
  mo : Option Nat := none
  d : Option Nat := none
  h : Option Nat := none
  mi : Option Nat := none
  s : Option Nat := none
  us : Option Nat := none
  z : Bool := false
deriving Repr

def dg (c : Char) : Option Nat := digit? c

def lower (c : Char) : Char := if 'A' ≤ c ∧ c ≤ 'Z' then Char.ofNat (c.toNat + 32) else c

/-- alternatives of a numeric directive as (first-digit predicate, second-digit predicate | none) in the regex's order -/
def alts : Dir → List ((Nat → Bool) × Option (Nat → Bool))
  | .m => [(fun a => a = 1, some (fun b => b ≤ 2)), (fun a => a = 0, some (fun b => 1 ≤ b)), (fun a => 1 ≤ a, none)]
  | .d => [(fun a => a = 3, some (fun b => b ≤ 1)), (fun a => a = 1 || a = 2, some (fun _ => true)),
           (fun a => a = 0, some (fun b => 1 ≤ b)), (fun a => 1 ≤ a, none)]
  | .H => [(fun a => a = 2, some (fun b => b ≤ 3)), (fun a => a ≤ 1, some (fun _ => true)), (fun _ => true, none)]
  | .M => [(fun a => a ≤ 5, some (fun _ => true)), (fun _ => true, none)]
  | .S => [(fun a => a = 6, some (fun b => b ≤ 1)), (fun a => a ≤ 5, some (fun _ => true)), (fun _ => true, none)]
  | _ => []

def setField (g : Groups) (dir : Dir) (v : Nat) : Option Groups :=
  match dir with
  | .m => if g.mo.isSome then none else some { g with mo := some v }
  | .d => if g.d.isSome then none else some { g with d := some v }
  | .H => if g.h.isSome then none else some { g with h := some v }
  | .M => if g.mi.isSome then none else some { g with mi := some v }
  | .S => if g.s.isSome then none else some { g with s := some v }
  | _ => none

/-- try the alternatives of one numeric directive in order, each followed by the continuation `k` -/
def tryAlts (k : Groups → List Char → Option Groups) (g : Groups) (dir : Dir) (s : List Char) :
    List ((Nat → Bool) × Option (Nat → Bool)) → Option Groups
  | [] => none
  | (p1, none) :: rest =>
    (match s with
     | a :: s1 => (match dg a with
        | some x => if p1 x then (setField g dir x).bind (fun g' => k g' s1) else none
        | none => none)
     | [] => none) <|> tryAlts k g dir s rest
  | (p1, some p2) :: rest =>
    (match s with
     | a :: b :: s2 => (match dg a, dg b with
        | some x, some y => if p1 x && p2 y then (setField g dir (10 * x + y)).bind (fun g' => k g' s2) else none
        | _, _ => none)
     | _ => none) <|> tryAlts k g dir s rest

/-- the `d` directive's last alternative ` [1-9]` (a blank, then one digit) -/
def tryBlankDay (k : Groups → List Char → Option Groups) (g : Groups) (s : List Char) : Option Groups :=
  match s with
  | ' ' :: b :: s2 => (match dg b with
      | some y => if 1 ≤ y then (setField g .d y).bind (fun g' => k g' s2) else none
      | none => none)
  | _ => none

/-- `[0-9]{1,6}` greedy: take `n` digits (6 down to 1), value right-padded to microseconds -/
def takeDigitsN : Nat → List Char → Option (Nat × List Char)
  | 0, s => some (0, s)
  | n + 1, c :: s => (dg c).bind (fun x => (takeDigitsN n s).map (fun p => (x * 10 ^ n + p.1, p.2)))
  | _ + 1, [] => none

def tryFrac (k : Groups → List Char → Option Groups) (g : Groups) (s : List Char) : Nat → Option Groups
  | 0 => none
  | n + 1 =>
    (match takeDigitsN (n + 1) s with
     | some (v, r) => if g.us.isSome then none else k { g with us := some (v * 10 ^ (6 - (n + 1))) } r
     | none => none) <|> tryFrac k g s n

/-- `\s+` greedy with backtracking: consume all leading whitespace, then give characters back one by one -/
def wsPrefix : List Char → Nat
  | c :: s => if isWs c then wsPrefix s + 1 else 0
  | [] => 0

def tryWs (k : Groups → List Char → Option Groups) (g : Groups) (s : List Char) : Nat → Option Groups
  | 0 => none
  | n + 1 => k g (s.drop (n + 1)) <|> tryWs k g s n

/-- `%z`: `[+-]\d\d:?[0-5]\d(:?[0-5]\d(\.\d{1,6})?)?` or `Z` (case sensitive); the VALUE is discarded by the library
    (`.replace(tzinfo=utc)`), only what is consumed matters.  Candidates longest first (greedy optional groups). -/
def zCandidates (s : List Char) : List (List Char) :=
  let two (s : List Char) (p : Nat → Bool) : Option (List Char) :=
    match s with
    | a :: b :: r => (match dg a, dg b with | some x, some _ => if p x then some r else none | _, _ => none)
    | _ => none
  let optColon (s : List Char) : List (List Char) := match s with | ':' :: r => [r, ':' :: r] | _ => [s]
  match s with
  | 'Z' :: r => [r]
  | sg :: r0 =>
    if sg = '+' ∨ sg = '-' then
      match two r0 (fun _ => true) with
      | none => []
      | some r1 =>
        -- `:?` then minutes
        let afterMin := (optColon r1).filterMap (fun r => two r (fun x => x ≤ 5))
        afterMin.flatMap (fun r2 =>
          -- optional seconds (with optional fraction), longest first
          let secs := (optColon r2).filterMap (fun r => two r (fun x => x ≤ 5))
          let withFrac := secs.flatMap (fun r3 =>
            match r3 with
            | '.' :: r4 => ((List.range 6).reverse.filterMap (fun n => (takeDigitsN (n + 1) r4).map (·.2))) ++ [r3]
            | _ => [r3])
          withFrac ++ [r2])
    else []
  | [] => []

def tryList (k : List Char → Option Groups) : List (List Char) → Option Groups
  | [] => none
  | r :: rs => k r <|> tryList k rs

/-- the backtracking matcher; at the end of the pattern the whole string must have been consumed -/
def matchDirs : List Dir → Groups → List Char → Option Groups
  | [], g, s => if s.isEmpty then some g else none
  | .Y :: ds, g, s =>
    (match takeDigitsN 4 s with
     | some (v, r) => if g.y.isSome then none else matchDirs ds { g with y := some v } r
     | none => none)
  | .f :: ds, g, s => tryFrac (matchDirs ds) g s 6
  | .ws :: ds, g, s => tryWs (matchDirs ds) g s (wsPrefix s)
  | .pct :: ds, g, s => (match s with | '%' :: r => matchDirs ds g r | _ => none)
  | .lit c :: ds, g, s => (match s with | x :: r => if lower x = lower c then matchDirs ds g r else none | [] => none)
  | .z :: ds, g, s => if g.z then none else tryList (matchDirs ds { g with z := true }) (zCandidates s)
  | .d :: ds, g, s => tryAlts (matchDirs ds) g .d s (alts .d) <|> tryBlankDay (matchDirs ds) g s
  | dir :: ds, g, s => tryAlts (matchDirs ds) g dir s (alts dir)

/- NOTE on backtracking and the end check: `re.match` returns the FIRST successful path and `_strptime` then demands that it
   ended at the end of the string; the matcher above asks for the end inside the search, i.e. it returns the first path THAT ENDS
   AT THE END.  The two could differ only if an earlier path succeeded short of the end while a later one reached it.  For these
   directives every longer alternative precedes the shorter ones (two-digit before one-digit alternatives, counted repetitions and
   optional groups greedy), so the first successful path is the longest one compatible with the earlier choices, and a path that
   reaches the end exists only if that one does.  Not proved; compared with CPython on every run (`c15_strp`). -/

def fieldsOfGroups (g : Groups) : Fields :=
  { year := (g.y.getD 1900 : Nat), month := (g.mo.getD 1 : Nat), day := (g.d.getD 1 : Nat), hour := (g.h.getD 0 : Nat),
    minute := (g.mi.getD 0 : Nat), second := (g.s.getD 0 : Nat), micro := (g.us.getD 0 : Nat) }

/-- `datetime.strptime(s, fmt)` as fields; `none` = ValueError / re.error -/
def strptimeStr (fmt s : List Char) : Option Fields :=
  match compileFormat fmt with
  | none => none
  | some ds =>
    match matchDirs ds {} s with
    | none => none
    | some g => let f := fieldsOfGroups g; if validFields f then some f else none

def defaultFormat : List Char := "%Y-%m-%d %H:%M:%S.%f".toList

def formatOf (f : Format) : List Char :=
  "%Y-%m-%d".toList ++ [f.sep] ++ "%H:%M:%S".toList ++ (if f.frac then ".%f".toList else []) ++ (if f.zone then "%z".toList else [])

/-- `strptime_to_utc_datetime(s, format=fmt)` (time_utils.py:85-103): the default format string triggers the sniffing -/
def strptimeToUtcDatetimeStr (fmt s : List Char) : Option Int :=
  if fmt = defaultFormat then
    (parseStringFormat s).bind (fun f => (strptimeStr (formatOf f) s).map ofFields)
  else (strptimeStr fmt s).map ofFields

/-- `strptime_to_utc_epoch(s, format=fmt)` -/
def strptimeToUtcEpochStr (fmt s : List Char) : Option Int := (strptimeToUtcDatetimeStr fmt s).map dtToMs

end Time
