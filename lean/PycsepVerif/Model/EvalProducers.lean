import PycsepVerif.Model.ResultJson
/-
  Which result class every result-producing evaluation function constructs (property C18: "for every result class and every
  evaluation function that can produce it").  Hand-copied from csep/core/{poisson,binomial,brier,catalog}_evaluations.py
  (`result = EvaluationResult()` / `CatalogNumberTestResult(…)` …) and RE-EXTRACTED FROM THE SOURCE ON EVERY RUN: harness/c18.py
  walks the `ast` of every module under csep/ for function definitions whose body calls the constructor of a result class and
  compares with driver op `c18_producers`.  Entry: (module.function, class constructed).  A function with two construction
  sites of the same class (magnitude tests: empty-catalog branch) has one entry.
-/
namespace ResultJson

def evalProducers : List (String × String) :=
  [("poisson_evaluations.paired_t_test", "EvaluationResult"),
   ("poisson_evaluations.w_test", "EvaluationResult"),
   ("poisson_evaluations.number_test", "EvaluationResult"),
   ("poisson_evaluations.conditional_likelihood_test", "EvaluationResult"),
   ("poisson_evaluations.magnitude_test", "EvaluationResult"),
   ("poisson_evaluations.spatial_test", "EvaluationResult"),
   ("poisson_evaluations.likelihood_test", "EvaluationResult"),
   ("binomial_evaluations.negative_binomial_number_test", "EvaluationResult"),
   ("binomial_evaluations.binary_spatial_test", "EvaluationResult"),
   ("binomial_evaluations.binary_conditional_likelihood_test", "EvaluationResult"),
   ("binomial_evaluations.binary_paired_t_test", "EvaluationResult"),
   ("brier_evaluations.brier_score_test", "EvaluationResult"),
   ("catalog_evaluations.number_test", "CatalogNumberTestResult"),
   ("catalog_evaluations.spatial_test", "CatalogSpatialTestResult"),
   ("catalog_evaluations.magnitude_test", "CatalogMagnitudeTestResult"),
   ("catalog_evaluations.pseudolikelihood_test", "CatalogPseudolikelihoodTestResult"),
   ("catalog_evaluations.calibration_test", "CalibrationTestResult"),
   ("catalog_evaluations.resampled_magnitude_test", "CatalogMagnitudeTestResult"),
   ("catalog_evaluations.MLL_magnitude_test", "CatalogMagnitudeTestResult")]

/-- the class a function constructs; `none` = not a result-producing function of the table -/
def producedClass (fn : String) : Option String := evalProducers.lookup fn

end ResultJson
