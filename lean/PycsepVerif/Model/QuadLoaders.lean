import PycsepVerif.Model.ForecastText
/-
  Round 6 of C11: the two quadtree forecast loaders of csep/utils/readers.py, statement by statement, from the CHARACTERS of
  the file (until now the harness translated a quadtree file into rows with the tile bounds as the four cell columns and the
  model was the Cartesian `load`).

  `quadtree_ascii_loader` (readers.py:825-861)
      data = numpy.genfromtxt(fname, dtype='str', ndmin=2)          -- `genfromtxtStr`
      all_qk = data[:, 0];  data = data[:, 1:].astype(numpy.float64) -- `QRow` (key, numeric columns)
      unique quadkeys in first-appearance order                      -- `uniqFirst`
      all_mws = data[:, -3];  unique, first-appearance order         -- third column from the END (Mag_0)
      rates = data[:, -1].reshape(n_poly, n_mag_bins)                -- LAST column; the reshape must fit
  `quadtree_csv_loader` (readers.py:864-891)
      data = numpy.genfromtxt(fname, dtype='str', delimiter=',')     -- `genfromtxtCsv` (no ndmin: one line alone is 1-D)
      quadkeys = data[1:, 0];  mws = data[0, 3:].astype(float);  rates = data[1:, 3:].astype(float)
  The written Lon / Lat columns of the ASCII layout are NOT read by the loader: the region is built from the quadkeys
  (`QuadtreeGrid2D.from_quadkeys`, C17).
-/
namespace ForecastFile
open DecimalText

/-- the loaded pieces `(rates, region, mws)`: the region is given by its quadkeys -/
structure QForecast where
  keys : List String
  mags : List Rat
  base : List Rat        -- `rates`, shape (keys.length, mags.length), row-major
  deriving DecidableEq, Repr

/-- a table of strings as `numpy.genfromtxt(dtype='str')` returns it for blank-separated columns: comment tails dropped,
    empty lines skipped; `none` = rows of different lengths (ValueError) -/
def genfromtxtStr (text : String) : Option (List (List String)) :=
  let rows := ((splitLines text.toList).map (fun l => (splitBlanks (dropComment l)).map String.ofList)).filter
    (fun r => !r.isEmpty)
  match rows with
  | [] => some []
  | r :: _ => if rows.all (fun r' => r'.length == r.length) then some rows else none

/-- split a line at every comma (no quoting: genfromtxt is not a csv reader) -/
def splitCommaAux : List Char → List Char → List String → List String
  | [], cur, acc => (String.ofList cur.reverse :: acc).reverse
  | c :: cs, cur, acc =>
    if c = ',' then splitCommaAux cs [] (String.ofList cur.reverse :: acc) else splitCommaAux cs (c :: cur) acc

/-- `numpy.genfromtxt(dtype='str', delimiter=',')` -/
def genfromtxtCsv (text : String) : Option (List (List String)) :=
  let rows := ((splitLines text.toList).map dropComment).filter (fun l => !(splitBlanks l).isEmpty)
  let recs := rows.map (fun l => splitCommaAux l [] [])
  match recs with
  | [] => some []
  | r :: _ => if recs.all (fun r' => r'.length == r.length) then some recs else none

/-- `.astype(float)` of one string: numpy casts a `str_` to float64 with Python's `float()` rules (blanks stripped, `1_0`
    accepted — unlike a `numpy.loadtxt` token); a non-finite result (`1e400`, `inf`, `nan`) is outside the model (`none`) -/
def strToFloat (s : String) : Option Rat := pyFloat s

/-- one line of the ASCII layout after `data[:, 0]` / `data[:, 1:].astype(float64)` -/
structure QRow where
  key : String
  cols : List Rat
  deriving DecidableEq, Repr

def qrowOf : List String → Option QRow
  | [] => none
  | k :: rest => (rest.mapM strToFloat).map (fun c => ⟨k, c⟩)

/-- `a[-n]` of a list: the n-th element from the end (`none` = IndexError) -/
def fromEnd (l : List Rat) (n : Nat) : Option Rat := if n = 0 ∨ l.length < n then none else l[l.length - n]?

/-- `quadtree_ascii_loader` on the converted rows; `none` = an exception (no rows, too few columns, reshape) -/
def loadQuadRows (rows : List QRow) : Option QForecast :=
  match rows.mapM (fun r => fromEnd r.cols 3), rows.mapM (fun r => fromEnd r.cols 1) with
  | some m0s, some rates =>
    let keys := uniqFirst (rows.map QRow.key)
    let mags := uniqFirst m0s
    if !rows.isEmpty && decide (rows.length = keys.length * mags.length) then some ⟨keys, mags, rates⟩ else none
  | _, _ => none

/-- `quadtree_ascii_loader(fname)` from the characters of the file -/
def loadQuadAscii (text : String) : Option QForecast :=
  match genfromtxtStr text with
  | none => none
  | some tbl => (tbl.mapM qrowOf).bind loadQuadRows

/-- `quadtree_csv_loader(fname)` from the characters of the file: a header line `quadkey,depth_min,depth_max,<Mag_0 …>` and
    one line per cell; `none` = an exception (fewer than two lines: the table is 1-D; a cell that is not a number) -/
def loadQuadCsv (text : String) : Option QForecast :=
  match genfromtxtCsv text with
  | some (hdr :: l1 :: ls) =>
    match (hdr.drop 3).mapM strToFloat, (l1 :: ls).mapM (fun r => (r.drop 3).mapM strToFloat) with
    | some mws, some rates => some ⟨(l1 :: ls).map (fun r => r.headD ""), mws, rates.flatten⟩
    | _, _ => none
  | _ => none

/-- the CSEP1 `Row` a quadtree ASCII line stands for once its cell is given its box: `Lon_0 Lon_1 Lat_0 Lat_1` are the
    box of the quadkey, `Mag_0 Mag_1 Rate` the last three numeric columns, flag 1 -/
def QRow.toRow (box : String → Rat × Rat × Rat × Rat) (r : QRow) : Row :=
  let b := box r.key
  ⟨b.1, b.2.1, b.2.2.1, b.2.2.2, 0, 0, (fromEnd r.cols 3).getD 0, (fromEnd r.cols 2).getD 0, (fromEnd r.cols 1).getD 0, 1⟩

end ForecastFile
