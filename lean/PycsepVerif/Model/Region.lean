/-
  Model of csep/core/regions.py `CartesianGrid2D` (exact layer) — property C01.

    __init__ / _build_bitmask_vec   regions.py:576, :757   → `Cell`, `Grid.write`, `build`
    get_index_of                    regions.py:602          → `Region.getIndexOf`
    get_masked                      regions.py:635          → `Region.getMasked`
    get_cartesian                   regions.py:657          → `Region.getCartesian`
    CSEPCatalog.filter_spatial      catalogs.py:561         → `Region.filterSpatial`
    CSEPCatalog.spatial_counts      catalogs.py:665         → `Region.spatialCounts`
    bin1d_vec (closed mode)         calc.py:66              → `binE` (exact semantics on the edge array) and
                                                              `binReg` (exact floor formula on a regular lattice)

  Every float64 is a dyadic rational, so coordinates, edges and the spacing are `Rat`.
  `none` stands for numpy's index -1 ("not in the bounding box").
  The float formula of bin1d_vec is modelled under C02; here the 1-D lookup is the exact one and the
  round-off band of the property (`band`, `binAllowed`, `Region.allowed`) says where the float code may differ.
-/
namespace Region

def rabs (x : Rat) : Rat := if x < 0 then -x else x

/-! ## 1-D lookup -/

/-- number of leading edges that are ≤ x (edges are sorted, so: number of edges ≤ x) -/
def cnt (edges : List Rat) (x : Rat) : Nat := (edges.takeWhile (fun e => decide (e ≤ x))).length

/-- exact meaning of `bin1d_vec(x, edges)` in closed mode (calc.py:66-125): the bin whose lower edge is the last
    edge ≤ x; -1 below the first edge; -1 at or beyond `top` (= `bins[-1] + h`, calc.py:117);
    a single-edge grid is forced open-ended (calc.py:100-103: `right_continuous = True`). -/
def binE (edges : List Rat) (top : Rat) (x : Rat) : Option Nat :=
  let c := cnt edges x
  if c = 0 then none                       -- idx < 0
  else if edges.length = 1 then some 0     -- bins.size == 1: every idx ≥ 0 is clamped to len(bins)-1 = 0
  else if top ≤ x then none                -- idx ≥ len(bins)
  else some (c - 1)

/-- the same lookup by the uniform-grid formula `floor((x - a0) / h)` on the lattice a0, a0+h, …, a0+(n-1)h
    (calc.py:109 without the tolerances, i.e. in exact arithmetic) -/
def binReg (a0 h : Rat) (n : Nat) (x : Rat) : Option Nat :=
  let q := ((x - a0) / h).floor
  if q < 0 then none
  else if n = 1 then some 0
  else if q.toNat < n then some q.toNat else none

/-- the regular edge array a0, a0+h, …, a0+(n-1)h -/
def regular (a0 h : Rat) : Nat → List Rat
  | 0 => []
  | n + 1 => a0 :: regular (a0 + h) h n

/-! ## the bounding-box arrays built by `_build_bitmask_vec` -/

/-- one polygon of the list: bounding-box column `i` and row `j` of its midpoint (`idx[k]`, `idy[k]`,
    regions.py:779-780) and whether it may unmask its position (`poly_mask is None or poly_mask[k] == 1`, :786-792) -/
structure Cell where
  i : Nat
  j : Nat
  valid : Bool
deriving Repr, DecidableEq

/-- the array `a` of regions.py:772 as a log of writes on top of the initial content (mask 1, index nan) -/
structure Grid where
  unmasked : List (Nat × Nat)          -- positions (row, col) with a[row, col, 0] = 0
  idx : List ((Nat × Nat) × Nat)       -- writes a[row, col, 1] = k, newest first

def Grid.empty : Grid := ⟨[], []⟩

/-- one iteration of the loop regions.py:782-793 for polygon number `k` -/
def Grid.write (g : Grid) (k : Nat) (c : Cell) : Grid :=
  { idx := ((c.j, c.i), k) :: g.idx                                      -- a[idy[k], idx[k], 1] = int(k)   (always)
    unmasked := if c.valid then (c.j, c.i) :: g.unmasked else g.unmasked }  -- a[idy[k], idx[k], 0] = 0     (if flag)

def buildFrom : Nat → List Cell → Grid → Grid
  | _, [], g => g
  | k, c :: cs, g => buildFrom (k + 1) cs (g.write k c)

/-- the loop over all polygons, in list order -/
def build (cells : List Cell) : Grid := buildFrom 0 cells Grid.empty

/-- `bbox_mask[r, c] == 1` -/
def Grid.masked (g : Grid) (r c : Nat) : Bool := !(g.unmasked.contains (r, c))

/-- `idx_map[r, c]`; `none` = nan (never written) -/
def Grid.idxAt (g : Grid) (r c : Nat) : Option Nat := g.idx.lookup (r, c)

/-! ## the region -/

/-- state of a `CartesianGrid2D`: lower edges of the bounding-box columns / rows (`xs`, `ys`), the upper sides
    `xs[-1] + h`, `ys[-1] + h` that `bin1d_vec` compares against, and the polygon list -/
structure Region where
  xs : List Rat
  ys : List Rat
  xtop : Rat
  ytop : Rat
  cells : List Cell
  grid : Grid         -- `bbox_mask` and `idx_map`, computed once by the constructor

/-- `CartesianGrid2D.__init__` (regions.py:576-592): the arrays are built from the polygon list -/
def Region.new (xs ys : List Rat) (xtop ytop : Rat) (cells : List Cell) : Region :=
  { xs := xs, ys := ys, xtop := xtop, ytop := ytop, cells := cells, grid := build cells }

inductive Outside where
  | outside           -- ValueError("... outside of the valid region.")
deriving Repr, DecidableEq

namespace Region

def col (R : Region) (x : Rat) : Option Nat := binE R.xs R.xtop x
def row (R : Region) (y : Rat) : Option Nat := binE R.ys R.ytop y
/-- the object was produced by the constructor -/
def Built (R : Region) : Prop := R.grid = build R.cells

/-- content of the arrays at bounding-box position (column i, row j): the polygon index, unless masked -/
def cellAt (R : Region) (i j : Option Nat) : Option Nat :=
  match i, j with
  | some i, some j => if R.grid.masked j i then none else R.grid.idxAt j i
  | _, _ => none

/-- THE partition function: the polygon a point belongs to (`none` = outside the region) -/
def cellOf (R : Region) (p : Rat × Rat) : Option Nat := R.cellAt (R.col p.1) (R.row p.2)

/-- `idx = bin1d_vec(lons, xs); idy = bin1d_vec(lats, ys)` -/
def lookups (R : Region) (pts : List (Rat × Rat)) : List (Option Nat × Option Nat) :=
  pts.map (fun p => (R.col p.1, R.row p.2))

/-- `get_index_of(lons, lats)` on arrays, regions.py:602-617 -/
def getIndexOf (R : Region) (pts : List (Rat × Rat)) : Except Outside (List Nat) :=
  let l := R.lookups pts
  if l.any (fun q => q.1.isNone || q.2.isNone) then .error .outside                         -- :613
  else if l.any (fun q => R.grid.masked (q.2.getD 0) (q.1.getD 0)) then .error .outside     -- :615
  else .ok (l.map (fun q => (R.grid.idxAt (q.2.getD 0) (q.1.getD 0)).getD 0))              -- :617

/-- `get_masked(lons, lats)`, regions.py:635-655 (the -1 positions are overwritten with True) -/
def getMasked (R : Region) (pts : List (Rat × Rat)) : List Bool :=
  (R.lookups pts).map (fun q =>
    if q.1.isNone || q.2.isNone then true else R.grid.masked (q.2.getD 0) (q.1.getD 0))

/-- `CSEPCatalog.filter_spatial`: `catalog[~mask]`, catalogs.py:582-585 -/
def filterSpatial (R : Region) (pts : List (Rat × Rat)) : List (Rat × Rat) :=
  ((pts.zip (R.getMasked pts)).filter (fun pm => !pm.2)).map (·.1)

/-- `numpy.add.at(out, idx, 1)` -/
def addAt (out : List Nat) (idx : List Nat) : List Nat :=
  idx.foldl (fun o k => o.modify k (· + 1)) out

/-- `CSEPCatalog.spatial_counts`, catalogs.py:665-686, for `ncell = region.num_nodes` polygons -/
def spatialCounts (R : Region) (pts : List (Rat × Rat)) : Except Outside (List Nat) :=
  if pts.isEmpty then .ok (List.replicate R.cells.length 0)                                  -- :676
  else match R.getIndexOf pts with
    | .error e => .error e
    | .ok idx => .ok (addAt (List.replicate R.cells.length 0) idx)                            -- :684-685

/-- `get_cartesian(data)`, regions.py:657-674; `none` = nan -/
def getCartesian {α} (R : Region) (data : List α) : List (List (Option α)) :=
  (List.range R.ys.length).map fun r => (List.range R.xs.length).map fun c =>
    if R.grid.masked r c then none else (R.grid.idxAt r c).bind (fun k => data[k]?)

end Region

/-! ## the round-off band of the property

  "a point lying within the library's documented round-off tolerance immediately below a cell boundary may be
  attributed to either adjacent cell". The tolerances of `bin1d_vec` (calc.py:104-109) are `|x|·ε` on the point and
  `|a0|·ε` on the first edge and on the step; the index is `floor((x − a0 + |x|ε + |a0|ε) / (h − |a0|ε))`, so a point
  below boundary number m (the edge `a0 + m·h`) by at most about `|x|ε + (m+1)|a0|ε` plus the rounding of the five
  float operations and of the edges themselves (≤ ~3.25·m·h·ε + |B|ε/2 + m(|a0|+h)ε, with m·h ≤ |x| + |a0|) can be
  lifted over it. `band` is the resulting concrete bound  ε·(6|x| + (2m+6)|a0|) + 2^-1022,  ε = 2^-52.
-/
def eps : Rat := 1 / 4503599627370496

/-- smallest positive normal binary64, 2^-1022: below it the quotient `(x − a0)/h` of calc.py:109 may underflow to −0.0,
    whose floor is index 0 (gradual underflow is round-off as well) -/
def tiny : Rat := 1 / 2 ^ 1022

def band (a0 x : Rat) (m : Nat) : Rat := eps * (6 * rabs x + (2 * (m : Rat) + 6) * rabs a0) + tiny

/-- boundary number m of the edge grid: the m-th lower edge, or the upper side for m = n -/
def boundary (edges : List Rat) (top : Rat) (m : Nat) : Option Rat :=
  if m < edges.length then edges[m]? else if m = edges.length then some top else none

/-- the set of 1-D answers the property allows for x: the exact one, and the one of the next boundary above x when
    x lies inside the band below that boundary -/
def binAllowed (edges : List Rat) (top : Rat) (x : Rat) : List (Option Nat) :=
  let c := cnt edges x
  let e := binE edges top x
  match boundary edges top c with
  | some b =>
    if x < b ∧ b - x ≤ band (edges.headD 0) x c then
      (if binE edges top b = e then [e] else [e, binE edges top b])
    else [e]
  | none => [e]

/-- the set of polygons (or outside) the property allows for a point -/
def Region.allowed (R : Region) (p : Rat × Rat) : List (Option Nat) :=
  ((binAllowed R.xs R.xtop p.1).flatMap fun i =>
    (binAllowed R.ys R.ytop p.2).map fun j => R.cellAt i j).eraseDups

end Region
