import PycsepVerif.Model.Sampler
/-!
  `numpy.searchsorted(a, keys, side='right')` as the binary search numpy runs (property C06, round 4 deepening).
  `Sampler.searchRight` is the SPECIFICATION (#{w ≤ r}); this file is the ALGORITHM of the numpy under test (2.5: the
  branch-free search of numpy/_core/src/npysort/binsearch.cpp, every key searched on its own; identified by
  reproducing numpy's answers on UNSORTED arrays, where different binary searches give different answers — the harness
  repeats that comparison on every run, as a report about the trusted base, never as a verdict):
  ```
  if (arr_len == 0) return 0;
  base = 0; len = arr_len;
  while (len > 1) { half = len >> 1; if (arr[base + half] <= key) base += half; len -= half; }
  return base + (arr[base] <= key);
  ```
  On an array that is not sorted the result is whatever this search returns (the model reproduces it); on a non-decreasing
  array it is `Sampler.searchRight` (theorem `bsearch_eq_searchRight`, Properties/C06_Search.lean).
  Used by poisson_evaluations.py:595, binomial_evaluations.py:114,122, brier_evaluations.py:56,64.
-/
namespace SamplerSearch

/-- the `while (len > 1)` loop; `fuel ≥ len` iterations are enough. Returns `base`. -/
def narrow (a : List Rat) (key : Rat) : Nat → Nat → Nat → Nat
  | 0, _, base => base
  | fuel + 1, len, base =>
    if 1 < len then
      let half := len / 2
      narrow a key fuel (len - half) (if a.getD (base + half) 0 ≤ key then base + half else base)
    else base

/-- one key -/
def bsearch (a : List Rat) (key : Rat) : Nat :=
  if a.length = 0 then 0 else
    let base := narrow a key a.length a.length 0
    base + (if a.getD base 0 ≤ key then 1 else 0)

/-- `numpy.searchsorted(a, keys, side='right')` for an array of keys -/
def searchsortedRight (a : List Rat) (keys : List Rat) : List Nat := keys.map (bsearch a)

/-- `_simulate_catalog` (fill(0), searchsorted, add.at) with the binary search in place of its specification -/
def simulateFromBS (ws : List Rat) : List Nat → List Rat → Option (List Nat)
  | arr, [] => some arr
  | arr, r :: rs => match Sampler.bump arr (bsearch ws r) with
      | some arr' => simulateFromBS ws arr' rs
      | none => none

def simulateBS (ws : List Rat) (draws : List Rat) : Option (List Nat) :=
  simulateFromBS ws (List.replicate ws.length 0) draws

end SamplerSearch
