import PycsepVerif.Model.Filter
/-
  Extension of the filter model (csep/core/catalogs.py:491-560) to the non-finite values a float64 column or a
  `float(value)` threshold can hold: NaN (an unreported depth or magnitude; `float('nan')`), `+inf`, `-inf`.
  `operators[oper](self.catalog[name], float(value))` is numpy's IEEE-754 comparison: every ordered comparison with a NaN
  operand is False, `nan == nan` is False, `-inf < x < +inf` for every finite x, `inf == inf`.
  The origin-time column is int64 and cannot hold NaN; a NaN threshold for it compares False with every instant.
-/
namespace CatFilter

/-- a float64 value: NaN, the infinities, or a finite double (an exact rational) -/
inductive FVal where
  | nan | negInf | fin (q : Rat) | posInf
deriving DecidableEq, Repr

/-- IEEE `a < b` -/
def FVal.lt : FVal → FVal → Bool
  | .nan, _ => false
  | _, .nan => false
  | .negInf, .negInf => false
  | .negInf, _ => true
  | .fin _, .negInf => false
  | .fin a, .fin b => decide (a < b)
  | .fin _, .posInf => true
  | .posInf, _ => false

/-- IEEE `a == b` -/
def FVal.beq' : FVal → FVal → Bool
  | .nan, _ => false
  | _, .nan => false
  | .negInf, .negInf => true
  | .posInf, .posInf => true
  | .fin a, .fin b => decide (a = b)
  | _, _ => false

/-- IEEE `a <= b` -/
def FVal.le (a b : FVal) : Bool := a.lt b || a.beq' b

def FVal.isNan : FVal → Bool
  | .nan => true
  | _ => false

/-- one catalog row whose float64 columns may hold non-finite values -/
structure EventF where
  id : Nat
  originTime : Int
  latitude : FVal
  longitude : FVal
  depth : FVal
  magnitude : FVal
deriving DecidableEq, Repr

def EventF.get (e : EventF) : Attr → FVal
  | .originTime => .fin (e.originTime : Rat)
  | .latitude => e.latitude
  | .longitude => e.longitude
  | .depth => e.depth
  | .magnitude => e.magnitude

/-- `operators[oper](column, value)` for one row -/
def Op.evalF : Op → FVal → FVal → Bool
  | .gt, a, v => v.lt a
  | .lt, a, v => a.lt v
  | .ge, a, v => v.le a
  | .le, a, v => a.le v
  | .eq, a, v => a.beq' v

structure StmtF where
  attr : Attr
  op : Op
  value : FVal
deriving DecidableEq, Repr

def StmtF.holds (s : StmtF) (e : EventF) : Bool := s.op.evalF (e.get s.attr) s.value

def filterOneF (s : StmtF) (es : List EventF) : List EventF := es.filter s.holds

/-- the loop catalogs.py:536-547 (and the single-string branch :519-531 for a one-element list) -/
def filterListF (ss : List StmtF) (es : List EventF) : List EventF := ss.foldl (fun acc s => filterOneF s acc) es

/-- the logical complement of an operator on ordinary numbers (`>` ↔ `<=`, `<` ↔ `>=`); `==` has no complement in the table -/
def Op.compl : Op → Option Op
  | .gt => some .le | .le => some .gt | .lt => some .ge | .ge => some .lt | .eq => none

/-! embedding of the finite model -/
def Event.toF (e : Event) : EventF :=
  ⟨e.id, e.originTime, .fin e.latitude, .fin e.longitude, .fin e.depth, .fin e.magnitude⟩
def Stmt.toF (s : Stmt) : StmtF := ⟨s.attr, s.op, .fin s.value⟩

end CatFilter
