import PycsepVerif.Soft64
import PycsepVerif.Model.Ecdf

/-!
  Second layer of the model of csep/utils/stats.py `greater_equal_ecdf` / `less_equal_ecdf` (:85-138): the SAME code,
  but with numpy's type promotion made explicit.  The exact layer (`Model/Ecdf.lean`) compares the sample and the query
  as the rationals they denote; numpy compares them in a *comparison domain* that depends on the two dtypes:

  * the two short-circuits `val > ex[-1]`, `val < ex[0]` (:107-110, :131-134) compare a sample ELEMENT (a numpy scalar of
    the sample's dtype) with the query: a Python scalar is "weak" (NEP 50) and is converted to the element's dtype
    (a Python float against a float32 element is rounded to float32), two numpy integers are compared exactly
    (numpy has mixed-sign integer comparison loops), everything else in `numpy.result_type` of the two;
  * `numpy.searchsorted(ex, val)` (:111, :136) converts BOTH the sorted sample and the query to
    `numpy.result_type(ex.dtype, numpy.asarray(val).dtype)` — float64 for int64 × uint64 and for any integer × float —
    and searches there.

  A domain is modelled by its conversion `Rat → Rat` (`Dom.cast`): the identity, or rounding to binary16/32/64.
  `geEcdfNp sc se` / `leEcdfNp sc se` take the domain `sc` of the short-circuits and `se` of the search.  Indexing is
  Python's: `eyc[n]` is an IndexError, `ey[-1]` is the LAST element.

  Also here (exact layer and Soft64 layer): `sup_dist` (:6), `sup_dist_na` (:15), `min_or_none`/`max_or_none` (:140-156),
  and the float the library actually returns for a probability `(k, n)`: `ey = arange(1, n+1) / float(n)` (:82).
-/
namespace Ecdf
open Soft64

/-! ## comparison domains -/

/-- binary16 (IEEE half precision): 11 significant bits, minimum normal exponent −14 -/
def ulpExp16 (x : Rat) : Int :=
  let e := ilog2 (if x < 0 then -x else x)
  (if e < -14 then -14 else e) - 10

def fl16 (x : Rat) : Rat :=
  if x = 0 then 0 else
    let u := pow2 (ulpExp16 x)
    ((roundHalfEven (x / u) : Int) : Rat) * u

/-- a comparison domain of numpy: exact (integers of any width among themselves; a float type that holds both operands),
    or one of the three binary float types both operands are converted to -/
inductive Dom where
  | exact | f16 | f32 | f64
  deriving DecidableEq, Repr

/-- conversion into the domain.  Overflow to `inf` is represented by the value the unbounded-exponent rounding gives
    (≥ 2^16 / 2^128 / 2^1024, above every finite value of the type), which keeps every comparison with a finite element
    of the type right. -/
def Dom.cast : Dom → Rat → Rat
  | .exact, x => x
  | .f16, x => fl16 x
  | .f32, x => fl32 x
  | .f64, x => fl64 x

/-- what the library returns: a probability `k/n`, or Python raised IndexError -/
inductive NpOut where
  | prob (k n : Nat)
  | indexError
  deriving DecidableEq, Repr

/-- the body of `greater_equal_ecdf` on the sorted sample `ex` (stats.py:104-111) with the conversions explicit -/
def geSortedNp (sc se : Rat → Rat) (ex : List Rat) (v : Rat) : Option NpOut :=
  let n := ex.length
  match ex.head?, ex.getLast? with
  | some e0, some last =>
    if sc v > sc last then some (.prob 0 n)               -- `if val > ex[-1]: return 0.0`
    else if sc v < sc e0 then some (.prob n n)            -- `if val < ex[0]: return 1.0`
    else
      let i := searchLeft (ex.map se) (se v)              -- `numpy.searchsorted(ex, val)` in the common dtype
      if i < n then some (.prob (n - i) n) else some .indexError   -- `eyc[i]`, eyc = ey[::-1]
  | _, _ => none

/-- the body of `less_equal_ecdf` on the sorted sample (stats.py:129-136) -/
def leSortedNp (sc se : Rat → Rat) (ex : List Rat) (v : Rat) : Option NpOut :=
  let n := ex.length
  match ex.head?, ex.getLast? with
  | some e0, some last =>
    if sc v > sc last then some (.prob n n)
    else if sc v < sc e0 then some (.prob 0 n)
    else
      let i := searchRight (ex.map se) (se v)             -- `searchsorted(ex, val, side='right')`
      -- `ey[i - 1]`: for i = 0 the index −1 is the LAST element, (n, n)
      if i = 0 then some (.prob n n) else some (.prob i n)
  | _, _ => none

def geEcdfNp (sc se : Rat → Rat) (x : List Rat) (v : Rat) : Option NpOut := geSortedNp sc se (sort x) v
def leEcdfNp (sc se : Rat → Rat) (x : List Rat) (v : Rat) : Option NpOut := leSortedNp sc se (sort x) v

/-! ## the float a probability is returned as -/

/-- `ey[k-1] = k / float(n)` (stats.py:82), one binary64 division -/
def probF (k n : Nat) : Rat := fdiv (k : Rat) (n : Rat)

/-! ## `min_or_none`, `max_or_none` (stats.py:140-156) -/

def minOrNone : List Rat → Option Rat
  | [] => none
  | a :: l => some (l.foldl (fun m b => if b < m then b else m) a)

def maxOrNone : List Rat → Option Rat
  | [] => none
  | a :: l => some (l.foldl (fun m b => if m < b then b else m) a)

/-! ## `sup_dist`, `sup_dist_na` (stats.py:6-36) -/

def absR (a : Rat) : Rat := if a < 0 then -a else a

/-- `numpy.max` of a list of non-negative numbers (0 for the empty list; numpy raises there) -/
def maxL (l : List Rat) : Rat := l.foldl (fun m b => if m < b then b else m) 0

/-- `sup_dist(cdf1, cdf2) = numpy.max(numpy.absolute(cdf2 - cdf1))` on arrays of floats (Soft64: one rounded
    subtraction per entry; `absolute` and `max` are exact) -/
def supDistF (cdf1 cdf2 : List Rat) : Rat := maxL (List.zipWith (fun a b => absR (fsub b a)) cdf1 cdf2)

/-- the evaluation points of `sup_dist_na`: `data_all = concatenate([sort(data1), sort(data2)])` (:30-32) -/
def dataAll (d1 d2 : List Rat) : List Rat := sort d1 ++ sort d2

/-- `sup_dist_na(data1, data2)` over the rationals: `searchsorted(sort(d), data_all, side='right') / n` for both samples,
    the largest absolute difference (:33-35) -/
def supDistNa (d1 d2 : List Rat) : Rat :=
  maxL ((dataAll d1 d2).map fun t =>
    absR ((searchRight (sort d1) t : Nat) / (d1.length : Nat) - (searchRight (sort d2) t : Nat) / (d2.length : Nat)))

/-- the same in binary64, operation by operation: two divisions, one subtraction per evaluation point -/
def supDistNaF (d1 d2 : List Rat) : Rat :=
  maxL ((dataAll d1 d2).map fun t =>
    absR (fsub (fdiv (searchRight (sort d1) t : Nat) (d1.length : Nat))
               (fdiv (searchRight (sort d2) t : Nat) (d2.length : Nat))))

end Ecdf
