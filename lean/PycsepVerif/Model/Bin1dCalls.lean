import PycsepVerif.Soft64
import PycsepVerif.Model.Bin1d
/-
  Model of the CALL SITES of `bin1d_vec` for magnitudes — property C02 (observe_at of the property).

    CSEPCatalog.get_mag_idx                   catalogs.py:397-402   → `getMagIdx`        (region magnitudes, right_continuous=True, default tol)
    CSEPCatalog.magnitude_counts              catalogs.py:703-745   → `magnitudeCounts`  (tol=, right_continuous=True, −1 not counted, empty → zeros)
    MarkedGriddedDataSet.get_magnitude_index  forecasts.py:217-239  → `getMagnitudeIndex` (tol=, right_continuous=True, any −1 → ValueError)
    regions.magnitude_bins                    regions.py:291        → `magnitudeBins` = `cleanerRangeF`
    regions.create_space_magnitude_region     regions.py:307-316    → `createSpaceMagnitudeRegion` (binds the edges, `num_mag_bins = len`)

  All of them call `bin1d_vec(…, right_continuous=True)`: the last bin is open-ended. `pd` is the dtype of the magnitudes
  (catalog magnitudes are float64; the forecast method takes any array-like), `bd` the dtype of the edges.
-/
namespace Bin1d

/-- the configuration every magnitude call site uses: open-ended last bin; `tol` as passed through -/
def magCfg (pd bd : DT) (tol : Option Rat) : Cfg := { pd := pd, bd := bd, tol := tol, rc := true }

/-- catalogs.py:400 `bin1d_vec(self.get_magnitudes(), self.region.magnitudes, right_continuous=True)` -/
def getMagIdx (bins mags : List Rat) : List Int := mags.map (bin1dF (magCfg .f64 .f64 none) bins)

inductive MagErr where
  | valueError      -- "mags outside the range of forecast magnitudes."
  deriving DecidableEq, Repr

/-- forecasts.py:236-239 `get_magnitude_index(mags, tol)`: `bin1d_vec(mags, self.magnitudes, tol=tol, right_continuous=True)`;
any −1 raises ValueError -/
def getMagnitudeIndex (pd bd : DT) (tol : Option Rat) (bins mags : List Rat) : Except MagErr (List Int) :=
  let idm := mags.map (bin1dF (magCfg pd bd tol) bins)
  if idm.any (fun i => i == -1) then .error .valueError else .ok idm

/-- `numpy.add.at(out, idx[idx >= 0], 1)` on `out = zeros(n)` -/
def countsOf (n : Nat) (idx : List Int) : List Nat :=
  (List.range n).map (fun (k : Nat) => idx.countP (fun i => i == ((k : Nat) : Int)))

/-- catalogs.py:703-745 `magnitude_counts(mag_bins, tol)`: zeros for an empty catalog (:731-735), else the histogram of the
indices ≥ 0 (a magnitude below the first edge has index −1 and is NOT counted, fix 26e389b) -/
def magnitudeCounts (tol : Option Rat) (bins mags : List Rat) : List Nat :=
  if mags.isEmpty then List.replicate bins.length 0
  else countsOf bins.length (mags.map (bin1dF (magCfg .f64 .f64 tol) bins))

/-- regions.py:291-305 `magnitude_bins(start, end, dmw)` = `cleaner_range(start, end, dmw)` -/
def magnitudeBins (start end_ dmw : Rat) (dec : Nat) : Option (List Rat) := cleanerRangeF start end_ dmw dec

/-- regions.py:307-316 `create_space_magnitude_region(region, magnitudes)`: the region's magnitude edges and `num_mag_bins` -/
def createSpaceMagnitudeRegion (magnitudes : List Rat) : List Rat × Nat := (magnitudes, magnitudes.length)

end Bin1d
