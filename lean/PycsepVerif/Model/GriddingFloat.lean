import PycsepVerif.Model.Gridding
import PycsepVerif.Model.Bin1d
import PycsepVerif.Model.Bin1dCalls
/-
  The gridding pipelines with the lookups AS THE CODE COMPUTES THEM in binary64 — property C03, round 4.

  `Model/Gridding.lean` takes the exact meaning of the two lookups (`Region.cellOf`: last edge ≤ x; `magBin`: last edge ≤ m), which
  equals what the code computes only AWAY from the documented round-off band just below an edge; the generators therefore kept
  magnitudes and coordinates out of that band.  Here the lookups are the float-faithful `Bin1d.bin1dF` of property C02 (bit-exact
  model of `csep.utils.calc.bin1d_vec`, tied to the source by `Src.bin1d_vec_eq_model`), so EVERY float64 magnitude / coordinate is
  inside the model, the band included:

    bin1d_vec(mags, mag_bins, tol=tol, right_continuous=True)    catalogs.py:741, :791, :400   → `magBinF tol`
    bin1d_vec(lons, self.xs), bin1d_vec(lats, self.ys)           regions.py:613-614            → `colF`, `rowF`
    bbox_mask[idy, idx] / idx_map[idy, idx]                      regions.py:617-619            → `Region.cellAt` (C01)
    quadtree `_find_location` (pure float comparisons: exact)    regions.py:1086               → `qtFind` (unchanged)
-/
namespace Gridding

/-- a numpy index ≥ 0, or `none` for −1 -/
def idxOpt (i : Int) : Option Nat := if i < 0 then none else some i.toNat

/-- the magnitude bin the code computes: float64 magnitudes on float64 edges, `tol=` as passed, open top bin -/
def magBinF (tol : Option Rat) (edges : List Rat) (m : Rat) : Option Nat :=
  idxOpt (Bin1d.bin1dF (Bin1d.magCfg .f64 .f64 tol) edges m)

/-- column / row index of `CartesianGrid2D.get_index_of` (regions.py:613-614; closed mode, default tolerance) -/
def colF (R : Region.Region) (x : Rat) : Option Nat := idxOpt (Bin1d.bin1dF (Bin1d.cfg64 false) R.xs x)
def rowF (R : Region.Region) (y : Rat) : Option Nat := idxOpt (Bin1d.bin1dF (Bin1d.cfg64 false) R.ys y)

/-- `get_index_of` of one point as the code computes it: float column and row, then mask and index map -/
def cellOfF (R : Region.Region) (p : Rat × Rat) : Option Nat := R.cellAt (colF R p.1) (rowF R p.2)

def evsCartF (R : Region.Region) (tol : Option Rat) (edges : List Rat) (evs : List (Rat × Rat × Rat)) : List Ev :=
  evs.map (fun e => ⟨cellOfF R (e.1, e.2.1), magBinF tol edges e.2.2⟩)

def evsQuadF (bounds : List (Rat × Rat × Rat × Rat)) (tol : Option Rat) (edges : List Rat) (evs : List (Rat × Rat × Rat)) :
    List Ev :=
  evs.map (fun e => ⟨qtFind bounds (e.1, e.2.1), magBinF tol edges e.2.2⟩)

/-- `catalog.filter(['magnitude >= lo', 'magnitude < hi'])` is a pair of float comparisons: exact on float64 operands; the number
    of events the equivalent range filter of bin k keeps -/
def filterCount (edges : List Rat) (mags : List Rat) (k : Nat) : Nat :=
  match edges[k]? with
  | some lo => (magFilter lo edges[k + 1]? mags).length
  | none => 0

end Gridding
