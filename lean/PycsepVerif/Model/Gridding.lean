import PycsepVerif.Model.Region
/-
  Model of the gridding methods of csep/core/catalogs.py (exact layer) — property C03.

    spatial_counts               catalogs.py:665   → `spatialCounts`
    spatial_event_probability    catalogs.py:689   → `spatialEventProbability`
    magnitude_counts             catalogs.py:703   → `magnitudeCounts`
    spatial_magnitude_counts     catalogs.py:745   → `smcRaw`, `smc`
    CartesianGrid2D.get_index_of regions.py:602    → `getIndexOfCart` (raises when a point is outside)
    QuadtreeGrid2D.get_index_of  regions.py:1050   → `getIndexOfQuad` (DROPS the points it does not contain), `qtFind`
    bin1d_vec(…, right_continuous=True)            → `magBin` (exact meaning: last edge ≤ m, open top, -1 below)
    CSEPCatalog.filter(['magnitude >= a', 'magnitude < b'])  → `magFilter`

  After the two lookups an event is a pair (cell, bin) of optional indices: `none` = not in the region /
  below the first magnitude edge (numpy index -1, or a point dropped by the quadtree lookup).
-/
namespace Gridding

/-- result of the region lookup of one event's location and of the magnitude-bin lookup -/
structure Ev where
  cell : Option Nat
  bin : Option Nat
deriving Repr, DecidableEq

inductive Err where
  | outside     -- ValueError("at least one lon and lat pair contain values that are outside of the valid region.")
  | belowMin    -- ValueError("at least one magnitude value outside of the valid region.")
deriving Repr, DecidableEq

def zeros (n : Nat) : List Nat := List.replicate n 0

/-- `out[k] += 1` -/
def bump (out : List Nat) (k : Nat) : List Nat := out.modify k (· + 1)

/-- `numpy.add.at(out, idx, 1)`: one increment per occurrence -/
def addAt (out : List Nat) (idx : List Nat) : List Nat := idx.foldl bump out

/-- `out[idx] = 1` -/
def setAt (out : List Nat) (idx : List Nat) : List Nat := idx.foldl (fun o k => o.modify k (fun _ => 1)) out

/-! ### the two region lookups as list operations -/

/-- Cartesian `get_index_of`: ValueError as soon as one point is outside (regions.py:613-616) -/
def getIndexOfCart (locs : List (Option Nat)) : Except Err (List Nat) :=
  if locs.any (·.isNone) then .error .outside else .ok (locs.filterMap id)

/-- quadtree `get_index_of` on an array (regions.py:1060-1065): `numpy.append(idx, _find_location(…))` appends
    nothing for a point no tile contains, so unmatched points are dropped -/
def getIndexOfQuad (locs : List (Option Nat)) : List Nat := locs.filterMap id

/-- `_find_location`, regions.py:1073-1084: the first tile whose half-open bounds contain the point -/
def qtFind (bounds : List (Rat × Rat × Rat × Rat)) (p : Rat × Rat) : Option Nat :=
  bounds.findIdx? (fun b => decide (b.1 ≤ p.1) && decide (b.2.1 ≤ p.2) && decide (p.1 < b.2.2.1) && decide (p.2 < b.2.2.2))

/-! ### magnitudes -/

/-- exact meaning of `bin1d_vec(m, edges, right_continuous=True)`: last edge ≤ m; the last bin is open; -1 below -/
def magBin (edges : List Rat) (m : Rat) : Option Nat :=
  let c := Region.cnt edges m
  if c = 0 then none else some (c - 1)

/-- `catalog.filter(['magnitude >= lo', 'magnitude < hi'])` (hi = none for the open top bin) -/
def magFilter (lo : Rat) (hi : Option Rat) (mags : List Rat) : List Rat :=
  mags.filter (fun m => decide (lo ≤ m) && (match hi with | some h => decide (m < h) | none => true))

/-! ### the four gridding methods -/

/-- `spatial_counts` with a Cartesian region (catalogs.py:676-686) -/
def spatialCountsCart (ncell : Nat) (locs : List (Option Nat)) : Except Err (List Nat) :=
  if locs.isEmpty then .ok (zeros ncell)
  else match getIndexOfCart locs with
    | .error e => .error e
    | .ok idx => .ok (addAt (zeros ncell) idx)

/-- `spatial_counts` with a quadtree region: dropped points are simply not counted -/
def spatialCountsQuad (ncell : Nat) (locs : List (Option Nat)) : List Nat :=
  addAt (zeros ncell) (getIndexOfQuad locs)

/-- `spatial_event_probability` (catalogs.py:689-701), Cartesian -/
def spatialEventProbabilityCart (ncell : Nat) (locs : List (Option Nat)) : Except Err (List Nat) :=
  if locs.isEmpty then .ok (zeros ncell)
  else match getIndexOfCart locs with
    | .error e => .error e
    | .ok idx => .ok (setAt (zeros ncell) idx)

def spatialEventProbabilityQuad (ncell : Nat) (locs : List (Option Nat)) : List Nat :=
  setAt (zeros ncell) (getIndexOfQuad locs)

/-- `magnitude_counts` (catalogs.py:725-740): `numpy.add.at(out, idx[idx >= 0], 1)` -/
def magnitudeCounts (nbin : Nat) (bins : List (Option Nat)) : List Nat :=
  addAt (zeros nbin) (bins.filterMap id)

/-- the loop of `spatial_magnitude_counts` (catalogs.py:786-789) over the already computed index arrays:
    `event_counts[(spatial_idx[e], mag_idx[e])] += 1`, ValueError at the first magnitude index -1 -/
def smcLoop : List Nat → List (Option Nat) → List (List Nat) → Except Err (List (List Nat))
  | [], _, out => .ok out
  | _ :: _, [], out => .ok out
  | _ :: _, none :: _, _ => .error .belowMin
  | i :: is, some k :: ks, out => smcLoop is ks (out.modify i (fun rowv => bump rowv k))

/-- `spatial_magnitude_counts` after `get_index_of` returned `spatialIdx` (catalogs.py:775-790):
    the length check added by the repair of D6 (:781), then the loop -/
def smcRaw (ncell nbin : Nat) (nEvents : Nat) (spatialIdx : List Nat) (magIdx : List (Option Nat)) :
    Except Err (List (List Nat)) :=
  let out := List.replicate ncell (zeros nbin)
  if nEvents = 0 then .ok out                                         -- :776
  else if spatialIdx.length ≠ nEvents then .error .outside            -- :781
  else smcLoop spatialIdx magIdx out

/-- with a Cartesian region -/
def smcCart (ncell nbin : Nat) (evs : List Ev) : Except Err (List (List Nat)) :=
  if evs.isEmpty then .ok (List.replicate ncell (zeros nbin))
  else match getIndexOfCart (evs.map (·.cell)) with
    | .error e => .error e
    | .ok idx => smcRaw ncell nbin evs.length idx (evs.map (·.bin))

/-- with a quadtree region -/
def smcQuad (ncell nbin : Nat) (evs : List Ev) : Except Err (List (List Nat)) :=
  smcRaw ncell nbin evs.length (getIndexOfQuad (evs.map (·.cell))) (evs.map (·.bin))

/-! ### whole pipelines used by the driver: coordinates and magnitudes in, arrays out -/

def evsCart (R : Region.Region) (edges : List Rat) (evs : List (Rat × Rat × Rat)) : List Ev :=
  evs.map (fun e => ⟨R.cellOf (e.1, e.2.1), magBin edges e.2.2⟩)

def evsQuad (bounds : List (Rat × Rat × Rat × Rat)) (edges : List Rat) (evs : List (Rat × Rat × Rat)) : List Ev :=
  evs.map (fun e => ⟨qtFind bounds (e.1, e.2.1), magBin edges e.2.2⟩)

end Gridding
