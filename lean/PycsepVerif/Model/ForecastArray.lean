import PycsepVerif.Model.ForecastFile
import PycsepVerif.Model.Time
/-
  Round 4 of C11: two parts of csep/core/forecasts.py that were inputs / oracle-only until now.

  1. **ndarray scale factors.**  `GriddedDataSet.scale(val)` (forecasts.py:143-152) documents `val: int, float, or ndarray`
     and stores it unchecked (`self._scale = val`); the `data` property (:66-74) is `self._data * self._scale`, a numpy
     broadcast of the (cells, magnitudes) array with whatever was stored.  `Factor` = scalar (int, float, numpy scalar, 0-d
     array) | 1-d array | 2-d array; `Factor.expand N M` is numpy's broadcasting rule for the shapes that leave the result at
     (N, M) — trailing axes aligned, an axis of length 1 stretched; every other shape is `none` (numpy raises ValueError, or
     the result would have another shape: (N, 1) data times an (L,) factor) — and `dataA`, `totalA`, `spatialCountsA`,
     `magnitudeCountsA`, `getRatesA` are the views of the forecast under such a factor.  A history is a list of `AOp`s.

  2. **`scale_to_test_date` from the three datetimes** (forecasts.py:257-287).  The two comparisons, the three
     `decimal_year` calls (C15's bit-exact `Time.decimalYear`), the `+ timedelta(1)`, two float subtractions and one float
     division, in the order of the code: `testDateFraction`.  Datetimes are microseconds since the epoch (`Time`).
-/
namespace ForecastFile
open Soft64

/-! ## 1. ndarray factors -/

/-- what `scale(val)` may be handed -/
inductive Factor where
  | scalar (v : Rat)               -- int, float, numpy.float64, 0-d array
  | vec (w : List Rat)             -- shape (L,)
  | mat (rows : List (List Rat))   -- shape (a, b): a rows of b entries
  deriving DecidableEq, Repr

/-- one row of a factor stretched to `M` entries: length `M` as it is, length 1 repeated, anything else does not broadcast
    to a row of `M` -/
def stretchRow (M : Nat) (r : List Rat) : Option (List Rat) :=
  if r.length = M then some r
  else match r with
    | [x] => some (List.replicate M x)
    | _ => none

/-- every row of a 2-d factor stretched to `M` entries -/
def stretchAll (M : Nat) : List (List Rat) → Option (List (List Rat))
  | [] => some []
  | r :: rs =>
    match stretchRow M r, stretchAll M rs with
    | some a, some b => some (a :: b)
    | _, _ => none

/-- `numpy.broadcast_to(factor, (N, M))` flattened row-major; `none` = the product `_data * _scale` is not an (N, M) array -/
def Factor.expand (N M : Nat) : Factor → Option (List Rat)
  | .scalar v => some (List.replicate (N * M) v)
  | .vec w => (stretchRow M w).map (fun r => (List.replicate N r).flatten)
  | .mat rows =>
    match stretchAll M rows with
    | none => none
    | some rs =>
      if rs.length = N then some rs.flatten
      else match rs with
        | [r] => some (List.replicate N r).flatten
        | _ => none

/-- element-wise product of two flat arrays -/
def mulLists : List Rat → List Rat → List Rat
  | a :: l, b :: r => (a * b) :: mulLists l r
  | _, _ => []

/-- the `data` property with factor `w` in force: `_data * _scale` (`none` = numpy cannot broadcast to (cells, magnitudes)) -/
def dataA (F : Forecast) (w : Factor) : Option (List Rat) :=
  (w.expand F.cells.length F.mags.length).map (mulLists F.base)

/-- row sums / column sums of a flat (N, M) array -/
def spatialOf (M N : Nat) (l : List Rat) : List Rat := (chunks M N l).map List.sum
def magnitudeOf (M N : Nat) (l : List Rat) : List Rat := (chunks M N l).foldr addRows (List.replicate M 0)

def totalA (F : Forecast) (w : Factor) : Option Rat := (dataA F w).map List.sum
def spatialCountsA (F : Forecast) (w : Factor) : Option (List Rat) := (dataA F w).map (spatialOf F.mags.length F.cells.length)
def magnitudeCountsA (F : Forecast) (w : Factor) : Option (List Rat) :=
  (dataA F w).map (magnitudeOf F.mags.length F.cells.length)

/-- `get_rates` with factor `w` in force: `self.data[idx, idm]` -/
def getRatesA (F : Forecast) (w : Factor) (lon lat m : Rat) : Option Rat :=
  match getIndexOf F.cells lon lat, getMagnitudeIndex F.mags m, dataA F w with
  | some i, some k, some d => if k < F.mags.length then d[i * F.mags.length + k]? else none
  | _, _, _ => none

/-- a call of a history with array factors -/
inductive AOp where
  | scale (w : Factor)                    -- `scale(val)`
  | toTestDate (frac : Option Rat)        -- `scale_to_test_date`: inside the period `scale(frac)`, outside nothing
  deriving DecidableEq, Repr

/-- the object's `_scale` after one call -/
def stepFactor (cur : Factor) : AOp → Factor
  | .scale w => w
  | .toTestDate (some q) => .scalar q
  | .toTestDate none => cur

/-- `_scale` after a history that started at `cur` (a freshly loaded forecast: `.scalar 1`) -/
def runFactor (cur : Factor) (ops : List AOp) : Factor := ops.foldl stepFactor cur

/-- the factor a call sets, if it sets one -/
def AOp.sets? : AOp → Option Factor
  | .scale w => some w
  | .toTestDate (some q) => some (.scalar q)
  | .toTestDate none => none

/-- the last factor set by a history, `cur` when none was -/
def lastSet (cur : Factor) : List AOp → Factor
  | [] => cur
  | o :: ops => lastSet ((o.sets?).getD cur) ops

/-- a scalar history seen as an array history -/
def ScaleOp.toA : ScaleOp → AOp
  | .scale v => .scale (.scalar v)
  | .toTestDate q => .toTestDate q

/-! ## 2. `scale_to_test_date` from the datetimes -/

/-- forecasts.py:272-284.  `none` = `test_datetime >= end_time` or `test_datetime <= start_time`: `return self`;
    `some q` = the argument of `self.scale(...)`:
    `fore_dur = decimal_year(end) - decimal_year(start)`; `test_date_dec = decimal_year(test + timedelta(1))`;
    `fore_frac = (test_date_dec - decimal_year(start)) / fore_dur` -/
def testDateFraction (start end_ test : Int) : Option Rat :=
  if end_ ≤ test then none
  else if test ≤ start then none
  else
    let foreDur := fsub (Time.decimalYear end_) (Time.decimalYear start)
    let testDec := Time.decimalYear (test + Time.usPerDay)
    some (fdiv (fsub testDec (Time.decimalYear start)) foreDur)

/-- the same fraction in exact arithmetic: the part of the forecast period elapsed at the END of the test day -/
def testDateFractionExact (start end_ test : Int) : Rat :=
  (Time.decimalYearExact (test + Time.usPerDay) - Time.decimalYearExact start) /
    (Time.decimalYearExact end_ - Time.decimalYearExact start)

/-- `scale_to_test_date(test)` on a forecast whose period is (start, end) -/
def scaleToTestDate (F : Forecast) (start end_ test : Int) : Forecast :=
  applyOp F (.toTestDate (testDateFraction start end_ test))

/-- a history whose `scale_to_test_date` calls carry the test DATE (the fraction is computed, not supplied) -/
inductive DOp where
  | scale (v : Rat)
  | testDate (test : Int)
  deriving DecidableEq, Repr

def DOp.toScaleOp (start end_ : Int) : DOp → ScaleOp
  | .scale v => .scale v
  | .testDate t => .toTestDate (testDateFraction start end_ t)

def runDOps (F : Forecast) (start end_ : Int) (ops : List DOp) : Forecast :=
  runOps F (ops.map (DOp.toScaleOp start end_))

end ForecastFile
