import PycsepVerif.Model.Time
/-
  Model of catalog persistence (csep/core/catalogs.py `write_ascii`, `to_dict/from_dict`, `write_json/load_json`,
  `to_dataframe/from_dataframe`; csep/utils/readers.py `csep_ascii`; csep/__init__.py `load_catalog`).

  What is modelled is pyCSEP's own mapping logic: which field goes to which column and back, the header / empty /
  append branches, the catalog-id paths, and the time-string path (epoch ms → datetime → `str` → 'T' → strptime
  with fraction sniffing → epoch ms) on top of `Model/Time`.

  What is abstract (a codec with a round-trip hypothesis in the theorems, checked by the harness on every generated
  value): the text of a float (`str(numpy.float64)` / `float()`), CSV quoting (`csv.DictWriter` / `csv.reader`: the
  file is modelled as the list of records of fields), JSON text, pandas' column storage, the region's own dict form.
-/
namespace Persist
open Time

/-- one event of a CSEPCatalog (dtype order: id, origin_time, latitude, longitude, depth, magnitude);
    floats are the rationals they denote -/
structure Event where
  id : List Char
  ms : Int
  lat : Rat
  lon : Rat
  depth : Rat
  mag : Rat
deriving DecidableEq, Repr

/-- a catalog as far as persistence is concerned. `R` = the region type (abstract). -/
structure Catalog (R : Type) where
  events : List Event
  catalogId : Option Int
  name : Option (List Char)
  region : Option R

/-- text form of a float: `enc` = `str(numpy.float64(x))` as the csv writer calls it, `dec` = `float(text)`;
    `none` = ValueError -/
structure FloatCodec (F : Type) where
  enc : Rat → F
  dec : F → Option Rat

/-! ## CSEP ASCII -/

/-- one data record in header order: lon, lat, mag, time_string, depth, catalog_id, event_id (catalogs.py:321) -/
structure Row (F : Type) where
  lon : F
  lat : F
  mag : F
  time : List Char
  depth : F
  catId : List Char
  evId : List Char

/-- a record of the file: the header record (`line[0] == 'lon'`) or a data record. (A float text is never
    `lon`, so the two cannot be confused.) -/
inductive Line (F : Type) where
  | header
  | row (r : Row F)

/-- decimal text of a natural number, most significant digit first (fuel = number of digits allowed) -/
def natDigits : Nat → Nat → List Char
  | 0, _ => []
  | fuel + 1, n => if n < 10 then [digitChar n] else natDigits fuel (n / 10) ++ [digitChar n]

/-- `str(int)` -/
def intStr (i : Int) : List Char :=
  if i < 0 then '-' :: natDigits (i.natAbs + 1) i.natAbs else natDigits (i.natAbs + 1) i.natAbs

def parseNat? : List Char → Option Nat
  | [] => none
  | cs => cs.foldlM (fun acc c => (digit? c).map (fun v => acc * 10 + v)) 0

/-- `int(text)` for canonical decimal text (optional '-' then digits); `none` = ValueError. (Python's `int` also
    accepts surrounding blanks, '+', '_' — never written by `write_ascii`.) -/
def parseInt? : List Char → Option Int
  | '-' :: cs => (parseNat? cs).map (fun n => -(n : Int))
  | cs => (parseNat? cs).map (fun n => (n : Int))

/-- what `csv.DictWriter` writes for the `catalog_id` cell: `None` → empty, int → `str(int)` -/
def catIdText : Option Int → List Char
  | none => []
  | some i => intStr i

/-- the `time_string` cell (catalogs.py:355):
    `str(epoch_time_to_utc_datetime(ms).replace(tzinfo=None)).replace(' ', 'T')` -/
def timeString (ms : Int) : List Char := isoformat 'T' (toDatetime ms)

/-- the dict `adict` of catalogs.py:350 for one event -/
def rowOf {F} (c : FloatCodec F) (catId : Option Int) (e : Event) : Row F :=
  { lon := c.enc e.lon, lat := c.enc e.lat, mag := c.enc e.mag, time := timeString e.ms, depth := c.enc e.depth,
    catId := catIdText catId, evId := e.id }

/-- `write_ascii(filename, write_header, write_empty, append)` (catalogs.py:301) as a function of the previous file
    content (`old`, used only when appending). -/
def writeAscii {F R} (c : FloatCodec F) (cat : Catalog R) (writeHeader writeEmpty append : Bool)
    (old : List (Line F)) : List (Line F) :=
  let base := if append then old else []
  if writeHeader then
    if writeEmpty && cat.events.isEmpty then base ++ [Line.header]        -- header, then `return`
    else base ++ [Line.header] ++ cat.events.map (fun e => Line.row (rowOf c cat.catalogId e))
  else base ++ cat.events.map (fun e => Line.row (rowOf c cat.catalogId e))

inductive ReadErr where
  | valueError      -- float('…') failed (also: a header record after the first event)
  | timeFormat      -- CSEPIOException: neither reader format matches
deriving DecidableEq, Repr

/-- S256 storage of the id: at most 256 bytes are kept -/
def storeId (s : List Char) : List Char := s.take 256

/-- one data record → (event, catalog id) (readers.py:456-474); `i` = index of the record in the file -/
def parseRow {F} (c : FloatCodec F) (i : Nat) (r : Row F) : Except ReadErr (Event × Int) :=
  match c.dec r.lon, c.dec r.lat, c.dec r.mag with
  | some lon, some lat, some mag =>
    match readerParse r.time with
    | none => .error .timeFormat
    | some ms =>
      match c.dec r.depth with
      | none => .error .valueError
      | some depth =>
        let cid : Int := (parseInt? r.catId).getD (-1)          -- `except ValueError: catalog_id = -1`
        let eid := if r.evId.isEmpty then natDigits (i + 1) i else r.evId   -- `if not event_id: event_id = int(i)`
        .ok ({ id := storeId eid, ms := ms, lat := lat, lon := lon, depth := depth, mag := mag }, cid)
  | _, _, _ => .error .valueError

/-- `csep_ascii(fname, return_catalog_id=True)` (readers.py:410): header records are skipped until the first
    event has been read; the catalog id is the one of the last data record, `None` without data records. -/
def readLines {F} (c : FloatCodec F) : Bool → Nat → List (Line F) → Except ReadErr (List Event × Option Int)
  | _, _, [] => .ok ([], none)
  | first, i, Line.header :: rest =>
    if first then readLines c first (i + 1) rest else .error .valueError
  | _, i, Line.row r :: rest =>
    match parseRow c i r with
    | .error e => .error e
    | .ok (ev, cid) =>
      match readLines c false (i + 1) rest with
      | .error e => .error e
      | .ok (evs, later) => .ok (ev :: evs, match later with | some l => some l | none => some cid)

/-- `csep.load_catalog(fname)` (type 'csep-csv'): events and catalog id of the loaded CSEPCatalog -/
def loadAscii {F} (c : FloatCodec F) (file : List (Line F)) : Except ReadErr (List Event × Option Int) :=
  readLines c true 0 file

/-! ## dict / JSON -/

/-- the persistent part of `to_dict()` (catalogs.py:100): `catalog` = list of event lists in dtype order with the
    id decoded to `str`, plus the attributes the property speaks about. `D` = the region's dict form. -/
structure CatDict (D : Type) where
  catalog : List (List Char × Int × Rat × Rat × Rat × Rat)
  catalogId : Option Int
  name : Option (List Char)
  region : Option D

def eventTuple (e : Event) : List Char × Int × Rat × Rat × Rat × Rat := (e.id, e.ms, e.lat, e.lon, e.depth, e.mag)
def tupleEvent (t : List Char × Int × Rat × Rat × Rat × Rat) : Event :=
  { id := storeId t.1, ms := t.2.1, lat := t.2.2.1, lon := t.2.2.2.1, depth := t.2.2.2.2.1, mag := t.2.2.2.2.2 }

def toDict {R D} (regionToDict : R → D) (cat : Catalog R) : CatDict D :=
  { catalog := cat.events.map eventTuple, catalogId := cat.catalogId, name := cat.name,
    region := cat.region.map regionToDict }

/-- `from_dict(adict)` (catalogs.py:146): `cls(data=adict['catalog'])`, then every attribute present in the dict
    is copied; the region is rebuilt by its own `from_dict` -/
def fromDict {R D} (regionFromDict : D → R) (d : CatDict D) : Catalog R :=
  { events := d.catalog.map tupleEvent, catalogId := d.catalogId, name := d.name,
    region := d.region.map regionFromDict }

/-! ## DataFrame -/

/-- one row of `to_dataframe()` (catalogs.py:364): the dtype columns plus `counts` and `catalog_id` -/
structure FrameRow where
  ev : Event
  counts : Nat
  catalogId : Option Int

def toDataframe {R} (cat : Catalog R) : List FrameRow :=
  cat.events.map (fun e => { ev := e, counts := 1, catalogId := cat.catalogId })

/-- `from_dataframe(df)` (catalogs.py:186): catalog id from the first row (`None` for an empty frame), events from
    the dtype columns; name and region are not carried -/
def fromDataframe {R} (df : List FrameRow) : Catalog R :=
  { events := df.map (fun r => { r.ev with id := storeId r.ev.id }),
    catalogId := match df with | [] => none | r :: _ => r.catalogId,
    name := none, region := none }

/-! ## round 4

### `write_ascii(id_col=…)` when the catalog array has no such column (catalogs.py:339-342, :353-356)

`self.catalog[id_col]` raises ValueError, the event-id cells are written empty (`[''] * event_count`; a `str` has no
`decode`: the AttributeError branch), and the reader numbers such records by their index in the file (readers.py:
`if not event_id: event_id = int(i)`). -/

/-- the record written for an event when there is no id column -/
def rowOfNoId {F} (c : FloatCodec F) (catId : Option Int) (e : Event) : Row F :=
  { rowOf c catId e with evId := [] }

/-- `write_ascii(filename, write_header, write_empty, append, id_col)`; `hasIdCol` = the array has a field `id_col` -/
def writeAsciiG {F R} (c : FloatCodec F) (cat : Catalog R) (writeHeader writeEmpty append : Bool)
    (old : List (Line F)) (hasIdCol : Bool) : List (Line F) :=
  let base := if append then old else []
  let row := fun e => Line.row (if hasIdCol then rowOf c cat.catalogId e else rowOfNoId c cat.catalogId e)
  if writeHeader then
    if writeEmpty && cat.events.isEmpty then base ++ [Line.header]
    else base ++ [Line.header] ++ cat.events.map row
  else base ++ cat.events.map row

/-- what the reader makes of events whose id cells are empty: the id is the decimal index of the record in the file -/
def renumber : Nat → List Event → List Event
  | _, [] => []
  | i, e :: es => { e with id := storeId (natDigits (i + 1) i) } :: renumber (i + 1) es

/-! ### the spatial region's own dict form, concretely (regions.py:689 `CartesianGrid2D.to_dict`, :699 `from_dict`;
    catalogs.py:174-182 the region branch of `from_dict`) -/

/-- a `CartesianGrid2D` as far as its dict form and the binning of points are concerned -/
structure Region where
  origins : List (Rat × Rat)         -- (lon, lat) of every polygon's origin, in the region's index order
  dh : Rat
  name : Option (List Char)
  magnitudes : Option (List Rat)     -- NOT part of the dict form
deriving DecidableEq, Repr

/-- the keys of the dict form; `none` = key absent (hand-written dicts, other region classes) -/
structure RegionDict where
  name : Option (List Char)
  dh : Option Rat
  polygons : Option (List (Rat × Rat))     -- `{'lat': …, 'lon': …}` as (lat, lon)
  classId : Option (List Char)
deriving DecidableEq, Repr

def cartesianId : List Char := "CartesianGrid2D".toList

/-- `str(self.name)` -/
def pyStrName : Option (List Char) → List Char
  | none => "None".toList
  | some s => s

/-- regions.py:689 -/
def Region.toDict (r : Region) : RegionDict :=
  { name := some (pyStrName r.name), dh := some r.dh, polygons := some (r.origins.map (fun o => (o.2, o.1))),
    classId := some cartesianId }

inductive RegErr where
  | attributeError      -- "cannot create region object without origins" / "… without dh"
  | keyError            -- `region_loader[class_id]` for a class that is not registered
deriving DecidableEq, Repr

/-- regions.py:699 `CartesianGrid2D.from_dict` → `from_origins(origins, dh, magnitudes=adict.get('magnitudes'), name)` -/
def Region.fromDict (d : RegionDict) : Except RegErr Region :=
  match d.polygons with
  | none => .error .attributeError
  | some ps =>
    match d.dh with
    | none => .error .attributeError
    | some dh => .ok { origins := ps.map (fun p => (p.2, p.1)), dh := dh, name := some (d.name.getD cartesianId),
                       magnitudes := none }

/-- catalogs.py:174-182: `class_id = adict['region'].get('class_id')` (None → 'CartesianGrid2D'),
    `region_loader[class_id].from_dict(…)`, `except AttributeError: pass` (also swallows `None.get`) -/
def loadRegion (rd : Option RegionDict) : Except RegErr (Option Region) :=
  match rd with
  | none => .ok none
  | some d =>
    if d.classId.getD cartesianId = cartesianId then
      match Region.fromDict d with
      | .ok r => .ok (some r)
      | .error .attributeError => .ok none
      | .error e => .error e
    else .error .keyError

/-- `to_dict` / `from_dict` of a catalog with the region's dict form spelled out -/
def toDictC (cat : Catalog Region) : CatDict RegionDict := toDict Region.toDict cat

def fromDictC (d : CatDict RegionDict) : Except RegErr (Catalog Region) :=
  match loadRegion d.region with
  | .error e => .error e
  | .ok r => .ok { events := d.catalog.map tupleEvent, catalogId := d.catalogId, name := d.name, region := r }

/-- the cell a point falls in: the first polygon whose half-open square `[lon, lon+dh) × [lat, lat+dh)` holds it
    (exact-layer meaning of `region.get_index_of`, C01) -/
def Region.cellOf (r : Region) (lon lat : Rat) : Option Nat :=
  let i := r.origins.findIdx (fun o => decide (o.1 ≤ lon ∧ lon < o.1 + r.dh ∧ o.2 ≤ lat ∧ lat < o.2 + r.dh))
  if i < r.origins.length then some i else none

/-- events per cell (`catalog.spatial_counts()` at the exact layer) -/
def cellCounts (r : Region) (evs : List Event) : List Nat :=
  (List.range r.origins.length).map (fun i => (evs.filter (fun e => r.cellOf e.lon e.lat = some i)).length)

/-! ### phase 2: the datetime-indexed frame (`to_dataframe(with_datetime=True)`, catalogs.py:385-387)

`df.index = df['datetime']`: the index LABEL of a row is the event's origin time, so events sharing an origin time give
duplicated labels.  `from_dataframe` reads the catalog id by POSITION (`df['catalog_id'].iloc[0]`, catalogs.py:207) and
the events by column (`df[col_list]`): no label is ever consulted. -/

/-- a row together with its index label (default frame: the row number; datetime frame: the origin time) -/
structure LRow where
  label : Int
  row : FrameRow

def toDataframeDt {R} (cat : Catalog R) : List LRow :=
  (toDataframe cat).map (fun r => { label := r.ev.ms, row := r })

/-- `from_dataframe` on a labelled frame: positional, the labels play no role -/
def fromDataframeL {R} (df : List LRow) : Catalog R := fromDataframe (df.map (·.row))

/-- what a LABEL-based scalar accessor (`df.at[label, 'catalog_id']`, `df.loc[label, …]`) sees: every row carrying the
    label.  It is a scalar iff this list has exactly one element. -/
def atLabel (df : List LRow) (l : Int) : List (Option Int) := (df.filter (·.label = l)).map (·.row.catalogId)

/-- what a region looks like after its dict form: same polygons, same spacing; the name went through `str()`;
    magnitude bins are not carried -/
def Region.afterDict (r : Region) : Region := { r with name := some (pyStrName r.name), magnitudes := none }

end Persist
