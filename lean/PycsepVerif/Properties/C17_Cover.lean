import PycsepVerif.Proofs.QuadKraft
import PycsepVerif.Proofs.QuadBbox

/-!
# C17 (extension) — when does an arbitrary prefix-free key list cover the domain?  Kraft's equality

For `from_catalog` / single-resolution grids coverage is a theorem of the recursion (`from_catalog_partition`). For ARBITRARY key lists
(`from_quadkeys`, the shipped California file) the harness oracle decided "the cells cover the domain" by the exact sum
Σ 4^(−|k|) = 1. That criterion is now proved: for a prefix-free list, every point of lon [−180,180) × the Mercator band lies in a listed
cell iff the sum is 1 (`prefix_free_cover_iff_kraft`, `…_rat`), and then the list is a partition and `_find_location` finds a cell exactly
for the points of the domain (`prefix_free_partition_of_kraft`, `locate_total_of_kraft`). A gap anywhere makes the sum smaller
(`kraft_le_one`): Σ 4^(−|k|) ≤ 1 for every prefix-free list.
-/
namespace Quadtree

/-- **coverage ⇔ Kraft equality.**  A prefix-free key list whose keys have depth ≤ D covers the whole domain iff
    Σ 4^(D − |k|) = 4^D, i.e. Σ 4^(−|k|) = 1 — the test the harness oracle uses for "the cells cover the domain". -/
theorem prefix_free_cover_iff_kraft (L : List Key) (hpf : prefixFree L) (D : Nat) (hD : ∀ k ∈ L, k.length ≤ D) :
    (∀ p, InTile [] p → ∃ k ∈ L, InTile k p) ↔ (L.map (fun k => 4 ^ (D - k.length))).sum = 4 ^ D := by
  -- both sides ⇔ every depth-D key has a listed prefix
  have hmid : (∀ p, InTile [] p → ∃ k ∈ L, InTile k p) ↔ ∀ t ∈ keysOfLen D, ∃ k ∈ L, k <+: t := by
    constructor
    · intro h t ht
      have hlen := (mem_keysOfLen D t).mp ht
      have hin := (corner_ownership t).1
      obtain ⟨k, hk, hkin⟩ := h _ (inTile_of_prefix List.nil_prefix hin)
      exact ⟨k, hk, prefix_of_common_point hkin hin (by have := hD k hk; omega)⟩
    · intro h p hp
      have ht : InTile (keyOf D p) p := (inTile_iff_keyOf _ p).mpr ⟨hp, by rw [keyOf_length]⟩
      obtain ⟨k, hk, hpre⟩ := h (keyOf D p) ((mem_keysOfLen D _).mpr (keyOf_length D p))
      exact ⟨k, hk, inTile_of_prefix hpre ht⟩
  rw [hmid]
  have hsum : (L.map (fun k => 4 ^ (D - k.length))).sum
      = ((keysOfLen D).map (fun t => L.countP (fun k => k.isPrefixOf t))).sum := by
    rw [sum_countP_swap (fun k t => k.isPrefixOf t) L (keysOfLen D)]
    congr 1
    apply List.map_congr_left
    intro k hk
    exact (countP_prefix_keysOfLen D k (hD k hk)).symm
  rw [hsum, ← length_keysOfLen D, sum_eq_length_iff _ _ (fun t _ => prefixes_le_one hpf t)]
  constructor
  · intro h t ht
    obtain ⟨k, hk, hpre⟩ := h t ht
    have hpos : 0 < L.countP (fun k => k.isPrefixOf t) :=
      List.countP_pos_iff.mpr ⟨k, hk, by rw [List.isPrefixOf_iff_prefix]; exact hpre⟩
    have := prefixes_le_one hpf t
    omega
  · intro h t ht
    have hpos : 0 < L.countP (fun k => k.isPrefixOf t) := by rw [h t ht]; omega
    obtain ⟨k, hk, hq⟩ := List.countP_pos_iff.mp hpos
    exact ⟨k, hk, by rwa [List.isPrefixOf_iff_prefix] at hq⟩


/-- every prefix-free list has Σ 4^(D−|k|) ≤ 4^D (Kraft's inequality): the missing measure is the size of the gaps -/
theorem kraft_le_one (L : List Key) (hpf : prefixFree L) (D : Nat) (hD : ∀ k ∈ L, k.length ≤ D) :
    (L.map (fun k => 4 ^ (D - k.length))).sum ≤ 4 ^ D := by
  have hsum : (L.map (fun k => 4 ^ (D - k.length))).sum
      = ((keysOfLen D).map (fun t => L.countP (fun k => k.isPrefixOf t))).sum := by
    rw [sum_countP_swap (fun k t => k.isPrefixOf t) L (keysOfLen D)]
    congr 1
    apply List.map_congr_left
    intro k hk
    exact (countP_prefix_keysOfLen D k (hD k hk)).symm
  rw [hsum, ← length_keysOfLen D]
  generalize keysOfLen D = T
  induction T with
  | nil => simp
  | cons t ts ih =>
    have := prefixes_le_one hpf t
    simp only [List.map_cons, List.sum_cons, List.length_cons]; omega

/-- the same criterion as the harness computes it, in rationals: Σ (1/4)^|k| = 1 -/
theorem prefix_free_cover_iff_kraft_rat (L : List Key) (hpf : prefixFree L) :
    (∀ p, InTile [] p → ∃ k ∈ L, InTile k p) ↔ (L.map (fun k => (1 / 4 : ℚ) ^ k.length)).sum = 1 := by
  -- D := sum of all lengths bounds every length
  have hD : ∀ k ∈ L, k.length ≤ (L.map List.length).sum := fun k hk => List.single_le_sum (by simp) _ (List.mem_map.mpr ⟨k, hk, rfl⟩)
  rw [prefix_free_cover_iff_kraft L hpf _ hD]
  generalize (L.map List.length).sum = D at hD
  have castS : (((L.map (fun k => 4 ^ (D - k.length)) : List ℕ).sum : ℕ) : ℚ)
      = (L.map (fun k => (4 : ℚ) ^ (D - k.length))).sum := by
    clear hpf hD
    induction L with
    | nil => simp
    | cons a l ih => simp [ih]
  have conv : (L.map (fun k => (4 : ℚ) ^ (D - k.length))).sum = 4 ^ D * (L.map (fun k => (1 / 4 : ℚ) ^ k.length)).sum := by
    clear hpf castS
    induction L with
    | nil => simp
    | cons a l ih =>
      have ha := hD a List.mem_cons_self
      have := ih (fun k hk => hD k (List.mem_cons_of_mem _ hk))
      simp only [List.map_cons, List.sum_cons] at this ⊢
      rw [this, mul_add]
      congr 1
      rw [one_div, inv_pow, ← div_eq_mul_inv, eq_div_iff (by positivity), ← pow_add]
      congr 1; omega
  have h4 : (4 : ℚ) ^ D ≠ 0 := by positivity
  constructor
  · intro h
    have h' : (((L.map (fun k => 4 ^ (D - k.length)) : List ℕ).sum : ℕ) : ℚ) = 4 ^ D := by rw [h]; push_cast; rfl
    rw [castS, conv] at h'
    have := mul_left_cancel₀ h4 (h'.trans (mul_one _).symm)
    exact this
  · intro h
    have : (((L.map (fun k => 4 ^ (D - k.length)) : List ℕ).sum : ℕ) : ℚ) = ((4 ^ D : ℕ) : ℚ) := by
      rw [castS, conv, h, mul_one]; push_cast; rfl
    exact_mod_cast this

/-- a prefix-free list with Kraft sum 1 is a PARTITION of the domain: every point of the domain lies in exactly one listed cell,
    points outside in none -/
theorem prefix_free_partition_of_kraft (L : List Key) (hpf : prefixFree L)
    (hk : (L.map (fun k => (1 / 4 : ℚ) ^ k.length)).sum = 1) (p : Pt) :
    L.countP (fun k => inTile k p) = if InTile [] p then 1 else 0 := by
  have hcov := (prefix_free_cover_iff_kraft_rat L hpf).mpr hk
  have hle : L.countP (fun k => inTile k p) ≤ 1 := by
    apply countP_le_one_of_pairwise
    unfold prefixFree at hpf
    refine hpf.imp ?_
    intro a b hab ⟨ha, hb⟩
    simp only [inTile, decide_eq_true_eq] at ha hb
    rcases overlap_iff_nested ha hb with h | h
    · exact hab.1 h
    · exact hab.2 h
  by_cases hp : InTile [] p
  · rw [if_pos hp]
    obtain ⟨k, hkL, hin⟩ := hcov p hp
    have : 0 < L.countP (fun k => inTile k p) := List.countP_pos_iff.mpr ⟨k, hkL, by simpa [inTile] using hin⟩
    omega
  · rw [if_neg hp, List.countP_eq_zero]
    intro k _ hin
    simp only [inTile, decide_eq_true_eq] at hin
    exact hp (inTile_of_prefix List.nil_prefix hin)

/-- … and `_find_location` on it returns a cell exactly for the points of the domain -/
theorem locate_total_of_kraft (L : List Key) (hpf : prefixFree L)
    (hk : (L.map (fun k => (1 / 4 : ℚ) ^ k.length)).sum = 1) (p : Pt) :
    findLocation L p = none ↔ ¬ InTile [] p := by
  rw [(locate_spec L p).2.1]
  have hc := prefix_free_partition_of_kraft L hpf hk p
  constructor
  · intro h hin
    rw [if_pos hin] at hc
    have hpos : 0 < L.countP (fun k => inTile k p) := by omega
    obtain ⟨k, hkL, hkin⟩ := List.countP_pos_iff.mp hpos
    exact h k hkL (by simpa [inTile] using hkin)
  · intro hn k _ hin
    exact hn (inTile_of_prefix List.nil_prefix hin)

/-! ## non-vacuity -/
example : prefixFree [[0, 0], [0, 1], [0, 2], [0, 3], [1], [2], [3]] ∧
    ([[0, 0], [0, 1], [0, 2], [0, 3], [1], [2], [3]].map (fun k : Key => 4 ^ (2 - k.length))).sum = 4 ^ 2 := by
  unfold prefixFree; decide +kernel
-- a gap: '1' and '2' missing, measure 1/2; the point (3/4, 1/4) of tile '1' is in no cell
example : ([[0], [3]].map (fun k : Key => 4 ^ (1 - k.length))).sum = 2 ∧ findLocation [[0], [3]] ⟨mkRat 3 4, mkRat 1 4⟩ = none := by
  decide +kernel

end Quadtree
