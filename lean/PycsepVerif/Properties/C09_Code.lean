import PycsepVerif.Proofs.EcdfCode
import PycsepVerif.Properties.C09_Numpy

/-!
# C09 — third layer: the code on the arrays it builds (`Model/EcdfCode.lean`)

`geCode` / `leCode` / `binnedCode` follow csep/utils/stats.py statement by statement: the two arrays of `ecdf`, the
reversed array, Python subscripts (negative index, IndexError), the optional `cdf=` argument, numpy's binary search as the
loop it is, float64 query values including ±inf and nan.

* `searchsorted_is_insertion_point`: numpy's binary-search loop returns the left / right insertion point on EVERY sorted
  array (what `Model/Ecdf.lean` took from numpy's documentation as `searchLeft` / `searchRight`);
* `ge_code_eq`, `le_code_eq`: for every non-empty sample and every finite query the statement-level code returns
  `#{x_i ≥ v}/n`, `#{x_i ≤ v}/n` (never IndexError, never None) — the property for the arrays-and-subscripts code;
* `code_refines_pair_model`: it agrees with the closed-form model of `Model/Ecdf.lean`;
* `code_infinite_query`: `+inf` → (0, 1), `-inf` → (1, 0) (so "above / below the sample values" includes the infinities);
  `code_nan_query` (characterisation, outside the property: `nan` is not a value): "at least" raises IndexError, "at most" is 1;
* `cdf_arg_own`, `cdf_arg_wins`: with `cdf=ecdf(x)` the result is that of the plain call; with the ecdf of ANOTHER non-empty
  sample `y` the answer is the one for `y` — the sample argument is only tested for emptiness;
* `binned_code_eq`: `binned_ecdf` (one shared `ecdf(x)`) is the list of "at most" probabilities;
* `quantiles_code_sum`, `ge_code_anti`, `le_code_mono`: the consequences named in the property, for the returned values.
-/
namespace Ecdf

/-- numpy's binary search (the loop of `npy_binsearch`) finds the insertion point on every sorted array, both sides -/
theorem searchsorted_is_insertion_point (a : List Rat) (hs : a.Pairwise (fun x y => x ≤ y)) (v : Rat) :
    bsearch (Q.fin v).elemLt a 0 a.length = a.countP (fun e => decide (e < v)) ∧
    bsearch (Q.fin v).elemLe a 0 a.length = a.countP (fun e => decide (e ≤ v)) := by
  have h1 : (Q.fin v).elemLt = fun e => decide (e < v) := by funext e; rfl
  have h2 : (Q.fin v).elemLe = fun e => decide (e ≤ v) := by funext e; rfl
  rw [h1, h2, bsearch_left_sorted hs, bsearch_right_sorted hs]
  have hsort := sort_of_sorted hs
  constructor
  · have := searchLeft_sort a v; rwa [hsort] at this
  · have := searchRight_sort a v; rwa [hsort] at this

-- non-vacuity: a sorted array with ties, key on the tie
example : bsearch (Q.fin 2).elemLt [1, 2, 2, 3] 0 4 = 1 ∧ bsearch (Q.fin 2).elemLe [1, 2, 2, 3] 0 4 = 3 := by
  obtain ⟨h1, h2⟩ := searchsorted_is_insertion_point [1, 2, 2, 3] (by decide +kernel) 2
  show bsearch (Q.fin 2).elemLt [1, 2, 2, 3] 0 ([1, 2, 2, 3] : List Rat).length = 1 ∧
    bsearch (Q.fin 2).elemLe [1, 2, 2, 3] 0 ([1, 2, 2, 3] : List Rat).length = 3
  rw [h1, h2]; decide +kernel

private theorem natCast_ne_zero {n : Nat} (h : n ≠ 0) : ((n : Nat) : Rat) ≠ 0 := by exact_mod_cast h

/-- C09 for the statement-level code, "at least": `greater_equal_ecdf(x, v)` = #{x_i ≥ v}/n -/
theorem ge_code_eq (x : List Rat) (v : Rat) (hx : x ≠ []) :
    geCode x (.fin v) none = .val ((cntGE x v : Nat) / (x.length : Nat)) := by
  obtain ⟨e0, last, hhead, hlast, he0, hlastm, hmin, hmax⟩ := sort_head_last hx
  have hlen : (sort x).length = x.length := (sort_perm x).length_eq
  have hn : x.length ≠ 0 := by intro h; exact hx (List.eq_nil_of_length_eq_zero h)
  have hnq := natCast_ne_zero hn
  unfold geCode
  simp only [hn, if_false, ecdfArr, pyIndex_neg_one, pyIndex_zero, hhead, hlast, Q.gtElem, Q.ltElem]
  by_cases h1 : last < v
  · -- above every sample value
    have : cntGE x v = 0 := by
      unfold cntGE; rw [List.countP_eq_zero]; intro a ha; simp
      exact lt_of_le_of_lt (hmax a ha) h1
    simp [h1, this]
  · by_cases h2 : v < e0
    · have : cntGE x v = x.length := by
        unfold cntGE; rw [List.countP_eq_length]; intro a ha; simp
        exact Rat.le_of_lt (Std.lt_of_lt_of_le h2 (hmin a ha))
      simp [h1, h2, this, hnq]
    · have hb := (searchsorted_is_insertion_point (sort x) (sort_sorted x) v).1
      rw [(sort_perm x).countP_eq, hlen] at hb
      have hlt : x.countP (fun a => decide (a < v)) < x.length :=
        countP_lt_length_of_mem hlastm (by simpa using h1)
      have hsum := countP_ge_add_lt x v
      simp only [h1, h2, decide_false, Bool.false_eq_true, if_false, hlen, hb, pyIndex_nat,
        eyArr_reverse_getElem? _ _ hlt]
      have : x.length - x.countP (fun a => decide (a < v)) = cntGE x v := by unfold cntGE; omega
      rw [this]

/-- C09 for the statement-level code, "at most": `less_equal_ecdf(x, v)` = #{x_i ≤ v}/n -/
theorem le_code_eq (x : List Rat) (v : Rat) (hx : x ≠ []) :
    leCode x (.fin v) none = .val ((cntLE x v : Nat) / (x.length : Nat)) := by
  obtain ⟨e0, last, hhead, hlast, he0, hlastm, hmin, hmax⟩ := sort_head_last hx
  have hlen : (sort x).length = x.length := (sort_perm x).length_eq
  have hn : x.length ≠ 0 := by intro h; exact hx (List.eq_nil_of_length_eq_zero h)
  have hnq := natCast_ne_zero hn
  unfold leCode
  simp only [hn, if_false, ecdfArr, pyIndex_neg_one, pyIndex_zero, hhead, hlast, Q.gtElem, Q.ltElem]
  by_cases h1 : last < v
  · have : cntLE x v = x.length := by
      unfold cntLE; rw [List.countP_eq_length]; intro a ha; simp
      exact Rat.le_of_lt (Std.lt_of_le_of_lt (hmax a ha) h1)
    simp [h1, this, hnq]
  · by_cases h2 : v < e0
    · have : cntLE x v = 0 := by
        unfold cntLE; rw [List.countP_eq_zero]; intro a ha; simp
        exact lt_of_lt_of_le h2 (hmin a ha)
      simp [h1, h2, this]
    · have hb := (searchsorted_is_insertion_point (sort x) (sort_sorted x) v).2
      rw [(sort_perm x).countP_eq, hlen] at hb
      have hpos : 0 < x.countP (fun a => decide (a ≤ v)) :=
        List.countP_pos_iff.mpr ⟨e0, he0, by simpa using Rat.not_lt.mp h2⟩
      have hle : x.countP (fun a => decide (a ≤ v)) ≤ x.length := List.countP_le_length
      have hne : x.countP (fun a => decide (a ≤ v)) ≠ 0 := by omega
      simp only [h1, h2, decide_false, Bool.false_eq_true, if_false, hlen, hb, pyIndex_pred, hne,
        eyArr_getElem? _ _ (by omega : x.countP (fun a => decide (a ≤ v)) - 1 < x.length)]
      have : x.countP (fun a => decide (a ≤ v)) - 1 + 1 = cntLE x v := by unfold cntLE; omega
      rw [this]

-- non-vacuity: ties, query on the tied value, through arrays, reversed array, subscripts and binary search
example : geCode [3, 1, 3, 2] (.fin 3) none = .val (1 / 2) ∧ leCode [3, 1, 3, 2] (.fin 3) none = .val 1 := by
  rw [ge_code_eq _ _ (by simp), le_code_eq _ _ (by simp)]
  constructor <;> congr 1 <;> (simp [cntGE, cntLE]; try norm_num)

/-- an empty sample gives `None` whatever the other arguments are -/
theorem code_empty_none (v : Q) (cdf : Option (List Rat × List Rat)) :
    geCode [] v cdf = .none ∧ leCode [] v cdf = .none ∧ binnedCode [] [v] = none := by
  simp [geCode, leCode, binnedCode]

/-- the statement-level code agrees with the closed-form model of `Model/Ecdf.lean` (pairs `(k, n)` read as `k / n`) -/
theorem code_refines_pair_model (x : List Rat) (v : Rat) (hx : x ≠ []) :
    (∃ k n, geEcdf x v = some (k, n) ∧ geCode x (.fin v) none = .val ((k : Nat) / (n : Nat))) ∧
    (∃ k n, leEcdf x v = some (k, n) ∧ leCode x (.fin v) none = .val ((k : Nat) / (n : Nat))) :=
  ⟨⟨_, _, ge_ecdf_eq x v hx, ge_code_eq x v hx⟩, ⟨_, _, le_ecdf_eq x v hx, le_code_eq x v hx⟩⟩

/-- `+inf` lies above and `-inf` below every sample value: (0, 1) and (1, 0), by the two short-circuits -/
theorem code_infinite_query (x : List Rat) (hx : x ≠ []) :
    geCode x .posInf none = .val 0 ∧ leCode x .posInf none = .val 1 ∧
    geCode x .negInf none = .val 1 ∧ leCode x .negInf none = .val 0 := by
  obtain ⟨e0, last, hhead, hlast, -, -, -, -⟩ := sort_head_last hx
  have hn : x.length ≠ 0 := by intro h; exact hx (List.eq_nil_of_length_eq_zero h)
  unfold geCode leCode
  simp [hn, ecdfArr, pyIndex_neg_one, pyIndex_zero, hhead, hlast, Q.gtElem, Q.ltElem]

/-- characterisation (outside the property: `nan` is not a value): both comparisons are false, `searchsorted` puts `nan`
    after every number, so "at least" subscripts `eyc[n]` — IndexError — and "at most" reads `ey[n-1]` = 1 -/
theorem code_nan_query (x : List Rat) (hx : x ≠ []) :
    geCode x .nan none = .indexError ∧ leCode x .nan none = .val 1 := by
  obtain ⟨e0, last, hhead, hlast, -, -, -, -⟩ := sort_head_last hx
  have hlen : (sort x).length = x.length := (sort_perm x).length_eq
  have hn : x.length ≠ 0 := by intro h; exact hx (List.eq_nil_of_length_eq_zero h)
  have hnq := natCast_ne_zero hn
  have ht : Q.nan.elemLt = fun _ => true := by funext e; rfl
  have ht' : Q.nan.elemLe = fun _ => true := by funext e; rfl
  have hb : bsearch (fun _ => true) (sort x) 0 x.length = x.length := by
    have := bsearch_const_true (sort x); rwa [hlen] at this
  unfold geCode leCode
  simp only [hn, if_false, ecdfArr, pyIndex_neg_one, pyIndex_zero, hhead, hlast, Q.gtElem, Q.ltElem, ht, ht',
    hb, hlen, pyIndex_nat, pyIndex_pred, Bool.false_eq_true]
  constructor
  · rw [eyArr_reverse_getElem?_none _ _ (Nat.le_refl _)]
  · rw [eyArr_getElem? _ _ (by omega : x.length - 1 < x.length)]
    have : x.length - 1 + 1 = x.length := by omega
    rw [this]; simp [hnq]

/-- `cdf=ecdf(x)` (what `binned_ecdf` passes): the same result as the plain call, for every query value -/
theorem cdf_arg_own (x : List Rat) (v : Q) :
    geCode x v (some (ecdfArr x)) = geCode x v none ∧ leCode x v (some (ecdfArr x)) = leCode x v none := by
  constructor <;> rfl

/-- the `cdf=` argument WINS: with the ecdf of another non-empty sample `y` the answer is the one for `y`; the sample
    argument is only tested for emptiness (the docstring's "ecdf of x" is a precondition the code does not check) -/
theorem cdf_arg_wins (x y : List Rat) (v : Q) (hx : x ≠ []) (hy : y ≠ []) :
    geCode x v (some (ecdfArr y)) = geCode y v none ∧ leCode x v (some (ecdfArr y)) = leCode y v none := by
  have hn : x.length ≠ 0 := by intro h; exact hx (List.eq_nil_of_length_eq_zero h)
  have hm : y.length ≠ 0 := by intro h; exact hy (List.eq_nil_of_length_eq_zero h)
  constructor <;> simp [geCode, leCode, hn, hm]

-- non-vacuity: a stale ecdf (of [1, 1]) answers for [1, 1], not for the sample [5, 6]
example : leCode [5, 6] (.fin 2) (some (ecdfArr [1, 1])) = .val 1 ∧ leCode [5, 6] (.fin 2) none = .val 0 := by
  rw [(cdf_arg_wins [5, 6] [1, 1] (.fin 2) (by simp) (by simp)).2, le_code_eq _ _ (by simp), le_code_eq _ _ (by simp)]
  constructor <;> congr 1 <;> simp [cntLE] <;> norm_num

/-- `binned_ecdf(x, vals)`: the list, in order, of the "at most" probabilities at the (finite) query values -/
theorem binned_code_eq (x : List Rat) (vals : List Rat) (hx : x ≠ []) :
    binnedCode x (vals.map Q.fin) =
      some (vals.map fun v => Out.val ((cntLE x v : Nat) / (x.length : Nat))) := by
  have hn : x.length ≠ 0 := by intro h; exact hx (List.eq_nil_of_length_eq_zero h)
  unfold binnedCode
  simp only [hn, if_false, List.map_map]
  congr 1
  apply List.map_congr_left
  intro v _
  simp only [Function.comp]
  rw [(cdf_arg_own x (.fin v)).2, le_code_eq x v hx]

/-- the returned values sum to `1 + #{x_i = v}/n` -/
theorem quantiles_code_sum (x : List Rat) (v : Rat) (hx : x ≠ []) :
    ∃ a b, quantilesCode x (.fin v) = (.val a, .val b) ∧ a + b = 1 + (cntEQ x v : Nat) / (x.length : Nat) := by
  refine ⟨_, _, by unfold quantilesCode; rw [ge_code_eq x v hx, le_code_eq x v hx], ?_⟩
  have hn : x.length ≠ 0 := by intro h; exact hx (List.eq_nil_of_length_eq_zero h)
  have hnq := natCast_ne_zero hn
  have h := ecdf_sum x v
  have hq : ((cntGE x v : Nat) : Rat) + (cntLE x v : Nat) = (x.length : Nat) + (cntEQ x v : Nat) := by exact_mod_cast h
  field_simp
  linarith

/-- "at least" (the value returned) is non-increasing, "at most" non-decreasing in the query -/
theorem ge_code_anti (x : List Rat) (hx : x ≠ []) {v w : Rat} (h : v ≤ w) :
    ∃ a b, geCode x (.fin v) none = .val a ∧ geCode x (.fin w) none = .val b ∧ b ≤ a := by
  refine ⟨_, _, ge_code_eq x v hx, ge_code_eq x w hx, ?_⟩
  have hn : x.length ≠ 0 := by intro h; exact hx (List.eq_nil_of_length_eq_zero h)
  have hpos : (0 : Rat) < (x.length : Nat) := by exact_mod_cast Nat.pos_of_ne_zero hn
  have := ge_anti x h
  exact div_le_div_of_nonneg_right (by exact_mod_cast this) hpos.le

theorem le_code_mono (x : List Rat) (hx : x ≠ []) {v w : Rat} (h : v ≤ w) :
    ∃ a b, leCode x (.fin v) none = .val a ∧ leCode x (.fin w) none = .val b ∧ a ≤ b := by
  refine ⟨_, _, le_code_eq x v hx, le_code_eq x w hx, ?_⟩
  have hn : x.length ≠ 0 := by intro h; exact hx (List.eq_nil_of_length_eq_zero h)
  have hpos : (0 : Rat) < (x.length : Nat) := by exact_mod_cast Nat.pos_of_ne_zero hn
  have := le_mono x h
  exact div_le_div_of_nonneg_right (by exact_mod_cast this) hpos.le

example : ∃ a b, leCode [3, 1, 3, 2] (.fin 1) none = .val a ∧ leCode [3, 1, 3, 2] (.fin 2) none = .val b ∧ a ≤ b :=
  le_code_mono _ (by simp) (by norm_num)

/-! ## where known finding D35 cannot occur -/

/-- D35 (integer comparison promoted to a lossy float) NEEDS a value beyond ±2^53: for an integer sample whose values are
    all below 2^53 in absolute value and a query that binary64 holds exactly (every float64 query; every integer below
    2^53), the promotion-aware code of `Model/EcdfNumpy.lean` is exact whichever of the domains "exact" / "binary64" numpy
    picks for the short-circuits and for `searchsorted` (int64 × uint64, integer × Python float, integer × numpy float). -/
theorem np_int_below_2p53_exact (sc se : Dom) (hsc : sc = .exact ∨ sc = .f64) (hse : se = .exact ∨ se = .f64)
    (xs : List Int) (v : Rat) (hx : xs ≠ []) (hb : ∀ z ∈ xs, |z| < 2 ^ 53) (hv : Soft64.fl64 v = v) :
    geEcdfNp sc.cast se.cast (xs.map fun (z : Int) => (z : Rat)) v =
      some (.prob (cntGE (xs.map fun (z : Int) => (z : Rat)) v) xs.length) ∧
    leEcdfNp sc.cast se.cast (xs.map fun (z : Int) => (z : Rat)) v =
      some (.prob (cntLE (xs.map fun (z : Int) => (z : Rat)) v) xs.length) := by
  have hne : xs.map (fun (z : Int) => (z : Rat)) ≠ [] := by simpa using hx
  have hcast : ∀ d : Dom, (d = .exact ∨ d = .f64) →
      (∀ t ∈ xs.map (fun (z : Int) => (z : Rat)), d.cast t = t) ∧ d.cast v = v := by
    intro d hd
    rcases hd with rfl | rfl
    · exact ⟨fun _ _ => rfl, rfl⟩
    · refine ⟨?_, hv⟩
      intro t ht
      obtain ⟨z, hz, rfl⟩ := List.mem_map.mp ht
      exact Soft64.isF64_int z (hb z hz)
  have h := np_exact_common_dtype sc.cast se.cast _ v hne (hcast se hse).1 (hcast se hse).2 (hcast sc hsc).1 (hcast sc hsc).2
  simpa using h

-- non-vacuity: an int64 sample just below 2^53 searched in binary64 (as for a uint64 query): exact
example : geEcdfNp Dom.f64.cast Dom.f64.cast ([9007199254740990, 9007199254740991, 9007199254740991].map fun (z : Int) => (z : Rat))
    9007199254740991 = some (.prob 2 3) := by
  have h := (np_int_below_2p53_exact .f64 .f64 (Or.inr rfl) (Or.inr rfl) [9007199254740990, 9007199254740991, 9007199254740991]
    9007199254740991 (by simp) (by decide +kernel) (by exact_mod_cast Soft64.isF64_int 9007199254740991 (by decide +kernel))).1
  rw [h]; simp only [List.length_cons, List.length_nil]; congr 1

end Ecdf
