import PycsepVerif.Model.GriddingText
import PycsepVerif.Properties.C03_Helpers
import PycsepVerif.Properties.C11_Text

/-!
# C03 (extension) — the quadtree helpers' filter statements survive the trip through text

`float(str(x)) == x` was a TRUSTED item of C03: the helpers print the minimum magnitude edge and the two latitude bounds into filter
statements and `catalog.filter` reads them back. With C11's text layer (`repr_reads_back`) it is a theorem: for every binary64 bound
that is zero or normal the re-read number IS the number, so the text-shaped stages (`Model/GriddingText.lean`, what the code does)
are the stages all `qt_*` theorems of `Properties/C03_Helpers.lean` speak about.
-/
namespace Gridding
open Soft64

/-- the number a filter statement denotes is the number that was printed into it -/
theorem statement_denotes_bound {x : Rat} (hx : IsF64 x) (hn : x = 0 ∨ pow2 (-1022) ≤ |x|) : viaText x = x :=
  ForecastFile.Text.repr_reads_back hx hn

/-- … hence the text-shaped pre-filter of both quadtree helpers is the modelled one, for all catalogs -/
theorem qt_prefilter_text_eq {minEdge S N : Rat}
    (h1 : IsF64 minEdge) (n1 : minEdge = 0 ∨ pow2 (-1022) ≤ |minEdge|)
    (h2 : IsF64 S) (n2 : S = 0 ∨ pow2 (-1022) ≤ |S|) (h3 : IsF64 N) (n3 : N = 0 ∨ pow2 (-1022) ≤ |N|) (evs : List Row) :
    preFilterT minEdge S N evs = preFilter minEdge S N evs := by
  unfold preFilterT preFilter magStageT magStage latStageT latStage
  rw [statement_denotes_bound h1 n1, statement_denotes_bound h2 n2, statement_denotes_bound h3 n3]
  rfl

/-! non-vacuity: the Mercator limit and a decimal magnitude edge, as binary64 values -/
-- 85.0511287798066 = 0x1.5433b3be8f5e7p+6 and 3.95 = 0x1.f99999999999ap+1 read back exactly
example : viaText (mkRat 5984941123127767 70368744177664) = mkRat 5984941123127767 70368744177664 := by decide +kernel
example : viaText (mkRat 4447304632028365 1125899906842624) = mkRat 4447304632028365 1125899906842624 := by decide +kernel

end Gridding
