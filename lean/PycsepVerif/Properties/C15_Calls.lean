import PycsepVerif.Proofs.TimeCalls
import PycsepVerif.Properties.C15_Ext

/-!
# C15, round 4 — `decimal_year` at microsecond resolution and on the full range; call sites of the conversions

* `decimal_year_mono_all`: the binary64 `decimal_year` is non-decreasing for EVERY pair of instants (any two integers
  of microseconds; within and across years, leap years included).  Until now only "strictly increasing for instants
  ≥ 1 ms apart on 1697…2242" was proved and the finer statement was observed by the oracle.
* `decimal_year_dayfrac_strict`: the float day sum inside `decimal_year` is strictly increasing at 1 µs resolution.
* `decimal_year_err_full`, `decimal_year_strict_mono_full`, `decimal_year_inverse_within_1ms_full`,
  `decimal_year_in_year`: the decimal-year theorems of `Properties/C15.lean` for every datetime 0001 … 9999.
* `GriddedForecast.scale_to_test_date` (forecasts.py:257), datetime statements of `filter` (catalogs.py:518),
  `_none_or_datetime` (catalogs.py:1254), the file-name format `%Y-%m-%dT%H-%M-%S-%f` (catalogs.py:952,
  `__init__`.py:518): `Model/TimeCalls.lean`.
-/
namespace Time
open Soft64

/-! ## decimal years -/

/-- **C15: `decimal_year` is monotone at microsecond resolution** — for every two datetimes (no range hypothesis, the
    model's `Int` of microseconds) `a ≤ b → decimal_year(a) ≤ decimal_year(b)` in binary64. -/
theorem decimal_year_mono_all (a b : Int) (hab : a ≤ b) : decimalYear a ≤ decimalYear b := decimalYear_mono a b hab

example : decimalYear 946684799999999 ≤ decimalYear 946684800000000 := decimal_year_mono_all _ _ (by decide)
/-- the bound cannot be made strict below one millisecond: two instants 1 µs apart with the same double -/
example : decimalYear 946684799999998 = decimalYear 946684799999999 := by decide +kernel

/-- within one year the float day sum (numerator of the final division) is strictly increasing already for instants one
    microsecond apart: resolution is only lost in the final `/ num_days_per_year` and `year +` -/
theorem decimal_year_dayfrac_strict (a b : Int) (hab : a < b) (hy : (fields a).year = (fields b).year) :
    dayFracF a < dayFracF b := dayFracF_strict_mono a b hab hy

example : dayFracF 946684799999998 < dayFracF 946684799999999 :=
  decimal_year_dayfrac_strict _ _ (by decide) (by decide +kernel)

/-- **float error on the full range**: `DecYearErr` for every datetime 0001-01-01 … 9999-12-31 -/
theorem decimal_year_err_full (us : Int) (h0 : usMin ≤ us) (h1 : us < usMax) : DecYearErr us := by
  unfold usMin at h0; unfold usMax at h1
  have := decimalYear_err_full us h0 h1
  unfold DecYearErr
  linarith

/-- **strictly increasing for instants ≥ 1 ms apart, every datetime 0001 … 9999** -/
theorem decimal_year_strict_mono_full (a b : Int) (ha0 : usMin ≤ a) (ha1 : a < usMax) (hb0 : usMin ≤ b) (hb1 : b < usMax)
    (hab : a + 1000 ≤ b) : decimalYear a < decimalYear b :=
  decimal_year_strict_mono_of_err a b hab (decimal_year_err_full a ha0 ha1) (decimal_year_err_full b hb0 hb1)

example : decimalYear (-62135596800000000) < decimalYear (-62135596799999000) :=
  decimal_year_strict_mono_full _ _ (by decide) (by decide) (by decide) (by decide) (by decide)

/-- **the inverse recovers every instant of 0001 … 9999 to within a millisecond** (model integers; CPython raises
    for the few instants whose decimal year rounds to 10000.0) -/
theorem decimal_year_inverse_within_1ms_full (us : Int) (h0 : usMin ≤ us) (h1 : us < usMax) :
    |decimalYearToDatetime (decimalYear us) - us| < 1000
      ∧ |decimalYearToEpoch (decimalYear us) - us / 1000| ≤ 1 := by
  have h := decimal_year_inverse_of_err us (decimal_year_err_full us h0 h1)
  refine ⟨h, ?_⟩
  unfold decimalYearToEpoch
  rw [dt_to_ms_floor]
  rw [abs_lt] at h
  rw [abs_le]
  constructor <;> omega

example : |decimalYearToDatetime (decimalYear 190000000000000000) - 190000000000000000| < 1000 :=
  (decimal_year_inverse_within_1ms_full _ (by decide) (by decide)).1

/-- `year ≤ decimal_year(dt) ≤ year + 1` (the upper end is reached: the last microseconds of a year round up) -/
theorem decimal_year_in_year (us : Int) (h0 : usMin ≤ us) (h1 : us < usMax) :
    ((fields us).year : ℚ) ≤ decimalYear us ∧ decimalYear us ≤ ((fields us).year : ℚ) + 1 := by
  unfold usMin at h0; unfold usMax at h1
  exact decimalYear_in_year us h0 h1

example : decimalYear 946684799999999 = 2000 := by decide +kernel   -- 1999-12-31T23:59:59.999999 ↦ 2000.0

/-! ## `scale_to_test_date` -/

/-- the forecast is left alone exactly when the test date is at or outside the ends of the forecast period -/
theorem scale_unchanged_iff (s e t : Int) : scaleToTestDate s e t = .unchanged ↔ (e ≤ t ∨ t ≤ s) := by
  constructor
  · intro h
    by_contra hc
    have n1 : ¬ (t ≥ e) := by omega
    have n2 : ¬ (t ≤ s) := by omega
    unfold scaleToTestDate at h
    simp only [n1, n2, if_false] at h
    split at h <;> cases h
  · intro h
    unfold scaleToTestDate
    by_cases h1 : t ≥ e
    · simp [h1]
    · have h2 : t ≤ s := by omega
      simp [h1, h2]

theorem scale_frac_eq {s e t : Int} {q : ℚ} (h : scaleToTestDate s e t = .frac q) :
    s < t ∧ t < e ∧ q = fdiv (fsub (decimalYear (t + usPerDay)) (decimalYear s))
      (fsub (decimalYear e) (decimalYear s)) := by
  unfold scaleToTestDate at h
  by_cases h1 : t ≥ e
  · simp [h1] at h
  · by_cases h2 : t ≤ s
    · simp [h1, h2] at h
    · simp only [h1, h2, if_false] at h
      split at h
      · cases h
      · refine ⟨by omega, by omega, ?_⟩
        injection h with h; exact h.symm

/-- **the scaling fraction is monotone in the test date** (at microsecond resolution — uses `decimal_year_mono_all`) -/
theorem scale_mono (s e t1 t2 : Int) (q1 q2 : ℚ) (h1 : scaleToTestDate s e t1 = .frac q1)
    (h2 : scaleToTestDate s e t2 = .frac q2) (ht : t1 ≤ t2) : q1 ≤ q2 := by
  obtain ⟨a1, b1, rfl⟩ := scale_frac_eq h1
  obtain ⟨_, _, rfl⟩ := scale_frac_eq h2
  have hd : 0 ≤ fsub (decimalYear e) (decimalYear s) := by
    unfold fsub; apply fl64_nonneg
    have := decimalYear_mono s e (by omega); linarith
  have hm := decimalYear_mono (t1 + usPerDay) (t2 + usPerDay) (by omega)
  unfold fdiv
  apply fl64_mono
  apply div_le_div_of_nonneg_right _ hd
  unfold fsub
  apply fl64_mono
  linarith

/-- **a forecast period of at least one millisecond gives a positive scaling fraction** for every test date strictly
    inside it (no ZeroDivisionError, no zero or negative scale), on the whole range of `datetime` -/
theorem scale_defined_pos (s e t : Int) (hs0 : usMin ≤ s) (he1 : e < usMax) (ht1 : t + usPerDay < usMax)
    (hse : s + 1000 ≤ e) (h1 : s < t) (h2 : t < e) :
    ∃ q, scaleToTestDate s e t = .frac q ∧ 0 < q := by
  unfold usMin at hs0; unfold usMax at he1 ht1
  have hday : usPerDay = 86400000000 := rfl
  have hdur := decyear_diff_pos s e hs0 (by omega) (by omega) he1 hse
  have hx := decyear_diff_pos s (t + usPerDay) hs0 (by omega) (by omega) ht1 (by omega)
  have hdur_le : fsub (decimalYear e) (decimalYear s) ≤ 16384 := by
    have y1 := (decimalYear_in_year e (by omega) he1).2
    have y0 := (decimalYear_in_year s hs0 (by omega)).1
    have ye := (year_range_full e (by omega) he1).2
    have ys := (year_range_full s hs0 (by omega)).1
    have ye' : ((fields e).year : ℚ) ≤ 9999 := by exact_mod_cast ye
    have ys' : (1 : ℚ) ≤ ((fields s).year : ℚ) := by exact_mod_cast ys
    have : decimalYear e - decimalYear s ≤ 16384 := by linarith
    have := fl64_mono this
    rw [fl64_16384] at this
    exact this
  have hne : ¬ (fsub (decimalYear e) (decimalYear s) = 0) := by
    intro h; rw [h] at hdur; norm_num at hdur
  refine ⟨fdiv (fsub (decimalYear (t + usPerDay)) (decimalYear s)) (fsub (decimalYear e) (decimalYear s)), ?_, ?_⟩
  · unfold scaleToTestDate
    have n1 : ¬ (t ≥ e) := by omega
    have n2 : ¬ (t ≤ s) := by omega
    simp only [n1, n2, if_false, hne]
  · generalize fsub (decimalYear (t + usPerDay)) (decimalYear s) = x at *
    generalize fsub (decimalYear e) (decimalYear s) = d at *
    have hdpos : (0 : ℚ) < d := by linarith
    have hq : (1 / 1125899906842624 : ℚ) ≤ x / d := by
      rw [le_div_iff₀ hdpos]
      have : (1 / 1125899906842624 : ℚ) * d ≤ 1 / 1125899906842624 * 16384 := by
        apply mul_le_mul_of_nonneg_left hdur_le (by norm_num)
      have e2 : (1 / 1125899906842624 : ℚ) * 16384 = 1 / 68719476736 := by norm_num
      linarith
    have := fl64_mono hq
    rw [fl64_p2_m50] at this
    unfold fdiv
    linarith

/-- non-vacuity: a one-year forecast, test date 1 µs after the start; and the degenerate case that the hypothesis
    `s + 1000 ≤ e` excludes (start and end two microseconds apart share one double: ZeroDivisionError) -/
example : ∃ q, scaleToTestDate 1577836800000000 1609459200000000 1577836800000001 = .frac q ∧ 0 < q :=
  scale_defined_pos _ _ _ (by decide) (by decide) (by decide) (by decide) (by decide) (by decide)
example : scaleToTestDate 946684799999997 946684799999999 946684799999998 = .zeroDiv := by decide +kernel
example : scaleToTestDate 0 31536000000000 31536000000000 = .unchanged := (scale_unchanged_iff _ _ _).mpr (by decide)

/-! ## datetime statements of `filter` -/

/-- **`filter('datetime <op> <str(dt)>')` compares the origin-time column with `datetime_to_utc_epoch(dt)`**: for every
    datetime 0001 … 9999, naive (`zone = false`) or UTC-aware text, any operator text without blanks -/
theorem datetime_statement_threshold (op : List Char) (hop : NoSpace op) (us : Int) (h0 : usMin ≤ us) (h1 : us < usMax)
    (zone : Bool) :
    datetimeStatement (kwDatetime ++ ' ' :: (op ++ ' ' :: (isoformat ' ' us ++ zoneSuffix zone))) = some (op, us / 1000) := by
  unfold datetimeStatement isoformat
  rw [splitSpaces_statement op hop]
  simp only [if_true]
  rw [← str_eq_parts]
  have h := string_parse_agrees_full us h0 h1
  cases zone
  · have := h.2.2.1
    simp only [strNaive, isoformat] at this
    simp [zoneSuffix, this]
  · have := h.2.2.2
    simp only [strAware, isoformat] at this
    simp [zoneSuffix, this]

/-- … hence the statement keeps exactly the events whose epoch millisecond satisfies the comparison with ⌊dt⌋ in ms -/
theorem datetime_filter_keeps (us : Int) (h0 : usMin ≤ us) (h1 : us < usMax) (zone : Bool) (times : List Int) :
    filterDatetime (kwDatetime ++ ' ' :: (['>', '='] ++ ' ' :: (isoformat ' ' us ++ zoneSuffix zone))) times
      = some (times.filter (fun t => decide (t ≥ us / 1000)))
    ∧ filterDatetime (kwDatetime ++ ' ' :: (['<'] ++ ' ' :: (isoformat ' ' us ++ zoneSuffix zone))) times
      = some (times.filter (fun t => decide (t < us / 1000))) := by
  constructor
  · unfold filterDatetime
    rw [datetime_statement_threshold ['>', '='] (by unfold NoSpace; decide) us h0 h1 zone]
    simp [applyOper]
  · unfold filterDatetime
    rw [datetime_statement_threshold ['<'] (by unfold NoSpace; decide) us h0 h1 zone]
    simp [applyOper]

example : datetimeStatement "datetime >= 1935-03-22 05:12:29.380000".toList = some (">=".toList, -1097606850620) := by
  decide +kernel
example : datetimeStatement "datetime >= 1935-03-22".toList = none := by decide +kernel          -- three pieces: ValueError
example : datetimeStatement "datetime >=  1935-03-22 05:12:29".toList = none := by decide +kernel -- two blanks: five pieces
example : filterDatetime "datetime < 1970-01-01 00:00:00.001500".toList [-1, 0, 1, 2] = some [-1, 0] := by decide +kernel

/-! ## `_none_or_datetime` -/

/-- **the time members of a catalog dictionary come back**: `str(dt)` of a naive or UTC-aware datetime is parsed to
    `dt`; a datetime and None pass through -/
theorem none_or_datetime_roundtrip (us : Int) (h0 : usMin ≤ us) (h1 : us < usMax) (zone : Bool) :
    noneOrDatetime (.isString (isoformat ' ' us ++ zoneSuffix zone)) = some (some us)
    ∧ noneOrDatetime (.isDatetime us) = some (some us) ∧ noneOrDatetime .isNone = some none := by
  refine ⟨?_, rfl, rfl⟩
  have hv := fields_valid_full us h0 h1
  simp only [noneOrDatetime, isoformat]
  rw [parseStringFormat_format]
  simp only [strptimeWith]
  rw [strptimeFields_formatFields ' ' (fields us) hv zone]
  simp [ofFields_fields]

example : noneOrDatetime (.isString "2020-02-29 12:00:00+00:00".toList) = some (some 1582977600000000) := by
  decide +kernel
example : noneOrDatetime (.isString "2020".toList) = none := by decide +kernel   -- IndexError in parse_string_format

/-! ## explicit formats with other separators -/

/-- **any separators**: `strptime_to_utc_datetime(dt.strftime(fmt), format=fmt) = dt` for every format
    `%Y<c>%m<c>%d<c>%H<c>%M<c>%S<c>%f` (any seven literal characters) and every datetime 0001 … 9999 -/
theorem general_format_agrees (fmt : FormatG) (us : Int) (h0 : usMin ≤ us) (h1 : us < usMax)
    (hm : fmt.fsep = none → (fields us).micro = 0) :
    strptimeG fmt (formatFieldsG fmt (fields us)) = some us := by
  unfold strptimeG
  rw [strptimeFieldsG_formatFieldsG fmt (fields us) (fields_valid_full us h0 h1) hm]
  simp [ofFields_fields]

/-- the start time in the name of a stochastic-event-set file (`name_2020-02-29T12-30-45-000250.csv`) -/
theorem file_name_format_agrees (us : Int) (h0 : usMin ≤ us) (h1 : us < usMax) :
    strptimeG fileNameFormat (formatFieldsG fileNameFormat (fields us)) = some us :=
  general_format_agrees fileNameFormat us h0 h1 (by intro h; cases h)

example : strptimeG fileNameFormat "2020-02-29T12-30-45-000250".toList = some 1582979445000250 := by decide +kernel
example : strptimeG fileNameFormat "2020-02-29T12:30:45.000250".toList = none := by decide +kernel

end Time
